(** Proofs about Model/Dispatch.v (property C07). *)
From Coq Require Import List NArith Bool Lia PeanoNat.
Import ListNotations.
From LV Require Import Model.Dispatch.
Local Open Scope N_scope.

(** * Association lists *)

Lemma assoc_upd_same : forall A k (v : A) l, assoc k (upd k v l) = Some v.
Proof.
  intros A k v l. induction l as [|[k' v'] l IH]; simpl.
  - rewrite N.eqb_refl. reflexivity.
  - destruct (N.eqb k k') eqn:E; simpl.
    + rewrite N.eqb_refl. reflexivity.
    + rewrite E. exact IH.
Qed.

Lemma assoc_upd_other : forall A k k' (v : A) l, k' <> k -> assoc k' (upd k v l) = assoc k' l.
Proof.
  intros A k k' v l Hne. induction l as [|[k0 v0] l IH]; simpl.
  - destruct (N.eqb k' k) eqn:E; [apply N.eqb_eq in E; contradiction | reflexivity].
  - destruct (N.eqb k k0) eqn:E; simpl.
    + apply N.eqb_eq in E. subst k0.
      destruct (N.eqb k' k) eqn:E2; [apply N.eqb_eq in E2; contradiction | reflexivity].
    + destruct (N.eqb k' k0); [reflexivity | exact IH].
Qed.

Lemma assoc_upd : forall A k k' (v : A) l,
  assoc k' (upd k v l) = if N.eqb k' k then Some v else assoc k' l.
Proof.
  intros A k k' v l. destruct (N.eqb k' k) eqn:E.
  - apply N.eqb_eq in E. subst. apply assoc_upd_same.
  - apply N.eqb_neq in E. apply assoc_upd_other. exact E.
Qed.

Lemma has_key_upd : forall A k k' (v : A) l,
  has_key k' (upd k v l) = N.eqb k' k || has_key k' l.
Proof.
  intros A k k' v l. unfold has_key. rewrite assoc_upd. destruct (N.eqb k' k); reflexivity.
Qed.

Lemma has_key_true : forall A k (l : list (N * A)), has_key k l = true <-> exists v, assoc k l = Some v.
Proof.
  intros A k l. unfold has_key. destruct (assoc k l) as [v|]; split; intro H.
  - exists v. reflexivity.
  - reflexivity.
  - discriminate.
  - destruct H as [v H]. discriminate.
Qed.

Lemma has_key_false : forall A k (l : list (N * A)), has_key k l = false <-> assoc k l = None.
Proof.
  intros A k l. unfold has_key. destruct (assoc k l); split; intro H; try reflexivity; discriminate.
Qed.

Lemma assoc_app : forall A k (l1 l2 : list (N * A)),
  assoc k (l1 ++ l2) = match assoc k l1 with Some v => Some v | None => assoc k l2 end.
Proof.
  intros A k l1 l2. induction l1 as [|[k' v] l1 IH]; simpl; [reflexivity|].
  destruct (N.eqb k k'); [reflexivity | exact IH].
Qed.

Lemma assoc_In : forall A k (v : A) l, assoc k l = Some v -> In (k, v) l.
Proof.
  intros A k v l. induction l as [|[k' v'] l IH]; simpl; [discriminate|].
  destruct (N.eqb k k') eqn:E.
  - intro H. inversion H. subst. apply N.eqb_eq in E. subst. left. reflexivity.
  - intro H. right. apply IH. exact H.
Qed.

Lemma memN_In : forall x l, memN x l = true <-> In x l.
Proof.
  intros x l. unfold memN. rewrite existsb_exists. split.
  - intros [y [Hy E]]. apply N.eqb_eq in E. subst. exact Hy.
  - intro H. exists x. split; [exact H | apply N.eqb_refl].
Qed.

(** * Fingerprints *)

Lemma In_insertN : forall x n l, In x (insertN n l) <-> x = n \/ In x l.
Proof.
  intros x n l. induction l as [|m l IH]; simpl.
  - intuition.
  - destruct (N.ltb n m) eqn:E1; simpl.
    + intuition.
    + destruct (N.eqb n m) eqn:E2; simpl.
      * apply N.eqb_eq in E2. subst. intuition.
      * rewrite IH. intuition.
Qed.

Lemma In_sort_dedup : forall x l, In x (sort_dedup l) <-> In x l.
Proof.
  intros x l. induction l as [|n l IH]; simpl.
  - reflexivity.
  - rewrite In_insertN, IH. intuition.
Qed.

Lemma pairs_of_keys : forall o ks f, pairs_of o ks = Some f -> map fst f = ks.
Proof.
  intros o ks. induction ks as [|k ks IH]; simpl; intros f H.
  - inversion H. reflexivity.
  - destruct (assoc k o) as [v|]; [|discriminate].
    destruct (pairs_of o ks) as [r|]; [|discriminate].
    inversion H. simpl. rewrite (IH r eq_refl). reflexivity.
Qed.

Lemma pairs_of_sound : forall o ks f k v, pairs_of o ks = Some f -> In (k, v) f -> assoc k o = Some v.
Proof.
  intros o ks. induction ks as [|k0 ks IH]; simpl; intros f k v H Hin.
  - inversion H. subst. destruct Hin.
  - destruct (assoc k0 o) as [v0|] eqn:E; [|discriminate].
    destruct (pairs_of o ks) as [r|]; [|discriminate].
    inversion H. subst. destruct Hin as [Hin|Hin].
    + inversion Hin. subst. exact E.
    + apply (IH r); [reflexivity | exact Hin].
Qed.

Lemma mk_fp_sound : forall o ks f k v, mk_fp o ks = Some f -> In (k, v) f -> assoc k o = Some v.
Proof. intros o ks f k v H. apply (pairs_of_sound _ _ _ _ _ H). Qed.

Lemma mk_fp_complete : forall o ks f k, mk_fp o ks = Some f -> In k ks -> exists v, In (k, v) f.
Proof.
  intros o ks f k H Hin. unfold mk_fp in H.
  apply pairs_of_keys in H.
  assert (Hk : In k (map fst f)) by (rewrite H; apply In_sort_dedup; exact Hin).
  apply in_map_iff in Hk. destruct Hk as [[k' v] [E Hp]]. simpl in E. subst. exists v. exact Hp.
Qed.

(** Two option dictionaries with one fingerprint agree on every key either side reported. *)
Lemma fp_shared_key : forall o1 o2 ks1 ks2 f k,
  mk_fp o1 ks1 = Some f -> mk_fp o2 ks2 = Some f -> In k ks1 ->
  exists v, assoc k o1 = Some v /\ assoc k o2 = Some v.
Proof.
  intros o1 o2 ks1 ks2 f k H1 H2 Hin.
  destruct (mk_fp_complete _ _ _ _ H1 Hin) as [v Hv].
  exists v. split; [apply (mk_fp_sound _ _ _ _ _ H1 Hv) | apply (mk_fp_sound _ _ _ _ _ H2 Hv)].
Qed.

Lemma fp_eqb_eq : forall a b, fp_eqb a b = true <-> a = b.
Proof.
  induction a as [|[k v] a IH]; destruct b as [|[k' v'] b]; simpl; split; intro H;
    try reflexivity; try discriminate.
  - apply andb_true_iff in H. destruct H as [H H3]. apply andb_true_iff in H. destruct H as [H1 H2].
    apply N.eqb_eq in H1. apply N.eqb_eq in H2. apply IH in H3. subst. reflexivity.
  - inversion H. subst. rewrite !N.eqb_refl. simpl. apply IH. reflexivity.
Qed.

Lemma fp_eqb_refl : forall a, fp_eqb a a = true.
Proof. intro a. apply fp_eqb_eq. reflexivity. Qed.

(** * The dispatch value is determined by the fingerprint (outside the D19 zone) *)

Definition dres_same (a b : dres) : Prop :=
  match a, b with
  | DVal x, DVal y => x = y
  | DFail _, DFail _ => True
  | _, _ => False
  end.

Lemma dres_same_refl : forall a, dres_same a a.
Proof. destruct a; simpl; auto. Qed.

Lemma dkeys_present : forall e o k v, dkey e = Some k -> assoc k o = Some v -> In k (dkeys e o).
Proof.
  intros e o k v Hk Ha. unfold dkeys. rewrite Hk. unfold has_key. rewrite Ha. left. reflexivity.
Qed.

Lemma fp_determines_dispatch : forall e o1 o2 ks1 ks2 f,
  dispatch_safe e = true ->
  mk_fp o1 ks1 = Some f -> mk_fp o2 ks2 = Some f ->
  (forall a, deval e o1 = DVal a -> incl (dkeys e o1) ks1) ->
  (forall a, deval e o2 = DVal a -> incl (dkeys e o2) ks2) ->
  dres_same (deval e o1) (deval e o2).
Proof.
  intros e o1 o2 ks1 ks2 f Hsafe H1 H2 Hk1 Hk2.
  (* if the dispatch succeeded on one side with its key present, the other side has the same value *)
  assert (T12 : forall k v a, dkey e = Some k -> assoc k o1 = Some v -> deval e o1 = DVal a ->
                              assoc k o2 = Some v).
  { intros k v a Hd Ha Hv.
    destruct (fp_shared_key o1 o2 ks1 ks2 f k H1 H2) as [v' [E1 E2]].
    - apply (Hk1 a Hv). apply (dkeys_present e o1 k v Hd Ha).
    - rewrite Ha in E1. inversion E1. subst. exact E2. }
  assert (T21 : forall k v a, dkey e = Some k -> assoc k o2 = Some v -> deval e o2 = DVal a ->
                              assoc k o1 = Some v).
  { intros k v a Hd Ha Hv.
    destruct (fp_shared_key o2 o1 ks2 ks1 f k H2 H1) as [v' [E1 E2]].
    - apply (Hk2 a Hv). apply (dkeys_present e o2 k v Hd Ha).
    - rewrite Ha in E1. inversion E1. subst. exact E2. }
  destruct e as [k | k v | k dflt dom | k dflt bad | ]; simpl in *.
  - (* DKey *)
    destruct (assoc k o1) as [v1|] eqn:A1; destruct (assoc k o2) as [v2|] eqn:A2; simpl; auto.
    + specialize (T12 k v1 v1 eq_refl A1 eq_refl). congruence.
    + specialize (T12 k v1 v1 eq_refl A1 eq_refl). congruence.
    + specialize (T21 k v2 v2 eq_refl A2 eq_refl). congruence.
  - (* DKeyDefault *)
    destruct (assoc k o1) as [v1|] eqn:A1; destruct (assoc k o2) as [v2|] eqn:A2; simpl; auto.
    + specialize (T12 k v1 v1 eq_refl A1 eq_refl). congruence.
    + specialize (T12 k v1 v1 eq_refl A1 eq_refl). congruence.
    + specialize (T21 k v2 v2 eq_refl A2 eq_refl). congruence.
  - (* DKeyDom *)
    destruct (assoc k o1) as [v1|] eqn:A1; destruct (assoc k o2) as [v2|] eqn:A2; simpl in *.
    + destruct (memN v1 dom) eqn:M1.
      * assert (E : v2 = v1) by (specialize (T12 k v1 v1 eq_refl A1 eq_refl); congruence).
        subst v2. rewrite M1. reflexivity.
      * destruct (memN v2 dom) eqn:M2; simpl; auto.
        assert (E : v1 = v2) by (specialize (T21 k v2 v2 eq_refl A2 eq_refl); congruence).
        subst v1. congruence.
    + destruct (memN v1 dom) eqn:M1.
      * specialize (T12 k v1 v1 eq_refl A1 eq_refl). congruence.
      * destruct dflt as [v|]; simpl; auto.
        simpl in Hsafe. apply negb_true_iff in Hsafe. rewrite Hsafe. exact I.
    + destruct (memN v2 dom) eqn:M2.
      * specialize (T21 k v2 v2 eq_refl A2 eq_refl). congruence.
      * destruct dflt as [v|]; simpl; auto.
        simpl in Hsafe. apply negb_true_iff in Hsafe. rewrite Hsafe. exact I.
    + destruct dflt as [v|]; simpl; auto. destruct (memN v dom); simpl; auto.
  - (* DDataset *)
    destruct (assoc k o1) as [v1|] eqn:A1; destruct (assoc k o2) as [v2|] eqn:A2; simpl in *.
    + destruct (memN v1 bad) eqn:M1.
      * destruct (memN v2 bad) eqn:M2; simpl; auto.
        assert (E : v1 = v2) by (specialize (T21 k v2 v2 eq_refl A2 eq_refl); congruence).
        subst v1. congruence.
      * assert (E : v2 = v1) by (specialize (T12 k v1 v1 eq_refl A1 eq_refl); congruence).
        subst v2. rewrite M1. reflexivity.
    + destruct (memN v1 bad) eqn:M1.
      * destruct dflt as [v|]; simpl; auto.
        simpl in Hsafe. apply orb_true_iff in Hsafe. destruct Hsafe as [Hs|Hs].
        -- rewrite Hs. exact I.
        -- destruct bad; [discriminate M1 | discriminate Hs].
      * specialize (T12 k v1 v1 eq_refl A1 eq_refl). congruence.
    + destruct (memN v2 bad) eqn:M2.
      * destruct dflt as [v|]; simpl; auto.
        simpl in Hsafe. apply orb_true_iff in Hsafe. destruct Hsafe as [Hs|Hs].
        -- rewrite Hs. exact I.
        -- destruct bad; [discriminate M2 | discriminate Hs].
      * specialize (T21 k v2 v2 eq_refl A2 eq_refl). congruence.
    + destruct dflt as [v|]; simpl; auto. destruct (memN v bad); simpl; auto.
  - (* DMissing *) reflexivity.
Qed.

(** The corner the transcription exposes: the dispatch key is ABSENT under [o1] (the dispatch
    fails and the unwrapped default is used, or an Option default supplies the dispatch value —
    either way the key is not in the fingerprint) and PRESENT under [o2] with a dispatch that
    succeeded: the two fingerprints are different, whatever else the implementations read. *)
Lemma absent_present_fp_differ : forall e k v o1 o2 ks1 ks2 f,
  dkey e = Some k -> assoc k o1 = None -> assoc k o2 = Some v ->
  incl (dkeys e o2) ks2 ->
  mk_fp o1 ks1 = Some f -> mk_fp o2 ks2 = Some f -> False.
Proof.
  intros e k v o1 o2 ks1 ks2 f Hk A1 A2 Hin F1 F2.
  destruct (fp_shared_key o2 o1 ks2 ks1 f k F2 F1) as [v' [_ E]].
  - apply Hin. apply (dkeys_present e o2 k v Hk A2).
  - congruence.
Qed.

(** * Evaluation *)

Section Sem.
  Variable V : Type.
  Variable ieval : N -> opts -> res V.
  Variable ikeys : N -> opts -> kres.
  Variable cbapp : N -> V -> V.

  Notation state := (state V).
  Notation event := (event V).
  Notation EVAL := (@eval V ieval ikeys cbapp).
  Notation KEYS := (@ds_keys V ikeys).
  Notation STEP := (@step V ieval ikeys cbapp).
  Notation RUN := (@run V ieval ikeys cbapp).
  Notation CB := (@apply_cb V cbapp).

  (** evaluate() / keys() of an implementation (opaque, or a dataset of the environment) *)
  Definition impl_run (f : nat) (i : impl) (o : opts) (s : state) : option (res V * state) :=
    match i with IFun g => Some (ieval g o, s) | IDs d' => EVAL f d' o s end.
  Definition impl_keys (f : nat) (s : state) (i : impl) (o : opts) : option kres :=
    match i with IFun g => Some (ikeys g o) | IDs d' => KEYS f s d' o end.

  Definition mkev (d : N) (rc : dsrec) (ov : ovl) (o' : opts) (ks : list N) (fpr : fp)
                  (hit : bool) (raw : option V) (v : V) : event :=
    {| e_ds := d; e_cache := d_cache rc; e_opts := o'; e_keys := ks; e_fp := fpr;
       e_disp := o_disp ov; e_dres := deval (o_disp ov) o'; e_hit := hit; e_raw := raw; e_val := v |}.

  (** The eight ways one evaluation step can go (inversion principle for [eval]). *)
  Inductive eval_case (f : nat) (d : N) (o : opts) (s : state) : res V -> state -> Prop :=
  | EC_nods : get_ds s d = None -> eval_case f d o s (RErr EOther) s
  | EC_noovl : forall rc, get_ds s d = Some rc -> get_ovl s (d_ovl rc) = None ->
      eval_case f d o s (RErr EOther) s
  | EC_keyserr : forall rc ov e, get_ds s d = Some rc -> get_ovl s (d_ovl rc) = Some ov ->
      sw_keys ikeys (KEYS f s) ov (overlay (d_preset rc) o) = Some (KErr e) ->
      eval_case f d o s (RErr e) s
  | EC_fperr : forall rc ov ks, get_ds s d = Some rc -> get_ovl s (d_ovl rc) = Some ov ->
      sw_keys ikeys (KEYS f s) ov (overlay (d_preset rc) o) = Some (KOk ks) ->
      mk_fp (overlay (d_preset rc) o) ks = None ->
      eval_case f d o s (RErr EOther) s
  | EC_hit : forall rc ov ks fpr v, get_ds s d = Some rc -> get_ovl s (d_ovl rc) = Some ov ->
      sw_keys ikeys (KEYS f s) ov (overlay (d_preset rc) o) = Some (KOk ks) ->
      mk_fp (overlay (d_preset rc) o) ks = Some fpr ->
      cache_get s (d_cache rc) fpr = Some v ->
      eval_case f d o s (RVal v) (log s (mkev d rc ov (overlay (d_preset rc) o) ks fpr true None v))
  | EC_selerr : forall rc ov ks fpr e, get_ds s d = Some rc -> get_ovl s (d_ovl rc) = Some ov ->
      sw_keys ikeys (KEYS f s) ov (overlay (d_preset rc) o) = Some (KOk ks) ->
      mk_fp (overlay (d_preset rc) o) ks = Some fpr ->
      cache_get s (d_cache rc) fpr = None ->
      lookup_sel ov (overlay (d_preset rc) o) = SelErr e ->
      eval_case f d o s (RErr e) s
  | EC_implerr : forall rc ov ks fpr i w e s1, get_ds s d = Some rc -> get_ovl s (d_ovl rc) = Some ov ->
      sw_keys ikeys (KEYS f s) ov (overlay (d_preset rc) o) = Some (KOk ks) ->
      mk_fp (overlay (d_preset rc) o) ks = Some fpr ->
      cache_get s (d_cache rc) fpr = None ->
      lookup_sel ov (overlay (d_preset rc) o) = Sel i w ->
      impl_run f i (overlay (d_preset rc) o) s = Some (RErr e, s1) ->
      eval_case f d o s (RErr e) s1
  | EC_store : forall rc ov ks fpr i w x s1, get_ds s d = Some rc -> get_ovl s (d_ovl rc) = Some ov ->
      sw_keys ikeys (KEYS f s) ov (overlay (d_preset rc) o) = Some (KOk ks) ->
      mk_fp (overlay (d_preset rc) o) ks = Some fpr ->
      cache_get s (d_cache rc) fpr = None ->
      lookup_sel ov (overlay (d_preset rc) o) = Sel i w ->
      impl_run f i (overlay (d_preset rc) o) s = Some (RVal x, s1) ->
      eval_case f d o s (RVal (CB (d_cb rc) x))
        (log (cache_set s1 (d_cache rc) fpr (CB (d_cb rc) x))
             (mkev d rc ov (overlay (d_preset rc) o) ks fpr false (Some x) (CB (d_cb rc) x))).

  Lemma eval_inv : forall f d o s r s',
    EVAL (S f) d o s = Some (r, s') -> eval_case f d o s r s'.
  Proof.
    intros f d o s r s' H. simpl in H.
    destruct (get_ds s d) as [rc|] eqn:Hds.
    2:{ inversion H. subst. apply EC_nods. exact Hds. }
    destruct (get_ovl s (d_ovl rc)) as [ov|] eqn:Hov.
    2:{ inversion H. subst. eapply EC_noovl; eassumption. }
    destruct (sw_keys ikeys (fun d' o'' => KEYS f s d' o'') ov (overlay (d_preset rc) o)) as [[ks|e]|] eqn:Hk.
    3:{ discriminate. }
    2:{ inversion H. subst. eapply EC_keyserr; eassumption. }
    destruct (mk_fp (overlay (d_preset rc) o) ks) as [fpr|] eqn:Hfp.
    2:{ inversion H. subst. eapply EC_fperr; eassumption. }
    destruct (cache_get s (d_cache rc) fpr) as [v|] eqn:Hc.
    { inversion H. subst. eapply EC_hit; eassumption. }
    destruct (lookup_sel ov (overlay (d_preset rc) o)) as [e|i w] eqn:Hsel.
    { inversion H. subst. eapply EC_selerr; eassumption. }
    destruct i as [g|d'].
    - destruct (ieval g (overlay (d_preset rc) o)) as [x|e] eqn:Hi; inversion H; subst.
      + eapply EC_store; try eassumption. simpl. rewrite Hi. reflexivity.
      + eapply EC_implerr; try eassumption. simpl. rewrite Hi. reflexivity.
    - destruct (EVAL f d' (overlay (d_preset rc) o) s) as [[[x|e] s1]|] eqn:Hi; inversion H; subst.
      + eapply EC_store; try eassumption.
      + eapply EC_implerr; try eassumption.
  Qed.

  Ltac ecases H :=
    destruct H as [Hds | rc Hds Hov | rc ov e Hds Hov Hk | rc ov ks Hds Hov Hk Hfp
                  | rc ov ks fpr v Hds Hov Hk Hfp Hc | rc ov ks fpr e Hds Hov Hk Hfp Hc Hsel
                  | rc ov ks fpr i w e s1 Hds Hov Hk Hfp Hc Hsel Hi
                  | rc ov ks fpr i w x s1 Hds Hov Hk Hfp Hc Hsel Hi].

  (** ** Evaluations only add cache entries and history records *)

  Definition same_struct (s s' : state) : Prop :=
    st_ds s' = st_ds s /\ st_ovl s' = st_ovl s /\ st_if s' = st_if s /\ st_next s' = st_next s.

  Lemma same_struct_refl : forall s, same_struct s s.
  Proof. intro s. repeat split. Qed.

  Lemma same_struct_trans : forall a b c, same_struct a b -> same_struct b c -> same_struct a c.
  Proof.
    intros a b c [A1 [A2 [A3 A4]]] [B1 [B2 [B3 B4]]]. repeat split; congruence.
  Qed.

  Lemma eval_struct : forall f d o s r s', EVAL f d o s = Some (r, s') -> same_struct s s'.
  Proof.
    induction f as [|f IH]; intros d o s r s' H; [discriminate|].
    apply eval_inv in H. ecases H; try apply same_struct_refl.
    - repeat split.
    - destruct i as [g|d']; simpl in Hi.
      + inversion Hi. subst. apply same_struct_refl.
      + eapply IH. eassumption.
    - assert (Hs : same_struct s s1).
      { destruct i as [g|d']; simpl in Hi.
        - inversion Hi. subst. apply same_struct_refl.
        - eapply IH. eassumption. }
      destruct Hs as [A1 [A2 [A3 A4]]]. repeat split; simpl; assumption.
  Qed.

  Lemma same_struct_get_ds : forall s s' d, same_struct s s' -> get_ds s' d = get_ds s d.
  Proof. intros s s' d [A _]. unfold get_ds. rewrite A. reflexivity. Qed.
  Lemma same_struct_get_ovl : forall s s' n, same_struct s s' -> get_ovl s' n = get_ovl s n.
  Proof. intros s s' n [_ [A _]]. unfold get_ovl. rewrite A. reflexivity. Qed.
  Lemma same_struct_ovl_of : forall s s' d, same_struct s s' -> ovl_of s' d = ovl_of s d.
  Proof.
    intros s s' d H. unfold ovl_of. rewrite (same_struct_get_ds _ _ _ H).
    destruct (get_ds s d); [apply same_struct_get_ovl; exact H | reflexivity].
  Qed.
  Lemma same_struct_binding : forall s s' d a, same_struct s s' -> binding s' d a = binding s d a.
  Proof. intros s s' d a H. unfold binding. rewrite (same_struct_ovl_of _ _ _ H). reflexivity. Qed.

  (** ** Cache lemmas *)

  Lemma fp_assoc_upd : forall f f' (v : V) c,
    fp_assoc f' (fp_upd f v c) = if fp_eqb f' f then Some v else fp_assoc f' c.
  Proof.
    intros f f' v c. induction c as [|[f0 v0] c IH]; simpl.
    - reflexivity.
    - destruct (fp_eqb f f0) eqn:E; simpl.
      + apply fp_eqb_eq in E. subst f0. destruct (fp_eqb f' f); reflexivity.
      + destruct (fp_eqb f' f0) eqn:E2.
        * destruct (fp_eqb f' f) eqn:E3; [|reflexivity].
          apply fp_eqb_eq in E2. apply fp_eqb_eq in E3. subst. rewrite fp_eqb_refl in E. discriminate.
        * exact IH.
  Qed.

  Lemma cache_get_set : forall (s : state) c f v c' f',
    cache_get (cache_set s c f v) c' f' =
      if N.eqb c' c && fp_eqb f' f then Some v else cache_get s c' f'.
  Proof.
    intros s c f v c' f'. unfold cache_get, cache_set, cache_of, with_cache. simpl.
    rewrite assoc_upd. destruct (N.eqb c' c) eqn:E; simpl.
    - apply N.eqb_eq in E. subst c'. rewrite fp_assoc_upd. reflexivity.
    - reflexivity.
  Qed.

  Lemma cache_get_log : forall (s : state) e c f, cache_get (log s e) c f = cache_get s c f.
  Proof. reflexivity. Qed.

  (** ** The dispatch specification *)

  Definition rmap (g : V -> V) (r : res V) : res V :=
    match r with RVal v => RVal (g v) | RErr e => RErr e end.

  Definition succeeded (r : dres) : bool := match r with DVal _ => true | DFail _ => false end.

  (** why nothing applies: the dispatch's own failure, else "value not registered" *)
  Definition why_none (ov : ovl) (o : opts) : err :=
    match deval (o_disp ov) o with DFail e => e | DVal _ => ESwitch end.

  (** What is stored under the fingerprint of evaluating [d] on [o] ([None]: nothing, or the
      fingerprint cannot be computed). [f] is the fuel left for nested datasets. *)
  Definition stored (f : nat) (s : state) (d : N) (o : opts) : option V :=
    match get_ds s d with
    | None => None
    | Some rc =>
        match get_ovl s (d_ovl rc) with
        | None => None
        | Some ov =>
            match sw_keys ikeys (KEYS f s) ov (overlay (d_preset rc) o) with
            | Some (KOk ks) =>
                match mk_fp (overlay (d_preset rc) o) ks with
                | Some fpr => cache_get s (d_cache rc) fpr
                | None => None
                end
            | _ => None
            end
        end
    end.

  (** The outcome of the chosen implementation as the caching wrapper obtains it: its keys()
      are asked first (for the fingerprint), then it is evaluated. *)
  Definition impl_outcome (f : nat) (s : state) (ov : ovl) (i : impl) (o : opts)
    : option (res V * state) :=
    match impl_keys f s i o with
    | None => None
    | Some (KErr e) => Some (RErr e, s)
    | Some (KOk ks) =>
        match mk_fp o (ks ++ (if succeeded (deval (o_disp ov) o) then dkeys (o_disp ov) o else [])) with
        | None => Some (RErr EOther, s)
        | Some _ => impl_run f i o s
        end
    end.

  Lemma lookup_sel_pick : forall ov o,
    match lookup_sel ov o with
    | SelErr e => pick ov o = None /\ e = why_none ov o
    | Sel i w => pick ov o = Some i /\ w = succeeded (deval (o_disp ov) o)
    end.
  Proof.
    intros ov o. unfold lookup_sel, pick, why_none.
    destruct (deval (o_disp ov) o) as [a|e]; simpl.
    - destruct (assoc a (o_table ov)) as [i|]; [split; reflexivity|].
      destruct (o_default ov); split; reflexivity.
    - destruct (o_default ov); split; reflexivity.
  Qed.

  Lemma sw_keys_inv : forall f s ov o kr,
    sw_keys ikeys (KEYS f s) ov o = Some kr ->
    match lookup_sel ov o with
    | SelErr e => kr = KErr e
    | Sel i w =>
        match impl_keys f s i o with
        | None => False
        | Some (KErr e) => kr = KErr e
        | Some (KOk ks) => kr = KOk (ks ++ (if w then dkeys (o_disp ov) o else []))
        end
    end.
  Proof.
    intros f s ov o kr H. unfold sw_keys in H.
    destruct (lookup_sel ov o) as [e|i w].
    - inversion H. reflexivity.
    - unfold impl_keys. destruct i as [g|d'].
      + destruct (ikeys g o); inversion H; reflexivity.
      + destruct (KEYS f s d' o) as [[ks|e]|]; inversion H; reflexivity.
  Qed.

  (** The keys of a successful dispatch are part of the evaluation's keys. *)
  Lemma sw_keys_dkeys : forall f s ov o ks a,
    sw_keys ikeys (KEYS f s) ov o = Some (KOk ks) ->
    deval (o_disp ov) o = DVal a -> incl (dkeys (o_disp ov) o) ks.
  Proof.
    intros f s ov o ks a H Hd. apply sw_keys_inv in H.
    pose proof (lookup_sel_pick ov o) as P.
    destruct (lookup_sel ov o) as [e|i w]; [discriminate|].
    destruct P as [_ Pw]. rewrite Hd in Pw. simpl in Pw. subst w.
    destruct (impl_keys f s i o) as [[ks0|e]|]; try contradiction; try discriminate.
    inversion H. subst. apply incl_appr. apply incl_refl.
  Qed.

  Theorem dispatch_spec : forall f d o s r s' rc0 ov0,
    EVAL (S f) d o s = Some (r, s') ->
    get_ds s d = Some rc0 -> get_ovl s (d_ovl rc0) = Some ov0 ->
    stored f s d o = None ->
    match pick ov0 (overlay (d_preset rc0) o) with
    | None => r = RErr (why_none ov0 (overlay (d_preset rc0) o)) /\ s' = s
    | Some i =>
        exists r0 s1, impl_outcome f s ov0 i (overlay (d_preset rc0) o) = Some (r0, s1) /\
                      r = rmap (CB (d_cb rc0)) r0
    end.
  Proof.
    intros f d o s r s' rc0 ov0 H Hds0 Hov0 Hst.
    apply eval_inv in H.
    unfold stored in Hst. rewrite Hds0, Hov0 in Hst.
    ecases H; (rewrite Hds0 in Hds; try discriminate; inversion Hds; subst rc0);
      (rewrite Hov0 in Hov; try discriminate; inversion Hov; subst ov0);
      pose proof (lookup_sel_pick ov (overlay (d_preset rc) o)) as P.
    - (* keys() fail *)
      apply sw_keys_inv in Hk.
      destruct (lookup_sel ov (overlay (d_preset rc) o)) as [e'|i w].
      + destruct P as [P1 P2]. rewrite P1. inversion Hk. subst. split; reflexivity.
      + destruct P as [P1 P2]. rewrite P1. unfold impl_outcome.
        destruct (impl_keys f s i (overlay (d_preset rc) o)) as [[ks0|e']|]; try contradiction; try discriminate.
        inversion Hk. subst. eexists. eexists. split; reflexivity.
    - (* a reported key is absent *)
      apply sw_keys_inv in Hk.
      destruct (lookup_sel ov (overlay (d_preset rc) o)) as [e'|i w]; [discriminate|].
      destruct P as [P1 P2]. rewrite P1. unfold impl_outcome.
      destruct (impl_keys f s i (overlay (d_preset rc) o)) as [[ks0|e']|]; try contradiction; try discriminate.
      inversion Hk. subst. rewrite Hfp. eexists. eexists. split; reflexivity.
    - (* served from the cache: excluded *)
      rewrite Hk, Hfp, Hc in Hst. discriminate.
    - (* keys() succeeded, so a branch was chosen *)
      apply sw_keys_inv in Hk. rewrite Hsel in Hk. discriminate.
    - (* the implementation fails *)
      apply sw_keys_inv in Hk. rewrite Hsel in Hk, P.
      destruct P as [P1 P2]. rewrite P1. unfold impl_outcome.
      destruct (impl_keys f s i (overlay (d_preset rc) o)) as [[ks0|e']|]; try contradiction; try discriminate.
      inversion Hk. subst. rewrite Hfp. eexists. eexists. split; [exact Hi | reflexivity].
    - (* computed, called back, stored *)
      apply sw_keys_inv in Hk. rewrite Hsel in Hk, P.
      destruct P as [P1 P2]. rewrite P1. unfold impl_outcome.
      destruct (impl_keys f s i (overlay (d_preset rc) o)) as [[ks0|e']|]; try contradiction; try discriminate.
      inversion Hk. subst. rewrite Hfp. eexists. eexists. split; [exact Hi | reflexivity].
  Qed.

  (** An evaluation that IS served from the cache returns exactly what is stored. *)
  Theorem eval_served : forall f d o s r s' v0,
    EVAL (S f) d o s = Some (r, s') -> stored f s d o = Some v0 -> r = RVal v0.
  Proof.
    intros f d o s r s' v0 H Hst. apply eval_inv in H. unfold stored in Hst.
    ecases H; rewrite Hds in Hst; try discriminate; rewrite Hov in Hst; try discriminate;
      rewrite Hk in Hst; try discriminate; rewrite Hfp in Hst; try discriminate;
      rewrite Hc in Hst; try discriminate.
    inversion Hst. reflexivity.
  Qed.

  (** The callback is applied to whatever implementation was chosen (registered or default). *)
  Corollary callback_applied : forall f d o s v s' rc ov,
    EVAL (S f) d o s = Some (RVal v, s') ->
    get_ds s d = Some rc -> get_ovl s (d_ovl rc) = Some ov ->
    stored f s d o = None ->
    exists i x s1, pick ov (overlay (d_preset rc) o) = Some i /\
                   impl_run f i (overlay (d_preset rc) o) s = Some (RVal x, s1) /\
                   v = CB (d_cb rc) x.
  Proof.
    intros f d o s v s' rc ov H Hds Hov Hst.
    pose proof (dispatch_spec _ _ _ _ _ _ _ _ H Hds Hov Hst) as D.
    destruct (pick ov (overlay (d_preset rc) o)) as [i|].
    - destruct D as [r0 [s1 [D1 D2]]]. destruct r0 as [x|e]; [|discriminate].
      inversion D2. subst. exists i, x, s1. split; [reflexivity|]. split; [|reflexivity].
      unfold impl_outcome in D1.
      destruct (impl_keys f s i (overlay (d_preset rc) o)) as [[ks|e]|]; try discriminate.
      destruct (mk_fp _ _); [exact D1 | discriminate].
    - destruct D as [D _]. discriminate.
  Qed.

  (** Abstract dataset, nothing applies: failure, naming the reason. *)
  Corollary abstract_fails : forall f d o s r s' rc ov,
    EVAL (S f) d o s = Some (r, s') ->
    get_ds s d = Some rc -> get_ovl s (d_ovl rc) = Some ov ->
    pick ov (overlay (d_preset rc) o) = None ->
    r = RErr (why_none ov (overlay (d_preset rc) o)) /\ s' = s.
  Proof.
    intros f d o s r s' rc ov H Hds Hov Hp.
    assert (Hst : stored f s d o = None).
    { unfold stored. rewrite Hds, Hov.
      destruct (sw_keys ikeys (KEYS f s) ov (overlay (d_preset rc) o)) as [[ks|e]|] eqn:Hk; try reflexivity.
      apply sw_keys_inv in Hk. pose proof (lookup_sel_pick ov (overlay (d_preset rc) o)) as P.
      destruct (lookup_sel ov (overlay (d_preset rc) o)); [discriminate|].
      destruct P as [P _]. congruence. }
    pose proof (dispatch_spec _ _ _ _ _ _ _ _ H Hds Hov Hst) as D. rewrite Hp in D. exact D.
  Qed.

  (** * State-changing operations *)

  (** Well-formed states: every dataset points to an existing Overloaded object, and object
      identifiers are below the fresh-identifier counter (so a new object never aliases one). *)
  Definition wf (s : state) : Prop :=
    forall d rc, get_ds s d = Some rc ->
      d_ovl rc < st_next s /\ d_cache rc < st_next s /\ exists ov, get_ovl s (d_ovl rc) = Some ov.

  Lemma wf_empty : wf (@empty_state V).
  Proof. intros d rc H. discriminate. Qed.

  Lemma wf_same_struct : forall s s', same_struct s s' -> wf s -> wf s'.
  Proof.
    intros s s' Hs W d rc H. rewrite (same_struct_get_ds _ _ _ Hs) in H.
    destruct (W d rc H) as [A [B [ov C]]]. destruct Hs as [_ [S2 [_ S4]]].
    rewrite S4. split; [exact A|]. split; [exact B|]. exists ov. unfold get_ovl. rewrite S2. exact C.
  Qed.

  Definition same_ovl (s : state) (d0 d : N) : bool :=
    match get_ds s d0, get_ds s d with
    | Some r0, Some r => N.eqb (d_ovl r0) (d_ovl r)
    | _, _ => false
    end.

  (** ** register *)

  Lemma register_ds : forall (s : state) d a i, st_ds (register s d a i) = st_ds s.
  Proof.
    intros s d a i. unfold register. destruct (get_ds s d) as [r|]; [|reflexivity].
    destruct (get_ovl s (d_ovl r)); reflexivity.
  Qed.
  Lemma register_next : forall (s : state) d a i, st_next (register s d a i) = st_next s.
  Proof.
    intros s d a i. unfold register. destruct (get_ds s d) as [r|]; [|reflexivity].
    destruct (get_ovl s (d_ovl r)); reflexivity.
  Qed.
  Lemma register_if : forall (s : state) d a i, st_if (register s d a i) = st_if s.
  Proof.
    intros s d a i. unfold register. destruct (get_ds s d) as [r|]; [|reflexivity].
    destruct (get_ovl s (d_ovl r)); reflexivity.
  Qed.
  Lemma register_cache : forall (s : state) d a i, st_cache (register s d a i) = st_cache s.
  Proof.
    intros s d a i. unfold register. destruct (get_ds s d) as [r|]; [|reflexivity].
    destruct (get_ovl s (d_ovl r)); reflexivity.
  Qed.
  Lemma register_trace : forall (s : state) d a i, st_trace (register s d a i) = st_trace s.
  Proof.
    intros s d a i. unfold register. destruct (get_ds s d) as [r|]; [|reflexivity].
    destruct (get_ovl s (d_ovl r)); reflexivity.
  Qed.
  Lemma register_get_ds : forall (s : state) d a i d', get_ds (register s d a i) d' = get_ds s d'.
  Proof. intros. unfold get_ds. rewrite register_ds. reflexivity. Qed.

  Lemma register_get_ovl : forall (s : state) d0 a0 i n,
    get_ovl (register s d0 a0 i) n =
      match get_ds s d0 with
      | Some r0 =>
          match get_ovl s (d_ovl r0) with
          | Some ov0 =>
              if N.eqb n (d_ovl r0)
              then Some {| o_disp := o_disp ov0; o_table := upd a0 i (o_table ov0); o_default := o_default ov0 |}
              else get_ovl s n
          | None => get_ovl s n
          end
      | None => get_ovl s n
      end.
  Proof.
    intros s d0 a0 i n. unfold register.
    destruct (get_ds s d0) as [r0|]; [|reflexivity].
    destruct (get_ovl s (d_ovl r0)) as [ov0|] eqn:E; [|reflexivity].
    unfold get_ovl. simpl. apply assoc_upd.
  Qed.

  Lemma register_wf : forall s d a i, wf s -> wf (register s d a i).
  Proof.
    intros s d0 a0 i W d rc H. rewrite register_get_ds in H.
    destruct (W d rc H) as [A [B [ov C]]]. rewrite register_next.
    split; [exact A|]. split; [exact B|].
    rewrite register_get_ovl.
    destruct (get_ds s d0) as [r0|]; [|exists ov; exact C].
    destruct (get_ovl s (d_ovl r0)) as [ov0|]; [|exists ov; exact C].
    destruct (N.eqb (d_ovl rc) (d_ovl r0)); eexists; [reflexivity | exact C].
  Qed.

  (** The table after a registration: exactly the registered entry changes, on exactly the
      datasets that share the Overloaded object. Dispatch and default never change. *)
  Lemma register_ovl_of : forall s d0 a0 i d, wf s ->
    ovl_of (register s d0 a0 i) d =
      match ovl_of s d with
      | Some ov => Some (if same_ovl s d0 d
                         then {| o_disp := o_disp ov; o_table := upd a0 i (o_table ov); o_default := o_default ov |}
                         else ov)
      | None => None
      end.
  Proof.
    intros s d0 a0 i d W. unfold ovl_of, same_ovl. rewrite register_get_ds.
    destruct (get_ds s d) as [r|] eqn:Hd; [|reflexivity].
    rewrite register_get_ovl.
    destruct (get_ds s d0) as [r0|] eqn:Hd0.
    - destruct (W d0 r0 Hd0) as [_ [_ [ov0 Hov0]]]. rewrite Hov0.
      rewrite (N.eqb_sym (d_ovl r0) (d_ovl r)).
      destruct (N.eqb (d_ovl r) (d_ovl r0)) eqn:E.
      + apply N.eqb_eq in E. rewrite E, Hov0. reflexivity.
      + destruct (get_ovl s (d_ovl r)); reflexivity.
    - destruct (get_ovl s (d_ovl r)); reflexivity.
  Qed.

  Lemma register_binding : forall s d0 a0 i d a, wf s ->
    binding (register s d0 a0 i) d a =
      if same_ovl s d0 d && N.eqb a a0 then Some i else binding s d a.
  Proof.
    intros s d0 a0 i d a W. unfold binding. rewrite (register_ovl_of s d0 a0 i d W).
    destruct (ovl_of s d) as [ov|] eqn:Ho.
    - destruct (same_ovl s d0 d); simpl; [|reflexivity]. rewrite assoc_upd. reflexivity.
    - unfold same_ovl. unfold ovl_of in Ho.
      destruct (get_ds s d0) as [r0|] eqn:Hd0; [|reflexivity].
      destruct (get_ds s d) as [r|] eqn:Hd; [|reflexivity].
      destruct (W d r Hd) as [_ [_ [ov C]]]. congruence.
  Qed.

  Lemma same_ovl_refl : forall s d, has_key d (st_ds s) = true -> same_ovl s d d = true.
  Proof.
    intros s d H. apply has_key_true in H. destruct H as [r H]. unfold same_ovl, get_ds. rewrite H.
    apply N.eqb_refl.
  Qed.

  Lemma same_ovl_register : forall (s : state) x a i d0 d, same_ovl (register s x a i) d0 d = same_ovl s d0 d.
  Proof. intros. unfold same_ovl. rewrite !register_get_ds. reflexivity. Qed.

  (** ** new datasets *)

  Lemma new_ds_get_ds : forall (s : state) d e dflt cb d',
    get_ds (new_ds s d e dflt cb) d' =
      if N.eqb d' d then Some {| d_ovl := st_next s; d_cache := st_next s; d_cb := cb; d_preset := [] |}
      else get_ds s d'.
  Proof. intros. unfold get_ds, new_ds. simpl. apply assoc_upd. Qed.

  Lemma new_ds_get_ovl : forall (s : state) d e dflt cb n,
    get_ovl (new_ds s d e dflt cb) n =
      if N.eqb n (st_next s) then Some {| o_disp := e; o_table := []; o_default := dflt |} else get_ovl s n.
  Proof. intros. unfold get_ovl, new_ds. simpl. apply assoc_upd. Qed.

  Lemma new_ds_next : forall (s : state) d e dflt cb, st_next (new_ds s d e dflt cb) = N.succ (st_next s).
  Proof. reflexivity. Qed.

  Lemma new_ds_wf : forall s d e dflt cb, wf s -> wf (new_ds s d e dflt cb).
  Proof.
    intros s d e dflt cb W d' rc H. rewrite new_ds_get_ds in H. rewrite new_ds_next.
    destruct (N.eqb d' d).
    - inversion H. subst. simpl. split; [lia|]. split; [lia|].
      rewrite new_ds_get_ovl. rewrite N.eqb_refl. eexists. reflexivity.
    - destruct (W d' rc H) as [A [B [ov C]]]. split; [lia|]. split; [lia|].
      rewrite new_ds_get_ovl. destruct (N.eqb (d_ovl rc) (st_next s)) eqn:E.
      + apply N.eqb_eq in E. lia.
      + exists ov. exact C.
  Qed.

  Lemma new_ds_ovl_of_other : forall s d e dflt cb d', wf s -> d' <> d ->
    ovl_of (new_ds s d e dflt cb) d' = ovl_of s d'.
  Proof.
    intros s d e dflt cb d' W Hne. unfold ovl_of. rewrite new_ds_get_ds.
    destruct (N.eqb d' d) eqn:E; [apply N.eqb_eq in E; contradiction|].
    destruct (get_ds s d') as [rc|] eqn:Hd; [|reflexivity].
    rewrite new_ds_get_ovl. destruct (W d' rc Hd) as [A _].
    destruct (N.eqb (d_ovl rc) (st_next s)) eqn:E2; [apply N.eqb_eq in E2; lia | reflexivity].
  Qed.

  Lemma new_ds_ovl_of_same : forall (s : state) d e dflt cb,
    ovl_of (new_ds s d e dflt cb) d = Some {| o_disp := e; o_table := []; o_default := dflt |}.
  Proof.
    intros. unfold ovl_of. rewrite new_ds_get_ds, N.eqb_refl. simpl.
    rewrite new_ds_get_ovl, N.eqb_refl. reflexivity.
  Qed.

  (** ** set_dispatch: a new Overloaded with the SAME table and default; other datasets (also
      the with_options derivatives made earlier) keep theirs. *)

  Lemma set_dispatch_ovl_of_same : forall (s : state) d e rc ov,
    get_ds s d = Some rc -> get_ovl s (d_ovl rc) = Some ov ->
    ovl_of (set_dispatch s d e) d = Some {| o_disp := e; o_table := o_table ov; o_default := o_default ov |}.
  Proof.
    intros s d e rc ov Hd Ho. unfold set_dispatch. rewrite Hd, Ho. unfold ovl_of, get_ds, get_ovl. simpl.
    rewrite assoc_upd_same. simpl. rewrite assoc_upd_same. reflexivity.
  Qed.

  Lemma set_dispatch_get_ds_other : forall (s : state) d e d', d' <> d ->
    get_ds (set_dispatch s d e) d' = get_ds s d'.
  Proof.
    intros s d e d' Hne. unfold set_dispatch.
    destruct (get_ds s d) as [rc|]; [|reflexivity].
    destruct (get_ovl s (d_ovl rc)); [|reflexivity].
    unfold get_ds. simpl. apply assoc_upd_other. exact Hne.
  Qed.

  Lemma set_dispatch_ovl_of_other : forall s d e d', wf s -> d' <> d ->
    ovl_of (set_dispatch s d e) d' = ovl_of s d'.
  Proof.
    intros s d e d' W Hne. unfold ovl_of. rewrite (set_dispatch_get_ds_other s d e d' Hne).
    destruct (get_ds s d') as [rc'|] eqn:Hd'; [|reflexivity].
    unfold set_dispatch.
    destruct (get_ds s d) as [rc|]; [|reflexivity].
    destruct (get_ovl s (d_ovl rc)); [|reflexivity].
    unfold get_ovl. simpl. apply assoc_upd_other.
    destruct (W d' rc' Hd') as [A _]. lia.
  Qed.

  Lemma set_dispatch_binding : forall s d e d' a, wf s ->
    binding (set_dispatch s d e) d' a = binding s d' a.
  Proof.
    intros s d e d' a W. unfold binding.
    destruct (N.eq_dec d' d) as [E|Hne].
    - subst d'. destruct (get_ds s d) as [rc|] eqn:Hd.
      + destruct (W d rc Hd) as [_ [_ [ov Ho]]].
        rewrite (set_dispatch_ovl_of_same s d e rc ov Hd Ho).
        unfold ovl_of. rewrite Hd, Ho. reflexivity.
      + unfold set_dispatch. rewrite Hd. reflexivity.
    - rewrite (set_dispatch_ovl_of_other s d e d' W Hne). reflexivity.
  Qed.

  Lemma set_dispatch_wf : forall s d e, wf s -> wf (set_dispatch s d e).
  Proof.
    intros s d e W. unfold set_dispatch.
    destruct (get_ds s d) as [rc|] eqn:Hd; [|exact W].
    destruct (get_ovl s (d_ovl rc)) as [ov|] eqn:Ho; [|exact W].
    intros d' rc' H. unfold get_ds in H. simpl in H. rewrite assoc_upd in H. simpl.
    destruct (W d rc Hd) as [A0 [B0 _]].
    destruct (N.eqb d' d).
    - inversion H. subst. simpl. split; [lia|]. split; [lia|].
      unfold get_ovl. simpl. rewrite assoc_upd_same. eexists. reflexivity.
    - destruct (W d' rc' H) as [A [B [ov' C]]]. split; [lia|]. split; [lia|].
      unfold get_ovl. simpl. rewrite assoc_upd_other; [|lia]. exists ov'. exact C.
  Qed.

  Lemma set_dispatch_has_key : forall (s : state) d e d',
    has_key d' (st_ds (set_dispatch s d e)) = has_key d' (st_ds s).
  Proof.
    intros s d e d'. unfold set_dispatch.
    destruct (get_ds s d) as [rc|] eqn:Hd; [|reflexivity].
    destruct (get_ovl s (d_ovl rc)); [|reflexivity].
    simpl. rewrite has_key_upd. destruct (N.eqb d' d) eqn:E; [|reflexivity].
    apply N.eqb_eq in E. subst. simpl. symmetry. apply has_key_true. exists rc. exact Hd.
  Qed.

  (** ** sequences of registrations *)

  Lemma apply_regs_cons : forall (s : state) d a i l,
    apply_regs s ((d, a, i) :: l) = apply_regs (register s d a i) l.
  Proof. reflexivity. Qed.

  Lemma apply_regs_app : forall (s : state) l1 l2, apply_regs s (l1 ++ l2) = apply_regs (apply_regs s l1) l2.
  Proof. intros. unfold apply_regs. apply fold_left_app. Qed.

  Lemma register_all_regs : forall (s : state) d als i,
    register_all s d als i = apply_regs s (map (fun a => (d, a, i)) als).
  Proof.
    intros s d als i. revert s. induction als as [|a als IH]; intro s; simpl; [reflexivity|].
    unfold register_all in *. simpl. rewrite IH. reflexivity.
  Qed.

  Lemma apply_regs_wf : forall l s, wf s -> wf (apply_regs s l).
  Proof.
    induction l as [|[[d a] i] l IH]; intros s W; [exact W|].
    rewrite apply_regs_cons. apply IH. apply register_wf. exact W.
  Qed.

  Lemma apply_regs_struct : forall l (s : state),
    st_ds (apply_regs s l) = st_ds s /\ st_next (apply_regs s l) = st_next s /\
    st_if (apply_regs s l) = st_if s /\ st_cache (apply_regs s l) = st_cache s /\
    st_trace (apply_regs s l) = st_trace s.
  Proof.
    induction l as [|[[d a] i] l IH]; intro s; [repeat split|].
    rewrite apply_regs_cons. destruct (IH (register s d a i)) as [A [B [C [D E]]]].
    rewrite A, B, C, D, E, register_ds, register_next, register_if, register_cache, register_trace.
    repeat split.
  Qed.

  Definition targets (s : state) (d a : N) (t : N * N * impl) : bool :=
    same_ovl s (fst (fst t)) d && N.eqb a (snd (fst t)).

  (** the last registration in [l] that lands on [d]'s table under alias [a] *)
  Fixpoint last_reg (s : state) (d a : N) (l : list (N * N * impl)) (acc : option impl) : option impl :=
    match l with
    | [] => acc
    | t :: l' => last_reg s d a l' (if targets s d a t then Some (snd t) else acc)
    end.

  Lemma last_reg_acc : forall s d a l acc,
    last_reg s d a l acc = match last_reg s d a l None with Some i => Some i | None => acc end.
  Proof.
    intros s d a l. induction l as [|t l IH]; intro acc; simpl; [reflexivity|].
    rewrite IH. rewrite (IH (if targets s d a t then Some (snd t) else None)).
    destruct (last_reg s d a l None); [reflexivity|]. destruct (targets s d a t); reflexivity.
  Qed.

  Lemma last_reg_ext : forall s s' d a l acc,
    (forall x y, same_ovl s' x y = same_ovl s x y) -> last_reg s' d a l acc = last_reg s d a l acc.
  Proof.
    intros s s' d a l. induction l as [|t l IH]; intros acc H; simpl; [reflexivity|].
    unfold targets. rewrite H. apply IH. exact H.
  Qed.

  Theorem apply_regs_binding : forall l s d a, wf s ->
    binding (apply_regs s l) d a =
      match last_reg s d a l None with Some i => Some i | None => binding s d a end.
  Proof.
    induction l as [|[[d0 a0] i] l IH]; intros s d a W; [reflexivity|].
    rewrite apply_regs_cons. rewrite (IH _ d a (register_wf s d0 a0 i W)).
    rewrite (last_reg_ext s (register s d0 a0 i) d a l None (same_ovl_register s d0 a0 i)).
    simpl. rewrite (last_reg_acc s d a l (if targets s d a (d0, a0, i) then Some i else None)).
    destruct (last_reg s d a l None); [reflexivity|].
    rewrite (register_binding s d0 a0 i d a W). unfold targets. simpl.
    destruct (same_ovl s d0 d && N.eqb a a0); reflexivity.
  Qed.

  Lemma last_reg_none : forall s d a l,
    (forall t, In t l -> snd (fst t) <> a) -> last_reg s d a l None = None.
  Proof.
    intros s d a l. induction l as [|t l IH]; intro H; simpl; [reflexivity|].
    unfold targets. destruct (N.eqb a (snd (fst t))) eqn:E.
    - apply N.eqb_eq in E. exfalso. apply (H t (or_introl eq_refl)). symmetry. exact E.
    - rewrite andb_false_r. apply IH. intros t' Ht'. apply H. right. exact Ht'.
  Qed.

  Lemma last_reg_some : forall s d a l j, last_reg s d a l None = Some j ->
    exists t, In t l /\ targets s d a t = true /\ snd t = j.
  Proof.
    intros s d a l. induction l as [|t l IH]; intros j H; simpl in H; [discriminate|].
    rewrite last_reg_acc in H. destruct (last_reg s d a l None) as [j'|] eqn:E.
    - inversion H. subst. destruct (IH j eq_refl) as [t' [A [B C]]].
      exists t'. split; [right; exact A|]. split; assumption.
    - destruct (targets s d a t) eqn:T; [|discriminate]. inversion H.
      exists t. split; [left; reflexivity|]. split; [exact T | reflexivity].
  Qed.

  Lemma last_reg_none_inv : forall s d a l, last_reg s d a l None = None ->
    forall t, In t l -> targets s d a t = false.
  Proof.
    intros s d a l. induction l as [|t l IH]; intros H t' Hin; [destruct Hin|].
    simpl in H. rewrite last_reg_acc in H.
    destruct (last_reg s d a l None) as [j'|] eqn:E; [discriminate|].
    destruct (targets s d a t) eqn:T; [discriminate|].
    destruct Hin as [Hin|Hin]; [subst; exact T | apply IH; [reflexivity | exact Hin]].
  Qed.

  (** If every registration landing on ([d]'s table, [a]) carries [i], and there is one, the
      binding afterwards is [i]. *)
  Lemma last_reg_unique : forall s d a l i,
    (exists t, In t l /\ targets s d a t = true) ->
    (forall t, In t l -> targets s d a t = true -> snd t = i) ->
    last_reg s d a l None = Some i.
  Proof.
    intros s d a l i [t0 [Hin Ht0]] Hall.
    destruct (last_reg s d a l None) as [j|] eqn:E.
    - destruct (last_reg_some s d a l j E) as [t [A [B C]]]. rewrite <- C. f_equal. apply Hall; assumption.
    - rewrite (last_reg_none_inv s d a l E t0 Hin) in Ht0. discriminate.
  Qed.

  (** ** interface members *)

  Definition is_new (m : mkind) : bool := match m with MExisting _ => false | _ => true end.

  Lemma new_ds_has_key : forall (s : state) d e dflt cb d',
    has_key d' (st_ds (new_ds s d e dflt cb)) = N.eqb d' d || has_key d' (st_ds s).
  Proof. intros. unfold new_ds. simpl. apply has_key_upd. Qed.

  Lemma new_ds_binding_other : forall s d e dflt cb d' a, wf s -> d' <> d ->
    binding (new_ds s d e dflt cb) d' a = binding s d' a.
  Proof. intros. unfold binding. rewrite new_ds_ovl_of_other; auto. Qed.

  Lemma add_member_wf : forall s e m, wf s -> wf (add_member s e m).
  Proof.
    intros s e m W. destruct m; unfold add_member; [apply new_ds_wf | apply new_ds_wf | apply set_dispatch_wf]; exact W.
  Qed.

  Lemma add_member_binding : forall s e m d a, wf s -> (is_new m = true -> mk_id m <> d) ->
    binding (add_member s e m) d a = binding s d a.
  Proof.
    intros s e m d a W H. destruct m as [d0|d0 g|d0]; unfold add_member; simpl in H.
    - apply new_ds_binding_other; [exact W|]. intro E. apply (H eq_refl). symmetry. exact E.
    - apply new_ds_binding_other; [exact W|]. intro E. apply (H eq_refl). symmetry. exact E.
    - apply set_dispatch_binding. exact W.
  Qed.

  Lemma add_member_has_key : forall (s : state) e m d,
    has_key d (st_ds s) = true -> has_key d (st_ds (add_member s e m)) = true.
  Proof.
    intros s e m d H. destruct m as [d0|d0 g|d0]; unfold add_member.
    - rewrite new_ds_has_key, H. apply orb_true_r.
    - rewrite new_ds_has_key, H. apply orb_true_r.
    - rewrite set_dispatch_has_key. exact H.
  Qed.

  Definition add_members (s : state) (e : dexpr) (ms : list (N * mkind)) : state :=
    fold_left (fun s m => add_member s e (snd m)) ms s.

  Lemma add_members_wf : forall ms s e, wf s -> wf (add_members s e ms).
  Proof.
    induction ms as [|m ms IH]; intros s e W; [exact W|]. simpl. apply IH. apply add_member_wf. exact W.
  Qed.

  Lemma add_members_has_key : forall ms (s : state) e d,
    has_key d (st_ds s) = true -> has_key d (st_ds (add_members s e ms)) = true.
  Proof.
    induction ms as [|m ms IH]; intros s e d H; [exact H|]. simpl. apply IH. apply add_member_has_key. exact H.
  Qed.

  Lemma add_members_binding : forall ms s e d a, wf s ->
    (forall m, In m ms -> is_new (snd m) = true -> mk_id (snd m) <> d) ->
    binding (add_members s e ms) d a = binding s d a.
  Proof.
    induction ms as [|m ms IH]; intros s e d a W H; [reflexivity|]. simpl.
    rewrite IH.
    - apply add_member_binding; [exact W|]. apply H. left. reflexivity.
    - apply add_member_wf. exact W.
    - intros m' Hin. apply H. right. exact Hin.
  Qed.

  Lemma member_ok_new : forall (s : state) m d,
    member_ok s m = true -> is_new m = true -> has_key d (st_ds s) = true -> mk_id m <> d.
  Proof.
    intros s m d Hok Hnew Hd E. destruct m as [d0|d0 g|d0]; simpl in *; try discriminate;
      subst; rewrite Hd in Hok; discriminate.
  Qed.

  (** ** One operation *)

  (** [a] is not (re-)registered by the operation *)
  Definition op_quiet (a : N) (x : op) : bool :=
    match x with
    | ORegister _ a' _ => negb (N.eqb a' a)
    | OOverload _ als _ _ | OOverloadDs _ als _ | OImplement _ als _ => negb (memN a als)
    | _ => true
    end.

  Lemma implement_regs : forall (s s1 : state) ifs als prov,
    implement s ifs als prov = Some s1 -> s1 = apply_regs s (regs_of (members_of s ifs) als prov).
  Proof.
    intros s s1 ifs als prov H. unfold implement in H.
    destruct (negb (forallb _ prov)); [discriminate|].
    destruct (existsb _ (members_of s ifs)); [discriminate|]. inversion H. reflexivity.
  Qed.

  Lemma regs_of_alias : forall ms als prov t, In t (regs_of ms als prov) -> In (snd (fst t)) als.
  Proof.
    intros ms als prov t H. unfold regs_of in H. apply in_flat_map in H. destruct H as [[n dl] [_ H]].
    destruct (assoc n prov) as [i|]; [|destruct H].
    apply in_flat_map in H. destruct H as [d [_ H]]. apply in_map_iff in H. destruct H as [a [E Ha]].
    subst t. exact Ha.
  Qed.

  Lemma step_wf : forall fuel x s ob s', wf s -> STEP cfg_now fuel x s = Some (ob, s') -> wf s'.
  Proof.
    intros fuel x s ob s' W H. destruct x; unfold step in H.
    - destruct (has_key d (st_ds s)); inversion H; subst; [exact W | apply new_ds_wf; exact W].
    - destruct (has_key d (st_ds s)); inversion H; subst; [apply register_wf; exact W | exact W].
    - destruct (negb (has_key d (st_ds s)) || has_key d' (st_ds s)); [inversion H; subst; exact W|].
      destruct (negb (has_dispatch s d)); inversion H; subst; [exact W|].
      rewrite register_all_regs. apply apply_regs_wf. apply new_ds_wf. exact W.
    - destruct (negb (has_key d (st_ds s)) || negb (has_key d' (st_ds s))); [inversion H; subst; exact W|].
      destruct (negb (has_dispatch s d)); inversion H; subst; [exact W|].
      rewrite register_all_regs. apply apply_regs_wf. exact W.
    - destruct (has_key d (st_ds s)); inversion H; subst; [apply set_dispatch_wf; exact W | exact W].
    - destruct (get_ds s d) as [rc|] eqn:Hd; [|inversion H; subst; exact W].
      destruct (has_key d' (st_ds s)); inversion H; subst; [exact W|].
      intros x rx Hx. unfold get_ds in Hx. simpl in Hx. rewrite assoc_upd in Hx. simpl.
      destruct (N.eqb x d').
      + inversion Hx. subst. simpl. apply (W d rc Hd).
      + apply (W x rx Hx).
    - destruct (EVAL fuel d o s) as [[[v|e] s1]|] eqn:E; inversion H; subst;
        apply (wf_same_struct s s'); try exact W; eapply eval_struct; eassumption.
    - destruct (has_key i (st_if s) || negb (nodupN (map (fun m => mk_id (snd m)) ms))
                || negb (nodupN (map fst ms)) || negb (forallb (fun m => member_ok s (snd m)) ms));
        inversion H; subst; [exact W|].
      apply (add_members_wf ms s e W).
    - destruct (negb (forallb (fun i => has_key i (st_if s)) ifs)); [inversion H; subst; exact W|].
      destruct (implement s ifs als prov) as [s1|] eqn:E; inversion H; subst; [|exact W].
      rewrite (implement_regs _ _ _ _ _ E). apply apply_regs_wf. exact W.
  Qed.

  Lemma apply_regs_has_key : forall l (s : state) d, has_key d (st_ds (apply_regs s l)) = has_key d (st_ds s).
  Proof. intros. destruct (apply_regs_struct l s) as [A _]. rewrite A. reflexivity. Qed.

  Lemma step_has_key : forall fuel x s ob s' d,
    STEP cfg_now fuel x s = Some (ob, s') -> has_key d (st_ds s) = true -> has_key d (st_ds s') = true.
  Proof.
    intros fuel x s ob s' k H K. destruct x; unfold step in H.
    - destruct (has_key d (st_ds s)); inversion H; subst; [exact K|].
      rewrite new_ds_has_key, K. apply orb_true_r.
    - destruct (has_key d (st_ds s)); inversion H; subst; [rewrite register_ds|]; exact K.
    - destruct (negb (has_key d (st_ds s)) || has_key d' (st_ds s)); [inversion H; subst; exact K|].
      destruct (negb (has_dispatch s d)); inversion H; subst; [exact K|].
      rewrite register_all_regs, apply_regs_has_key, new_ds_has_key, K. apply orb_true_r.
    - destruct (negb (has_key d (st_ds s)) || negb (has_key d' (st_ds s))); [inversion H; subst; exact K|].
      destruct (negb (has_dispatch s d)); inversion H; subst; [exact K|].
      rewrite register_all_regs, apply_regs_has_key. exact K.
    - destruct (has_key d (st_ds s)); inversion H; subst; [rewrite set_dispatch_has_key|]; exact K.
    - destruct (get_ds s d) as [rc|] eqn:Hd; [|inversion H; subst; exact K].
      destruct (has_key d' (st_ds s)); inversion H; subst; [exact K|].
      simpl. rewrite has_key_upd, K. apply orb_true_r.
    - destruct (EVAL fuel d o s) as [[[v|e] s1]|] eqn:E; inversion H; subst;
        apply eval_struct in E; destruct E as [E _]; rewrite E; exact K.
    - destruct (has_key i (st_if s) || negb (nodupN (map (fun m => mk_id (snd m)) ms))
                || negb (nodupN (map fst ms)) || negb (forallb (fun m => member_ok s (snd m)) ms));
        inversion H; subst; [exact K|].
      simpl. apply (add_members_has_key ms s e k K).
    - destruct (negb (forallb (fun i => has_key i (st_if s)) ifs)); [inversion H; subst; exact K|].
      destruct (implement s ifs als prov) as [s1|] eqn:E; inversion H; subst; [|exact K].
      rewrite (implement_regs _ _ _ _ _ E), apply_regs_has_key. exact K.
  Qed.

  Lemma quiet_regs_binding : forall l s d a, wf s ->
    (forall t, In t l -> snd (fst t) <> a) -> binding (apply_regs s l) d a = binding s d a.
  Proof.
    intros l s d a W H. rewrite (apply_regs_binding l s d a W). rewrite (last_reg_none s d a l H). reflexivity.
  Qed.

  (** An operation that does not register alias [a] leaves every existing dataset's entry for
      [a] as it was — including set_dispatch (the table is copied), new datasets, interface
      definitions, evaluations, rejected implementations. *)
  Lemma step_binding_quiet : forall fuel x s ob s' d a,
    wf s -> STEP cfg_now fuel x s = Some (ob, s') -> op_quiet a x = true ->
    has_key d (st_ds s) = true -> binding s' d a = binding s d a.
  Proof.
    intros fuel x s ob s' k a W H Q K. destruct x; unfold step in H; simpl in Q.
    - destruct (has_key d (st_ds s)) eqn:Hd; inversion H; subst; [reflexivity|].
      apply new_ds_binding_other; [exact W|]. intro E. subst. congruence.
    - destruct (has_key d (st_ds s)); inversion H; subst; [|reflexivity].
      rewrite (register_binding s d a0 i k a W). apply negb_true_iff in Q.
      rewrite (N.eqb_sym a a0), Q, andb_false_r. reflexivity.
    - destruct (negb (has_key d (st_ds s)) || has_key d' (st_ds s)) eqn:C; [inversion H; subst; reflexivity|].
      destruct (negb (has_dispatch s d)); inversion H; subst; [reflexivity|].
      apply orb_false_iff in C. destruct C as [_ C].
      rewrite register_all_regs, quiet_regs_binding.
      + apply new_ds_binding_other; [exact W|]. intro E. subst. congruence.
      + apply new_ds_wf. exact W.
      + intros t Ht. apply in_map_iff in Ht. destruct Ht as [a' [E Ha']]. subst t. simpl.
        intro E. subst. apply negb_true_iff in Q. apply memN_In in Ha'. congruence.
    - destruct (negb (has_key d (st_ds s)) || negb (has_key d' (st_ds s))); [inversion H; subst; reflexivity|].
      destruct (negb (has_dispatch s d)); inversion H; subst; [reflexivity|].
      rewrite register_all_regs, quiet_regs_binding; [reflexivity | exact W |].
      intros t Ht. apply in_map_iff in Ht. destruct Ht as [a' [E Ha']]. subst t. simpl.
      intro E. subst. apply negb_true_iff in Q. apply memN_In in Ha'. congruence.
    - destruct (has_key d (st_ds s)); inversion H; subst; [|reflexivity].
      apply set_dispatch_binding. exact W.
    - destruct (get_ds s d) as [rc|] eqn:Hd; [|inversion H; subst; reflexivity].
      destruct (has_key d' (st_ds s)) eqn:Hd'; inversion H; subst; [reflexivity|].
      unfold binding, ovl_of, get_ds. simpl. rewrite assoc_upd.
      destruct (N.eqb k d') eqn:E; [apply N.eqb_eq in E; subst; congruence | reflexivity].
    - destruct (EVAL fuel d o s) as [[[v|e] s1]|] eqn:E; inversion H; subst;
        apply same_struct_binding; eapply eval_struct; eassumption.
    - destruct (has_key i (st_if s) || negb (nodupN (map (fun m => mk_id (snd m)) ms))
                || negb (nodupN (map fst ms)) || negb (forallb (fun m => member_ok s (snd m)) ms)) eqn:C;
        inversion H; subst; [reflexivity|].
      apply orb_false_iff in C. destruct C as [_ C]. apply negb_false_iff in C.
      change (binding (add_members s e ms) k a = binding s k a).
      apply add_members_binding; [exact W|].
      intros m Hin Hnew. rewrite forallb_forall in C.
      apply (member_ok_new s (snd m) k (C m Hin) Hnew K).
    - destruct (negb (forallb (fun i => has_key i (st_if s)) ifs)); [inversion H; subst; reflexivity|].
      destruct (implement s ifs als prov) as [s1|] eqn:E; inversion H; subst; [|reflexivity].
      rewrite (implement_regs _ _ _ _ _ E). apply quiet_regs_binding; [exact W|].
      intros t Ht E2. apply regs_of_alias in Ht. rewrite E2 in Ht. apply memN_In in Ht.
      apply negb_true_iff in Q. congruence.
  Qed.

  (** * Histories *)

  Lemma run_cons : forall c fuel x h s obs s',
    RUN c fuel (x :: h) s = Some (obs, s') ->
    exists ob s1 obs', STEP c fuel x s = Some (ob, s1) /\ RUN c fuel h s1 = Some (obs', s') /\ obs = ob :: obs'.
  Proof.
    intros c fuel x h s obs s' H. simpl in H.
    destruct (STEP c fuel x s) as [[ob s1]|] eqn:E1; [|discriminate].
    destruct (RUN c fuel h s1) as [[obs' s2]|] eqn:E2; [|discriminate].
    inversion H. subst. exists ob, s1, obs'. split; [reflexivity|]. split; [exact E2 | reflexivity].
  Qed.

  Lemma run_app : forall c fuel h1 h2 s obs s',
    RUN c fuel (h1 ++ h2) s = Some (obs, s') ->
    exists obs1 s1 obs2, RUN c fuel h1 s = Some (obs1, s1) /\ RUN c fuel h2 s1 = Some (obs2, s') /\
                         obs = obs1 ++ obs2 /\ length obs1 = length h1.
  Proof.
    intros c fuel h1. induction h1 as [|x h1 IH]; intros h2 s obs s' H.
    - exists [], s, obs. repeat split. exact H.
    - rewrite <- app_comm_cons in H. apply run_cons in H.
      destruct H as [ob [s1 [obs' [H1 [H2 H3]]]]].
      destruct (IH h2 s1 obs' s' H2) as [obs1 [s2 [obs2 [A [B [C D]]]]]].
      exists (ob :: obs1), s2, obs2. simpl. rewrite H1, A. subst. simpl. rewrite D. repeat split. exact B.
  Qed.

  Lemma run_wf : forall fuel h s obs s', wf s -> RUN cfg_now fuel h s = Some (obs, s') -> wf s'.
  Proof.
    intros fuel h. induction h as [|x h IH]; intros s obs s' W H.
    - inversion H. subst. exact W.
    - apply run_cons in H. destruct H as [ob [s1 [obs' [H1 [H2 _]]]]].
      apply (IH s1 obs' s'); [eapply step_wf; eassumption | exact H2].
  Qed.

  Lemma run_has_key : forall fuel h s obs s' d,
    RUN cfg_now fuel h s = Some (obs, s') -> has_key d (st_ds s) = true -> has_key d (st_ds s') = true.
  Proof.
    intros fuel h. induction h as [|x h IH]; intros s obs s' d H K.
    - inversion H. subst. exact K.
    - apply run_cons in H. destruct H as [ob [s1 [obs' [H1 [H2 _]]]]].
      apply (IH s1 obs' s' d H2). eapply step_has_key; eassumption.
  Qed.

  (** A registration stays in force through any later history that does not re-register that
      alias: evaluations, set_dispatch, new datasets and derivatives, interface definitions,
      registrations under other aliases, rejected implementations. *)
  Theorem registration_persists : forall fuel h s obs s' d a,
    wf s -> has_key d (st_ds s) = true ->
    RUN cfg_now fuel h s = Some (obs, s') -> forallb (op_quiet a) h = true ->
    binding s' d a = binding s d a.
  Proof.
    intros fuel h. induction h as [|x h IH]; intros s obs s' d a W K H Q.
    - inversion H. reflexivity.
    - apply run_cons in H. destruct H as [ob [s1 [obs' [H1 [H2 _]]]]].
      simpl in Q. apply andb_true_iff in Q. destruct Q as [Q1 Q2].
      rewrite (IH s1 obs' s' d a); try assumption.
      + eapply step_binding_quiet; eassumption.
      + eapply step_wf; eassumption.
      + eapply step_has_key; eassumption.
  Qed.

  (** ** Registrations take effect at once *)

  (** the (dataset, alias, implementation) triples a directly registering operation names *)
  Definition registers (x : op) (d a : N) (i : impl) : Prop :=
    match x with
    | ORegister d0 a0 i0 => d0 = d /\ a0 = a /\ i0 = i
    | OOverload d0 als d' _ | OOverloadDs d0 als d' => d0 = d /\ In a als /\ i = IDs d'
    | _ => False
    end.

  Lemma all_regs_binding : forall s d als i a, wf s -> has_key d (st_ds s) = true -> In a als ->
    binding (apply_regs s (map (fun a => (d, a, i)) als)) d a = Some i.
  Proof.
    intros s d als i a W K Ha. rewrite (apply_regs_binding _ s d a W).
    rewrite (last_reg_unique s d a _ i); [reflexivity | |].
    - exists (d, a, i). split; [apply in_map_iff; exists a; split; [reflexivity | exact Ha]|].
      unfold targets. simpl. rewrite (same_ovl_refl s d K), N.eqb_refl. reflexivity.
    - intros t Ht _. apply in_map_iff in Ht. destruct Ht as [a' [E _]]. subst t. reflexivity.
  Qed.

  Theorem registration_takes_effect : forall fuel x s s1 d a i,
    wf s -> STEP cfg_now fuel x s = Some (ObOk, s1) -> registers x d a i ->
    has_key d (st_ds s1) = true /\ binding s1 d a = Some i.
  Proof.
    intros fuel x s s1 d a i W H R. destruct x; simpl in R; try contradiction; unfold step in H.
    - destruct R as [E1 [E2 E3]]. subst.
      destruct (has_key d (st_ds s)) eqn:K; inversion H; subst.
      split; [rewrite register_ds; exact K|].
      rewrite (register_binding s d a i d a W), (same_ovl_refl s d K), N.eqb_refl. reflexivity.
    - destruct R as [E1 [E2 E3]]. subst.
      destruct (negb (has_key d (st_ds s)) || has_key d' (st_ds s)) eqn:C; [discriminate|].
      destruct (negb (has_dispatch s d)); inversion H; subst.
      apply orb_false_iff in C. destruct C as [C1 C2]. apply negb_false_iff in C1.
      assert (K : has_key d (st_ds (new_ds s d' DMissing (Some (IFun g)) None)) = true)
        by (rewrite new_ds_has_key, C1; apply orb_true_r).
      rewrite register_all_regs. split; [rewrite apply_regs_has_key; exact K|].
      apply all_regs_binding; [apply new_ds_wf; exact W | exact K | exact E2].
    - destruct R as [E1 [E2 E3]]. subst.
      destruct (negb (has_key d (st_ds s)) || negb (has_key d' (st_ds s))) eqn:C; [discriminate|].
      destruct (negb (has_dispatch s d)); inversion H; subst.
      apply orb_false_iff in C. destruct C as [C1 C2]. apply negb_false_iff in C1.
      rewrite register_all_regs. split; [rewrite apply_regs_has_key; exact C1|].
      apply all_regs_binding; [exact W | exact C1 | exact E2].
  Qed.

  (** ** late registration: the registered implementation serves every later evaluation that is
      not already stored, whatever happened in between *)
  Theorem late_registration_applies : forall fuel h1 x h2 obs s d a i,
    RUN cfg_now fuel (h1 ++ x :: h2) (@empty_state V) = Some (obs, s) ->
    registers x d a i -> nth_error obs (length h1) = Some ObOk ->
    forallb (op_quiet a) h2 = true ->
    binding s d a = Some i /\
    forall f o r s' rc ov,
      get_ds s d = Some rc -> get_ovl s (d_ovl rc) = Some ov ->
      EVAL (S f) d o s = Some (r, s') ->
      stored f s d o = None ->
      deval (o_disp ov) (overlay (d_preset rc) o) = DVal a ->
      exists r0 s1, impl_outcome f s ov i (overlay (d_preset rc) o) = Some (r0, s1) /\
                    r = rmap (CB (d_cb rc)) r0.
  Proof.
    intros fuel h1 x h2 obs s d a i H R Hok Q.
    apply run_app in H. destruct H as [obs1 [s0 [obs2 [H1 [H2 [E L]]]]]].
    apply run_cons in H2. destruct H2 as [ob [s1 [obs' [H3 [H4 E2]]]]].
    subst obs obs2. rewrite nth_error_app2 in Hok; [|lia]. rewrite L, Nat.sub_diag in Hok.
    simpl in Hok. inversion Hok. subst ob.
    assert (W0 : wf s0) by (eapply run_wf; [apply wf_empty | exact H1]).
    destruct (registration_takes_effect fuel x s0 s1 d a i W0 H3 R) as [K B].
    assert (W1 : wf s1) by (eapply step_wf; eassumption).
    assert (Bs : binding s d a = Some i).
    { rewrite (registration_persists fuel h2 s1 obs' s d a W1 K H4 Q). exact B. }
    split; [exact Bs|].
    intros f o r s' rc ov Hds Hov He Hst Hd.
    pose proof (dispatch_spec f d o s r s' rc ov He Hds Hov Hst) as D.
    unfold pick in D. rewrite Hd in D.
    unfold binding, ovl_of in Bs. rewrite Hds, Hov in Bs. rewrite Bs in D. exact D.
  Qed.

  (** * The evaluation history: what every cache entry and every served value comes from *)

  (** the record is truthful: its fingerprint is the fingerprint of its options and keys, its
      dispatch outcome is the dispatch's value on its options, and the keys of a successful
      dispatch are among its keys *)
  Definition ev_ok (e : event) : Prop :=
    mk_fp (e_opts e) (e_keys e) = Some (e_fp e) /\
    e_dres e = deval (e_disp e) (e_opts e) /\
    (forall a, e_dres e = DVal a -> incl (dkeys (e_disp e) (e_opts e)) (e_keys e)).

  (** the record's dataset exists, uses the record's cache, and a computed value is that
      dataset's callback applied to the implementation's raw result *)
  Definition ev_owner (s : state) (e : event) : Prop :=
    exists rc, get_ds s (e_ds e) = Some rc /\ d_cache rc = e_cache e /\
      (e_hit e = false -> exists w, e_raw e = Some w /\ e_val e = CB (d_cb rc) w).

  Definition cache_explained (s : state) : Prop :=
    forall c f v, cache_get s c f = Some v ->
      exists e, In e (st_trace s) /\ e_hit e = false /\ e_cache e = c /\ e_fp e = f /\ e_val e = v.

  Definition explains (e1 e : event) : Prop :=
    e_hit e1 = false /\ e_cache e1 = e_cache e /\ e_fp e1 = e_fp e /\ e_val e1 = e_val e.

  (** every served value was stored by an EARLIER evaluation under the same fingerprint *)
  Fixpoint hits_explained (tr : list event) : Prop :=
    match tr with
    | [] => True
    | e :: tr' => (e_hit e = true -> exists e1, In e1 tr' /\ explains e1 e) /\ hits_explained tr'
    end.

  Definition tinv (s : state) : Prop :=
    Forall ev_ok (st_trace s) /\ Forall (ev_owner s) (st_trace s) /\
    cache_explained s /\ hits_explained (st_trace s).

  Lemma tinv_empty : tinv (@empty_state V).
  Proof.
    split; [constructor|]. split; [constructor|]. split; [|exact I].
    intros c f v H. discriminate.
  Qed.

  Definition ds_ext (s s' : state) : Prop :=
    forall d rc, get_ds s d = Some rc ->
      exists rc', get_ds s' d = Some rc' /\ d_cache rc' = d_cache rc /\ d_cb rc' = d_cb rc.

  Lemma ds_ext_refl : forall s, ds_ext s s.
  Proof. intros s d rc H. exists rc. repeat split. exact H. Qed.

  Lemma ds_ext_eq : forall s s', st_ds s' = st_ds s -> ds_ext s s'.
  Proof. intros s s' E d rc H. exists rc. unfold get_ds. rewrite E. repeat split. exact H. Qed.

  Lemma ev_owner_ext : forall s s' e, ds_ext s s' -> ev_owner s e -> ev_owner s' e.
  Proof.
    intros s s' e X [rc [A [B C]]]. destruct (X _ _ A) as [rc' [A' [B' C']]].
    exists rc'. split; [exact A'|]. split; [congruence|]. rewrite C'. exact C.
  Qed.

  Lemma Forall_owner_ext : forall s s' l, ds_ext s s' -> Forall (ev_owner s) l -> Forall (ev_owner s') l.
  Proof.
    intros s s' l X H. induction H; constructor; [eapply ev_owner_ext; eassumption | assumption].
  Qed.

  (** operations that touch neither caches nor the history keep the invariant *)
  Lemma tinv_frame : forall s s',
    st_cache s' = st_cache s -> st_trace s' = st_trace s -> ds_ext s s' -> tinv s -> tinv s'.
  Proof.
    intros s s' Ec Et X [T1 [T2 [T3 T4]]]. unfold tinv. rewrite Et.
    split; [exact T1|]. split; [eapply Forall_owner_ext; eassumption|]. split; [|exact T4].
    intros c f v H. unfold cache_get, cache_of in H. rewrite Ec in H.
    destruct (T3 c f v H) as [e He]. exists e. rewrite Et. exact He.
  Qed.

  Lemma eval_tinv : forall f d o s r s', EVAL f d o s = Some (r, s') -> tinv s -> tinv s'.
  Proof.
    induction f as [|f IH]; intros d o s r s' H T; [discriminate|].
    assert (IR : forall i o0 r0 s1, impl_run f i o0 s = Some (r0, s1) -> tinv s1 /\ same_struct s s1).
    { intros i o0 r0 s1 Hi. destruct i as [g|d']; simpl in Hi.
      - inversion Hi. subst. split; [exact T | apply same_struct_refl].
      - split; [eapply IH; eassumption | eapply eval_struct; eassumption]. }
    apply eval_inv in H. ecases H; try exact T.
    - (* served from the cache *)
      destruct T as [T1 [T2 [T3 T4]]].
      split; [|split; [|split]].
      + simpl. constructor; [|exact T1]. unfold ev_ok. simpl.
        split; [exact Hfp|]. split; [reflexivity|]. intros a Ha. eapply sw_keys_dkeys; eassumption.
      + simpl. constructor.
        * exists rc. simpl. split; [exact Hds|]. split; [reflexivity|]. discriminate.
        * eapply Forall_owner_ext; [|exact T2]. apply ds_ext_eq. reflexivity.
      + intros c f0 v0 Hg. rewrite cache_get_log in Hg. destruct (T3 c f0 v0 Hg) as [e [A B]].
        exists e. split; [right; exact A | exact B].
      + simpl. split; [|exact T4]. intros _.
        destruct (T3 _ _ _ Hc) as [e1 [A [B [C [D E]]]]]. exists e1. split; [exact A|].
        unfold explains. simpl. repeat split; assumption.
    - (* the implementation failed *)
      apply (IR _ _ _ _ Hi).
    - (* computed and stored *)
      destruct (IR _ _ _ _ Hi) as [[T1 [T2 [T3 T4]]] Hs].
      assert (Eds : st_ds s1 = st_ds s) by (destruct Hs as [A _]; exact A).
      split; [|split; [|split]].
      + simpl. constructor; [|exact T1]. unfold ev_ok. simpl.
        split; [exact Hfp|]. split; [reflexivity|]. intros a Ha. eapply sw_keys_dkeys; eassumption.
      + simpl. constructor.
        * exists rc. simpl. split; [unfold get_ds; simpl; rewrite Eds; exact Hds|].
          split; [reflexivity|]. intros _. exists x. split; reflexivity.
        * eapply Forall_owner_ext; [|exact T2]. apply ds_ext_eq. reflexivity.
      + intros c f0 v0 Hg. rewrite cache_get_log, cache_get_set in Hg.
        destruct (N.eqb c (d_cache rc) && fp_eqb f0 fpr) eqn:E.
        * apply andb_true_iff in E. destruct E as [E1 E2]. apply N.eqb_eq in E1. apply fp_eqb_eq in E2.
          inversion Hg. subst. eexists. split; [left; reflexivity|]. simpl. repeat split.
        * destruct (T3 c f0 v0 Hg) as [e [A B]]. exists e. split; [right; exact A | exact B].
      + simpl. split; [discriminate | exact T4].
  Qed.

  (** callbacks are per cache: datasets sharing a cache (a dataset and its with_options
      derivatives) have the same callback *)
  Definition cbc (s : state) : Prop :=
    forall d1 d2 r1 r2, get_ds s d1 = Some r1 -> get_ds s d2 = Some r2 ->
      d_cache r1 = d_cache r2 -> d_cb r1 = d_cb r2.

  Lemma cbc_empty : cbc (@empty_state V).
  Proof. intros d1 d2 r1 r2 H. discriminate. Qed.

  Lemma cbc_eq : forall s s', st_ds s' = st_ds s -> cbc s -> cbc s'.
  Proof. intros s s' E C d1 d2 r1 r2 H1 H2. unfold get_ds in *. rewrite E in *. eapply C; eassumption. Qed.

  Lemma new_ds_cbc : forall s d e dflt cb, wf s -> cbc s -> cbc (new_ds s d e dflt cb).
  Proof.
    intros s d e dflt cb W C d1 d2 r1 r2 H1 H2 Ec. rewrite new_ds_get_ds in H1, H2.
    destruct (N.eqb d1 d); destruct (N.eqb d2 d).
    - congruence.
    - inversion H1. subst. simpl in Ec. destruct (W d2 r2 H2) as [_ [B _]]. lia.
    - inversion H2. subst. simpl in Ec. destruct (W d1 r1 H1) as [_ [B _]]. lia.
    - eapply C; eassumption.
  Qed.

  Lemma set_dispatch_get_ds : forall (s : state) d e d' rc',
    get_ds (set_dispatch s d e) d' = Some rc' ->
    exists rc, get_ds s d' = Some rc /\ d_cache rc' = d_cache rc /\ d_cb rc' = d_cb rc.
  Proof.
    intros s d e d' rc' H. unfold set_dispatch in H.
    destruct (get_ds s d) as [rc|] eqn:Hd; [|exists rc'; repeat split; exact H].
    destruct (get_ovl s (d_ovl rc)); [|exists rc'; repeat split; exact H].
    unfold get_ds in H. simpl in H. rewrite assoc_upd in H. destruct (N.eqb d' d) eqn:E.
    - apply N.eqb_eq in E. subst. inversion H. subst. exists rc. repeat split. exact Hd.
    - exists rc'. repeat split. exact H.
  Qed.

  Lemma set_dispatch_cbc : forall s d e, cbc s -> cbc (set_dispatch s d e).
  Proof.
    intros s d e C d1 d2 r1 r2 H1 H2 Ec.
    destruct (set_dispatch_get_ds _ _ _ _ _ H1) as [q1 [A1 [B1 C1]]].
    destruct (set_dispatch_get_ds _ _ _ _ _ H2) as [q2 [A2 [B2 C2]]].
    rewrite C1, C2. eapply C; try eassumption. congruence.
  Qed.

  Lemma set_dispatch_ext : forall (s : state) d e, ds_ext s (set_dispatch s d e).
  Proof.
    intros s d e d' rc' H. unfold set_dispatch.
    destruct (get_ds s d) as [rc|] eqn:Hd; [|exists rc'; repeat split; exact H].
    destruct (get_ovl s (d_ovl rc)); [|exists rc'; repeat split; exact H].
    unfold get_ds. simpl. rewrite assoc_upd. destruct (N.eqb d' d) eqn:E.
    - apply N.eqb_eq in E. subst. rewrite Hd in H. inversion H. subst. eexists. repeat split.
    - exists rc'. repeat split. exact H.
  Qed.

  Lemma new_ds_ext : forall (s : state) d e dflt cb, has_key d (st_ds s) = false -> ds_ext s (new_ds s d e dflt cb).
  Proof.
    intros s d e dflt cb K d' rc' H. rewrite new_ds_get_ds. destruct (N.eqb d' d) eqn:E.
    - apply N.eqb_eq in E. subst. apply has_key_false in K. unfold get_ds in H. congruence.
    - exists rc'. repeat split. exact H.
  Qed.

  Lemma ds_ext_trans : forall a b c, ds_ext a b -> ds_ext b c -> ds_ext a c.
  Proof.
    intros a b c X Y d rc H. destruct (X d rc H) as [rc1 [A [B C]]].
    destruct (Y d rc1 A) as [rc2 [A' [B' C']]]. exists rc2. split; [exact A'|]. split; congruence.
  Qed.

  (** members being added: fresh identifiers stay fresh w.r.t. what was there before *)
  Lemma add_members_inv : forall ms s e,
    wf s -> cbc s -> nodupN (map (fun m => mk_id (snd m)) ms) = true ->
    (forall m, In m ms -> is_new (snd m) = true -> has_key (mk_id (snd m)) (st_ds s) = false) ->
    cbc (add_members s e ms) /\ ds_ext s (add_members s e ms) /\
    st_cache (add_members s e ms) = st_cache s /\ st_trace (add_members s e ms) = st_trace s.
  Proof.
    induction ms as [|m ms IH]; intros s e W C ND F.
    - split; [exact C|]. split; [apply ds_ext_refl|]. split; reflexivity.
    - simpl in ND. apply andb_true_iff in ND. destruct ND as [ND1 ND2]. apply negb_true_iff in ND1.
      assert (Hstep : cbc (add_member s e (snd m)) /\ ds_ext s (add_member s e (snd m)) /\
                      st_cache (add_member s e (snd m)) = st_cache s /\
                      st_trace (add_member s e (snd m)) = st_trace s).
      { destruct (snd m) as [d0|d0 g|d0] eqn:Em; unfold add_member.
        - split; [apply new_ds_cbc; assumption|]. split; [|split; reflexivity].
          apply new_ds_ext. specialize (F m (or_introl eq_refl)). rewrite Em in F. apply F. reflexivity.
        - split; [apply new_ds_cbc; assumption|]. split; [|split; reflexivity].
          apply new_ds_ext. specialize (F m (or_introl eq_refl)). rewrite Em in F. apply F. reflexivity.
        - split; [apply set_dispatch_cbc; assumption|]. split; [apply set_dispatch_ext|].
          unfold set_dispatch. destruct (get_ds s d0) as [rc|]; [|split; reflexivity].
          destruct (get_ovl s (d_ovl rc)); split; reflexivity. }
      destruct Hstep as [C1 [X1 [Ec1 Et1]]].
      destruct (IH (add_member s e (snd m)) e) as [C2 [X2 [Ec2 Et2]]].
      + apply add_member_wf. exact W.
      + exact C1.
      + exact ND2.
      + intros m' Hin Hnew.
        assert (Hne : mk_id (snd m') <> mk_id (snd m)).
        { intro E. assert (Hm : memN (mk_id (snd m)) (map (fun m0 => mk_id (snd m0)) ms) = true).
          { apply memN_In. apply in_map_iff. exists m'. split; [exact E | exact Hin]. }
          congruence. }
        specialize (F m' (or_intror Hin) Hnew).
        destruct (snd m) as [d0|d0 g|d0]; unfold add_member; simpl in Hne.
        * rewrite new_ds_has_key, F. apply N.eqb_neq in Hne. rewrite Hne. reflexivity.
        * rewrite new_ds_has_key, F. apply N.eqb_neq in Hne. rewrite Hne. reflexivity.
        * rewrite set_dispatch_has_key. exact F.
      + simpl. fold (add_members (add_member s e (snd m)) e ms).
        split; [exact C2|]. split; [eapply ds_ext_trans; eassumption|]. split; congruence.
  Qed.

  (** ** every operation keeps the invariants *)
  Definition inv (s : state) : Prop := wf s /\ cbc s /\ tinv s.

  Lemma inv_empty : inv (@empty_state V).
  Proof. split; [apply wf_empty|]. split; [apply cbc_empty | apply tinv_empty]. Qed.

  Lemma step_inv : forall fuel x s ob s', inv s -> STEP cfg_now fuel x s = Some (ob, s') -> inv s'.
  Proof.
    intros fuel x s ob s' [W [C T]] H.
    split; [eapply step_wf; eassumption|].
    destruct x; unfold step in H.
    - destruct (has_key d (st_ds s)) eqn:K; inversion H; subst; [split; assumption|].
      split; [apply new_ds_cbc; assumption|].
      apply (tinv_frame s); try reflexivity; [apply new_ds_ext; exact K | exact T].
    - destruct (has_key d (st_ds s)); inversion H; subst; [|split; assumption].
      split; [apply (cbc_eq s); [apply register_ds | exact C]|].
      apply (tinv_frame s); [apply register_cache | apply register_trace | apply ds_ext_eq; apply register_ds | exact T].
    - destruct (negb (has_key d (st_ds s)) || has_key d' (st_ds s)) eqn:K; [inversion H; subst; split; assumption|].
      destruct (negb (has_dispatch s d)); inversion H; subst; [split; assumption|].
      apply orb_false_iff in K. destruct K as [_ K].
      rewrite register_all_regs.
      destruct (apply_regs_struct (map (fun a => (d, a, IDs d')) als) (new_ds s d' DMissing (Some (IFun g)) None))
        as [A [_ [_ [Ac At]]]].
      split; [apply (cbc_eq (new_ds s d' DMissing (Some (IFun g)) None)); [exact A | apply new_ds_cbc; assumption]|].
      apply (tinv_frame s); [rewrite Ac; reflexivity | rewrite At; reflexivity | | exact T].
      eapply ds_ext_trans; [apply new_ds_ext; exact K | apply ds_ext_eq; exact A].
    - destruct (negb (has_key d (st_ds s)) || negb (has_key d' (st_ds s))); [inversion H; subst; split; assumption|].
      destruct (negb (has_dispatch s d)); inversion H; subst; [split; assumption|].
      rewrite register_all_regs.
      destruct (apply_regs_struct (map (fun a => (d, a, IDs d')) als) s) as [A [_ [_ [Ac At]]]].
      split; [apply (cbc_eq s); assumption|].
      apply (tinv_frame s); [exact Ac | exact At | apply ds_ext_eq; exact A | exact T].
    - destruct (has_key d (st_ds s)); inversion H; subst; [|split; assumption].
      split; [apply set_dispatch_cbc; exact C|].
      apply (tinv_frame s); [| | apply set_dispatch_ext | exact T];
        unfold set_dispatch; destruct (get_ds s d) as [rc|]; try reflexivity;
        destruct (get_ovl s (d_ovl rc)); reflexivity.
    - destruct (get_ds s d) as [rc|] eqn:Hd; [|inversion H; subst; split; assumption].
      destruct (has_key d' (st_ds s)) eqn:K; inversion H; subst; [split; assumption|].
      split.
      + (* the derivative shares the cache AND keeps the callback (fix: 3f28b1e) *)
        intros d1 d2 r1 r2 H1 H2 Ec. unfold get_ds in H1, H2. simpl in H1, H2.
        rewrite assoc_upd in H1, H2.
        destruct (N.eqb d1 d'); destruct (N.eqb d2 d').
        * congruence.
        * inversion H1. subst. simpl in *. eapply C; eassumption.
        * inversion H2. subst. simpl in *. eapply C; eassumption.
        * eapply C; eassumption.
      + apply (tinv_frame s); try reflexivity; [|exact T].
        intros x rx Hx. exists rx. unfold get_ds. simpl. rewrite assoc_upd.
        destruct (N.eqb x d') eqn:E; [|repeat split; exact Hx].
        apply N.eqb_eq in E. subst. apply has_key_false in K. unfold get_ds in Hx. congruence.
    - destruct (EVAL fuel d o s) as [[[v|e] s1]|] eqn:E; inversion H; subst;
        (split; [apply (cbc_eq s); [apply (eval_struct _ _ _ _ _ _ E) | exact C] | eapply eval_tinv; eassumption]).
    - destruct (has_key i (st_if s) || negb (nodupN (map (fun m => mk_id (snd m)) ms))
                || negb (nodupN (map fst ms)) || negb (forallb (fun m => member_ok s (snd m)) ms)) eqn:K;
        inversion H; subst; [split; assumption|].
      apply orb_false_iff in K. destruct K as [K K4]. apply orb_false_iff in K. destruct K as [K K3].
      apply orb_false_iff in K. destruct K as [K1 K2].
      apply negb_false_iff in K2. apply negb_false_iff in K4. rewrite forallb_forall in K4.
      destruct (add_members_inv ms s e W C K2) as [C2 [X2 [Ec2 Et2]]].
      { intros m Hin Hnew. specialize (K4 m Hin). destruct (snd m); simpl in *; try discriminate;
          apply negb_true_iff in K4; exact K4. }
      split; [apply (cbc_eq (add_members s e ms)); [reflexivity | exact C2]|].
      apply (tinv_frame s); [exact Ec2 | exact Et2 | | exact T].
      eapply ds_ext_trans; [exact X2 | apply ds_ext_eq; reflexivity].
    - destruct (negb (forallb (fun i => has_key i (st_if s)) ifs)); [inversion H; subst; split; assumption|].
      destruct (implement s ifs als prov) as [s1|] eqn:E; inversion H; subst; [|split; assumption].
      rewrite (implement_regs _ _ _ _ _ E).
      destruct (apply_regs_struct (regs_of (members_of s ifs) als prov) s) as [A [_ [_ [Ac At]]]].
      split; [apply (cbc_eq s); assumption|].
      apply (tinv_frame s); [exact Ac | exact At | apply ds_ext_eq; exact A | exact T].
  Qed.

  Lemma run_inv : forall fuel h s obs s', inv s -> RUN cfg_now fuel h s = Some (obs, s') -> inv s'.
  Proof.
    intros fuel h. induction h as [|x h IH]; intros s obs s' I H.
    - inversion H. subst. exact I.
    - apply run_cons in H. destruct H as [ob [s1 [obs' [H1 [H2 _]]]]].
      apply (IH s1 obs' s'); [eapply step_inv; eassumption | exact H2].
  Qed.

  (** * No cross-dispatch; the callback on every value *)

  Lemma hits_explained_split : forall l1 e l2,
    hits_explained (l1 ++ e :: l2) -> e_hit e = true -> exists e1, In e1 l2 /\ explains e1 e.
  Proof.
    induction l1 as [|x l1 IH]; intros e l2 H Hh; simpl in H.
    - destruct H as [H _]. apply H. exact Hh.
    - destruct H as [_ H]. apply IH; assumption.
  Qed.

  Lemma Forall_In : forall A (P : A -> Prop) l x, Forall P l -> In x l -> P x.
  Proof. intros A P l x H. rewrite Forall_forall in H. apply H. Qed.

  (** In every history from the empty state: a value served from a cache was stored by an earlier
      evaluation under the same fingerprint, and — same dispatch expression, outside the D19 zone —
      that evaluation had the same dispatch outcome (the same alias, or both undeterminable). *)
  Theorem no_cross_dispatch_history : forall fuel h obs s,
    RUN cfg_now fuel h (@empty_state V) = Some (obs, s) ->
    forall l1 e2 l2, st_trace s = l1 ++ e2 :: l2 -> e_hit e2 = true ->
      exists e1, In e1 l2 /\ explains e1 e2 /\
        (e_disp e1 = e_disp e2 -> dispatch_safe (e_disp e2) = true ->
         dres_same (e_dres e1) (e_dres e2)).
  Proof.
    intros fuel h obs s H l1 e2 l2 Et Hh.
    destruct (run_inv fuel h _ obs s inv_empty H) as [_ [_ [T1 [_ [_ T4]]]]].
    rewrite Et in T4. destruct (hits_explained_split l1 e2 l2 T4 Hh) as [e1 [Hin Hex]].
    exists e1. split; [exact Hin|]. split; [exact Hex|]. intros Ed Hsafe.
    assert (O1 : ev_ok e1) by (apply (Forall_In _ _ _ _ T1); rewrite Et; apply in_or_app; right; right; exact Hin).
    assert (O2 : ev_ok e2) by (apply (Forall_In _ _ _ _ T1); rewrite Et; apply in_or_app; right; left; reflexivity).
    destruct O1 as [F1 [D1 K1]]. destruct O2 as [F2 [D2 K2]].
    destruct Hex as [_ [_ [Ef _]]]. rewrite D1, D2, Ed.
    apply (fp_determines_dispatch (e_disp e2) (e_opts e1) (e_opts e2) (e_keys e1) (e_keys e2) (e_fp e2) Hsafe).
    - rewrite <- Ef. exact F1.
    - exact F2.
    - intros a Ha. rewrite <- Ed. apply (K1 a). rewrite D1, Ed. exact Ha.
    - intros a Ha. apply (K2 a). rewrite D2. exact Ha.
  Qed.

  (** Every value an evaluation ever returned — computed or served — is its dataset's callback
      applied to the raw result of an implementation. *)
  Theorem callback_on_every_value : forall fuel h obs s,
    RUN cfg_now fuel h (@empty_state V) = Some (obs, s) ->
    forall e, In e (st_trace s) ->
      exists rc w, get_ds s (e_ds e) = Some rc /\ e_val e = CB (d_cb rc) w.
  Proof.
    intros fuel h obs s H e Hin.
    destruct (run_inv fuel h _ obs s inv_empty H) as [_ [C [_ [T2 [_ T4]]]]].
    destruct (Forall_In _ _ _ _ T2 Hin) as [rc [A [B Cc]]].
    exists rc. destruct (e_hit e) eqn:Hh.
    - apply in_split in Hin. destruct Hin as [l1 [l2 Et]]. rewrite Et in T4.
      destruct (hits_explained_split l1 e l2 T4 Hh) as [e1 [Hin1 [X1 [X2 [X3 X4]]]]].
      assert (Hin1' : In e1 (st_trace s)) by (rewrite Et; apply in_or_app; right; right; exact Hin1).
      destruct (Forall_In _ _ _ _ T2 Hin1') as [rc1 [A1 [B1 C1]]].
      destruct (C1 X1) as [w [_ Ew]]. exists w. split; [exact A|].
      rewrite <- X4, Ew. f_equal. apply (C _ _ _ _ A1 A). congruence.
    - destruct (Cc eq_refl) as [w [_ Ew]]. exists w. split; assumption.
  Qed.

  (** ** from observations to history records *)

  Lemma eval_trace_mono : forall f d o s r s', EVAL f d o s = Some (r, s') ->
    exists l, st_trace s' = l ++ st_trace s.
  Proof.
    induction f as [|f IH]; intros d o s r s' H; [discriminate|].
    assert (IR : forall i o0 r0 s1, impl_run f i o0 s = Some (r0, s1) -> exists l, st_trace s1 = l ++ st_trace s).
    { intros i o0 r0 s1 Hi. destruct i as [g|d']; simpl in Hi.
      - inversion Hi. subst. exists []. reflexivity.
      - eapply IH. eassumption. }
    apply eval_inv in H. ecases H; try (exists []; reflexivity).
    - eexists [_]. reflexivity.
    - apply (IR _ _ _ _ Hi).
    - destruct (IR _ _ _ _ Hi) as [l El]. exists (mkev d rc ov (overlay (d_preset rc) o) ks fpr false (Some x) (CB (d_cb rc) x) :: l).
      simpl. rewrite El. reflexivity.
  Qed.

  Lemma eval_logs : forall f d o s v s', EVAL f d o s = Some (RVal v, s') ->
    exists e l, st_trace s' = e :: l /\ e_ds e = d /\ e_val e = v.
  Proof.
    intros f d o s v s' H. destruct f as [|f]; [discriminate|].
    apply eval_inv in H. inversion H; subst; eexists; eexists; (split; [reflexivity|]); split; reflexivity.
  Qed.

  Lemma step_trace_mono : forall fuel x s ob s', STEP cfg_now fuel x s = Some (ob, s') ->
    exists l, st_trace s' = l ++ st_trace s.
  Proof.
    intros fuel x s ob s' H. destruct x; unfold step in H.
    - destruct (has_key d (st_ds s)); inversion H; subst; exists []; reflexivity.
    - destruct (has_key d (st_ds s)); inversion H; subst; exists []; [rewrite register_trace|]; reflexivity.
    - destruct (negb (has_key d (st_ds s)) || has_key d' (st_ds s)); [inversion H; subst; exists []; reflexivity|].
      destruct (negb (has_dispatch s d)); inversion H; subst; exists []; [reflexivity|].
      rewrite register_all_regs.
      destruct (apply_regs_struct (map (fun a => (d, a, IDs d')) als) (new_ds s d' DMissing (Some (IFun g)) None))
        as [_ [_ [_ [_ At]]]]. rewrite At. reflexivity.
    - destruct (negb (has_key d (st_ds s)) || negb (has_key d' (st_ds s))); [inversion H; subst; exists []; reflexivity|].
      destruct (negb (has_dispatch s d)); inversion H; subst; exists []; [reflexivity|].
      rewrite register_all_regs.
      destruct (apply_regs_struct (map (fun a => (d, a, IDs d')) als) s) as [_ [_ [_ [_ At]]]]. rewrite At. reflexivity.
    - destruct (has_key d (st_ds s)); inversion H; subst; exists []; [|reflexivity].
      unfold set_dispatch. destruct (get_ds s d) as [rc|]; [|reflexivity].
      destruct (get_ovl s (d_ovl rc)); reflexivity.
    - destruct (get_ds s d) as [rc|]; [|inversion H; subst; exists []; reflexivity].
      destruct (has_key d' (st_ds s)); inversion H; subst; exists []; reflexivity.
    - destruct (EVAL fuel d o s) as [[[v|e] s1]|] eqn:E; inversion H; subst; eapply eval_trace_mono; eassumption.
    - destruct (has_key i (st_if s) || negb (nodupN (map (fun m => mk_id (snd m)) ms))
                || negb (nodupN (map fst ms)) || negb (forallb (fun m => member_ok s (snd m)) ms)) eqn:K;
        inversion H; subst; exists []; [reflexivity|].
      simpl. clear H K. revert s. induction ms as [|m ms IH]; intro s; [reflexivity|].
      simpl. rewrite IH. destruct (snd m) as [d0|d0 g|d0]; unfold add_member; try reflexivity.
      unfold set_dispatch. destruct (get_ds s d0) as [rc|]; [|reflexivity].
      destruct (get_ovl s (d_ovl rc)); reflexivity.
    - destruct (negb (forallb (fun i => has_key i (st_if s)) ifs)); [inversion H; subst; exists []; reflexivity|].
      destruct (implement s ifs als prov) as [s1|] eqn:E; inversion H; subst; exists []; [|reflexivity].
      rewrite (implement_regs _ _ _ _ _ E).
      destruct (apply_regs_struct (regs_of (members_of s ifs) als prov) s) as [_ [_ [_ [_ At]]]]. rewrite At. reflexivity.
  Qed.

  Lemma run_trace_mono : forall fuel h s obs s', RUN cfg_now fuel h s = Some (obs, s') ->
    exists l, st_trace s' = l ++ st_trace s.
  Proof.
    intros fuel h. induction h as [|x h IH]; intros s obs s' H.
    - inversion H. subst. exists []. reflexivity.
    - apply run_cons in H. destruct H as [ob [s1 [obs' [H1 [H2 _]]]]].
      destruct (step_trace_mono _ _ _ _ _ H1) as [l1 E1]. destruct (IH _ _ _ H2) as [l2 E2].
      exists (l2 ++ l1). rewrite E2, E1. apply app_assoc.
  Qed.

  (** The same statement in terms of what the history's evaluations returned. *)
  Theorem callback_on_every_observation : forall fuel h obs s n d o v hit,
    RUN cfg_now fuel h (@empty_state V) = Some (obs, s) ->
    nth_error h n = Some (OEval d o) -> nth_error obs n = Some (ObVal v hit) ->
    exists rc w, get_ds s d = Some rc /\ v = CB (d_cb rc) w.
  Proof.
    intros fuel h obs s n d o v hit H Hn Ho.
    destruct (nth_error_split h n Hn) as [h1 [h2 [Eh Ln]]]. subst h.
    pose proof H as H0.
    apply run_app in H. destruct H as [obs1 [s0 [obs2 [H1 [H2 [E L]]]]]].
    apply run_cons in H2. destruct H2 as [ob [s1 [obs' [H3 [H4 E2]]]]].
    subst obs obs2. rewrite nth_error_app2 in Ho; [|lia]. rewrite L, Ln, Nat.sub_diag in Ho.
    simpl in Ho. inversion Ho. subst ob.
    unfold step in H3. destruct (EVAL fuel d o s0) as [[[v'|e'] s1']|] eqn:E; inversion H3; subst.
    destruct (eval_logs _ _ _ _ _ _ E) as [e [l [Et [Ed Ev]]]].
    destruct (run_trace_mono _ _ _ _ _ H4) as [l' El].
    assert (Hin : In e (st_trace s)) by (rewrite El, Et; apply in_or_app; right; left; reflexivity).
    destruct (callback_on_every_value fuel _ _ s H0 e Hin) as [rc [w [A B]]].
    exists rc, w. rewrite <- Ed, <- Ev. split; assumption.
  Qed.

  (** * Interfaces *)

  (** every member of every interface carries the interface's dispatch expression *)
  Definition if_ok (s : state) : Prop :=
    forall i f n d, assoc i (st_if s) = Some f -> In (n, d) (if_members f) ->
      exists ov, ovl_of s d = Some ov /\ o_disp ov = if_disp f.

  Definition is_member (s : state) (d : N) : bool :=
    existsb (fun p => existsb (fun nd => N.eqb (snd nd) d) (if_members (snd p))) (st_if s).

  (** the operation does not re-dispatch an interface member behind the interface's back
      (member.set_dispatch(...), or adopting a member into a second interface) *)
  Definition op_keeps (s : state) (x : op) : bool :=
    match x with
    | OSetDispatch d _ => negb (is_member s d)
    | OInterface _ _ ms =>
        forallb (fun m => match snd m with MExisting d => negb (is_member s d) | _ => true end) ms
    | _ => true
    end.

  Fixpoint keeps (fuel : nat) (h : list op) (s : state) : bool :=
    match h with
    | [] => true
    | x :: h' =>
        op_keeps s x &&
        match STEP cfg_now fuel x s with Some (_, s1) => keeps fuel h' s1 | None => true end
    end.

  Lemma is_member_true : forall s i f n d,
    assoc i (st_if s) = Some f -> In (n, d) (if_members f) -> is_member s d = true.
  Proof.
    intros s i f n d A Hin. unfold is_member. apply existsb_exists. exists (i, f).
    split; [apply assoc_In; exact A|]. simpl. apply existsb_exists. exists (n, d).
    split; [exact Hin | apply N.eqb_refl].
  Qed.

  Lemma ovl_of_has_key : forall (s : state) d ov, ovl_of s d = Some ov -> has_key d (st_ds s) = true.
  Proof.
    intros s d ov H. unfold ovl_of in H. destruct (get_ds s d) as [rc|] eqn:E; [|discriminate].
    apply has_key_true. exists rc. exact E.
  Qed.

  Lemma apply_regs_disp : forall l s d ov, wf s -> ovl_of s d = Some ov ->
    exists ov', ovl_of (apply_regs s l) d = Some ov' /\ o_disp ov' = o_disp ov /\ o_default ov' = o_default ov.
  Proof.
    induction l as [|[[d0 a0] i] l IH]; intros s d ov W H.
    - exists ov. repeat split. exact H.
    - rewrite apply_regs_cons.
      pose proof (register_ovl_of s d0 a0 i d W) as R. rewrite H in R.
      destruct (IH _ d _ (register_wf s d0 a0 i W) R) as [ov' [A [B C]]].
      exists ov'. split; [exact A|]. destruct (same_ovl s d0 d); simpl in B, C; split; assumption.
  Qed.

  Lemma add_members_if : forall ms (s : state) e, st_if (add_members s e ms) = st_if s.
  Proof.
    induction ms as [|m ms IH]; intros s e; [reflexivity|]. simpl.
    fold (add_members (add_member s e (snd m)) e ms). rewrite IH.
    destruct (snd m) as [d0|d0 g|d0]; unfold add_member; try reflexivity.
    unfold set_dispatch. destruct (get_ds s d0) as [rc|]; [|reflexivity].
    destruct (get_ovl s (d_ovl rc)); reflexivity.
  Qed.

  Lemma add_member_other : forall s e m d0, wf s -> mk_id m <> d0 ->
    ovl_of (add_member s e m) d0 = ovl_of s d0.
  Proof.
    intros s e m d0 W Hne. destruct m as [d1|d1 g|d1]; unfold add_member; simpl in Hne.
    - apply new_ds_ovl_of_other; [exact W | intro E; apply Hne; symmetry; exact E].
    - apply new_ds_ovl_of_other; [exact W | intro E; apply Hne; symmetry; exact E].
    - apply set_dispatch_ovl_of_other; [exact W | intro E; apply Hne; symmetry; exact E].
  Qed.

  Lemma add_members_other : forall ms s e d0, wf s ->
    (forall m, In m ms -> mk_id (snd m) <> d0) ->
    ovl_of (add_members s e ms) d0 = ovl_of s d0.
  Proof.
    induction ms as [|m ms IH]; intros s e d0 W H; [reflexivity|]. simpl.
    fold (add_members (add_member s e (snd m)) e ms).
    rewrite IH; [| apply add_member_wf; exact W | intros m' Hin; apply H; right; exact Hin].
    apply add_member_other; [exact W | apply H; left; reflexivity].
  Qed.

  Lemma add_member_disp : forall s e m, wf s ->
    (is_new m = false -> has_key (mk_id m) (st_ds s) = true) ->
    exists ov, ovl_of (add_member s e m) (mk_id m) = Some ov /\ o_disp ov = e.
  Proof.
    intros s e m W H. destruct m as [d1|d1 g|d1]; unfold add_member; simpl.
    - rewrite new_ds_ovl_of_same. eexists. split; reflexivity.
    - rewrite new_ds_ovl_of_same. eexists. split; reflexivity.
    - specialize (H eq_refl). simpl in H. apply has_key_true in H. destruct H as [rc Hrc].
      destruct (W d1 rc Hrc) as [_ [_ [ov Hov]]].
      rewrite (set_dispatch_ovl_of_same s d1 e rc ov Hrc Hov). eexists. split; reflexivity.
  Qed.

  Lemma add_members_disp : forall ms s e, wf s ->
    nodupN (map (fun m => mk_id (snd m)) ms) = true ->
    (forall m, In m ms -> is_new (snd m) = false -> has_key (mk_id (snd m)) (st_ds s) = true) ->
    forall m, In m ms -> exists ov, ovl_of (add_members s e ms) (mk_id (snd m)) = Some ov /\ o_disp ov = e.
  Proof.
    induction ms as [|m0 ms IH]; intros s e W ND Hex m Hin; [destruct Hin|].
    simpl in ND. apply andb_true_iff in ND. destruct ND as [ND1 ND2]. apply negb_true_iff in ND1.
    simpl. fold (add_members (add_member s e (snd m0)) e ms).
    destruct Hin as [E|Hin].
    - subst m0. rewrite add_members_other.
      + apply add_member_disp; [exact W | apply Hex; left; reflexivity].
      + apply add_member_wf. exact W.
      + intros m' Hin' E. assert (X : memN (mk_id (snd m)) (map (fun m1 => mk_id (snd m1)) ms) = true).
        { apply memN_In. apply in_map_iff. exists m'. split; [exact E | exact Hin']. }
        congruence.
    - apply IH; [apply add_member_wf; exact W | exact ND2 | | exact Hin].
      intros m' Hin' Hn. apply add_member_has_key. apply Hex; [right; exact Hin' | exact Hn].
  Qed.

  Lemma step_if_ok : forall fuel x s ob s',
    wf s -> if_ok s -> op_keeps s x = true -> STEP cfg_now fuel x s = Some (ob, s') -> if_ok s'.
  Proof.
    intros fuel x s ob s' W I K H. destruct x; unfold step in H; simpl in K.
    - destruct (has_key d (st_ds s)) eqn:Hd; inversion H; subst; [exact I|].
      intros i f n d0 A Hin. destruct (I i f n d0 A Hin) as [ov [B C]]. exists ov. split; [|exact C].
      rewrite new_ds_ovl_of_other; [exact B | exact W |].
      intro E. subst. apply ovl_of_has_key in B. congruence.
    - destruct (has_key d (st_ds s)); inversion H; subst; [|exact I].
      intros i0 f n d0 A Hin. rewrite register_if in A. destruct (I i0 f n d0 A Hin) as [ov [B C]].
      rewrite (register_ovl_of s d a i d0 W), B. eexists. split; [reflexivity|].
      destruct (same_ovl s d d0); exact C.
    - destruct (negb (has_key d (st_ds s)) || has_key d' (st_ds s)) eqn:Hk; [inversion H; subst; exact I|].
      destruct (negb (has_dispatch s d)); inversion H; subst; [exact I|].
      apply orb_false_iff in Hk. destruct Hk as [_ Hk].
      rewrite register_all_regs. intros i f n d0 A Hin.
      destruct (apply_regs_struct (map (fun a => (d, a, IDs d')) als) (new_ds s d' DMissing (Some (IFun g)) None))
        as [_ [_ [Ai _]]]. rewrite Ai in A.
      destruct (I i f n d0 A Hin) as [ov [B C]].
      assert (B' : ovl_of (new_ds s d' DMissing (Some (IFun g)) None) d0 = Some ov).
      { rewrite new_ds_ovl_of_other; [exact B | exact W |]. intro E. subst. apply ovl_of_has_key in B. congruence. }
      destruct (apply_regs_disp (map (fun a => (d, a, IDs d')) als) _ d0 ov (new_ds_wf _ _ _ _ _ W) B') as [ov' [X [Y _]]].
      exists ov'. split; [exact X | congruence].
    - destruct (negb (has_key d (st_ds s)) || negb (has_key d' (st_ds s))); [inversion H; subst; exact I|].
      destruct (negb (has_dispatch s d)); inversion H; subst; [exact I|].
      rewrite register_all_regs. intros i f n d0 A Hin.
      destruct (apply_regs_struct (map (fun a => (d, a, IDs d')) als) s) as [_ [_ [Ai _]]]. rewrite Ai in A.
      destruct (I i f n d0 A Hin) as [ov [B C]].
      destruct (apply_regs_disp (map (fun a => (d, a, IDs d')) als) _ d0 ov W B) as [ov' [X [Y _]]].
      exists ov'. split; [exact X | congruence].
    - destruct (has_key d (st_ds s)); inversion H; subst; [|exact I].
      intros i f n d0 A Hin.
      assert (A' : assoc i (st_if s) = Some f).
      { unfold set_dispatch in A. destruct (get_ds s d) as [rc|]; [|exact A].
        destruct (get_ovl s (d_ovl rc)); exact A. }
      destruct (I i f n d0 A' Hin) as [ov [B C]]. exists ov. split; [|exact C].
      rewrite set_dispatch_ovl_of_other; [exact B | exact W |].
      intro E. subst. rewrite (is_member_true s i f n d A' Hin) in K. discriminate.
    - destruct (get_ds s d) as [rc|] eqn:Hd; [|inversion H; subst; exact I].
      destruct (has_key d' (st_ds s)) eqn:Hk; inversion H; subst; [exact I|].
      intros i f n d0 A Hin. destruct (I i f n d0 A Hin) as [ov [B C]]. exists ov. split; [|exact C].
      unfold ovl_of, get_ds. simpl. rewrite assoc_upd. destruct (N.eqb d0 d') eqn:E; [|exact B].
      apply N.eqb_eq in E. subst. apply ovl_of_has_key in B. congruence.
    - destruct (EVAL fuel d o s) as [[[v|e] s1]|] eqn:E; inversion H; subst;
        apply eval_struct in E; intros i f n d0 A Hin;
        (destruct E as [E1 [E2 [E3 E4]]]; rewrite E3 in A; destruct (I i f n d0 A Hin) as [ov [B C]];
         exists ov; split; [|exact C];
         rewrite (same_struct_ovl_of s s'); [exact B | repeat split; assumption]).
    - destruct (has_key i (st_if s) || negb (nodupN (map (fun m => mk_id (snd m)) ms))
                || negb (nodupN (map fst ms)) || negb (forallb (fun m => member_ok s (snd m)) ms)) eqn:Hk;
        inversion H; subst; [exact I|].
      apply orb_false_iff in Hk. destruct Hk as [Hk K4]. apply orb_false_iff in Hk. destruct Hk as [Hk K3].
      apply orb_false_iff in Hk. destruct Hk as [K1 K2].
      apply negb_false_iff in K2. apply negb_false_iff in K4. rewrite forallb_forall in K4.
      rewrite forallb_forall in K.
      fold (add_members s e ms).
      intros i0 f n d0 A Hin. simpl in A. rewrite assoc_upd in A.
      change (exists ov, ovl_of (add_members s e ms) d0 = Some ov /\ o_disp ov = if_disp f).
      destruct (N.eqb i0 i) eqn:Ei.
      + inversion A. subst f. simpl in *. apply in_map_iff in Hin. destruct Hin as [m [Em Hm]].
        inversion Em. subst.
        apply (add_members_disp ms s e W K2); [|exact Hm].
        intros m' Hin' Hn. specialize (K4 m' Hin'). destruct (snd m'); simpl in *; try discriminate. exact K4.
      + rewrite add_members_if in A. destruct (I i0 f n d0 A Hin) as [ov [B C]].
        exists ov. split; [|exact C]. rewrite add_members_other; [exact B | exact W |].
        intros m Hm E. subst d0. specialize (K4 m Hm). specialize (K m Hm).
        destruct (snd m) as [d1|d1 g|d1]; simpl in *.
        * apply ovl_of_has_key in B. apply negb_true_iff in K4. congruence.
        * apply ovl_of_has_key in B. apply negb_true_iff in K4. congruence.
        * rewrite (is_member_true s i0 f n d1 A Hin) in K. discriminate.
    - destruct (negb (forallb (fun i => has_key i (st_if s)) ifs)); [inversion H; subst; exact I|].
      destruct (implement s ifs als prov) as [s1|] eqn:E; inversion H; subst; [|exact I].
      rewrite (implement_regs _ _ _ _ _ E). intros i f n d0 A Hin.
      destruct (apply_regs_struct (regs_of (members_of s ifs) als prov) s) as [_ [_ [Ai _]]]. rewrite Ai in A.
      destruct (I i f n d0 A Hin) as [ov [B C]].
      destruct (apply_regs_disp (regs_of (members_of s ifs) als prov) _ d0 ov W B) as [ov' [X [Y _]]].
      exists ov'. split; [exact X | congruence].
  Qed.

  Lemma run_if_ok : forall fuel h s obs s',
    wf s -> if_ok s -> keeps fuel h s = true -> RUN cfg_now fuel h s = Some (obs, s') -> if_ok s'.
  Proof.
    intros fuel h. induction h as [|x h IH]; intros s obs s' W I K H.
    - inversion H. subst. exact I.
    - apply run_cons in H. destruct H as [ob [s1 [obs' [H1 [H2 _]]]]].
      simpl in K. apply andb_true_iff in K. destruct K as [K1 K2]. rewrite H1 in K2.
      apply (IH s1 obs' s'); [eapply step_wf; eassumption | eapply step_if_ok; eassumption | exact K2 | exact H2].
  Qed.

  (** Under one options dictionary all members of an interface see the same dispatch value. *)
  Theorem interface_consistent : forall fuel h obs s,
    RUN cfg_now fuel h (@empty_state V) = Some (obs, s) -> keeps fuel h (@empty_state V) = true ->
    forall i f n1 d1 n2 d2, assoc i (st_if s) = Some f ->
      In (n1, d1) (if_members f) -> In (n2, d2) (if_members f) ->
      exists ov1 ov2, ovl_of s d1 = Some ov1 /\ ovl_of s d2 = Some ov2 /\
        o_disp ov1 = if_disp f /\ o_disp ov2 = if_disp f /\
        forall o, deval (o_disp ov1) o = deval (o_disp ov2) o.
  Proof.
    intros fuel h obs s H K i f n1 d1 n2 d2 A H1 H2.
    assert (I : if_ok s).
    { apply (run_if_ok fuel h _ obs s wf_empty); [|exact K | exact H].
      intros i0 f0 n d A0. discriminate. }
    destruct (I i f n1 d1 A H1) as [ov1 [B1 C1]]. destruct (I i f n2 d2 A H2) as [ov2 [B2 C2]].
    exists ov1, ov2. repeat split; try assumption. intro o. rewrite C1, C2. reflexivity.
  Qed.

  (** A member without an override for the current alias uses its (the interface's) default;
      an abstract one fails. *)
  Theorem member_without_override : forall ov o a,
    deval (o_disp ov) o = DVal a -> assoc a (o_table ov) = None -> pick ov o = o_default ov.
  Proof. intros ov o a H1 H2. unfold pick. rewrite H1, H2. reflexivity. Qed.

  (** * Interface implementations: all or nothing *)

  (** ** what [_get_members] collects *)
  Definition getl (n : N) (m : list (N * list N)) : list N :=
    match assoc n m with Some l => l | None => [] end.
  Definition collect (n : N) (l : list (N * N)) : list N :=
    map snd (filter (fun nd => N.eqb (fst nd) n) l).

  Lemma getl_push : forall n m nd,
    getl n (push_member m nd) = if N.eqb (fst nd) n then getl n m ++ [snd nd] else getl n m.
  Proof.
    intros n m [n' d]. unfold push_member, getl. simpl. rewrite assoc_upd. rewrite (N.eqb_sym n' n).
    destruct (N.eqb n n') eqn:E; [|reflexivity]. apply N.eqb_eq in E. subst.
    destruct (assoc n' m); reflexivity.
  Qed.

  Lemma getl_push_all : forall l n m, getl n (fold_left push_member l m) = getl n m ++ collect n l.
  Proof.
    induction l as [|nd l IH]; intros n m; simpl.
    - unfold collect. simpl. rewrite app_nil_r. reflexivity.
    - rewrite IH, getl_push. unfold collect. simpl. destruct (N.eqb (fst nd) n); simpl.
      + rewrite <- app_assoc. reflexivity.
      + reflexivity.
  Qed.

  Lemma In_collect : forall n d l, In d (collect n l) <-> In (n, d) l.
  Proof.
    intros n d l. unfold collect. rewrite in_map_iff. split.
    - intros [[n' d'] [E H]]. simpl in E. subst. apply filter_In in H. destruct H as [H1 H2].
      simpl in H2. apply N.eqb_eq in H2. subst. exact H1.
    - intro H. exists (n, d). split; [reflexivity|]. apply filter_In. split; [exact H | apply N.eqb_refl].
  Qed.

  Lemma members_of_spec : forall (s : state) ifs n d,
    In d (getl n (members_of s ifs)) <->
    exists i f, In i ifs /\ assoc i (st_if s) = Some f /\ In (n, d) (if_members f).
  Proof.
    intros s ifs n d. unfold members_of.
    assert (G : forall l m, In d (getl n (fold_left (fun m i => match assoc i (st_if s) with
                          | Some f => fold_left push_member (if_members f) m
                          | None => m end) l m)) <->
                (In d (getl n m) \/ exists i f, In i l /\ assoc i (st_if s) = Some f /\ In (n, d) (if_members f))).
    { induction l as [|i l IH]; intro m; simpl.
      - split; [intro H; left; exact H | intros [H|[i [f [[] _]]]]; exact H].
      - rewrite IH. destruct (assoc i (st_if s)) as [f|] eqn:A.
        + rewrite getl_push_all, in_app_iff, In_collect. split.
          * intros [[H|H]|[i' [f' [H1 H2]]]].
            -- left. exact H.
            -- right. exists i, f. split; [left; reflexivity|]. split; assumption.
            -- right. exists i', f'. split; [right; exact H1 | exact H2].
          * intros [H|[i' [f' [[E|H1] [H2 H3]]]]].
            -- left. left. exact H.
            -- subst i'. rewrite A in H2. inversion H2. subst. left. right. exact H3.
            -- right. exists i', f'. split; [exact H1|]. split; assumption.
        + split.
          * intros [H|[i' [f' [H1 H2]]]]; [left; exact H|]. right. exists i', f'. split; [right; exact H1 | exact H2].
          * intros [H|[i' [f' [[E|H1] [H2 H3]]]]]; [left; exact H | subst; congruence |].
            right. exists i', f'. split; [exact H1|]. split; assumption. }
    rewrite G. unfold getl. simpl. split; [intros [[]|H]; exact H | intro H; right; exact H].
  Qed.

  (** keys of a list built by [upd] are unique *)
  Definition ukeys {A : Type} (l : list (N * A)) : Prop := NoDup (map fst l).

  Lemma upd_keys_In : forall A k (v : A) l x, In x (map fst (upd k v l)) <-> x = k \/ In x (map fst l).
  Proof.
    intros A k v l x. induction l as [|[k' v'] l IH]; simpl.
    - intuition.
    - destruct (N.eqb k k') eqn:E; simpl.
      + apply N.eqb_eq in E. subst. intuition.
      + rewrite IH. intuition.
  Qed.

  Lemma upd_ukeys : forall A k (v : A) l, ukeys l -> ukeys (upd k v l).
  Proof.
    intros A k v l. unfold ukeys. induction l as [|[k' v'] l IH]; simpl; intro H.
    - constructor; [intros []| constructor].
    - inversion H. subst. destruct (N.eqb k k') eqn:E; simpl.
      + apply N.eqb_eq in E. subst. constructor; assumption.
      + constructor; [|apply IH; assumption]. rewrite upd_keys_In. intros [X|X]; [|contradiction].
        subst. rewrite N.eqb_refl in E. discriminate.
  Qed.

  Lemma ukeys_assoc : forall A (l : list (N * A)) k v, ukeys l -> In (k, v) l -> assoc k l = Some v.
  Proof.
    intros A l k v. unfold ukeys. induction l as [|[k' v'] l IH]; simpl; intros U H; [destruct H|].
    inversion U. subst. destruct H as [H|H].
    - inversion H. subst. rewrite N.eqb_refl. reflexivity.
    - destruct (N.eqb k k') eqn:E; [|apply IH; assumption].
      apply N.eqb_eq in E. subst. exfalso. apply H2. apply in_map_iff. exists (k', v). split; [reflexivity | exact H].
  Qed.

  Lemma members_of_ukeys : forall (s : state) ifs, ukeys (members_of s ifs).
  Proof.
    intros s ifs. unfold members_of.
    assert (P : forall l m, ukeys m -> ukeys (fold_left push_member l m)).
    { induction l as [|[n d] l IH]; intros m U; [exact U|]. simpl. apply IH. apply upd_ukeys. exact U. }
    assert (G : forall l m, ukeys m -> ukeys (fold_left (fun m i => match assoc i (st_if s) with
                          | Some f => fold_left push_member (if_members f) m | None => m end) l m)).
    { induction l as [|i l IH]; intros m U; [exact U|]. simpl. apply IH.
      destruct (assoc i (st_if s)); [apply P; exact U | exact U]. }
    apply G. constructor.
  Qed.

  (** ** the registrations of an accepted implementation: exactly the provided members, under
      every alias, on every interface member of that name *)
  Lemma In_regs_of : forall ms als prov d a i,
    In (d, a, i) (regs_of ms als prov) <->
    exists n dl, In (n, dl) ms /\ assoc n prov = Some i /\ In d dl /\ In a als.
  Proof.
    intros ms als prov d a i. unfold regs_of. rewrite in_flat_map. split.
    - intros [[n dl] [H1 H2]]. destruct (assoc n prov) as [i'|] eqn:A; [|destruct H2].
      apply in_flat_map in H2. destruct H2 as [d' [H3 H4]]. apply in_map_iff in H4.
      destruct H4 as [a' [E H5]]. inversion E. subst. exists n, dl. repeat split; assumption.
    - intros [n [dl [H1 [H2 [H3 H4]]]]]. exists (n, dl). split; [exact H1|]. rewrite H2.
      apply in_flat_map. exists d. split; [exact H3|]. apply in_map_iff. exists a. split; [reflexivity | exact H4].
  Qed.

  Theorem implement_registers_exactly : forall (s : state) ifs als prov d a i,
    In (d, a, i) (regs_of (members_of s ifs) als prov) <->
    exists n, assoc n prov = Some i /\ In a als /\
      exists j f, In j ifs /\ assoc j (st_if s) = Some f /\ In (n, d) (if_members f).
  Proof.
    intros s ifs als prov d a i. rewrite In_regs_of. split.
    - intros [n [dl [H1 [H2 [H3 H4]]]]]. exists n. split; [exact H2|]. split; [exact H4|].
      apply members_of_spec. unfold getl.
      rewrite (ukeys_assoc _ _ _ _ (members_of_ukeys s ifs) H1). exact H3.
    - intros [n [H2 [H4 H5]]]. apply members_of_spec in H5. unfold getl in H5.
      destruct (assoc n (members_of s ifs)) as [dl|] eqn:A; [|destruct H5].
      exists n, dl. split; [apply assoc_In; exact A|]. repeat split; assumption.
  Qed.

  (** ** rejected: nothing changes; and exactly when the text says *)
  Theorem implement_rejected_nothing : forall fuel ifs als prov s s',
    STEP cfg_now fuel (OImplement ifs als prov) s = Some (ObRej, s') -> s' = s.
  Proof.
    intros fuel ifs als prov s s' H. unfold step in H.
    destruct (negb (forallb (fun i => has_key i (st_if s)) ifs)); [discriminate|]. simpl in H.
    destruct (implement s ifs als prov); inversion H. reflexivity.
  Qed.

  Definition nonempty_vals (m : list (N * list N)) : Prop := forall n dl, In (n, dl) m -> dl <> [].

  Lemma upd_In : forall A k (v : A) l x, In x (upd k v l) -> x = (k, v) \/ In x l.
  Proof.
    intros A k v l x. induction l as [|[k' v'] l IH]; simpl.
    - intros [H|[]]. left. symmetry. exact H.
    - destruct (N.eqb k k'); simpl.
      + intros [H|H]; [left; symmetry; exact H | right; right; exact H].
      + intros [H|H]; [right; left; exact H|]. destruct (IH H) as [X|X]; [left; exact X | right; right; exact X].
  Qed.

  Lemma members_of_nonempty : forall (s : state) ifs, nonempty_vals (members_of s ifs).
  Proof.
    intros s ifs. unfold members_of.
    assert (P : forall l m, nonempty_vals m -> nonempty_vals (fold_left push_member l m)).
    { induction l as [|[n d] l IH]; intros m U; [exact U|]. simpl. apply IH.
      intros n' dl H. apply upd_In in H. destruct H as [H|H]; [|eapply U; exact H].
      inversion H. destruct (assoc n m) as [l0|]; [destruct l0|]; discriminate. }
    assert (G : forall l m, nonempty_vals m -> nonempty_vals (fold_left (fun m i => match assoc i (st_if s) with
                          | Some f => fold_left push_member (if_members f) m | None => m end) l m)).
    { induction l as [|i l IH]; intros m U; [exact U|]. simpl. apply IH.
      destruct (assoc i (st_if s)); [apply P; exact U | exact U]. }
    apply G. intros n dl [].
  Qed.

  (** a name is a member name of the implemented interfaces iff some interface declares it *)
  Lemma member_name_iff : forall (s : state) ifs n,
    has_key n (members_of s ifs) = true <->
    exists j f d, In j ifs /\ assoc j (st_if s) = Some f /\ In (n, d) (if_members f).
  Proof.
    intros s ifs n. split.
    - intro H. apply has_key_true in H. destruct H as [dl A].
      pose proof (members_of_nonempty s ifs n dl (assoc_In _ _ _ _ A)) as NE.
      destruct dl as [|d dl]; [contradiction|].
      assert (X : In d (getl n (members_of s ifs))) by (unfold getl; rewrite A; left; reflexivity).
      apply members_of_spec in X. destruct X as [j [f X]]. exists j, f, d. exact X.
    - intros [j [f [d X]]].
      assert (Y : In d (getl n (members_of s ifs))) by (apply members_of_spec; exists j, f; exact X).
      unfold getl in Y. unfold has_key. destruct (assoc n (members_of s ifs)); [reflexivity | destruct Y].
  Qed.

  Theorem implement_rejected_iff : forall (s : state) ifs als prov,
    implement s ifs als prov = None <->
    (exists n i, In (n, i) prov /\ has_key n (members_of s ifs) = false) \/
    (exists n dl d, In (n, dl) (members_of s ifs) /\ In d dl /\ is_abstract s d = true /\ assoc n prov = None).
  Proof.
    intros s ifs als prov. unfold implement.
    destruct (forallb (fun p => has_key (fst p) (members_of s ifs)) prov) eqn:F; simpl.
    - destruct (existsb (fun m => existsb (is_abstract s) (snd m) && negb (has_key (fst m) prov)) (members_of s ifs)) eqn:X.
      + split; [intros _|reflexivity]. right. apply existsb_exists in X. destruct X as [[n dl] [H1 H2]].
        simpl in H2. apply andb_true_iff in H2. destruct H2 as [H2 H3]. apply existsb_exists in H2.
        destruct H2 as [d [H4 H5]]. apply negb_true_iff in H3. apply has_key_false in H3.
        exists n, dl, d. repeat split; assumption.
      + split; [discriminate|]. intros [[n [i [H1 H3]]]|[n [dl [d [H1 [H2 [H3 H4]]]]]]].
        * rewrite forallb_forall in F. specialize (F (n, i) H1). simpl in F. congruence.
        * exfalso. assert (Y : existsb (fun m => existsb (is_abstract s) (snd m) && negb (has_key (fst m) prov)) (members_of s ifs) = true).
          { apply existsb_exists. exists (n, dl). split; [exact H1|]. simpl. apply andb_true_iff. split.
            - apply existsb_exists. exists d. split; assumption.
            - apply negb_true_iff. apply has_key_false. exact H4. }
          congruence.
    - split; [intros _|reflexivity]. left.
      assert (Y : exists p, In p prov /\ has_key (fst p) (members_of s ifs) = false).
      { clear -F. induction prov as [|p prov IH]; simpl in F; [discriminate|].
        apply andb_false_iff in F. destruct F as [F|F].
        - exists p. split; [left; reflexivity | exact F].
        - destruct (IH F) as [q [A B]]. exists q. split; [right; exact A | exact B]. }
      destruct Y as [[n i] [H1 H2]]. exists n, i. split; assumption.
  Qed.

  (** ** accepted: the tables afterwards *)
  Theorem implement_accepted : forall fuel ifs als prov s s',
    wf s -> STEP cfg_now fuel (OImplement ifs als prov) s = Some (ObOk, s') ->
    let regs := regs_of (members_of s ifs) als prov in
    s' = apply_regs s regs /\
    forall d a, binding s' d a =
      match last_reg s d a regs None with Some i => Some i | None => binding s d a end.
  Proof.
    intros fuel ifs als prov s s' W H. unfold step in H.
    destruct (negb (forallb (fun i => has_key i (st_if s)) ifs)); [discriminate|]. simpl in H.
    destruct (implement s ifs als prov) as [s1|] eqn:E; inversion H. subst s1.
    pose proof (implement_regs _ _ _ _ _ E) as R. split; [exact R|].
    intros d a. rewrite R. apply apply_regs_binding. exact W.
  Qed.
End Sem.
