(** Proofs about Model/Dispatch.v (property C07). *)
From Coq Require Import List NArith Bool Lia PeanoNat.
Import ListNotations.
From LV Require Import Model.Dispatch.
Local Open Scope N_scope.

(** * Association lists *)

Lemma assoc_upd_same : forall A k (v : A) l, assoc k (upd k v l) = Some v.
Proof.
  intros A k v l. induction l as [|[k' v'] l IH]; simpl.
  - rewrite N.eqb_refl. reflexivity.
  - destruct (N.eqb k k') eqn:E; simpl.
    + rewrite N.eqb_refl. reflexivity.
    + rewrite E. exact IH.
Qed.

Lemma assoc_upd_other : forall A k k' (v : A) l, k' <> k -> assoc k' (upd k v l) = assoc k' l.
Proof.
  intros A k k' v l Hne. induction l as [|[k0 v0] l IH]; simpl.
  - destruct (N.eqb k' k) eqn:E; [apply N.eqb_eq in E; contradiction | reflexivity].
  - destruct (N.eqb k k0) eqn:E; simpl.
    + apply N.eqb_eq in E. subst k0.
      destruct (N.eqb k' k) eqn:E2; [apply N.eqb_eq in E2; contradiction | reflexivity].
    + destruct (N.eqb k' k0); [reflexivity | exact IH].
Qed.

Lemma assoc_upd : forall A k k' (v : A) l,
  assoc k' (upd k v l) = if N.eqb k' k then Some v else assoc k' l.
Proof.
  intros A k k' v l. destruct (N.eqb k' k) eqn:E.
  - apply N.eqb_eq in E. subst. apply assoc_upd_same.
  - apply N.eqb_neq in E. apply assoc_upd_other. exact E.
Qed.

Lemma has_key_upd : forall A k k' (v : A) l,
  has_key k' (upd k v l) = N.eqb k' k || has_key k' l.
Proof.
  intros A k k' v l. unfold has_key. rewrite assoc_upd. destruct (N.eqb k' k); reflexivity.
Qed.

Lemma has_key_true : forall A k (l : list (N * A)), has_key k l = true <-> exists v, assoc k l = Some v.
Proof.
  intros A k l. unfold has_key. destruct (assoc k l) as [v|]; split; intro H.
  - exists v. reflexivity.
  - reflexivity.
  - discriminate.
  - destruct H as [v H]. discriminate.
Qed.

Lemma has_key_false : forall A k (l : list (N * A)), has_key k l = false <-> assoc k l = None.
Proof.
  intros A k l. unfold has_key. destruct (assoc k l); split; intro H; try reflexivity; discriminate.
Qed.

Lemma assoc_app : forall A k (l1 l2 : list (N * A)),
  assoc k (l1 ++ l2) = match assoc k l1 with Some v => Some v | None => assoc k l2 end.
Proof.
  intros A k l1 l2. induction l1 as [|[k' v] l1 IH]; simpl; [reflexivity|].
  destruct (N.eqb k k'); [reflexivity | exact IH].
Qed.

Lemma assoc_In : forall A k (v : A) l, assoc k l = Some v -> In (k, v) l.
Proof.
  intros A k v l. induction l as [|[k' v'] l IH]; simpl; [discriminate|].
  destruct (N.eqb k k') eqn:E.
  - intro H. inversion H. subst. apply N.eqb_eq in E. subst. left. reflexivity.
  - intro H. right. apply IH. exact H.
Qed.

Lemma memN_In : forall x l, memN x l = true <-> In x l.
Proof.
  intros x l. unfold memN. rewrite existsb_exists. split.
  - intros [y [Hy E]]. apply N.eqb_eq in E. subst. exact Hy.
  - intro H. exists x. split; [exact H | apply N.eqb_refl].
Qed.

(** * Fingerprints *)

Lemma In_insertN : forall x n l, In x (insertN n l) <-> x = n \/ In x l.
Proof.
  intros x n l. induction l as [|m l IH]; simpl.
  - intuition.
  - destruct (N.ltb n m) eqn:E1; simpl.
    + intuition.
    + destruct (N.eqb n m) eqn:E2; simpl.
      * apply N.eqb_eq in E2. subst. intuition.
      * rewrite IH. intuition.
Qed.

Lemma In_sort_dedup : forall x l, In x (sort_dedup l) <-> In x l.
Proof.
  intros x l. induction l as [|n l IH]; simpl.
  - reflexivity.
  - rewrite In_insertN, IH. intuition.
Qed.

Lemma pairs_of_keys : forall o ks f, pairs_of o ks = Some f -> map fst f = ks.
Proof.
  intros o ks. induction ks as [|k ks IH]; simpl; intros f H.
  - inversion H. reflexivity.
  - destruct (assoc k o) as [v|]; [|discriminate].
    destruct (pairs_of o ks) as [r|]; [|discriminate].
    inversion H. simpl. rewrite (IH r eq_refl). reflexivity.
Qed.

Lemma pairs_of_sound : forall o ks f k v, pairs_of o ks = Some f -> In (k, v) f -> assoc k o = Some v.
Proof.
  intros o ks. induction ks as [|k0 ks IH]; simpl; intros f k v H Hin.
  - inversion H. subst. destruct Hin.
  - destruct (assoc k0 o) as [v0|] eqn:E; [|discriminate].
    destruct (pairs_of o ks) as [r|]; [|discriminate].
    inversion H. subst. destruct Hin as [Hin|Hin].
    + inversion Hin. subst. exact E.
    + apply (IH r); [reflexivity | exact Hin].
Qed.

Lemma mk_fp_sound : forall o ks f k v, mk_fp o ks = Some f -> In (k, v) f -> assoc k o = Some v.
Proof. intros o ks f k v H. apply (pairs_of_sound _ _ _ _ _ H). Qed.

Lemma mk_fp_complete : forall o ks f k, mk_fp o ks = Some f -> In k ks -> exists v, In (k, v) f.
Proof.
  intros o ks f k H Hin. unfold mk_fp in H.
  apply pairs_of_keys in H.
  assert (Hk : In k (map fst f)) by (rewrite H; apply In_sort_dedup; exact Hin).
  apply in_map_iff in Hk. destruct Hk as [[k' v] [E Hp]]. simpl in E. subst. exists v. exact Hp.
Qed.

(** Two option dictionaries with one fingerprint agree on every key either side reported. *)
Lemma fp_shared_key : forall o1 o2 ks1 ks2 f k,
  mk_fp o1 ks1 = Some f -> mk_fp o2 ks2 = Some f -> In k ks1 ->
  exists v, assoc k o1 = Some v /\ assoc k o2 = Some v.
Proof.
  intros o1 o2 ks1 ks2 f k H1 H2 Hin.
  destruct (mk_fp_complete _ _ _ _ H1 Hin) as [v Hv].
  exists v. split; [apply (mk_fp_sound _ _ _ _ _ H1 Hv) | apply (mk_fp_sound _ _ _ _ _ H2 Hv)].
Qed.

Lemma fp_eqb_eq : forall a b, fp_eqb a b = true <-> a = b.
Proof.
  induction a as [|[k v] a IH]; destruct b as [|[k' v'] b]; simpl; split; intro H;
    try reflexivity; try discriminate.
  - apply andb_true_iff in H. destruct H as [H H3]. apply andb_true_iff in H. destruct H as [H1 H2].
    apply N.eqb_eq in H1. apply N.eqb_eq in H2. apply IH in H3. subst. reflexivity.
  - inversion H. subst. rewrite !N.eqb_refl. simpl. apply IH. reflexivity.
Qed.

Lemma fp_eqb_refl : forall a, fp_eqb a a = true.
Proof. intro a. apply fp_eqb_eq. reflexivity. Qed.

(** * The dispatch value is determined by the fingerprint (outside the D19 zone) *)

Definition dres_same (a b : dres) : Prop :=
  match a, b with
  | DVal x, DVal y => x = y
  | DFail _, DFail _ => True
  | _, _ => False
  end.

Lemma dres_same_refl : forall a, dres_same a a.
Proof. destruct a; simpl; auto. Qed.

Lemma dkeys_present : forall e o k v, dkey e = Some k -> assoc k o = Some v -> In k (dkeys e o).
Proof.
  intros e o k v Hk Ha. unfold dkeys. rewrite Hk. unfold has_key. rewrite Ha. left. reflexivity.
Qed.

Lemma fp_determines_dispatch : forall e o1 o2 ks1 ks2 f,
  dispatch_safe e = true ->
  mk_fp o1 ks1 = Some f -> mk_fp o2 ks2 = Some f ->
  (forall a, deval e o1 = DVal a -> incl (dkeys e o1) ks1) ->
  (forall a, deval e o2 = DVal a -> incl (dkeys e o2) ks2) ->
  dres_same (deval e o1) (deval e o2).
Proof.
  intros e o1 o2 ks1 ks2 f Hsafe H1 H2 Hk1 Hk2.
  (* if the dispatch succeeded on one side with its key present, the other side has the same value *)
  assert (T12 : forall k v a, dkey e = Some k -> assoc k o1 = Some v -> deval e o1 = DVal a ->
                              assoc k o2 = Some v).
  { intros k v a Hd Ha Hv.
    destruct (fp_shared_key o1 o2 ks1 ks2 f k H1 H2) as [v' [E1 E2]].
    - apply (Hk1 a Hv). apply (dkeys_present e o1 k v Hd Ha).
    - rewrite Ha in E1. inversion E1. subst. exact E2. }
  assert (T21 : forall k v a, dkey e = Some k -> assoc k o2 = Some v -> deval e o2 = DVal a ->
                              assoc k o1 = Some v).
  { intros k v a Hd Ha Hv.
    destruct (fp_shared_key o2 o1 ks2 ks1 f k H2 H1) as [v' [E1 E2]].
    - apply (Hk2 a Hv). apply (dkeys_present e o2 k v Hd Ha).
    - rewrite Ha in E1. inversion E1. subst. exact E2. }
  destruct e as [k | k v | k dflt dom | k dflt bad | ]; simpl in *.
  - (* DKey *)
    destruct (assoc k o1) as [v1|] eqn:A1; destruct (assoc k o2) as [v2|] eqn:A2; simpl; auto.
    + specialize (T12 k v1 v1 eq_refl A1 eq_refl). congruence.
    + specialize (T12 k v1 v1 eq_refl A1 eq_refl). congruence.
    + specialize (T21 k v2 v2 eq_refl A2 eq_refl). congruence.
  - (* DKeyDefault *)
    destruct (assoc k o1) as [v1|] eqn:A1; destruct (assoc k o2) as [v2|] eqn:A2; simpl; auto.
    + specialize (T12 k v1 v1 eq_refl A1 eq_refl). congruence.
    + specialize (T12 k v1 v1 eq_refl A1 eq_refl). congruence.
    + specialize (T21 k v2 v2 eq_refl A2 eq_refl). congruence.
  - (* DKeyDom *)
    destruct (assoc k o1) as [v1|] eqn:A1; destruct (assoc k o2) as [v2|] eqn:A2; simpl in *.
    + destruct (memN v1 dom) eqn:M1.
      * assert (E : v2 = v1) by (specialize (T12 k v1 v1 eq_refl A1 eq_refl); congruence).
        subst v2. rewrite M1. reflexivity.
      * destruct (memN v2 dom) eqn:M2; simpl; auto.
        assert (E : v1 = v2) by (specialize (T21 k v2 v2 eq_refl A2 eq_refl); congruence).
        subst v1. congruence.
    + destruct (memN v1 dom) eqn:M1.
      * specialize (T12 k v1 v1 eq_refl A1 eq_refl). congruence.
      * destruct dflt as [v|]; simpl; auto.
        simpl in Hsafe. apply negb_true_iff in Hsafe. rewrite Hsafe. exact I.
    + destruct (memN v2 dom) eqn:M2.
      * specialize (T21 k v2 v2 eq_refl A2 eq_refl). congruence.
      * destruct dflt as [v|]; simpl; auto.
        simpl in Hsafe. apply negb_true_iff in Hsafe. rewrite Hsafe. exact I.
    + destruct dflt as [v|]; simpl; auto. destruct (memN v dom); simpl; auto.
  - (* DDataset *)
    destruct (assoc k o1) as [v1|] eqn:A1; destruct (assoc k o2) as [v2|] eqn:A2; simpl in *.
    + destruct (memN v1 bad) eqn:M1.
      * destruct (memN v2 bad) eqn:M2; simpl; auto.
        assert (E : v1 = v2) by (specialize (T21 k v2 v2 eq_refl A2 eq_refl); congruence).
        subst v1. congruence.
      * assert (E : v2 = v1) by (specialize (T12 k v1 v1 eq_refl A1 eq_refl); congruence).
        subst v2. rewrite M1. reflexivity.
    + destruct (memN v1 bad) eqn:M1.
      * destruct dflt as [v|]; simpl; auto.
        simpl in Hsafe. apply orb_true_iff in Hsafe. destruct Hsafe as [Hs|Hs].
        -- rewrite Hs. exact I.
        -- destruct bad; [discriminate M1 | discriminate Hs].
      * specialize (T12 k v1 v1 eq_refl A1 eq_refl). congruence.
    + destruct (memN v2 bad) eqn:M2.
      * destruct dflt as [v|]; simpl; auto.
        simpl in Hsafe. apply orb_true_iff in Hsafe. destruct Hsafe as [Hs|Hs].
        -- rewrite Hs. exact I.
        -- destruct bad; [discriminate M2 | discriminate Hs].
      * specialize (T21 k v2 v2 eq_refl A2 eq_refl). congruence.
    + destruct dflt as [v|]; simpl; auto. destruct (memN v bad); simpl; auto.
  - (* DMissing *) reflexivity.
Qed.

(** * Evaluation *)

Section Sem.
  Variable V : Type.
  Variable ieval : N -> opts -> res V.
  Variable ikeys : N -> opts -> kres.
  Variable cbapp : N -> V -> V.

  Notation state := (state V).
  Notation event := (event V).
  Notation EVAL := (@eval V ieval ikeys cbapp).
  Notation KEYS := (@ds_keys V ikeys).
  Notation STEP := (@step V ieval ikeys cbapp).
  Notation RUN := (@run V ieval ikeys cbapp).
  Notation CB := (@apply_cb V cbapp).

  (** evaluate() / keys() of an implementation (opaque, or a dataset of the environment) *)
  Definition impl_run (f : nat) (i : impl) (o : opts) (s : state) : option (res V * state) :=
    match i with IFun g => Some (ieval g o, s) | IDs d' => EVAL f d' o s end.
  Definition impl_keys (f : nat) (s : state) (i : impl) (o : opts) : option kres :=
    match i with IFun g => Some (ikeys g o) | IDs d' => KEYS f s d' o end.

  Definition mkev (d : N) (rc : dsrec) (ov : ovl) (o' : opts) (ks : list N) (fpr : fp)
                  (hit : bool) (raw : option V) (v : V) : event :=
    {| e_ds := d; e_cache := d_cache rc; e_opts := o'; e_keys := ks; e_fp := fpr;
       e_disp := o_disp ov; e_dres := deval (o_disp ov) o'; e_hit := hit; e_raw := raw; e_val := v |}.

  (** The eight ways one evaluation step can go (inversion principle for [eval]). *)
  Inductive eval_case (f : nat) (d : N) (o : opts) (s : state) : res V -> state -> Prop :=
  | EC_nods : get_ds s d = None -> eval_case f d o s (RErr EOther) s
  | EC_noovl : forall rc, get_ds s d = Some rc -> get_ovl s (d_ovl rc) = None ->
      eval_case f d o s (RErr EOther) s
  | EC_keyserr : forall rc ov e, get_ds s d = Some rc -> get_ovl s (d_ovl rc) = Some ov ->
      sw_keys ikeys (KEYS f s) ov (overlay (d_preset rc) o) = Some (KErr e) ->
      eval_case f d o s (RErr e) s
  | EC_fperr : forall rc ov ks, get_ds s d = Some rc -> get_ovl s (d_ovl rc) = Some ov ->
      sw_keys ikeys (KEYS f s) ov (overlay (d_preset rc) o) = Some (KOk ks) ->
      mk_fp (overlay (d_preset rc) o) ks = None ->
      eval_case f d o s (RErr EOther) s
  | EC_hit : forall rc ov ks fpr v, get_ds s d = Some rc -> get_ovl s (d_ovl rc) = Some ov ->
      sw_keys ikeys (KEYS f s) ov (overlay (d_preset rc) o) = Some (KOk ks) ->
      mk_fp (overlay (d_preset rc) o) ks = Some fpr ->
      cache_get s (d_cache rc) fpr = Some v ->
      eval_case f d o s (RVal v) (log s (mkev d rc ov (overlay (d_preset rc) o) ks fpr true None v))
  | EC_selerr : forall rc ov ks fpr e, get_ds s d = Some rc -> get_ovl s (d_ovl rc) = Some ov ->
      sw_keys ikeys (KEYS f s) ov (overlay (d_preset rc) o) = Some (KOk ks) ->
      mk_fp (overlay (d_preset rc) o) ks = Some fpr ->
      cache_get s (d_cache rc) fpr = None ->
      lookup_sel ov (overlay (d_preset rc) o) = SelErr e ->
      eval_case f d o s (RErr e) s
  | EC_implerr : forall rc ov ks fpr i w e s1, get_ds s d = Some rc -> get_ovl s (d_ovl rc) = Some ov ->
      sw_keys ikeys (KEYS f s) ov (overlay (d_preset rc) o) = Some (KOk ks) ->
      mk_fp (overlay (d_preset rc) o) ks = Some fpr ->
      cache_get s (d_cache rc) fpr = None ->
      lookup_sel ov (overlay (d_preset rc) o) = Sel i w ->
      impl_run f i (overlay (d_preset rc) o) s = Some (RErr e, s1) ->
      eval_case f d o s (RErr e) s1
  | EC_store : forall rc ov ks fpr i w x s1, get_ds s d = Some rc -> get_ovl s (d_ovl rc) = Some ov ->
      sw_keys ikeys (KEYS f s) ov (overlay (d_preset rc) o) = Some (KOk ks) ->
      mk_fp (overlay (d_preset rc) o) ks = Some fpr ->
      cache_get s (d_cache rc) fpr = None ->
      lookup_sel ov (overlay (d_preset rc) o) = Sel i w ->
      impl_run f i (overlay (d_preset rc) o) s = Some (RVal x, s1) ->
      eval_case f d o s (RVal (CB (d_cb rc) x))
        (log (cache_set s1 (d_cache rc) fpr (CB (d_cb rc) x))
             (mkev d rc ov (overlay (d_preset rc) o) ks fpr false (Some x) (CB (d_cb rc) x))).

  Lemma eval_inv : forall f d o s r s',
    EVAL (S f) d o s = Some (r, s') -> eval_case f d o s r s'.
  Proof.
    intros f d o s r s' H. simpl in H.
    destruct (get_ds s d) as [rc|] eqn:Hds.
    2:{ inversion H. subst. apply EC_nods. exact Hds. }
    destruct (get_ovl s (d_ovl rc)) as [ov|] eqn:Hov.
    2:{ inversion H. subst. eapply EC_noovl; eassumption. }
    destruct (sw_keys ikeys (fun d' o'' => KEYS f s d' o'') ov (overlay (d_preset rc) o)) as [[ks|e]|] eqn:Hk.
    3:{ discriminate. }
    2:{ inversion H. subst. eapply EC_keyserr; eassumption. }
    destruct (mk_fp (overlay (d_preset rc) o) ks) as [fpr|] eqn:Hfp.
    2:{ inversion H. subst. eapply EC_fperr; eassumption. }
    destruct (cache_get s (d_cache rc) fpr) as [v|] eqn:Hc.
    { inversion H. subst. eapply EC_hit; eassumption. }
    destruct (lookup_sel ov (overlay (d_preset rc) o)) as [e|i w] eqn:Hsel.
    { inversion H. subst. eapply EC_selerr; eassumption. }
    destruct i as [g|d'].
    - destruct (ieval g (overlay (d_preset rc) o)) as [x|e] eqn:Hi; inversion H; subst.
      + eapply EC_store; try eassumption. simpl. rewrite Hi. reflexivity.
      + eapply EC_implerr; try eassumption. simpl. rewrite Hi. reflexivity.
    - destruct (EVAL f d' (overlay (d_preset rc) o) s) as [[[x|e] s1]|] eqn:Hi; inversion H; subst.
      + eapply EC_store; try eassumption.
      + eapply EC_implerr; try eassumption.
  Qed.

  Ltac ecases H :=
    destruct H as [Hds | rc Hds Hov | rc ov e Hds Hov Hk | rc ov ks Hds Hov Hk Hfp
                  | rc ov ks fpr v Hds Hov Hk Hfp Hc | rc ov ks fpr e Hds Hov Hk Hfp Hc Hsel
                  | rc ov ks fpr i w e s1 Hds Hov Hk Hfp Hc Hsel Hi
                  | rc ov ks fpr i w x s1 Hds Hov Hk Hfp Hc Hsel Hi].

  (** ** Evaluations only add cache entries and history records *)

  Definition same_struct (s s' : state) : Prop :=
    st_ds s' = st_ds s /\ st_ovl s' = st_ovl s /\ st_if s' = st_if s /\ st_next s' = st_next s.

  Lemma same_struct_refl : forall s, same_struct s s.
  Proof. intro s. repeat split. Qed.

  Lemma same_struct_trans : forall a b c, same_struct a b -> same_struct b c -> same_struct a c.
  Proof.
    intros a b c [A1 [A2 [A3 A4]]] [B1 [B2 [B3 B4]]]. repeat split; congruence.
  Qed.

  Lemma eval_struct : forall f d o s r s', EVAL f d o s = Some (r, s') -> same_struct s s'.
  Proof.
    induction f as [|f IH]; intros d o s r s' H; [discriminate|].
    apply eval_inv in H. ecases H; try apply same_struct_refl.
    - repeat split.
    - destruct i as [g|d']; simpl in Hi.
      + inversion Hi. subst. apply same_struct_refl.
      + eapply IH. eassumption.
    - assert (Hs : same_struct s s1).
      { destruct i as [g|d']; simpl in Hi.
        - inversion Hi. subst. apply same_struct_refl.
        - eapply IH. eassumption. }
      destruct Hs as [A1 [A2 [A3 A4]]]. repeat split; simpl; assumption.
  Qed.

  Lemma same_struct_get_ds : forall s s' d, same_struct s s' -> get_ds s' d = get_ds s d.
  Proof. intros s s' d [A _]. unfold get_ds. rewrite A. reflexivity. Qed.
  Lemma same_struct_get_ovl : forall s s' n, same_struct s s' -> get_ovl s' n = get_ovl s n.
  Proof. intros s s' n [_ [A _]]. unfold get_ovl. rewrite A. reflexivity. Qed.
  Lemma same_struct_ovl_of : forall s s' d, same_struct s s' -> ovl_of s' d = ovl_of s d.
  Proof.
    intros s s' d H. unfold ovl_of. rewrite (same_struct_get_ds _ _ _ H).
    destruct (get_ds s d); [apply same_struct_get_ovl; exact H | reflexivity].
  Qed.
  Lemma same_struct_binding : forall s s' d a, same_struct s s' -> binding s' d a = binding s d a.
  Proof. intros s s' d a H. unfold binding. rewrite (same_struct_ovl_of _ _ _ H). reflexivity. Qed.

  (** ** Cache lemmas *)

  Lemma fp_assoc_upd : forall f f' (v : V) c,
    fp_assoc f' (fp_upd f v c) = if fp_eqb f' f then Some v else fp_assoc f' c.
  Proof.
    intros f f' v c. induction c as [|[f0 v0] c IH]; simpl.
    - reflexivity.
    - destruct (fp_eqb f f0) eqn:E; simpl.
      + apply fp_eqb_eq in E. subst f0. destruct (fp_eqb f' f); reflexivity.
      + destruct (fp_eqb f' f0) eqn:E2.
        * destruct (fp_eqb f' f) eqn:E3; [|reflexivity].
          apply fp_eqb_eq in E2. apply fp_eqb_eq in E3. subst. rewrite fp_eqb_refl in E. discriminate.
        * exact IH.
  Qed.

  Lemma cache_get_set : forall (s : state) c f v c' f',
    cache_get (cache_set s c f v) c' f' =
      if N.eqb c' c && fp_eqb f' f then Some v else cache_get s c' f'.
  Proof.
    intros s c f v c' f'. unfold cache_get, cache_set, cache_of, with_cache. simpl.
    rewrite assoc_upd. destruct (N.eqb c' c) eqn:E; simpl.
    - apply N.eqb_eq in E. subst c'. rewrite fp_assoc_upd. reflexivity.
    - reflexivity.
  Qed.

  Lemma cache_get_log : forall (s : state) e c f, cache_get (log s e) c f = cache_get s c f.
  Proof. reflexivity. Qed.

  (** ** The dispatch specification *)

  Definition rmap (g : V -> V) (r : res V) : res V :=
    match r with RVal v => RVal (g v) | RErr e => RErr e end.

  Definition succeeded (r : dres) : bool := match r with DVal _ => true | DFail _ => false end.

  (** why nothing applies: the dispatch's own failure, else "value not registered" *)
  Definition why_none (ov : ovl) (o : opts) : err :=
    match deval (o_disp ov) o with DFail e => e | DVal _ => ESwitch end.

  (** What is stored under the fingerprint of evaluating [d] on [o] ([None]: nothing, or the
      fingerprint cannot be computed). [f] is the fuel left for nested datasets. *)
  Definition stored (f : nat) (s : state) (d : N) (o : opts) : option V :=
    match get_ds s d with
    | None => None
    | Some rc =>
        match get_ovl s (d_ovl rc) with
        | None => None
        | Some ov =>
            match sw_keys ikeys (KEYS f s) ov (overlay (d_preset rc) o) with
            | Some (KOk ks) =>
                match mk_fp (overlay (d_preset rc) o) ks with
                | Some fpr => cache_get s (d_cache rc) fpr
                | None => None
                end
            | _ => None
            end
        end
    end.

  (** The outcome of the chosen implementation as the caching wrapper obtains it: its keys()
      are asked first (for the fingerprint), then it is evaluated. *)
  Definition impl_outcome (f : nat) (s : state) (ov : ovl) (i : impl) (o : opts)
    : option (res V * state) :=
    match impl_keys f s i o with
    | None => None
    | Some (KErr e) => Some (RErr e, s)
    | Some (KOk ks) =>
        match mk_fp o (ks ++ (if succeeded (deval (o_disp ov) o) then dkeys (o_disp ov) o else [])) with
        | None => Some (RErr EOther, s)
        | Some _ => impl_run f i o s
        end
    end.

  Lemma lookup_sel_pick : forall ov o,
    match lookup_sel ov o with
    | SelErr e => pick ov o = None /\ e = why_none ov o
    | Sel i w => pick ov o = Some i /\ w = succeeded (deval (o_disp ov) o)
    end.
  Proof.
    intros ov o. unfold lookup_sel, pick, why_none.
    destruct (deval (o_disp ov) o) as [a|e]; simpl.
    - destruct (assoc a (o_table ov)) as [i|]; [split; reflexivity|].
      destruct (o_default ov); split; reflexivity.
    - destruct (o_default ov); split; reflexivity.
  Qed.

  Lemma sw_keys_inv : forall f s ov o kr,
    sw_keys ikeys (KEYS f s) ov o = Some kr ->
    match lookup_sel ov o with
    | SelErr e => kr = KErr e
    | Sel i w =>
        match impl_keys f s i o with
        | None => False
        | Some (KErr e) => kr = KErr e
        | Some (KOk ks) => kr = KOk (ks ++ (if w then dkeys (o_disp ov) o else []))
        end
    end.
  Proof.
    intros f s ov o kr H. unfold sw_keys in H.
    destruct (lookup_sel ov o) as [e|i w].
    - inversion H. reflexivity.
    - unfold impl_keys. destruct i as [g|d'].
      + destruct (ikeys g o); inversion H; reflexivity.
      + destruct (KEYS f s d' o) as [[ks|e]|]; inversion H; reflexivity.
  Qed.

  (** The keys of a successful dispatch are part of the evaluation's keys. *)
  Lemma sw_keys_dkeys : forall f s ov o ks a,
    sw_keys ikeys (KEYS f s) ov o = Some (KOk ks) ->
    deval (o_disp ov) o = DVal a -> incl (dkeys (o_disp ov) o) ks.
  Proof.
    intros f s ov o ks a H Hd. apply sw_keys_inv in H.
    pose proof (lookup_sel_pick ov o) as P.
    destruct (lookup_sel ov o) as [e|i w]; [discriminate|].
    destruct P as [_ Pw]. rewrite Hd in Pw. simpl in Pw. subst w.
    destruct (impl_keys f s i o) as [[ks0|e]|]; try contradiction; try discriminate.
    inversion H. subst. apply incl_appr. apply incl_refl.
  Qed.

  Theorem dispatch_spec : forall f d o s r s' rc0 ov0,
    EVAL (S f) d o s = Some (r, s') ->
    get_ds s d = Some rc0 -> get_ovl s (d_ovl rc0) = Some ov0 ->
    stored f s d o = None ->
    match pick ov0 (overlay (d_preset rc0) o) with
    | None => r = RErr (why_none ov0 (overlay (d_preset rc0) o)) /\ s' = s
    | Some i =>
        exists r0 s1, impl_outcome f s ov0 i (overlay (d_preset rc0) o) = Some (r0, s1) /\
                      r = rmap (CB (d_cb rc0)) r0
    end.
  Proof.
    intros f d o s r s' rc0 ov0 H Hds0 Hov0 Hst.
    apply eval_inv in H.
    unfold stored in Hst. rewrite Hds0, Hov0 in Hst.
    ecases H; (rewrite Hds0 in Hds; try discriminate; inversion Hds; subst rc0);
      (rewrite Hov0 in Hov; try discriminate; inversion Hov; subst ov0);
      pose proof (lookup_sel_pick ov (overlay (d_preset rc) o)) as P.
    - (* keys() fail *)
      apply sw_keys_inv in Hk.
      destruct (lookup_sel ov (overlay (d_preset rc) o)) as [e'|i w].
      + destruct P as [P1 P2]. rewrite P1. inversion Hk. subst. split; reflexivity.
      + destruct P as [P1 P2]. rewrite P1. unfold impl_outcome.
        destruct (impl_keys f s i (overlay (d_preset rc) o)) as [[ks0|e']|]; try contradiction; try discriminate.
        inversion Hk. subst. eexists. eexists. split; reflexivity.
    - (* a reported key is absent *)
      apply sw_keys_inv in Hk.
      destruct (lookup_sel ov (overlay (d_preset rc) o)) as [e'|i w]; [discriminate|].
      destruct P as [P1 P2]. rewrite P1. unfold impl_outcome.
      destruct (impl_keys f s i (overlay (d_preset rc) o)) as [[ks0|e']|]; try contradiction; try discriminate.
      inversion Hk. subst. rewrite Hfp. eexists. eexists. split; reflexivity.
    - (* served from the cache: excluded *)
      rewrite Hk, Hfp, Hc in Hst. discriminate.
    - (* keys() succeeded, so a branch was chosen *)
      apply sw_keys_inv in Hk. rewrite Hsel in Hk. discriminate.
    - (* the implementation fails *)
      apply sw_keys_inv in Hk. rewrite Hsel in Hk, P.
      destruct P as [P1 P2]. rewrite P1. unfold impl_outcome.
      destruct (impl_keys f s i (overlay (d_preset rc) o)) as [[ks0|e']|]; try contradiction; try discriminate.
      inversion Hk. subst. rewrite Hfp. eexists. eexists. split; [exact Hi | reflexivity].
    - (* computed, called back, stored *)
      apply sw_keys_inv in Hk. rewrite Hsel in Hk, P.
      destruct P as [P1 P2]. rewrite P1. unfold impl_outcome.
      destruct (impl_keys f s i (overlay (d_preset rc) o)) as [[ks0|e']|]; try contradiction; try discriminate.
      inversion Hk. subst. rewrite Hfp. eexists. eexists. split; [exact Hi | reflexivity].
  Qed.

  (** An evaluation that IS served from the cache returns exactly what is stored. *)
  Theorem eval_served : forall f d o s r s' v0,
    EVAL (S f) d o s = Some (r, s') -> stored f s d o = Some v0 -> r = RVal v0.
  Proof.
    intros f d o s r s' v0 H Hst. apply eval_inv in H. unfold stored in Hst.
    ecases H; rewrite Hds in Hst; try discriminate; rewrite Hov in Hst; try discriminate;
      rewrite Hk in Hst; try discriminate; rewrite Hfp in Hst; try discriminate;
      rewrite Hc in Hst; try discriminate.
    inversion Hst. reflexivity.
  Qed.

  (** The callback is applied to whatever implementation was chosen (registered or default). *)
  Corollary callback_applied : forall f d o s v s' rc ov,
    EVAL (S f) d o s = Some (RVal v, s') ->
    get_ds s d = Some rc -> get_ovl s (d_ovl rc) = Some ov ->
    stored f s d o = None ->
    exists i x s1, pick ov (overlay (d_preset rc) o) = Some i /\
                   impl_run f i (overlay (d_preset rc) o) s = Some (RVal x, s1) /\
                   v = CB (d_cb rc) x.
  Proof.
    intros f d o s v s' rc ov H Hds Hov Hst.
    pose proof (dispatch_spec _ _ _ _ _ _ _ _ H Hds Hov Hst) as D.
    destruct (pick ov (overlay (d_preset rc) o)) as [i|].
    - destruct D as [r0 [s1 [D1 D2]]]. destruct r0 as [x|e]; [|discriminate].
      inversion D2. subst. exists i, x, s1. split; [reflexivity|]. split; [|reflexivity].
      unfold impl_outcome in D1.
      destruct (impl_keys f s i (overlay (d_preset rc) o)) as [[ks|e]|]; try discriminate.
      destruct (mk_fp _ _); [exact D1 | discriminate].
    - destruct D as [D _]. discriminate.
  Qed.

  (** Abstract dataset, nothing applies: failure, naming the reason. *)
  Corollary abstract_fails : forall f d o s r s' rc ov,
    EVAL (S f) d o s = Some (r, s') ->
    get_ds s d = Some rc -> get_ovl s (d_ovl rc) = Some ov ->
    pick ov (overlay (d_preset rc) o) = None ->
    r = RErr (why_none ov (overlay (d_preset rc) o)) /\ s' = s.
  Proof.
    intros f d o s r s' rc ov H Hds Hov Hp.
    assert (Hst : stored f s d o = None).
    { unfold stored. rewrite Hds, Hov.
      destruct (sw_keys ikeys (KEYS f s) ov (overlay (d_preset rc) o)) as [[ks|e]|] eqn:Hk; try reflexivity.
      apply sw_keys_inv in Hk. pose proof (lookup_sel_pick ov (overlay (d_preset rc) o)) as P.
      destruct (lookup_sel ov (overlay (d_preset rc) o)); [discriminate|].
      destruct P as [P _]. congruence. }
    pose proof (dispatch_spec _ _ _ _ _ _ _ _ H Hds Hov Hst) as D. rewrite Hp in D. exact D.
  Qed.

  (** * State-changing operations *)

  (** Well-formed states: every dataset points to an existing Overloaded object, and object
      identifiers are below the fresh-identifier counter (so a new object never aliases one). *)
  Definition wf (s : state) : Prop :=
    forall d rc, get_ds s d = Some rc ->
      d_ovl rc < st_next s /\ d_cache rc < st_next s /\ exists ov, get_ovl s (d_ovl rc) = Some ov.

  Lemma wf_empty : wf (@empty_state V).
  Proof. intros d rc H. discriminate. Qed.

  Lemma wf_same_struct : forall s s', same_struct s s' -> wf s -> wf s'.
  Proof.
    intros s s' Hs W d rc H. rewrite (same_struct_get_ds _ _ _ Hs) in H.
    destruct (W d rc H) as [A [B [ov C]]]. destruct Hs as [_ [S2 [_ S4]]].
    rewrite S4. split; [exact A|]. split; [exact B|]. exists ov. unfold get_ovl. rewrite S2. exact C.
  Qed.

  Definition same_ovl (s : state) (d0 d : N) : bool :=
    match get_ds s d0, get_ds s d with
    | Some r0, Some r => N.eqb (d_ovl r0) (d_ovl r)
    | _, _ => false
    end.

  (** ** register *)

  Lemma register_ds : forall (s : state) d a i, st_ds (register s d a i) = st_ds s.
  Proof.
    intros s d a i. unfold register. destruct (get_ds s d) as [r|]; [|reflexivity].
    destruct (get_ovl s (d_ovl r)); reflexivity.
  Qed.
  Lemma register_next : forall (s : state) d a i, st_next (register s d a i) = st_next s.
  Proof.
    intros s d a i. unfold register. destruct (get_ds s d) as [r|]; [|reflexivity].
    destruct (get_ovl s (d_ovl r)); reflexivity.
  Qed.
  Lemma register_if : forall (s : state) d a i, st_if (register s d a i) = st_if s.
  Proof.
    intros s d a i. unfold register. destruct (get_ds s d) as [r|]; [|reflexivity].
    destruct (get_ovl s (d_ovl r)); reflexivity.
  Qed.
  Lemma register_cache : forall (s : state) d a i, st_cache (register s d a i) = st_cache s.
  Proof.
    intros s d a i. unfold register. destruct (get_ds s d) as [r|]; [|reflexivity].
    destruct (get_ovl s (d_ovl r)); reflexivity.
  Qed.
  Lemma register_trace : forall (s : state) d a i, st_trace (register s d a i) = st_trace s.
  Proof.
    intros s d a i. unfold register. destruct (get_ds s d) as [r|]; [|reflexivity].
    destruct (get_ovl s (d_ovl r)); reflexivity.
  Qed.
  Lemma register_get_ds : forall (s : state) d a i d', get_ds (register s d a i) d' = get_ds s d'.
  Proof. intros. unfold get_ds. rewrite register_ds. reflexivity. Qed.

  Lemma register_get_ovl : forall (s : state) d0 a0 i n,
    get_ovl (register s d0 a0 i) n =
      match get_ds s d0 with
      | Some r0 =>
          match get_ovl s (d_ovl r0) with
          | Some ov0 =>
              if N.eqb n (d_ovl r0)
              then Some {| o_disp := o_disp ov0; o_table := upd a0 i (o_table ov0); o_default := o_default ov0 |}
              else get_ovl s n
          | None => get_ovl s n
          end
      | None => get_ovl s n
      end.
  Proof.
    intros s d0 a0 i n. unfold register.
    destruct (get_ds s d0) as [r0|]; [|reflexivity].
    destruct (get_ovl s (d_ovl r0)) as [ov0|] eqn:E; [|reflexivity].
    unfold get_ovl. simpl. apply assoc_upd.
  Qed.

  Lemma register_wf : forall s d a i, wf s -> wf (register s d a i).
  Proof.
    intros s d0 a0 i W d rc H. rewrite register_get_ds in H.
    destruct (W d rc H) as [A [B [ov C]]]. rewrite register_next.
    split; [exact A|]. split; [exact B|].
    rewrite register_get_ovl.
    destruct (get_ds s d0) as [r0|]; [|exists ov; exact C].
    destruct (get_ovl s (d_ovl r0)) as [ov0|]; [|exists ov; exact C].
    destruct (N.eqb (d_ovl rc) (d_ovl r0)); eexists; [reflexivity | exact C].
  Qed.

  (** The table after a registration: exactly the registered entry changes, on exactly the
      datasets that share the Overloaded object. Dispatch and default never change. *)
  Lemma register_ovl_of : forall s d0 a0 i d, wf s ->
    ovl_of (register s d0 a0 i) d =
      match ovl_of s d with
      | Some ov => Some (if same_ovl s d0 d
                         then {| o_disp := o_disp ov; o_table := upd a0 i (o_table ov); o_default := o_default ov |}
                         else ov)
      | None => None
      end.
  Proof.
    intros s d0 a0 i d W. unfold ovl_of, same_ovl. rewrite register_get_ds.
    destruct (get_ds s d) as [r|] eqn:Hd; [|reflexivity].
    rewrite register_get_ovl.
    destruct (get_ds s d0) as [r0|] eqn:Hd0.
    - destruct (W d0 r0 Hd0) as [_ [_ [ov0 Hov0]]]. rewrite Hov0.
      rewrite (N.eqb_sym (d_ovl r0) (d_ovl r)).
      destruct (N.eqb (d_ovl r) (d_ovl r0)) eqn:E.
      + apply N.eqb_eq in E. rewrite E, Hov0. reflexivity.
      + destruct (get_ovl s (d_ovl r)); reflexivity.
    - destruct (get_ovl s (d_ovl r)); reflexivity.
  Qed.

  Lemma register_binding : forall s d0 a0 i d a, wf s ->
    binding (register s d0 a0 i) d a =
      if same_ovl s d0 d && N.eqb a a0 then Some i else binding s d a.
  Proof.
    intros s d0 a0 i d a W. unfold binding. rewrite (register_ovl_of s d0 a0 i d W).
    destruct (ovl_of s d) as [ov|] eqn:Ho.
    - destruct (same_ovl s d0 d); simpl; [|reflexivity]. rewrite assoc_upd. reflexivity.
    - unfold same_ovl. unfold ovl_of in Ho.
      destruct (get_ds s d0) as [r0|] eqn:Hd0; [|reflexivity].
      destruct (get_ds s d) as [r|] eqn:Hd; [|reflexivity].
      destruct (W d r Hd) as [_ [_ [ov C]]]. congruence.
  Qed.

  Lemma same_ovl_refl : forall s d, has_key d (st_ds s) = true -> same_ovl s d d = true.
  Proof.
    intros s d H. apply has_key_true in H. destruct H as [r H]. unfold same_ovl, get_ds. rewrite H.
    apply N.eqb_refl.
  Qed.

  Lemma same_ovl_register : forall (s : state) x a i d0 d, same_ovl (register s x a i) d0 d = same_ovl s d0 d.
  Proof. intros. unfold same_ovl. rewrite !register_get_ds. reflexivity. Qed.

  (** ** new datasets *)

  Lemma new_ds_get_ds : forall (s : state) d e dflt cb d',
    get_ds (new_ds s d e dflt cb) d' =
      if N.eqb d' d then Some {| d_ovl := st_next s; d_cache := st_next s; d_cb := cb; d_preset := [] |}
      else get_ds s d'.
  Proof. intros. unfold get_ds, new_ds. simpl. apply assoc_upd. Qed.

  Lemma new_ds_get_ovl : forall (s : state) d e dflt cb n,
    get_ovl (new_ds s d e dflt cb) n =
      if N.eqb n (st_next s) then Some {| o_disp := e; o_table := []; o_default := dflt |} else get_ovl s n.
  Proof. intros. unfold get_ovl, new_ds. simpl. apply assoc_upd. Qed.

  Lemma new_ds_next : forall (s : state) d e dflt cb, st_next (new_ds s d e dflt cb) = N.succ (st_next s).
  Proof. reflexivity. Qed.

  Lemma new_ds_wf : forall s d e dflt cb, wf s -> wf (new_ds s d e dflt cb).
  Proof.
    intros s d e dflt cb W d' rc H. rewrite new_ds_get_ds in H. rewrite new_ds_next.
    destruct (N.eqb d' d).
    - inversion H. subst. simpl. split; [lia|]. split; [lia|].
      rewrite new_ds_get_ovl. rewrite N.eqb_refl. eexists. reflexivity.
    - destruct (W d' rc H) as [A [B [ov C]]]. split; [lia|]. split; [lia|].
      rewrite new_ds_get_ovl. destruct (N.eqb (d_ovl rc) (st_next s)) eqn:E.
      + apply N.eqb_eq in E. lia.
      + exists ov. exact C.
  Qed.

  Lemma new_ds_ovl_of_other : forall s d e dflt cb d', wf s -> d' <> d ->
    ovl_of (new_ds s d e dflt cb) d' = ovl_of s d'.
  Proof.
    intros s d e dflt cb d' W Hne. unfold ovl_of. rewrite new_ds_get_ds.
    destruct (N.eqb d' d) eqn:E; [apply N.eqb_eq in E; contradiction|].
    destruct (get_ds s d') as [rc|] eqn:Hd; [|reflexivity].
    rewrite new_ds_get_ovl. destruct (W d' rc Hd) as [A _].
    destruct (N.eqb (d_ovl rc) (st_next s)) eqn:E2; [apply N.eqb_eq in E2; lia | reflexivity].
  Qed.

  Lemma new_ds_ovl_of_same : forall (s : state) d e dflt cb,
    ovl_of (new_ds s d e dflt cb) d = Some {| o_disp := e; o_table := []; o_default := dflt |}.
  Proof.
    intros. unfold ovl_of. rewrite new_ds_get_ds, N.eqb_refl. simpl.
    rewrite new_ds_get_ovl, N.eqb_refl. reflexivity.
  Qed.

  (** ** set_dispatch: a new Overloaded with the SAME table and default; other datasets (also
      the with_options derivatives made earlier) keep theirs. *)

  Lemma set_dispatch_ovl_of_same : forall (s : state) d e rc ov,
    get_ds s d = Some rc -> get_ovl s (d_ovl rc) = Some ov ->
    ovl_of (set_dispatch s d e) d = Some {| o_disp := e; o_table := o_table ov; o_default := o_default ov |}.
  Proof.
    intros s d e rc ov Hd Ho. unfold set_dispatch. rewrite Hd, Ho. unfold ovl_of, get_ds, get_ovl. simpl.
    rewrite assoc_upd_same. simpl. rewrite assoc_upd_same. reflexivity.
  Qed.

  Lemma set_dispatch_get_ds_other : forall (s : state) d e d', d' <> d ->
    get_ds (set_dispatch s d e) d' = get_ds s d'.
  Proof.
    intros s d e d' Hne. unfold set_dispatch.
    destruct (get_ds s d) as [rc|]; [|reflexivity].
    destruct (get_ovl s (d_ovl rc)); [|reflexivity].
    unfold get_ds. simpl. apply assoc_upd_other. exact Hne.
  Qed.

  Lemma set_dispatch_ovl_of_other : forall s d e d', wf s -> d' <> d ->
    ovl_of (set_dispatch s d e) d' = ovl_of s d'.
  Proof.
    intros s d e d' W Hne. unfold ovl_of. rewrite (set_dispatch_get_ds_other s d e d' Hne).
    destruct (get_ds s d') as [rc'|] eqn:Hd'; [|reflexivity].
    unfold set_dispatch.
    destruct (get_ds s d) as [rc|]; [|reflexivity].
    destruct (get_ovl s (d_ovl rc)); [|reflexivity].
    unfold get_ovl. simpl. apply assoc_upd_other.
    destruct (W d' rc' Hd') as [A _]. lia.
  Qed.

  Lemma set_dispatch_binding : forall s d e d' a, wf s ->
    binding (set_dispatch s d e) d' a = binding s d' a.
  Proof.
    intros s d e d' a W. unfold binding.
    destruct (N.eq_dec d' d) as [E|Hne].
    - subst d'. destruct (get_ds s d) as [rc|] eqn:Hd.
      + destruct (W d rc Hd) as [_ [_ [ov Ho]]].
        rewrite (set_dispatch_ovl_of_same s d e rc ov Hd Ho).
        unfold ovl_of. rewrite Hd, Ho. reflexivity.
      + unfold set_dispatch. rewrite Hd. reflexivity.
    - rewrite (set_dispatch_ovl_of_other s d e d' W Hne). reflexivity.
  Qed.

  Lemma set_dispatch_wf : forall s d e, wf s -> wf (set_dispatch s d e).
  Proof.
    intros s d e W. unfold set_dispatch.
    destruct (get_ds s d) as [rc|] eqn:Hd; [|exact W].
    destruct (get_ovl s (d_ovl rc)) as [ov|] eqn:Ho; [|exact W].
    intros d' rc' H. unfold get_ds in H. simpl in H. rewrite assoc_upd in H. simpl.
    destruct (W d rc Hd) as [A0 [B0 _]].
    destruct (N.eqb d' d).
    - inversion H. subst. simpl. split; [lia|]. split; [lia|].
      unfold get_ovl. simpl. rewrite assoc_upd_same. eexists. reflexivity.
    - destruct (W d' rc' H) as [A [B [ov' C]]]. split; [lia|]. split; [lia|].
      unfold get_ovl. simpl. rewrite assoc_upd_other; [|lia]. exists ov'. exact C.
  Qed.

  Lemma set_dispatch_has_key : forall (s : state) d e d',
    has_key d' (st_ds (set_dispatch s d e)) = has_key d' (st_ds s).
  Proof.
    intros s d e d'. unfold set_dispatch.
    destruct (get_ds s d) as [rc|] eqn:Hd; [|reflexivity].
    destruct (get_ovl s (d_ovl rc)); [|reflexivity].
    simpl. rewrite has_key_upd. destruct (N.eqb d' d) eqn:E; [|reflexivity].
    apply N.eqb_eq in E. subst. simpl. symmetry. apply has_key_true. exists rc. exact Hd.
  Qed.

  (** ** sequences of registrations *)

  Lemma apply_regs_cons : forall (s : state) d a i l,
    apply_regs s ((d, a, i) :: l) = apply_regs (register s d a i) l.
  Proof. reflexivity. Qed.

  Lemma apply_regs_app : forall (s : state) l1 l2, apply_regs s (l1 ++ l2) = apply_regs (apply_regs s l1) l2.
  Proof. intros. unfold apply_regs. apply fold_left_app. Qed.

  Lemma register_all_regs : forall (s : state) d als i,
    register_all s d als i = apply_regs s (map (fun a => (d, a, i)) als).
  Proof.
    intros s d als i. revert s. induction als as [|a als IH]; intro s; simpl; [reflexivity|].
    unfold register_all in *. simpl. rewrite IH. reflexivity.
  Qed.

  Lemma apply_regs_wf : forall l s, wf s -> wf (apply_regs s l).
  Proof.
    induction l as [|[[d a] i] l IH]; intros s W; [exact W|].
    rewrite apply_regs_cons. apply IH. apply register_wf. exact W.
  Qed.

  Lemma apply_regs_struct : forall l (s : state),
    st_ds (apply_regs s l) = st_ds s /\ st_next (apply_regs s l) = st_next s /\
    st_if (apply_regs s l) = st_if s /\ st_cache (apply_regs s l) = st_cache s /\
    st_trace (apply_regs s l) = st_trace s.
  Proof.
    induction l as [|[[d a] i] l IH]; intro s; [repeat split|].
    rewrite apply_regs_cons. destruct (IH (register s d a i)) as [A [B [C [D E]]]].
    rewrite A, B, C, D, E, register_ds, register_next, register_if, register_cache, register_trace.
    repeat split.
  Qed.

  Definition targets (s : state) (d a : N) (t : N * N * impl) : bool :=
    same_ovl s (fst (fst t)) d && N.eqb a (snd (fst t)).

  (** the last registration in [l] that lands on [d]'s table under alias [a] *)
  Fixpoint last_reg (s : state) (d a : N) (l : list (N * N * impl)) (acc : option impl) : option impl :=
    match l with
    | [] => acc
    | t :: l' => last_reg s d a l' (if targets s d a t then Some (snd t) else acc)
    end.

  Lemma last_reg_acc : forall s d a l acc,
    last_reg s d a l acc = match last_reg s d a l None with Some i => Some i | None => acc end.
  Proof.
    intros s d a l. induction l as [|t l IH]; intro acc; simpl; [reflexivity|].
    rewrite IH. rewrite (IH (if targets s d a t then Some (snd t) else None)).
    destruct (last_reg s d a l None); [reflexivity|]. destruct (targets s d a t); reflexivity.
  Qed.

  Lemma last_reg_ext : forall s s' d a l acc,
    (forall x y, same_ovl s' x y = same_ovl s x y) -> last_reg s' d a l acc = last_reg s d a l acc.
  Proof.
    intros s s' d a l. induction l as [|t l IH]; intros acc H; simpl; [reflexivity|].
    unfold targets. rewrite H. apply IH. exact H.
  Qed.

  Theorem apply_regs_binding : forall l s d a, wf s ->
    binding (apply_regs s l) d a =
      match last_reg s d a l None with Some i => Some i | None => binding s d a end.
  Proof.
    induction l as [|[[d0 a0] i] l IH]; intros s d a W; [reflexivity|].
    rewrite apply_regs_cons. rewrite (IH _ d a (register_wf s d0 a0 i W)).
    rewrite (last_reg_ext s (register s d0 a0 i) d a l None (same_ovl_register s d0 a0 i)).
    simpl. rewrite (last_reg_acc s d a l (if targets s d a (d0, a0, i) then Some i else None)).
    destruct (last_reg s d a l None); [reflexivity|].
    rewrite (register_binding s d0 a0 i d a W). unfold targets. simpl.
    destruct (same_ovl s d0 d && N.eqb a a0); reflexivity.
  Qed.

  Lemma last_reg_none : forall s d a l,
    (forall t, In t l -> snd (fst t) <> a) -> last_reg s d a l None = None.
  Proof.
    intros s d a l. induction l as [|t l IH]; intro H; simpl; [reflexivity|].
    unfold targets. destruct (N.eqb a (snd (fst t))) eqn:E.
    - apply N.eqb_eq in E. exfalso. apply (H t (or_introl eq_refl)). symmetry. exact E.
    - rewrite andb_false_r. apply IH. intros t' Ht'. apply H. right. exact Ht'.
  Qed.

  Lemma last_reg_some : forall s d a l j, last_reg s d a l None = Some j ->
    exists t, In t l /\ targets s d a t = true /\ snd t = j.
  Proof.
    intros s d a l. induction l as [|t l IH]; intros j H; simpl in H; [discriminate|].
    rewrite last_reg_acc in H. destruct (last_reg s d a l None) as [j'|] eqn:E.
    - inversion H. subst. destruct (IH j eq_refl) as [t' [A [B C]]].
      exists t'. split; [right; exact A|]. split; assumption.
    - destruct (targets s d a t) eqn:T; [|discriminate]. inversion H.
      exists t. split; [left; reflexivity|]. split; [exact T | reflexivity].
  Qed.

  Lemma last_reg_none_inv : forall s d a l, last_reg s d a l None = None ->
    forall t, In t l -> targets s d a t = false.
  Proof.
    intros s d a l. induction l as [|t l IH]; intros H t' Hin; [destruct Hin|].
    simpl in H. rewrite last_reg_acc in H.
    destruct (last_reg s d a l None) as [j'|] eqn:E; [discriminate|].
    destruct (targets s d a t) eqn:T; [discriminate|].
    destruct Hin as [Hin|Hin]; [subst; exact T | apply IH; [reflexivity | exact Hin]].
  Qed.

  (** If every registration landing on ([d]'s table, [a]) carries [i], and there is one, the
      binding afterwards is [i]. *)
  Lemma last_reg_unique : forall s d a l i,
    (exists t, In t l /\ targets s d a t = true) ->
    (forall t, In t l -> targets s d a t = true -> snd t = i) ->
    last_reg s d a l None = Some i.
  Proof.
    intros s d a l i [t0 [Hin Ht0]] Hall.
    destruct (last_reg s d a l None) as [j|] eqn:E.
    - destruct (last_reg_some s d a l j E) as [t [A [B C]]]. rewrite <- C. f_equal. apply Hall; assumption.
    - rewrite (last_reg_none_inv s d a l E t0 Hin) in Ht0. discriminate.
  Qed.

  (** ** interface members *)

  Definition is_new (m : mkind) : bool := match m with MExisting _ => false | _ => true end.

  Lemma new_ds_has_key : forall (s : state) d e dflt cb d',
    has_key d' (st_ds (new_ds s d e dflt cb)) = N.eqb d' d || has_key d' (st_ds s).
  Proof. intros. unfold new_ds. simpl. apply has_key_upd. Qed.

  Lemma new_ds_binding_other : forall s d e dflt cb d' a, wf s -> d' <> d ->
    binding (new_ds s d e dflt cb) d' a = binding s d' a.
  Proof. intros. unfold binding. rewrite new_ds_ovl_of_other; auto. Qed.

  Lemma add_member_wf : forall s e m, wf s -> wf (add_member s e m).
  Proof.
    intros s e m W. destruct m; unfold add_member; [apply new_ds_wf | apply new_ds_wf | apply set_dispatch_wf]; exact W.
  Qed.

  Lemma add_member_binding : forall s e m d a, wf s -> (is_new m = true -> mk_id m <> d) ->
    binding (add_member s e m) d a = binding s d a.
  Proof.
    intros s e m d a W H. destruct m as [d0|d0 g|d0]; unfold add_member; simpl in H.
    - apply new_ds_binding_other; [exact W|]. intro E. apply (H eq_refl). symmetry. exact E.
    - apply new_ds_binding_other; [exact W|]. intro E. apply (H eq_refl). symmetry. exact E.
    - apply set_dispatch_binding. exact W.
  Qed.

  Lemma add_member_has_key : forall (s : state) e m d,
    has_key d (st_ds s) = true -> has_key d (st_ds (add_member s e m)) = true.
  Proof.
    intros s e m d H. destruct m as [d0|d0 g|d0]; unfold add_member.
    - rewrite new_ds_has_key, H. apply orb_true_r.
    - rewrite new_ds_has_key, H. apply orb_true_r.
    - rewrite set_dispatch_has_key. exact H.
  Qed.

  Definition add_members (s : state) (e : dexpr) (ms : list (N * mkind)) : state :=
    fold_left (fun s m => add_member s e (snd m)) ms s.

  Lemma add_members_wf : forall ms s e, wf s -> wf (add_members s e ms).
  Proof.
    induction ms as [|m ms IH]; intros s e W; [exact W|]. simpl. apply IH. apply add_member_wf. exact W.
  Qed.

  Lemma add_members_has_key : forall ms (s : state) e d,
    has_key d (st_ds s) = true -> has_key d (st_ds (add_members s e ms)) = true.
  Proof.
    induction ms as [|m ms IH]; intros s e d H; [exact H|]. simpl. apply IH. apply add_member_has_key. exact H.
  Qed.

  Lemma add_members_binding : forall ms s e d a, wf s ->
    (forall m, In m ms -> is_new (snd m) = true -> mk_id (snd m) <> d) ->
    binding (add_members s e ms) d a = binding s d a.
  Proof.
    induction ms as [|m ms IH]; intros s e d a W H; [reflexivity|]. simpl.
    rewrite IH.
    - apply add_member_binding; [exact W|]. apply H. left. reflexivity.
    - apply add_member_wf. exact W.
    - intros m' Hin. apply H. right. exact Hin.
  Qed.

  Lemma member_ok_new : forall (s : state) m d,
    member_ok s m = true -> is_new m = true -> has_key d (st_ds s) = true -> mk_id m <> d.
  Proof.
    intros s m d Hok Hnew Hd E. destruct m as [d0|d0 g|d0]; simpl in *; try discriminate;
      subst; rewrite Hd in Hok; discriminate.
  Qed.

  (** ** One operation *)

  (** [a] is not (re-)registered by the operation *)
  Definition op_quiet (a : N) (x : op) : bool :=
    match x with
    | ORegister _ a' _ => negb (N.eqb a' a)
    | OOverload _ als _ _ | OOverloadDs _ als _ | OImplement _ als _ => negb (memN a als)
    | _ => true
    end.

  Lemma implement_regs : forall (s s1 : state) ifs als prov,
    implement s ifs als prov = Some s1 -> s1 = apply_regs s (regs_of (members_of s ifs) als prov).
  Proof.
    intros s s1 ifs als prov H. unfold implement in H.
    destruct (negb (forallb _ prov)); [discriminate|].
    destruct (existsb _ (members_of s ifs)); [discriminate|]. inversion H. reflexivity.
  Qed.

  Lemma regs_of_alias : forall ms als prov t, In t (regs_of ms als prov) -> In (snd (fst t)) als.
  Proof.
    intros ms als prov t H. unfold regs_of in H. apply in_flat_map in H. destruct H as [[n dl] [_ H]].
    destruct (assoc n prov) as [i|]; [|destruct H].
    apply in_flat_map in H. destruct H as [d [_ H]]. apply in_map_iff in H. destruct H as [a [E Ha]].
    subst t. exact Ha.
  Qed.

  Lemma step_wf : forall fuel x s ob s', wf s -> STEP cfg_now fuel x s = Some (ob, s') -> wf s'.
  Proof.
    intros fuel x s ob s' W H. destruct x; unfold step in H.
    - destruct (has_key d (st_ds s)); inversion H; subst; [exact W | apply new_ds_wf; exact W].
    - destruct (has_key d (st_ds s)); inversion H; subst; [apply register_wf; exact W | exact W].
    - destruct (negb (has_key d (st_ds s)) || has_key d' (st_ds s)); [inversion H; subst; exact W|].
      destruct (negb (has_dispatch s d)); inversion H; subst; [exact W|].
      rewrite register_all_regs. apply apply_regs_wf. apply new_ds_wf. exact W.
    - destruct (negb (has_key d (st_ds s)) || negb (has_key d' (st_ds s))); [inversion H; subst; exact W|].
      destruct (negb (has_dispatch s d)); inversion H; subst; [exact W|].
      rewrite register_all_regs. apply apply_regs_wf. exact W.
    - destruct (has_key d (st_ds s)); inversion H; subst; [apply set_dispatch_wf; exact W | exact W].
    - destruct (get_ds s d) as [rc|] eqn:Hd; [|inversion H; subst; exact W].
      destruct (has_key d' (st_ds s)); inversion H; subst; [exact W|].
      intros x rx Hx. unfold get_ds in Hx. simpl in Hx. rewrite assoc_upd in Hx. simpl.
      destruct (N.eqb x d').
      + inversion Hx. subst. simpl. apply (W d rc Hd).
      + apply (W x rx Hx).
    - destruct (EVAL fuel d o s) as [[[v|e] s1]|] eqn:E; inversion H; subst;
        apply (wf_same_struct s s'); try exact W; eapply eval_struct; eassumption.
    - destruct (has_key i (st_if s) || negb (nodupN (map (fun m => mk_id (snd m)) ms))
                || negb (nodupN (map fst ms)) || negb (forallb (fun m => member_ok s (snd m)) ms));
        inversion H; subst; [exact W|].
      apply (add_members_wf ms s e W).
    - destruct (negb (forallb (fun i => has_key i (st_if s)) ifs)); [inversion H; subst; exact W|].
      destruct (implement s ifs als prov) as [s1|] eqn:E; inversion H; subst; [|exact W].
      rewrite (implement_regs _ _ _ _ _ E). apply apply_regs_wf. exact W.
  Qed.

  Lemma apply_regs_has_key : forall l (s : state) d, has_key d (st_ds (apply_regs s l)) = has_key d (st_ds s).
  Proof. intros. destruct (apply_regs_struct l s) as [A _]. rewrite A. reflexivity. Qed.

  Lemma step_has_key : forall fuel x s ob s' d,
    STEP cfg_now fuel x s = Some (ob, s') -> has_key d (st_ds s) = true -> has_key d (st_ds s') = true.
  Proof.
    intros fuel x s ob s' k H K. destruct x; unfold step in H.
    - destruct (has_key d (st_ds s)); inversion H; subst; [exact K|].
      rewrite new_ds_has_key, K. apply orb_true_r.
    - destruct (has_key d (st_ds s)); inversion H; subst; [rewrite register_ds|]; exact K.
    - destruct (negb (has_key d (st_ds s)) || has_key d' (st_ds s)); [inversion H; subst; exact K|].
      destruct (negb (has_dispatch s d)); inversion H; subst; [exact K|].
      rewrite register_all_regs, apply_regs_has_key, new_ds_has_key, K. apply orb_true_r.
    - destruct (negb (has_key d (st_ds s)) || negb (has_key d' (st_ds s))); [inversion H; subst; exact K|].
      destruct (negb (has_dispatch s d)); inversion H; subst; [exact K|].
      rewrite register_all_regs, apply_regs_has_key. exact K.
    - destruct (has_key d (st_ds s)); inversion H; subst; [rewrite set_dispatch_has_key|]; exact K.
    - destruct (get_ds s d) as [rc|] eqn:Hd; [|inversion H; subst; exact K].
      destruct (has_key d' (st_ds s)); inversion H; subst; [exact K|].
      simpl. rewrite has_key_upd, K. apply orb_true_r.
    - destruct (EVAL fuel d o s) as [[[v|e] s1]|] eqn:E; inversion H; subst;
        apply eval_struct in E; destruct E as [E _]; rewrite E; exact K.
    - destruct (has_key i (st_if s) || negb (nodupN (map (fun m => mk_id (snd m)) ms))
                || negb (nodupN (map fst ms)) || negb (forallb (fun m => member_ok s (snd m)) ms));
        inversion H; subst; [exact K|].
      simpl. apply (add_members_has_key ms s e k K).
    - destruct (negb (forallb (fun i => has_key i (st_if s)) ifs)); [inversion H; subst; exact K|].
      destruct (implement s ifs als prov) as [s1|] eqn:E; inversion H; subst; [|exact K].
      rewrite (implement_regs _ _ _ _ _ E), apply_regs_has_key. exact K.
  Qed.

  Lemma quiet_regs_binding : forall l s d a, wf s ->
    (forall t, In t l -> snd (fst t) <> a) -> binding (apply_regs s l) d a = binding s d a.
  Proof.
    intros l s d a W H. rewrite (apply_regs_binding l s d a W). rewrite (last_reg_none s d a l H). reflexivity.
  Qed.

  (** An operation that does not register alias [a] leaves every existing dataset's entry for
      [a] as it was — including set_dispatch (the table is copied), new datasets, interface
      definitions, evaluations, rejected implementations. *)
  Lemma step_binding_quiet : forall fuel x s ob s' d a,
    wf s -> STEP cfg_now fuel x s = Some (ob, s') -> op_quiet a x = true ->
    has_key d (st_ds s) = true -> binding s' d a = binding s d a.
  Proof.
    intros fuel x s ob s' k a W H Q K. destruct x; unfold step in H; simpl in Q.
    - destruct (has_key d (st_ds s)) eqn:Hd; inversion H; subst; [reflexivity|].
      apply new_ds_binding_other; [exact W|]. intro E. subst. congruence.
    - destruct (has_key d (st_ds s)); inversion H; subst; [|reflexivity].
      rewrite (register_binding s d a0 i k a W). apply negb_true_iff in Q.
      rewrite (N.eqb_sym a a0), Q, andb_false_r. reflexivity.
    - destruct (negb (has_key d (st_ds s)) || has_key d' (st_ds s)) eqn:C; [inversion H; subst; reflexivity|].
      destruct (negb (has_dispatch s d)); inversion H; subst; [reflexivity|].
      apply orb_false_iff in C. destruct C as [_ C].
      rewrite register_all_regs, quiet_regs_binding.
      + apply new_ds_binding_other; [exact W|]. intro E. subst. congruence.
      + apply new_ds_wf. exact W.
      + intros t Ht. apply in_map_iff in Ht. destruct Ht as [a' [E Ha']]. subst t. simpl.
        intro E. subst. apply negb_true_iff in Q. apply memN_In in Ha'. congruence.
    - destruct (negb (has_key d (st_ds s)) || negb (has_key d' (st_ds s))); [inversion H; subst; reflexivity|].
      destruct (negb (has_dispatch s d)); inversion H; subst; [reflexivity|].
      rewrite register_all_regs, quiet_regs_binding; [reflexivity | exact W |].
      intros t Ht. apply in_map_iff in Ht. destruct Ht as [a' [E Ha']]. subst t. simpl.
      intro E. subst. apply negb_true_iff in Q. apply memN_In in Ha'. congruence.
    - destruct (has_key d (st_ds s)); inversion H; subst; [|reflexivity].
      apply set_dispatch_binding. exact W.
    - destruct (get_ds s d) as [rc|] eqn:Hd; [|inversion H; subst; reflexivity].
      destruct (has_key d' (st_ds s)) eqn:Hd'; inversion H; subst; [reflexivity|].
      unfold binding, ovl_of, get_ds. simpl. rewrite assoc_upd.
      destruct (N.eqb k d') eqn:E; [apply N.eqb_eq in E; subst; congruence | reflexivity].
    - destruct (EVAL fuel d o s) as [[[v|e] s1]|] eqn:E; inversion H; subst;
        apply same_struct_binding; eapply eval_struct; eassumption.
    - destruct (has_key i (st_if s) || negb (nodupN (map (fun m => mk_id (snd m)) ms))
                || negb (nodupN (map fst ms)) || negb (forallb (fun m => member_ok s (snd m)) ms)) eqn:C;
        inversion H; subst; [reflexivity|].
      apply orb_false_iff in C. destruct C as [_ C]. apply negb_false_iff in C.
      change (binding (add_members s e ms) k a = binding s k a).
      apply add_members_binding; [exact W|].
      intros m Hin Hnew. rewrite forallb_forall in C.
      apply (member_ok_new s (snd m) k (C m Hin) Hnew K).
    - destruct (negb (forallb (fun i => has_key i (st_if s)) ifs)); [inversion H; subst; reflexivity|].
      destruct (implement s ifs als prov) as [s1|] eqn:E; inversion H; subst; [|reflexivity].
      rewrite (implement_regs _ _ _ _ _ E). apply quiet_regs_binding; [exact W|].
      intros t Ht E2. apply regs_of_alias in Ht. rewrite E2 in Ht. apply memN_In in Ht.
      apply negb_true_iff in Q. congruence.
  Qed.

  (** * Histories *)

  Lemma run_cons : forall c fuel x h s obs s',
    RUN c fuel (x :: h) s = Some (obs, s') ->
    exists ob s1 obs', STEP c fuel x s = Some (ob, s1) /\ RUN c fuel h s1 = Some (obs', s') /\ obs = ob :: obs'.
  Proof.
    intros c fuel x h s obs s' H. simpl in H.
    destruct (STEP c fuel x s) as [[ob s1]|] eqn:E1; [|discriminate].
    destruct (RUN c fuel h s1) as [[obs' s2]|] eqn:E2; [|discriminate].
    inversion H. subst. exists ob, s1, obs'. split; [reflexivity|]. split; [exact E2 | reflexivity].
  Qed.

  Lemma run_app : forall c fuel h1 h2 s obs s',
    RUN c fuel (h1 ++ h2) s = Some (obs, s') ->
    exists obs1 s1 obs2, RUN c fuel h1 s = Some (obs1, s1) /\ RUN c fuel h2 s1 = Some (obs2, s') /\
                         obs = obs1 ++ obs2 /\ length obs1 = length h1.
  Proof.
    intros c fuel h1. induction h1 as [|x h1 IH]; intros h2 s obs s' H.
    - exists [], s, obs. repeat split. exact H.
    - rewrite <- app_comm_cons in H. apply run_cons in H.
      destruct H as [ob [s1 [obs' [H1 [H2 H3]]]]].
      destruct (IH h2 s1 obs' s' H2) as [obs1 [s2 [obs2 [A [B [C D]]]]]].
      exists (ob :: obs1), s2, obs2. simpl. rewrite H1, A. subst. simpl. rewrite D. repeat split. exact B.
  Qed.

  Lemma run_wf : forall fuel h s obs s', wf s -> RUN cfg_now fuel h s = Some (obs, s') -> wf s'.
  Proof.
    intros fuel h. induction h as [|x h IH]; intros s obs s' W H.
    - inversion H. subst. exact W.
    - apply run_cons in H. destruct H as [ob [s1 [obs' [H1 [H2 _]]]]].
      apply (IH s1 obs' s'); [eapply step_wf; eassumption | exact H2].
  Qed.

  Lemma run_has_key : forall fuel h s obs s' d,
    RUN cfg_now fuel h s = Some (obs, s') -> has_key d (st_ds s) = true -> has_key d (st_ds s') = true.
  Proof.
    intros fuel h. induction h as [|x h IH]; intros s obs s' d H K.
    - inversion H. subst. exact K.
    - apply run_cons in H. destruct H as [ob [s1 [obs' [H1 [H2 _]]]]].
      apply (IH s1 obs' s' d H2). eapply step_has_key; eassumption.
  Qed.

  (** A registration stays in force through any later history that does not re-register that
      alias: evaluations, set_dispatch, new datasets and derivatives, interface definitions,
      registrations under other aliases, rejected implementations. *)
  Theorem registration_persists : forall fuel h s obs s' d a,
    wf s -> has_key d (st_ds s) = true ->
    RUN cfg_now fuel h s = Some (obs, s') -> forallb (op_quiet a) h = true ->
    binding s' d a = binding s d a.
  Proof.
    intros fuel h. induction h as [|x h IH]; intros s obs s' d a W K H Q.
    - inversion H. reflexivity.
    - apply run_cons in H. destruct H as [ob [s1 [obs' [H1 [H2 _]]]]].
      simpl in Q. apply andb_true_iff in Q. destruct Q as [Q1 Q2].
      rewrite (IH s1 obs' s' d a); try assumption.
      + eapply step_binding_quiet; eassumption.
      + eapply step_wf; eassumption.
      + eapply step_has_key; eassumption.
  Qed.

  (** ** Registrations take effect at once *)

  (** the (dataset, alias, implementation) triples a directly registering operation names *)
  Definition registers (x : op) (d a : N) (i : impl) : Prop :=
    match x with
    | ORegister d0 a0 i0 => d0 = d /\ a0 = a /\ i0 = i
    | OOverload d0 als d' _ | OOverloadDs d0 als d' => d0 = d /\ In a als /\ i = IDs d'
    | _ => False
    end.

  Lemma all_regs_binding : forall s d als i a, wf s -> has_key d (st_ds s) = true -> In a als ->
    binding (apply_regs s (map (fun a => (d, a, i)) als)) d a = Some i.
  Proof.
    intros s d als i a W K Ha. rewrite (apply_regs_binding _ s d a W).
    rewrite (last_reg_unique s d a _ i); [reflexivity | |].
    - exists (d, a, i). split; [apply in_map_iff; exists a; split; [reflexivity | exact Ha]|].
      unfold targets. simpl. rewrite (same_ovl_refl s d K), N.eqb_refl. reflexivity.
    - intros t Ht _. apply in_map_iff in Ht. destruct Ht as [a' [E _]]. subst t. reflexivity.
  Qed.

  Theorem registration_takes_effect : forall fuel x s s1 d a i,
    wf s -> STEP cfg_now fuel x s = Some (ObOk, s1) -> registers x d a i ->
    has_key d (st_ds s1) = true /\ binding s1 d a = Some i.
  Proof.
    intros fuel x s s1 d a i W H R. destruct x; simpl in R; try contradiction; unfold step in H.
    - destruct R as [E1 [E2 E3]]. subst.
      destruct (has_key d (st_ds s)) eqn:K; inversion H; subst.
      split; [rewrite register_ds; exact K|].
      rewrite (register_binding s d a i d a W), (same_ovl_refl s d K), N.eqb_refl. reflexivity.
    - destruct R as [E1 [E2 E3]]. subst.
      destruct (negb (has_key d (st_ds s)) || has_key d' (st_ds s)) eqn:C; [discriminate|].
      destruct (negb (has_dispatch s d)); inversion H; subst.
      apply orb_false_iff in C. destruct C as [C1 C2]. apply negb_false_iff in C1.
      assert (K : has_key d (st_ds (new_ds s d' DMissing (Some (IFun g)) None)) = true)
        by (rewrite new_ds_has_key, C1; apply orb_true_r).
      rewrite register_all_regs. split; [rewrite apply_regs_has_key; exact K|].
      apply all_regs_binding; [apply new_ds_wf; exact W | exact K | exact E2].
    - destruct R as [E1 [E2 E3]]. subst.
      destruct (negb (has_key d (st_ds s)) || negb (has_key d' (st_ds s))) eqn:C; [discriminate|].
      destruct (negb (has_dispatch s d)); inversion H; subst.
      apply orb_false_iff in C. destruct C as [C1 C2]. apply negb_false_iff in C1.
      rewrite register_all_regs. split; [rewrite apply_regs_has_key; exact C1|].
      apply all_regs_binding; [exact W | exact C1 | exact E2].
  Qed.

  (** ** late registration: the registered implementation serves every later evaluation that is
      not already stored, whatever happened in between *)
  Theorem late_registration_applies : forall fuel h1 x h2 obs s d a i,
    RUN cfg_now fuel (h1 ++ x :: h2) (@empty_state V) = Some (obs, s) ->
    registers x d a i -> nth_error obs (length h1) = Some ObOk ->
    forallb (op_quiet a) h2 = true ->
    binding s d a = Some i /\
    forall f o r s' rc ov,
      get_ds s d = Some rc -> get_ovl s (d_ovl rc) = Some ov ->
      EVAL (S f) d o s = Some (r, s') ->
      stored f s d o = None ->
      deval (o_disp ov) (overlay (d_preset rc) o) = DVal a ->
      exists r0 s1, impl_outcome f s ov i (overlay (d_preset rc) o) = Some (r0, s1) /\
                    r = rmap (CB (d_cb rc)) r0.
  Proof.
    intros fuel h1 x h2 obs s d a i H R Hok Q.
    apply run_app in H. destruct H as [obs1 [s0 [obs2 [H1 [H2 [E L]]]]]].
    apply run_cons in H2. destruct H2 as [ob [s1 [obs' [H3 [H4 E2]]]]].
    subst obs obs2. rewrite nth_error_app2 in Hok; [|lia]. rewrite L, Nat.sub_diag in Hok.
    simpl in Hok. inversion Hok. subst ob.
    assert (W0 : wf s0) by (eapply run_wf; [apply wf_empty | exact H1]).
    destruct (registration_takes_effect fuel x s0 s1 d a i W0 H3 R) as [K B].
    assert (W1 : wf s1) by (eapply step_wf; eassumption).
    assert (Bs : binding s d a = Some i).
    { rewrite (registration_persists fuel h2 s1 obs' s d a W1 K H4 Q). exact B. }
    split; [exact Bs|].
    intros f o r s' rc ov Hds Hov He Hst Hd.
    pose proof (dispatch_spec f d o s r s' rc ov He Hds Hov Hst) as D.
    unfold pick in D. rewrite Hd in D.
    unfold binding, ovl_of in Bs. rewrite Hds, Hov in Bs. rewrite Bs in D. exact D.
  Qed.
End Sem.
