(** C04 — lemmas beyond Proofs/EvalProofs.v: plain (template-free) present values with the exact
    log, the domain check as a stage after resolution, [Option.set] then evaluate. *)
From Coq Require Import List NArith ZArith Bool.
Import ListNotations.
From LV Require Import Model.Base Model.Template Model.Eval Model.Derived
  Proofs.BaseProofs Proofs.EvalProofs Proofs.TraceProofs Proofs.FrameProofs Proofs.C09Proofs.

(** ** what [resolve] does to a value without templated strings: only the escapes [\{] [\}]
    of its strings are replaced, everywhere inside *)
Fixpoint unesc_json (v : json) : json :=
  match v with
  | JStr s => JStr (unescape s)
  | JList l => JList ((fix go (l : list json) : list json :=
                         match l with [] => [] | x :: l' => unesc_json x :: go l' end) l)
  | JObj m => JObj ((fix go (m : dict) : dict :=
                       match m with [] => [] | (k, x) :: m' => (k, unesc_json x) :: go m' end) m)
  | _ => v
  end.

(** no escape token anywhere inside: then [unesc_json] is the identity *)
Definition esc_tok (t : tok) : bool := match t with TEscL | TEscR => true | _ => false end.
Fixpoint esc_free (v : json) : bool :=
  match v with
  | JStr s => negb (existsb esc_tok s)
  | JList l => (fix go (l : list json) : bool :=
                  match l with [] => true | x :: l' => esc_free x && go l' end) l
  | JObj m => (fix go (m : dict) : bool :=
                 match m with [] => true | (_, x) :: m' => esc_free x && go m' end) m
  | _ => true
  end.

Lemma unescape_esc_free s : existsb esc_tok s = false -> unescape s = s.
Proof.
  induction s as [|t s IH]; [reflexivity|]. cbn [existsb]. intros H.
  apply orb_false_iff in H as [Ht Hs]. unfold unescape in *. cbn [map]. rewrite (IH Hs).
  destruct t; try reflexivity; discriminate.
Qed.

Lemma unesc_json_esc_free : forall v, esc_free v = true -> unesc_json v = v.
Proof.
  induction v as [| | | |s|l IH|m IH] using json_ind'; intros H; try reflexivity.
  - cbn in *. apply negb_true_iff in H. now rewrite unescape_esc_free.
  - cbn [unesc_json]. f_equal. induction l as [|x l IHl]; [reflexivity|].
    change (esc_free (JList (x :: l))) with (esc_free x && esc_free (JList l)) in H.
    apply andb_prop in H as [Hx Hl]. inversion IH as [|? ? Px Pl]; subst.
    rewrite (Px Hx). f_equal. exact (IHl Pl Hl).
  - cbn [unesc_json]. f_equal. induction m as [|[k x] m IHm]; [reflexivity|].
    change (esc_free (JObj ((k, x) :: m))) with (esc_free x && esc_free (JObj m)) in H.
    apply andb_prop in H as [Hx Hm]. inversion IH as [|? ? Px Pm]; subst. cbn [snd] in Px.
    rewrite (Px Hx). f_equal. exact (IHm Pm Hm).
Qed.

Lemma resolve_plain_json f o : forall v, plain_json v = true -> resolve (S f) o v = ROk (unesc_json v).
Proof.
  induction v as [| | | |s|l IH|m IH] using json_ind'; intros H; try reflexivity.
  - cbn [plain_json] in H. apply negb_true_iff in H. now apply resolve_plain.
  - rewrite resolve_list_unfold. cbn [unesc_json].
    induction l as [|x l IHl]; [reflexivity|].
    change (plain_json (JList (x :: l))) with (plain_json x && plain_json (JList l)) in H.
    apply andb_prop in H as [Hx Hl]. inversion IH as [|? ? Px Pl]; subst.
    cbn [resolve_list]. rewrite (Px Hx). cbn [resolve_list] in IHl. rewrite (IHl Pl Hl). reflexivity.
  - rewrite resolve_obj_unfold. cbn [unesc_json].
    induction m as [|[k x] m IHm]; [reflexivity|].
    change (plain_json (JObj ((k, x) :: m))) with (plain_json x && plain_json (JObj m)) in H.
    apply andb_prop in H as [Hx Hm]. inversion IH as [|? ? Px Pm]; subst. cbn [snd] in Px.
    cbn [resolve_obj]. rewrite (Px Hx). cbn [resolve_obj] in IHm. rewrite (IHm Pm Hm). reflexivity.
Qed.

Section C04.
  Variable S : Type.
  Variable mem_find : N -> fp -> S -> option value.
  Variable mem_store : N -> fp -> value -> S -> S.
  Variable cfg : config.
  Variable ucall : N -> list value -> cres.
  Variable rfuel : nat.
  Variable site_ok : expr -> dict -> bool.

  Notation eval := (eval S mem_find mem_store cfg ucall rfuel site_ok).
  Notation M := (M S).
  Notation in_domain := (in_domain S ucall).
  Notation call_value := (call_value S ucall).

  (** (a) a present value without templated strings is returned as stored (escapes of its
      strings replaced), whatever the default; exact log: the one read of [k] *)
  Theorem present_plain_value_wins k dflt raw o s :
    rfuel <> 0%nat -> lookup k (JObj o) = Found raw -> plain_json raw = true ->
    eval (EOption k dflt None) o s = (Ok (VJ (unesc_json raw)), s, [EvRead k true]).
  Proof.
    intros Hf Hl Hp.
    assert (Hr : resolve rfuel o raw = ROk (unesc_json raw))
      by (destruct rfuel as [|f]; [contradiction|]; now apply resolve_plain_json).
    pose proof (reads_plain_json o rfuel raw Hp) as Hrr.
    rewrite eval_option_unfold.
    unfold wrap_eval, option_eval, rd, bind, emit, ret. cbn. rewrite Hl. cbn.
    rewrite Hrr, Hr. reflexivity.
  Qed.

  Corollary present_plain_escfree_value_wins k dflt raw o s :
    rfuel <> 0%nat -> lookup k (JObj o) = Found raw -> plain_json raw = true -> esc_free raw = true ->
    eval (EOption k dflt None) o s = (Ok (VJ raw), s, [EvRead k true]).
  Proof.
    intros Hf Hl Hp He. rewrite (present_plain_value_wins k dflt raw o s Hf Hl Hp).
    now rewrite (unesc_json_esc_free raw He).
  Qed.

  Lemma wrap_bind2 {R} (m : M R) (body : R -> M value) (K : value -> M value) s :
    wrap_eval S (bind S m (fun r => bind S (body r) K)) s =
    match wrap_eval S (bind S m (fun r => bind S (body r) (fun v => ret S v))) s with
    | (Ok v, s0, l0) =>
        match K v s0 with
        | (Ok w, s1, l1) => (Ok w, s1, l0 ++ l1)
        | (Err c _, s1, l1) => (Err c true, s1, l0 ++ l1)
        end
    | (Err c ee, s0, l0) => (Err c true, s0, l0)
    end.
  Proof.
    unfold wrap_eval, bind, ret.
    destruct (m s) as [[[r|c ee] s1] l1]; [|reflexivity].
    destruct (body r s1) as [[[v|c ee] s2] l2]; [|reflexivity].
    rewrite app_nil_r.
    destruct (K v s2) as [[[w|c ee] s3] l3]; now rewrite app_assoc.
  Qed.

  (** (b) the domain: an Option with a domain is the Option without it, THEN the domain
      expression evaluated under the same options, THEN the membership check *)
  Theorem domain_is_check_after_resolution k dflt de o s :
    eval (EOption k dflt (Some de)) o s =
      match eval (EOption k dflt None) o s with
      | (Ok v, s0, l0) =>
          match eval de o s0 with
          | (Ok d, s1, l1) =>
              match in_domain d v s1 with
              | (Ok _, s2, l2) => (Ok v, s2, l0 ++ l1 ++ l2)
              | (Err c _, s2, l2) => (Err c true, s2, l0 ++ l1 ++ l2)
              end
          | (Err c _, s1, l1) => (Err c true, s1, l0 ++ l1)
          end
      | (Err c ee, s0, l0) => (Err c true, s0, l0)
      end.
  Proof.
    set (body := fun r : lres =>
                   match r with
                   | TypeErr => fail S CType false
                   | Absent => match dflt with None => fail S (CKey k) true | Some d => eval d o end
                   | Found raw =>
                       bind S (emit_reads S (resolve_reads rfuel o raw) o) (fun _ =>
                       bind S (of_rres S (resolve rfuel o raw)) (fun j => ret S (VJ j)))
                   end).
    set (K := fun v : value =>
                bind S (eval de o) (fun d => bind S (in_domain d v) (fun _ => ret S v))).
    change (eval (EOption k dflt (Some de)) o s)
      with (wrap_eval S (bind S (rd S k o) (fun r => bind S (body r) K)) s).
    change (eval (EOption k dflt None) o s)
      with (wrap_eval S (bind S (rd S k o) (fun r => bind S (body r) (fun v => ret S v))) s).
    rewrite wrap_bind2.
    destruct (wrap_eval S (bind S (rd S k o) (fun r => bind S (body r) (fun v => ret S v))) s)
      as [[[v|c ee] s0] l0]; [|reflexivity].
    unfold K, bind.
    destruct (eval de o s0) as [[[d|c ee] s1] l1]; [|reflexivity].
    destruct (in_domain d v s1) as [[[u|c ee] s2] l2]; [|reflexivity].
    unfold ret. now rewrite app_nil_r.
  Qed.

  (** the membership check for each kind of evaluated domain *)
  Definition is_fun (d : value) : bool := match d with VF _ _ _ => true | _ => false end.

  Lemma in_domain_container d els v s :
    is_fun d = false -> elements_of d = Some els ->
    in_domain d v s =
      (if existsb (fun x => value_eq v x) els then (Ok tt, s, []) else (Err CDomain false, s, [])).
  Proof.
    intros Hf He. unfold Eval.in_domain. destruct d; try discriminate; rewrite He;
      destruct (existsb _ els); reflexivity.
  Qed.

  Lemma in_domain_predicate f pre post v s :
    in_domain (VF f pre post) v s =
      match call_value (VF f pre post) v s with
      | (Ok b, s1, l1) => if truthy b then (Ok tt, s1, l1) else (Err CDomain false, s1, l1)
      | (Err c ee, s1, l1) => (Err c ee, s1, l1)
      end.
  Proof.
    unfold Eval.in_domain, bind.
    destruct (call_value (VF f pre post) v s) as [[[b|c ee] s1] l1]; [|reflexivity].
    destruct (truthy b); cbn; now rewrite app_nil_r.
  Qed.

  (** anything else is "not a valid domain": labrea warns and accepts the value *)
  Lemma in_domain_invalid d v s :
    is_fun d = false -> elements_of d = None -> in_domain d v s = (Ok tt, s, []).
  Proof. intros Hf He. unfold Eval.in_domain. destruct d; try discriminate; now rewrite He. Qed.

  (** [dom_accepts d v s s' l]: the check of [v] against the evaluated domain [d] started in
      [s] succeeds, ending in [s'] with log [l] — spelled out per kind *)
  Definition dom_accepts (d v : value) (s s' : S) (l : list event) : Prop :=
    match d with
    | VF _ _ _ => exists b, call_value d v s = (Ok b, s', l) /\ truthy b = true
    | _ => match elements_of d with
           | Some els => existsb (fun x => value_eq v x) els = true /\ s' = s /\ l = []
           | None => s' = s /\ l = []
           end
    end.

  Lemma in_domain_ok_iff d v s s' l :
    in_domain d v s = (Ok tt, s', l) <-> dom_accepts d v s s' l.
  Proof.
    unfold dom_accepts. destruct (is_fun d) eqn:Hf.
    - destruct d; try discriminate. rewrite in_domain_predicate.
      destruct (call_value (VF f pre post) v s) as [[[b|c ee] s1] l1].
      + destruct (truthy b) eqn:Hb; split.
        * intros H. inversion H; subst. exists b. auto.
        * intros (b' & H & Hb'). now inversion H; subst.
        * discriminate.
        * intros (b' & H & Hb'). inversion H; subst. congruence.
      + split; [discriminate|]. intros (b' & H & _). discriminate.
    - destruct (elements_of d) as [els|] eqn:He.
      + rewrite (in_domain_container d els v s Hf He).
        assert (G : (if existsb (fun x => value_eq v x) els then (Ok tt, s, []) else (@Err unit CDomain false, s, []))
                    = (Ok tt, s', l) <-> existsb (fun x => value_eq v x) els = true /\ s' = s /\ l = []).
        { destruct (existsb _ els); split.
          - intros H. inversion H; subst. auto.
          - intros (_ & -> & ->). reflexivity.
          - discriminate.
          - intros (H & _). discriminate. }
        destruct d; try discriminate; exact G.
      + rewrite (in_domain_invalid d v s Hf He).
        assert (G : (@Ok unit tt, s, @nil event) = (Ok tt, s', l) <-> s' = s /\ l = []).
        { split; [intros H; inversion H; subst; auto|intros (-> & ->); reflexivity]. }
        destruct d; try discriminate; exact G.
  Qed.

  (** soundness AND completeness of the domain: the Option with a domain returns [v] iff the
      Option without it returns [v], the domain evaluates (in the state reached) to some [d],
      and [d] accepts [v]; stores and logs chained *)
  Theorem domain_returns_iff k dflt de o s v s' l :
    eval (EOption k dflt (Some de)) o s = (Ok v, s', l) <->
    exists s0 l0 d s1 l1 l2,
      eval (EOption k dflt None) o s = (Ok v, s0, l0) /\
      eval de o s0 = (Ok d, s1, l1) /\
      dom_accepts d v s1 s' l2 /\ l = l0 ++ l1 ++ l2.
  Proof.
    rewrite domain_is_check_after_resolution. split.
    - destruct (eval (EOption k dflt None) o s) as [[[v0|c ee] s0] l0] eqn:E0; [|discriminate].
      destruct (eval de o s0) as [[[d|c ee] s1] l1] eqn:Ed; [|discriminate].
      destruct (in_domain d v0 s1) as [[[[]|c ee] s2] l2] eqn:Hin; [|discriminate].
      intros H. inversion H; subst.
      exists s0, l0, d, s1, l1, l2. split; [reflexivity|]. split; [exact Ed|]. split; [|reflexivity]. now apply in_domain_ok_iff.
    - intros (s0 & l0 & d & s1 & l1 & l2 & -> & -> & Ha & ->).
      apply in_domain_ok_iff in Ha. now rewrite Ha.
  Qed.

  (** a value the (container) domain does not contain is refused with a domain error, and a
      value it contains is returned: the "iff" for container domains in closed form *)
  Theorem domain_container k dflt de o s v s0 l0 d els s1 l1 :
    eval (EOption k dflt None) o s = (Ok v, s0, l0) ->
    eval de o s0 = (Ok d, s1, l1) -> is_fun d = false -> elements_of d = Some els ->
    eval (EOption k dflt (Some de)) o s =
      (if existsb (fun x => value_eq v x) els then Ok v else Err CDomain true, s1, l0 ++ l1).
  Proof.
    intros H0 Hd Hf He. rewrite domain_is_check_after_resolution, H0, Hd.
    rewrite (in_domain_container d els v s1 Hf He).
    destruct (existsb _ els); now rewrite app_nil_r.
  Qed.

  (** predicate domains: returned iff the predicate's result is truthy, a domain error when it
      is falsy, the predicate's own failure when it raises *)
  Theorem domain_predicate k dflt de o s v s0 l0 f pre post s1 l1 :
    eval (EOption k dflt None) o s = (Ok v, s0, l0) ->
    eval de o s0 = (Ok (VF f pre post), s1, l1) ->
    eval (EOption k dflt (Some de)) o s =
      match call_value (VF f pre post) v s1 with
      | (Ok b, s2, l2) => (if truthy b then Ok v else Err CDomain true, s2, l0 ++ l1 ++ l2)
      | (Err c _, s2, l2) => (Err c true, s2, l0 ++ l1 ++ l2)
      end.
  Proof.
    intros H0 Hd. rewrite domain_is_check_after_resolution, H0, Hd, in_domain_predicate.
    destruct (call_value (VF f pre post) v s1) as [[[b|c ee] s2] l2]; [|reflexivity].
    destruct (truthy b); reflexivity.
  Qed.

  (** (c) [Option.set] then evaluate: the Option (no default, no domain) evaluates to the value set *)
  Theorem set_then_evaluate k v o s :
    rfuel <> 0%nat ->
    k <> [] -> forallb is_name k = true -> wf_json v = true -> (forall m, v <> JObj m) ->
    plain_json v = true ->
    eval (EOption k None None) (set_option k v o) s = (Ok (VJ (unesc_json v)), s, [EvRead k true]).
  Proof.
    intros Hf Hk Hn Hw Ho Hp.
    exact (present_plain_value_wins k None v _ s Hf (set_then_get k v o Hk Hn Hw Ho) Hp).
  Qed.
End C04.
