(** A usable induction principle for [expr] (nested through lists, options and pairs): the
    induction hypothesis is available for every direct sub-expression, wherever it sits. *)
From Coq Require Import List NArith ZArith Bool.
Import ListNotations.
From LV Require Import Model.Base Model.Template Model.Eval.

Section ExprInd.
  Variable P : expr -> Prop.

  Definition Popt (o : option expr) : Prop := match o with Some e => P e | None => True end.

  Hypothesis HValue : forall v, P (EValue v).
  Hypothesis HOption : forall k dflt dom, Popt dflt -> Popt dom -> P (EOption k dflt dom).
  Hypothesis HApply : forall src fn, P src -> P fn -> P (EApply src fn).
  Hypothesis HBind : forall src tbl dflt,
    P src -> Forall (fun ve => P (snd ve)) tbl -> Popt dflt -> P (EBind src tbl dflt).
  Hypothesis HSwitch : forall disp tbl dflt,
    P disp -> Forall (fun ve => P (snd ve)) tbl -> Popt dflt -> P (ESwitch disp tbl dflt).
  Hypothesis HCase : forall disp cases dflt,
    P disp -> Forall (fun cr => P (fst cr) /\ P (snd cr)) cases -> Popt dflt -> P (ECase disp cases dflt).
  Hypothesis HCoalesce : forall ms, Forall P ms -> P (ECoalesce ms).
  Hypothesis HIter : forall es, Forall P es -> P (EIter es).
  Hypothesis HMap : forall e its, P e -> Forall (fun ke => P (snd ke)) its -> P (EMap e its).
  Hypothesis HWith : forall force p e, P e -> P (EWith force p e).
  Hypothesis HCached : forall c e, P e -> P (ECached c e).
  Hypothesis HCall : forall partial f args kwargs,
    P f -> Forall P args -> Forall P kwargs -> P (ECall partial f args kwargs).
  Hypothesis HTemplate : forall s ps, Forall (fun pe => P (snd pe)) ps -> P (ETemplate s ps).
  Hypothesis HComp : forall e effects, P e -> Forall P effects -> P (EComp e effects).
  Hypothesis HLogged : forall e, P e -> P (ELogged e).
  Hypothesis HPipe : forall steps, Forall P steps -> P (EPipe steps).
  Hypothesis HAll : P EAllOptions.

  Fixpoint expr_ind' (e : expr) : P e :=
    let opt (o : option expr) : Popt o :=
      match o with Some x => expr_ind' x | None => I end in
    let all := fix all (l : list expr) : Forall P l :=
      match l with [] => Forall_nil _ | x :: l' => Forall_cons _ (expr_ind' x) (all l') end in
    match e with
    | EValue v => HValue v
    | EOption k dflt dom => HOption k dflt dom (opt dflt) (opt dom)
    | EApply src fn => HApply src fn (expr_ind' src) (expr_ind' fn)
    | EBind src tbl dflt =>
        HBind src tbl dflt (expr_ind' src)
          ((fix go (l : list (value * expr)) : Forall (fun ve => P (snd ve)) l :=
              match l with [] => Forall_nil _ | (v, x) :: l' => Forall_cons (v, x) (expr_ind' x) (go l') end) tbl)
          (opt dflt)
    | ESwitch disp tbl dflt =>
        HSwitch disp tbl dflt (expr_ind' disp)
          ((fix go (l : list (value * expr)) : Forall (fun ve => P (snd ve)) l :=
              match l with [] => Forall_nil _ | (v, x) :: l' => Forall_cons (v, x) (expr_ind' x) (go l') end) tbl)
          (opt dflt)
    | ECase disp cases dflt =>
        HCase disp cases dflt (expr_ind' disp)
          ((fix go (l : list (expr * expr)) : Forall (fun cr => P (fst cr) /\ P (snd cr)) l :=
              match l with
              | [] => Forall_nil _
              | (c, r) :: l' => Forall_cons (c, r) (conj (expr_ind' c) (expr_ind' r)) (go l')
              end) cases)
          (opt dflt)
    | ECoalesce ms => HCoalesce ms (all ms)
    | EIter es => HIter es (all es)
    | EMap e its =>
        HMap e its (expr_ind' e)
          ((fix go (l : list (key * expr)) : Forall (fun ke => P (snd ke)) l :=
              match l with [] => Forall_nil _ | (k, x) :: l' => Forall_cons (k, x) (expr_ind' x) (go l') end) its)
    | EWith force p e => HWith force p e (expr_ind' e)
    | ECached c e => HCached c e (expr_ind' e)
    | ECall partial f args kwargs => HCall partial f args kwargs (expr_ind' f) (all args) (all kwargs)
    | ETemplate s ps =>
        HTemplate s ps
          ((fix go (l : list (N * expr)) : Forall (fun pe => P (snd pe)) l :=
              match l with [] => Forall_nil _ | (p, x) :: l' => Forall_cons (p, x) (expr_ind' x) (go l') end) ps)
    | EComp e effects => HComp e effects (expr_ind' e) (all effects)
    | ELogged e => HLogged e (expr_ind' e)
    | EPipe steps => HPipe steps (all steps)
    | EAllOptions => HAll
    end.
End ExprInd.
