(** C05 — the code-structured interpreter [Eval.eval] refines the reference semantics
    [Spec.sem] on the cache-free reference instance (store = [unit]), for every expression,
    every options dictionary, all user code and every resolution budget; then the sentences of
    the property as corollaries about [sem]. *)
From Coq Require Import List NArith ZArith Bool Lia.
Import ListNotations.
From LV Require Import Model.Base Model.Template Model.Eval Model.Derived Model.EvalRun Model.Spec
  Proofs.BaseProofs Proofs.EvalProofs Proofs.EvalInd.
Local Open Scope spec_scope.

(** ** The result projection of a computation over the trivial store *)
Definition R {A} (m : M unit A) : res A := fst (fst (m tt)).

Lemma R_ret {A} (a : A) : R (ret unit a) = Ok a.
Proof. reflexivity. Qed.
Lemma R_fail {A} c ee : R (@fail unit A c ee) = Err c ee.
Proof. reflexivity. Qed.
Lemma R_emit ev : R (emit unit ev) = Ok tt.
Proof. reflexivity. Qed.

Lemma R_bind {A B} (m : M unit A) (f : A -> M unit B) :
  R (bind unit m f) = rbind (R m) (fun a => R (f a)).
Proof.
  unfold R, bind. destruct (m tt) as [[[a|c ee] []] l]; cbn; [|reflexivity].
  destruct (f a tt) as [[r []] l']. reflexivity.
Qed.

Lemma R_catch {A} (m : M unit A) (h : cause -> bool -> M unit A) :
  R (catch unit m h) = rcatch (R m) (fun c ee => R (h c ee)).
Proof.
  unfold R, catch. destruct (m tt) as [[[a|c ee] []] l]; cbn; [reflexivity|].
  destruct c; cbn; try reflexivity;
    match goal with |- context [h ?c ?e tt] => destruct (h c e tt) as [[r []] l'] end; reflexivity.
Qed.

Lemma R_wrap {A} (m : M unit A) : R (wrap_eval unit m) = as_ee (R m).
Proof. unfold R, wrap_eval. destruct (m tt) as [[[a|c ee] []] l]; reflexivity. Qed.

Lemma rbind_ext {A B} (r : res A) (f g : A -> res B) :
  (forall a, f a = g a) -> rbind r f = rbind r g.
Proof. intros H. destruct r; cbn; [apply H|reflexivity]. Qed.

Lemma rcatch_ext {A} (r : res A) (h k : cause -> bool -> res A) :
  (forall c ee, h c ee = k c ee) -> rcatch r h = rcatch r k.
Proof. intros H. destruct r as [a|c ee]; cbn; [reflexivity|]. destruct c; auto. Qed.

Lemma as_ee_idem {A} (r : res A) : as_ee (as_ee r) = as_ee r.
Proof. destruct r; reflexivity. Qed.

Lemma R_mapM {A B} (f : A -> M unit B) (g : A -> res B) l :
  Forall (fun a => R (f a) = g a) l -> R (mapM unit f l) = rmapM g l.
Proof.
  induction 1 as [|a l Ha _ IH]; [reflexivity|].
  rewrite mapM_cons, R_bind, Ha. cbn [rmapM]. apply rbind_ext; intros b.
  rewrite R_bind. fold (rmapM g). rewrite IH. apply rbind_ext; intros bs. apply R_ret.
Qed.

Lemma R_iterM {A} (f : A -> M unit unit) (g : A -> res unit) l :
  Forall (fun a => R (f a) = g a) l -> R (iterM unit f l) = riterM g l.
Proof.
  induction 1 as [|a l Ha _ IH]; [reflexivity|].
  rewrite iterM_cons, R_bind, Ha. cbn [riterM]. apply rbind_ext; intros _. exact IH.
Qed.

Lemma Forall_all {A} (P : A -> Prop) l : (forall a, P a) -> Forall P l.
Proof. intros H. induction l; constructor; auto. Qed.

Lemma R_pick {A} (k : value) (onhit : expr -> M unit A) (onmiss : M unit A) (g : expr -> res A) (gm : res A) tbl :
  Forall (fun ve => R (onhit (snd ve)) = g (snd ve)) tbl -> R onmiss = gm ->
  R (pick k onhit onmiss tbl) = pick k g gm tbl.
Proof.
  intros H Hm. induction H as [|[v b] tbl Hb _ IH]; [exact Hm|].
  cbn [pick]. destruct (value_eq k v); [exact Hb|exact IH].
Qed.

(** ** Leaf computations *)
Lemma R_emit_reads ks o : R (emit_reads unit ks o) = Ok tt.
Proof. destruct (emit_reads_spec unit ks o tt) as [l [E _]]. unfold R. now rewrite E. Qed.

Lemma R_rd k o : R (rd unit k o) = Ok (lookup k (JObj o)).
Proof. reflexivity. Qed.

Lemma R_of_rres r : R (of_rres unit r) = sres_of r.
Proof. destruct r; reflexivity. Qed.

Lemma R_force_elems v : R (force_elems unit v) = sforce v.
Proof.
  unfold force_elems, sforce. destruct (elements_of v) as [els|]; [|reflexivity].
  destruct (first_err els); reflexivity.
Qed.

Section Calls.
  Variable u : N -> list value -> cres.

  Lemma R_call_fun f args : R (call_fun unit u f args) = scall_fun u f args.
  Proof.
    unfold call_fun, scall_fun.
    destruct (N.eqb f B_LIST).
    { destruct args as [|x [|y args]]; try reflexivity.
      rewrite R_bind, R_force_elems. apply rbind_ext; intros els. reflexivity. }
    destruct (N.eqb f B_TUPLE).
    { destruct args as [|x [|y args]]; try reflexivity.
      rewrite R_bind, R_force_elems. apply rbind_ext; intros els. reflexivity. }
    destruct (N.eqb f B_DICT).
    { destruct args as [|x [|y args]]; try reflexivity.
      rewrite R_bind, R_force_elems. apply rbind_ext; intros ps.
      destruct (first_err _); [reflexivity|]. destruct (dict_of_pairs ps []); reflexivity. }
    destruct (deep_err_list args); [reflexivity|].
    destruct (u f (map listify args)); reflexivity.
  Qed.
End Calls.

(** induction on values with the hypothesis for every captured positional argument of a
    callable (the members of an evaluated pipeline) *)
Section ValueInd.
  Variable P : value -> Prop.
  Hypothesis HJ : forall j, P (VJ j).
  Hypothesis HT : forall t args, P (VT t args).
  Hypothesis HF : forall f pre post, Forall P pre -> P (VF f pre post).
  Hypothesis HM : P VMissing.
  Hypothesis HE : forall c, P (VErr c).

  Fixpoint value_callable_ind (v : value) : P v :=
    match v with
    | VJ j => HJ j
    | VT t args => HT t args
    | VF f pre post =>
        HF f pre post
           ((fix all (l : list value) : Forall P l :=
               match l with [] => Forall_nil _ | x :: l' => Forall_cons _ (value_callable_ind x) (all l') end) pre)
    | VMissing => HM
    | VErr c => HE c
    end.
End ValueInd.

Section Calls2.
  Variable u : N -> list value -> cres.

  Lemma R_call_value f : forall x, R (call_value unit u f x) = scall_value u f x.
  Proof.
    induction f as [j|t args|fid pre post IH| |c] using value_callable_ind; intros x; try reflexivity.
    cbn [call_value scall_value]. destruct (N.eqb fid B_COMPOSE); [|apply R_call_fun].
    revert x. induction IH as [|g fs Hg _ IHfs]; intros x; [reflexivity|].
    rewrite R_bind, Hg. apply rbind_ext; intros y. apply IHfs.
  Qed.

  Lemma R_call_value_n f args : R (call_value_n unit u f args) = scall_value_n u f args.
  Proof.
    destruct f; try reflexivity. cbn [call_value_n scall_value_n].
    destruct (N.eqb f B_COMPOSE); [reflexivity|apply R_call_fun].
  Qed.

  Lemma R_in_domain d v : R (in_domain unit u d v) = sin_domain u d v.
  Proof.
    destruct d as [j|t args|fid pre post| |c]; cbn [in_domain sin_domain];
      try (destruct (elements_of _) as [els|]; [destruct (existsb _ els)|]; reflexivity).
    rewrite R_bind, R_call_value. apply rbind_ext; intros b. destruct (truthy b); reflexivity.
  Qed.
End Calls2.

Lemma rbind_cong {A B} (r r' : res A) (f g : A -> res B) :
  r = r' -> (forall a, f a = g a) -> rbind r f = rbind r' g.
Proof. intros -> H. now apply rbind_ext. Qed.

Lemma rcatch_cong {A} (r r' : res A) (h k : cause -> bool -> res A) :
  r = r' -> (forall c ee, h c ee = k c ee) -> rcatch r h = rcatch r' k.
Proof. intros -> H. now apply rcatch_ext. Qed.

Lemma Popt_impl (P Q : expr -> Prop) x : (forall e, P e -> Q e) -> Popt P x -> Popt Q x.
Proof. destruct x; cbn; auto. Qed.

(** ** The refinement, constructor by constructor *)
Section Refinement.
  Variable u : N -> list value -> cres.
  Variable fuel : nat.
  Notation evalR := (eval unit nc_find nc_store cfg_nc u fuel (fun _ _ => true)).
  Notation validR := (validate unit nc_find nc_store cfg_nc u fuel (fun _ _ => true)).
  Notation sem := (Spec.sem u fuel).
  Notation semv := (Spec.sem_valid u fuel).

  Ltac unf := cbn [eval validate Spec.sem Spec.sem_valid]; fold evalR; fold validR; fold sem; fold semv.

  Definition refines (e : expr) : Prop :=
    (forall o, R (evalR e o) = sem e o) /\ (forall o, R (validR e o) = semv e o).

  Lemma sem_is_wrapped e o : as_ee (sem e o) = sem e o.
  Proof. destruct e; apply as_ee_idem. Qed.

  Lemma sem_err_ee e o c ee : sem e o = Err c ee -> ee = true.
  Proof. intros H. rewrite <- sem_is_wrapped in H. destruct (sem e o); cbn in H; now inversion H. Qed.

  Lemma R_option_eval (ev : expr -> M unit value) (sv : expr -> res value) k dflt dom o :
    Popt (fun e => R (ev e) = sv e) dflt -> Popt (fun e => R (ev e) = sv e) dom ->
    R (option_eval unit u fuel ev k dflt dom o) = soption u fuel sv k dflt dom o.
  Proof.
    intros Hd Hm. unfold option_eval, soption. rewrite R_bind, R_rd. cbn [rbind].
    rewrite R_bind. apply rbind_cong.
    - destruct (lookup k (JObj o)) as [raw| |].
      + rewrite R_bind, R_emit_reads. cbn [rbind]. rewrite R_bind, R_of_rres.
        apply rbind_ext; intros j. reflexivity.
      + destruct dflt as [d|]; [exact Hd|reflexivity].
      + reflexivity.
    - intros v. destruct dom as [de|]; [|reflexivity].
      rewrite R_bind. cbn in Hm. rewrite Hm. apply rbind_ext; intros d.
      rewrite R_bind, R_in_domain. apply rbind_ext; intros _. reflexivity.
  Qed.

  Lemma ref_value v : refines (EValue v).
  Proof. split; intros o; reflexivity. Qed.

  Lemma ref_option k dflt dom : Popt refines dflt -> Popt refines dom -> refines (EOption k dflt dom).
  Proof.
    intros Hd Hm.
    assert (Hd' : forall o, Popt (fun e => R (evalR e o) = sem e o) dflt)
      by (intros o; eapply Popt_impl; [|exact Hd]; intros e He; apply He).
    assert (Hm' : forall o, Popt (fun e => R (evalR e o) = sem e o) dom)
      by (intros o; eapply Popt_impl; [|exact Hm]; intros e He; apply He).
    split; intros o; unf.
    - rewrite R_wrap. f_equal. apply R_option_eval; auto.
    - rewrite R_bind, R_rd. cbn [rbind]. destruct (lookup k (JObj o)) as [raw| |].
      + rewrite R_bind, R_wrap. apply rbind_cong; [|reflexivity].
        f_equal. apply R_option_eval; auto.
      + destruct dflt as [d|]; [apply Hd|reflexivity].
      + reflexivity.
  Qed.

  Lemma ref_apply src fn : refines src -> refines fn -> refines (EApply src fn).
  Proof.
    intros [Hs Hsv] [Hf Hfv]. split; intros o; unf.
    - rewrite R_wrap. f_equal. rewrite R_bind, Hs. apply rbind_ext; intros x.
      rewrite R_bind, Hf. apply rbind_ext; intros f. apply R_call_value.
    - rewrite R_bind, Hsv. apply rbind_ext; intros _. apply Hfv.
  Qed.

  Lemma tbl_eval (tbl : list (value * expr)) o :
    Forall (fun ve => refines (snd ve)) tbl ->
    Forall (fun ve => R (evalR (snd ve) o) = sem (snd ve) o) tbl.
  Proof. apply Forall_impl. intros a H. apply H. Qed.
  Lemma tbl_valid (tbl : list (value * expr)) o :
    Forall (fun ve => refines (snd ve)) tbl ->
    Forall (fun ve => R (validR (snd ve) o) = semv (snd ve) o) tbl.
  Proof. apply Forall_impl. intros a H. apply H. Qed.

  Lemma ref_bind src tbl dflt :
    refines src -> Forall (fun ve => refines (snd ve)) tbl -> Popt refines dflt -> refines (EBind src tbl dflt).
  Proof.
    intros [Hs Hsv] Ht Hd. split; intros o; unf.
    - rewrite R_wrap. f_equal. rewrite R_bind, Hs. apply rbind_ext; intros x.
      apply R_pick; [now apply tbl_eval|]. destruct dflt as [d|]; [apply Hd|reflexivity].
    - rewrite R_bind, Hsv. apply rbind_ext; intros _.
      rewrite R_bind, Hs. apply rbind_ext; intros x.
      apply R_pick; [now apply tbl_valid|]. destruct dflt as [d|]; [apply Hd|reflexivity].
  Qed.

  Lemma R_dispatch (m : M unit value) (hd : bool) :
    R (dispatch_value unit m hd) =
      match R m with
      | Ok k => Ok (Some k)
      | Err c ee => if is_unmodelled c then Err c ee else if ee && hd then Ok None else Err c ee
      end.
  Proof.
    unfold dispatch_value. rewrite R_catch, R_bind.
    destruct (R m) as [k|c ee]; [reflexivity|].
    destruct c; cbn [rbind rcatch is_unmodelled]; try reflexivity; destruct (ee && hd); reflexivity.
  Qed.

  Lemma ref_switch disp tbl dflt :
    refines disp -> Forall (fun ve => refines (snd ve)) tbl -> Popt refines dflt -> refines (ESwitch disp tbl dflt).
  Proof.
    intros [Hs Hsv] Ht Hd. split; intros o; unf.
    - rewrite R_wrap. f_equal. rewrite R_bind, R_dispatch, Hs.
      destruct (sem disp o) as [k|c ee] eqn:E; cbn [rbind].
      + destruct (hashable k); cbn [negb]; [|reflexivity].
        apply R_pick; [now apply tbl_eval|]. destruct dflt as [d|]; [apply Hd|reflexivity].
      + apply sem_err_ee in E. subst ee. destruct (is_unmodelled c) eqn:Eu.
        * destruct dflt; reflexivity.
        * destruct dflt as [d|]; cbn [is_some andb rbind]; [apply Hd|reflexivity].
    - rewrite R_bind, R_dispatch, Hs.
      destruct (sem disp o) as [k|c ee] eqn:E; cbn [rbind].
      + destruct (hashable k); cbn [negb]; [|reflexivity].
        apply R_pick; [now apply tbl_valid|]. destruct dflt as [d|]; [apply Hd|reflexivity].
      + apply sem_err_ee in E. subst ee. destruct (is_unmodelled c) eqn:Eu.
        * destruct dflt; reflexivity.
        * destruct dflt as [d|]; cbn [is_some andb rbind]; [apply Hd|reflexivity].
  Qed.

  Lemma ref_case disp cases dflt :
    refines disp -> Forall (fun cr => refines (fst cr) /\ refines (snd cr)) cases -> Popt refines dflt ->
    refines (ECase disp cases dflt).
  Proof.
    intros [Hs Hsv] Hc Hd. split; intros o; unf.
    - rewrite R_wrap. f_equal. rewrite R_bind, Hs. apply rbind_ext; intros x.
      induction Hc as [|[c r] cs [[Hce _] [Hre _]] _ IH]; unf.
      + destruct dflt as [d|]; [apply Hd|reflexivity].
      + cbn [fst snd] in *. rewrite R_bind, Hce. apply rbind_ext; intros p.
        rewrite R_bind, R_call_value. apply rbind_ext; intros b.
        destruct (truthy b); [apply Hre|exact IH].
    - rewrite R_bind, Hsv. apply rbind_ext; intros _.
      rewrite R_bind, Hs. apply rbind_ext; intros x.
      induction Hc as [|[c r] cs [[Hce _] [_ Hrv]] _ IH]; unf.
      + destruct dflt as [d|]; [apply Hd|reflexivity].
      + cbn [fst snd] in *. rewrite R_bind, Hce. apply rbind_ext; intros p.
        rewrite R_bind, R_call_value. apply rbind_ext; intros b.
        destruct (truthy b); [apply Hrv|exact IH].
  Qed.

  Lemma ref_coalesce ms : Forall refines ms -> refines (ECoalesce ms).
  Proof.
    intros H. split; intros o; unf.
    - rewrite R_wrap. f_equal. generalize (@None (cause * bool)) as last.
      induction H as [|m ms [He Hv] _ IH]; intros last; unf.
      + destruct last as [[c ee]|]; reflexivity.
      + rewrite R_catch, R_bind, Hv. apply rcatch_cong.
        * apply rbind_ext; intros _. apply He.
        * intros c ee. destruct ee; [apply IH|reflexivity].
    - generalize (@None (cause * bool)) as last.
      induction H as [|m ms [He Hv] _ IH]; intros last; unf.
      + destruct last as [[c ee]|]; reflexivity.
      + rewrite R_catch, R_bind, Hv. apply rcatch_cong.
        * reflexivity.
        * intros c ee. destruct ee; [apply IH|reflexivity].
  Qed.

  Lemma ref_iter es : Forall refines es -> refines (EIter es).
  Proof.
    intros H. split; intros o; unf.
    - rewrite R_wrap. f_equal. rewrite R_bind. apply rbind_cong; [|reflexivity].
      induction H as [|x es [He _] _ IH]; unf; [reflexivity|].
      rewrite R_catch, R_bind, He. apply rcatch_cong; [|reflexivity].
      apply rbind_ext; intros v. destruct (is_some (deep_err v)); [reflexivity|].
      rewrite R_bind, IH. apply rbind_ext; intros vs. reflexivity.
    - apply R_iterM. eapply Forall_impl; [|exact H]. intros a Ha. apply Ha.
  Qed.

  Lemma R_row_options row : R (row_options unit row) = srow_options row.
  Proof.
    unfold row_options, srow_options. destruct (option_set _ []) as [os|]; [|reflexivity].
    destruct (Nat.eqb (length os) 0 && negb (Nat.eqb (length row) 0)); reflexivity.
  Qed.

  Lemma R_map_rows (ev : expr -> M unit value) (sv : expr -> res value) (its : list (key * expr)) :
    Forall (fun ke => R (ev (snd ke)) = sv (snd ke)) its ->
    R (map_rows unit ev its) = smap_rows sv its.
  Proof.
    intros H. unfold map_rows, smap_rows. rewrite R_bind. apply rbind_cong; [|reflexivity].
    apply R_mapM. eapply Forall_impl; [|exact H]. intros ke Hke. cbn beta.
    rewrite R_bind, Hke. apply rbind_ext; intros v. apply R_force_elems.
  Qed.

  Lemma its_eval (its : list (key * expr)) o :
    Forall (fun ke => refines (snd ke)) its ->
    Forall (fun ke => R (evalR (snd ke) o) = sem (snd ke) o) its.
  Proof. apply Forall_impl. intros a H. apply H. Qed.

  Lemma ref_map e its : refines e -> Forall (fun ke => refines (snd ke)) its -> refines (EMap e its).
  Proof.
    intros [He Hv] Hi. split; intros o; unf.
    - rewrite R_wrap. f_equal. rewrite R_bind, (R_map_rows _ (fun x => sem x o)) by now apply its_eval.
      apply rbind_ext; intros rows. rewrite R_bind. apply rbind_cong.
      + apply R_mapM. apply Forall_all. intros row.
        rewrite R_bind, R_row_options. apply rbind_ext; intros os. reflexivity.
      + intros rowsos. rewrite R_bind. apply rbind_cong; [|reflexivity].
        induction rowsos as [|[row os] rowsos IH]; unf; [reflexivity|].
        rewrite R_catch, R_bind. unfold with_opts at 1. rewrite He. apply rcatch_cong; [|reflexivity].
        apply rbind_ext; intros r. destruct (is_some (deep_err r)); [reflexivity|].
        rewrite R_bind, IH. apply rbind_ext; intros rs. reflexivity.
    - rewrite R_bind, (R_map_rows _ (fun x => sem x o)) by now apply its_eval.
      apply rbind_ext; intros rows. apply R_iterM. apply Forall_all. intros row.
      rewrite R_bind, R_row_options. apply rbind_ext; intros os. apply Hv.
  Qed.

  Lemma ref_with force p e : refines e -> refines (EWith force p e).
  Proof.
    intros [He Hv]. split; intros o; unf.
    - rewrite R_wrap. f_equal. apply He.
    - apply Hv.
  Qed.

  Lemma ref_cached c e : refines e -> refines (ECached c e).
  Proof.
    intros [He Hv]. split; intros o; unf.
    - rewrite R_wrap. f_equal. destruct c as [cid|]; [|apply He].
      change (cache_ctx_off cfg_nc) with true. cbn [orb]. apply He.
    - destruct c as [cid|]; [|apply Hv].
      change (cache_ctx_off cfg_nc) with true. cbn [orb]. apply Hv.
  Qed.

  Lemma all_eval (es : list expr) o :
    Forall refines es -> Forall (fun e => R (evalR e o) = sem e o) es.
  Proof. apply Forall_impl. intros a H. apply H. Qed.
  Lemma all_valid (es : list expr) o :
    Forall refines es -> Forall (fun e => R (validR e o) = semv e o) es.
  Proof. apply Forall_impl. intros a H. apply H. Qed.

  Lemma ref_call partial f args kwargs :
    refines f -> Forall refines args -> Forall refines kwargs -> refines (ECall partial f args kwargs).
  Proof.
    intros [Hf Hfv] Ha Hk. split; intros o; unf.
    - rewrite R_wrap. f_equal. rewrite R_bind, Hf. apply rbind_ext; intros fv.
      rewrite R_bind, (R_mapM _ (fun x => sem x o)) by now apply all_eval.
      apply rbind_ext; intros av.
      rewrite R_bind, (R_mapM _ (fun x => sem x o)) by now apply all_eval.
      apply rbind_ext; intros kv.
      destruct partial; [destruct fv; reflexivity|apply R_call_value_n].
    - rewrite R_bind, Hfv. apply rbind_ext; intros _.
      rewrite R_bind, (R_iterM _ (fun x => semv x o)) by now apply all_valid.
      apply rbind_ext; intros _. apply R_iterM. now apply all_valid.
  Qed.

  Lemma R_template_options (ev : expr -> M unit value) (sv : expr -> res value) (ps : list (N * expr)) o :
    Forall (fun pe => R (ev (snd pe)) = sv (snd pe)) ps ->
    R (template_options unit ev ps o) = stemplate_options sv ps o.
  Proof.
    intros H. unfold template_options, stemplate_options. rewrite R_bind. apply rbind_cong.
    - apply R_mapM. eapply Forall_impl; [|exact H]. intros pe Hpe. cbn beta.
      rewrite R_bind, Hpe. apply rbind_ext; intros v. reflexivity.
    - intros pvs. destruct (option_set _ []) as [pd|]; [|reflexivity].
      destruct (negb (Nat.eqb (length pd) (length ps))); reflexivity.
  Qed.

  Lemma ref_template s ps : Forall (fun pe => refines (snd pe)) ps -> refines (ETemplate s ps).
  Proof.
    intros H. split; intros o; unf.
    - rewrite R_wrap. f_equal.
      rewrite R_bind, (R_template_options _ (fun x => sem x o))
        by (eapply Forall_impl; [|exact H]; intros a Ha; apply Ha).
      apply rbind_ext; intros o'. rewrite R_bind, R_emit_reads. cbn [rbind].
      rewrite R_bind, R_of_rres. apply rbind_ext; intros j. destruct (to_str j); reflexivity.
    - rewrite R_bind. apply rbind_cong.
      + apply R_iterM. eapply Forall_impl; [|exact H]. intros a Ha. apply Ha.
      + intros _. apply R_iterM. apply Forall_all. intros k.
        rewrite R_bind, R_rd. cbn [rbind]. destruct (lookup k (JObj o)) as [raw| |]; try reflexivity.
        rewrite R_bind, R_emit_reads. cbn [rbind]. rewrite R_bind, R_wrap, R_of_rres. reflexivity.
  Qed.

  Lemma ref_comp e effects : refines e -> Forall refines effects -> refines (EComp e effects).
  Proof.
    intros [He Hv] Hf. split; intros o; unf.
    - rewrite R_wrap. f_equal. rewrite R_bind, He. apply rbind_ext; intros v.
      rewrite R_bind. apply rbind_cong; [|reflexivity].
      destruct (effects_opt_off o); [reflexivity|].
      apply R_iterM. eapply Forall_impl; [|exact Hf]. intros eff [Hfe _]. cbn beta.
      rewrite R_bind, Hfe. apply rbind_ext; intros f.
      rewrite R_bind, R_call_value. reflexivity.
    - rewrite R_bind, Hv. apply rbind_ext; intros _.
      destruct (effects_opt_off o); [reflexivity|]. apply R_iterM. now apply all_valid.
  Qed.

  Lemma ref_logged e : refines e -> refines (ELogged e).
  Proof.
    intros [He Hv]. split; intros o; unf.
    - rewrite R_wrap. f_equal. rewrite R_bind, R_emit. cbn [rbind]. rewrite R_bind.
      destruct (log_ctx_off cfg_nc || logging_opt_off o); rewrite ?R_ret, ?R_emit; cbn [rbind]; apply He.
    - apply Hv.
  Qed.

  Lemma ref_pipe steps : Forall refines steps -> refines (EPipe steps).
  Proof.
    intros H. split; intros o; unf.
    - rewrite R_wrap. f_equal. rewrite R_bind, (R_mapM _ (fun x => sem x o)) by now apply all_eval.
      reflexivity.
    - apply R_iterM. now apply all_valid.
  Qed.

  Lemma R_all_options o : R (all_options_eval unit fuel o) = sall_options fuel o.
  Proof.
    unfold all_options_eval, sall_options. rewrite R_bind, R_emit. cbn [rbind].
    rewrite R_bind, R_of_rres. reflexivity.
  Qed.

  Lemma ref_alloptions : refines EAllOptions.
  Proof.
    split; intros o; unf.
    - rewrite R_wrap, R_all_options. reflexivity.
    - rewrite R_bind, R_wrap, R_all_options. reflexivity.
  Qed.

  (** The refinement theorem: for EVERY expression *)
  Theorem eval_refines_spec e : refines e.
  Proof.
    induction e using expr_ind'.
    - apply ref_value.
    - now apply ref_option.
    - now apply ref_apply.
    - now apply ref_bind.
    - now apply ref_switch.
    - now apply ref_case.
    - now apply ref_coalesce.
    - now apply ref_iter.
    - now apply ref_map.
    - now apply ref_with.
    - now apply ref_cached.
    - now apply ref_call.
    - now apply ref_template.
    - now apply ref_comp.
    - now apply ref_logged.
    - now apply ref_pipe.
    - apply ref_alloptions.
  Qed.
End Refinement.

(** the statement in the form the property file quotes *)
Theorem C05_refinement u fuel e o :
  fst (fst (eval unit nc_find nc_store cfg_nc u fuel (fun _ _ => true) e o tt)) = sem u fuel e o.
Proof. exact (proj1 (eval_refines_spec u fuel e) o). Qed.

Theorem C05_refinement_validate u fuel e o :
  fst (fst (validate unit nc_find nc_store cfg_nc u fuel (fun _ _ => true) e o tt)) = sem_valid u fuel e o.
Proof. exact (proj2 (eval_refines_spec u fuel e) o). Qed.

(** what the harness observes ([EvalRun.eval_nc]: the result with every lazily evaluated
    iterable consumed) is the reference value consumed *)
Theorem C05_refinement_observed u fuel e o : fst (eval_nc u fuel e o) = consumed (sem u fuel e o).
Proof.
  rewrite <- C05_refinement. unfold eval_nc.
  destruct (eval unit nc_find nc_store cfg_nc u fuel (fun _ _ => true) e o tt) as [[r s] l].
  cbn [fst]. destruct r as [v|c ee]; [|reflexivity]. cbn [consumed]. destruct (deep_err v); reflexivity.
Qed.

(** ** The sentences of the property, about [sem] *)
Section Sentences.
  Variable u : N -> list value -> cres.
  Variable fuel : nat.
  Notation sem := (Spec.sem u fuel).
  Notation semv := (Spec.sem_valid u fuel).
  Ltac unf := cbn [Spec.sem Spec.sem_valid]; fold sem; fold semv.

  (** switch: the branch registered under the dispatch value; otherwise, or when the dispatch
      cannot be evaluated, the default; otherwise a failure *)
  Lemma switch_spec disp tbl dflt o :
    sem (ESwitch disp tbl dflt) o =
      match sem disp o with
      | Ok k =>
          if hashable k then
            match assoc_v k tbl with
            | Some b => sem b o
            | None => match dflt with Some d => sem d o | None => Err CSwitch true end
            end
          else Err CType true
      | Err c ee =>
          match dflt with
          | Some d => if is_unmodelled c then Err c true else sem d o
          | None => Err c true
          end
      end.
  Proof.
    unf. destruct (sem disp o) as [k|c ee] eqn:E.
    - destruct (hashable k); [|reflexivity]. rewrite pick_assoc.
      destruct (assoc_v k tbl) as [b|]; [apply sem_is_wrapped|].
      destruct dflt; [apply sem_is_wrapped|reflexivity].
    - destruct dflt as [d|]; [|reflexivity].
      destruct (is_unmodelled c); [reflexivity|apply sem_is_wrapped].
  Qed.

  (** a case whose condition does not hold of [x] under [o] *)
  Definition case_fails (o : dict) (x : value) (cr : expr * expr) : Prop :=
    exists p b, sem (fst cr) o = Ok p /\ scall_value u p x = Ok b /\ truthy b = false.

  Lemma case_first_match disp pre c r post dflt o x p b :
    sem disp o = Ok x ->
    Forall (case_fails o x) pre ->
    sem c o = Ok p -> scall_value u p x = Ok b -> truthy b = true ->
    sem (ECase disp (pre ++ (c, r) :: post) dflt) o = sem r o.
  Proof.
    intros Hd Hpre Hc Hb Ht. unf. rewrite Hd. cbn [rbind].
    transitivity (as_ee (sem r o)); [f_equal|apply sem_is_wrapped].
    induction Hpre as [|[c' r'] pre (p' & b' & Hp' & Hb' & Ht') _ IH]; cbn [app]; unf.
    - rewrite Hc. cbn [rbind]. rewrite Hb. cbn [rbind]. now rewrite Ht.
    - cbn [fst] in Hp'. rewrite Hp'. cbn [rbind]. rewrite Hb'. cbn [rbind]. rewrite Ht'. exact IH.
  Qed.

  Lemma case_no_match disp cases dflt o x :
    sem disp o = Ok x -> Forall (case_fails o x) cases ->
    sem (ECase disp cases dflt) o = match dflt with Some d => sem d o | None => Err CCase true end.
  Proof.
    intros Hd Hc. unf. rewrite Hd. cbn [rbind].
    transitivity (as_ee (match dflt with Some d => sem d o | None => Err CCase true end));
      [f_equal|destruct dflt; [apply sem_is_wrapped|reflexivity]].
    induction Hc as [|[c' r'] cs (p' & b' & Hp' & Hb' & Ht') _ IH]; unf; [reflexivity|].
    cbn [fst] in Hp'. rewrite Hp'. cbn [rbind]. rewrite Hb'. cbn [rbind]. rewrite Ht'. exact IH.
  Qed.

  (** a coalesce member that is passed over: it does not validate, or validates and then fails
      (with an EvaluationError in either case) *)
  Definition passed_over (o : dict) (m : expr) : Prop :=
    exists c, c <> CUnmodelled /\
      (semv m o = Err c true \/ (semv m o = Ok tt /\ sem m o = Err c true)).

  Lemma coalesce_go_passed o pre rest : Forall (passed_over o) pre -> forall last,
    exists last',
    (fix go (ms : list expr) (last : option (cause * bool)) : res value :=
       match ms with
       | [] => match last with Some (c, ee) => Err c ee | None => Err CUnmodelled false end
       | m :: ms' => rcatch (semv m o ;;> sem m o)
                            (fun c ee => if ee then go ms' (Some (c, ee)) else Err c ee)
       end) (pre ++ rest) last =
    (fix go (ms : list expr) (last : option (cause * bool)) : res value :=
       match ms with
       | [] => match last with Some (c, ee) => Err c ee | None => Err CUnmodelled false end
       | m :: ms' => rcatch (semv m o ;;> sem m o)
                            (fun c ee => if ee then go ms' (Some (c, ee)) else Err c ee)
       end) rest last' /\ (pre <> [] -> exists c, last' = Some (c, true)) /\ (pre = [] -> last' = last).
  Proof.
    induction 1 as [|m pre (c & Hc & H) Hpre IH]; intros last.
    - exists last. split; [reflexivity|split; [intros H; now destruct H|reflexivity]].
    - destruct (IH (Some (c, true))) as (last' & E & Hne & Hnil).
      exists last'. split; [|split; [|discriminate]].
      + cbn [app]. destruct H as [H|[H1 H2]].
        * rewrite H. cbn [rbind]. destruct c; try congruence; exact E.
        * rewrite H1, H2. cbn [rbind]. destruct c; try congruence; exact E.
      + intros _. destruct pre as [|m' pre']; [rewrite Hnil by reflexivity; eauto|].
        apply Hne. discriminate.
  Qed.

  Lemma coalesce_first_evaluable pre m post o v :
    Forall (passed_over o) pre -> semv m o = Ok tt -> sem m o = Ok v ->
    sem (ECoalesce (pre ++ m :: post)) o = Ok v.
  Proof.
    intros Hpre Hv He. unf.
    destruct (coalesce_go_passed o pre (m :: post) Hpre None) as (last' & E & _ & _).
    rewrite E. rewrite Hv, He. reflexivity.
  Qed.

  Lemma coalesce_none_evaluable ms o :
    Forall (passed_over o) ms -> exists c, sem (ECoalesce ms) o = Err c true.
  Proof.
    intros H. unf.
    destruct (coalesce_go_passed o ms [] H None) as (last' & E & Hne & Hnil).
    rewrite app_nil_r in E. rewrite E.
    destruct ms as [|m ms']; [rewrite Hnil by reflexivity; eexists; reflexivity|].
    destruct Hne as [c ->]; [discriminate|]. eexists; reflexivity.
  Qed.
End Sentences.

Section Sentences2.
  Variable u : N -> list value -> cres.
  Variable fuel : nat.
  Notation sem := (Spec.sem u fuel).
  Notation semv := (Spec.sem_valid u fuel).
  Ltac unf := cbn [Spec.sem Spec.sem_valid]; fold sem; fold semv.

  Lemma Forall2_imp {A B} (P Q : A -> B -> Prop) l l' :
    (forall a b, P a b -> Q a b) -> Forall2 P l l' -> Forall2 Q l l'.
  Proof. intros H. induction 1; constructor; auto. Qed.

  Lemma first_err_none vs : Forall (fun v => deep_err v = None) vs -> first_err vs = None.
  Proof.
    induction 1 as [|v vs Hv _ IH]; [reflexivity|].
    destruct v; cbn [first_err]; try exact IH. discriminate Hv.
  Qed.

  Lemma rmapM_ok {A B} (f : A -> res B) l bs :
    Forall2 (fun a b => f a = Ok b) l bs -> rmapM f l = Ok bs.
  Proof.
    induction 1 as [|a b l bs Hab _ IH]; [reflexivity|].
    cbn [rmapM]. rewrite Hab. cbn [rbind]. fold (rmapM f). rewrite IH. reflexivity.
  Qed.

  (** an element that evaluates to a value holding no deferred failure *)
  Definition yields (o : dict) (e : expr) (v : value) : Prop := sem e o = Ok v /\ deep_err v = None.

  (** Iter and the list / tuple collections: the elements' values, in order *)
  Lemma iter_keeps_order es vs o :
    Forall2 (yields o) es vs -> sem (EIter es) o = Ok (VT T_ITER vs).
  Proof.
    intros H. unf.
    assert (E : (fix go (es : list expr) : res (list value) :=
                   match es with
                   | [] => Ok []
                   | x :: es' => rcatch (v <~ sem x o ;;
                                         if is_some (deep_err v) then Ok [v]
                                         else vs <~ go es' ;; Ok (v :: vs))
                                        (fun c _ => Ok [VErr c])
                   end) es = Ok vs).
    { induction H as [|e v es vs [He Hd] _ IH]; [reflexivity|].
      rewrite He. cbn [rbind]. rewrite Hd. cbn [is_some]. rewrite IH. reflexivity. }
    rewrite E. reflexivity.
  Qed.

  Lemma apply_spec src fn o :
    sem (EApply src fn) o = as_ee (x <~ sem src o ;; f <~ sem fn o ;; scall_value u f x).
  Proof. reflexivity. Qed.

  Lemma list_keeps_order es vs o :
    Forall2 (yields o) es vs -> sem (elist es) o = Ok (VT T_LIST vs).
  Proof.
    intros H. unfold elist. rewrite apply_spec, (iter_keeps_order es vs o H).
    assert (F : first_err vs = None).
    { apply first_err_none. clear -H. induction H as [|e v es vs [_ Hd] _ IH]; constructor; auto. }
    cbn. rewrite F. reflexivity.
  Qed.

  Lemma tuple_keeps_order es vs o :
    Forall2 (yields o) es vs -> sem (etuple es) o = Ok (VT T_TUPLE vs).
  Proof.
    intros H. unfold etuple. rewrite apply_spec, (iter_keeps_order es vs o H).
    assert (F : first_err vs = None).
    { apply first_err_none. clear -H. induction H as [|e v es vs [_ Hd] _ IH]; constructor; auto. }
    cbn. rewrite F. reflexivity.
  Qed.

  (** Map: [out] lists one (assignment, result) pair per assignment of [rows], in order, the
      result being the body's value under the caller's options overridden by the assignment *)
  Inductive map_pairs (e : expr) (o : dict) : list (list (key * value)) -> list value -> Prop :=
  | mp_nil : map_pairs e o [] []
  | mp_cons row rows os r out :
      srow_options row = Ok os -> sem e (mix o os) = Ok r -> deep_err r = None ->
      map_pairs e o rows out ->
      map_pairs e o (row :: rows) (VT T_TUPLE [row_dict row; r] :: out).

  (** an iterable of the Map evaluates to a collection with the elements [vs] *)
  Definition iterates (o : dict) (ke : key * expr) (vs : list value) : Prop :=
    exists v, sem (snd ke) o = Ok v /\ sforce v = Ok vs.

  Lemma map_cartesian_in_order e its o vals out :
    Forall2 (iterates o) its vals ->
    map_pairs e o (map (fun combo => combine (map fst its) combo) (product vals)) out ->
    sem (EMap e its) o = Ok (VT T_ITER out).
  Proof.
    intros Hi Hp. unf.
    assert (E1 : smap_rows (fun x => sem x o) its =
                 Ok (map (fun combo => combine (map fst its) combo) (product vals))).
    { unfold smap_rows. rewrite (rmapM_ok _ its vals); [reflexivity|].
      eapply Forall2_imp; [|exact Hi]. intros ke vs (v & Hv & Hf). cbn beta. now rewrite Hv. }
    rewrite E1. cbn [rbind]. clear E1 Hi.
    induction Hp as [|row rows os r out Ho Hr Hd _ IH]; [reflexivity|].
    cbn [rmapM]. rewrite Ho. cbn [rbind].
    fold (rmapM (fun row => os <~ srow_options row ;; Ok (row, os))).
    destruct (rmapM (fun row => os <~ srow_options row ;; Ok (row, os)) rows) as [rowsos|c ee];
      [|discriminate IH].
    cbn [rbind] in *. rewrite Hr. cbn [rbind]. rewrite Hd. cbn [is_some].
    match goal with
    | H : as_ee (rs <~ ?G ;; _) = _ |- _ => destruct G as [rs|c ee]; [|discriminate H]
    end.
    cbn [rbind as_ee rcatch] in *. now inversion IH.
  Qed.

  (** function application *)
  Lemma apply_is_application src fn o x f :
    sem src o = Ok x -> sem fn o = Ok f -> sem (EApply src fn) o = as_ee (scall_value u f x).
  Proof. intros Hs Hf. rewrite apply_spec, Hs. cbn [rbind]. now rewrite Hf. Qed.

  Lemma bind_is_application src tbl dflt o x b :
    sem src o = Ok x -> assoc_v x tbl = Some b -> sem (EBind src tbl dflt) o = sem b o.
  Proof.
    intros Hs Hb. unf. rewrite Hs. cbn [rbind]. rewrite pick_assoc, Hb. apply sem_is_wrapped.
  Qed.

  Definition user_fn (f : N) : bool :=
    negb (N.eqb f B_LIST || N.eqb f B_TUPLE || N.eqb f B_DICT || N.eqb f B_COMPOSE).

  (** a function applied to its evaluated (keyword) arguments: what the user code returns for
      them (seen with every lazily evaluated iterable forced), or its exception *)
  Lemma call_is_application f kwargs vs o :
    user_fn f = true -> Forall2 (fun e v => sem e o = Ok v) kwargs vs -> deep_err_list vs = None ->
    sem (body f kwargs) o =
      match u f (map listify vs) with COk v => Ok v | CRaise n => Err (CUser n) true end.
  Proof.
    intros Hu Hk Hd. unfold body. unf. cbn [rmapM rbind as_ee].
    rewrite (rmapM_ok _ kwargs vs Hk). cbn [rbind scall_value_n app].
    unfold user_fn in Hu. apply negb_true_iff in Hu.
    apply orb_false_iff in Hu as [Hu H4]. apply orb_false_iff in Hu as [Hu H3].
    apply orb_false_iff in Hu as [H1 H2].
    rewrite H4. unfold scall_fun. rewrite H1, H2, H3, app_nil_r, Hd.
    destruct (u f (map listify vs)); reflexivity.
  Qed.

  (** a dataset: its (overloaded, post-processed) body — with its effects unless they are
      disabled — under (defaults overlaid by the caller's options) overlaid by its pre-set
      options; cache and logging do not enter the value *)
  Lemma dataset_spec d o :
    sem (dataset_expr d) o =
      sem (if d.(ds_effects_disabled)
           then EApply (ESwitch d.(ds_dispatch) d.(ds_table) d.(ds_default)) d.(ds_callback)
           else EComp (EApply (ESwitch d.(ds_dispatch) d.(ds_table) d.(ds_default)) d.(ds_callback)) d.(ds_effects))
          (mix (mix d.(ds_default_options) o) d.(ds_options)).
  Proof.
    unfold dataset_expr.
    set (b := if ds_effects_disabled d then _ else _).
    change (sem (EWith false (ds_default_options d) (EWith true (ds_options d) (ECached (ds_cache d) (ELogged b)))) o)
      with (as_ee (as_ee (as_ee (as_ee (sem b (mix (mix (ds_default_options d) o) (ds_options d))))))).
    now rewrite !as_ee_idem, sem_is_wrapped.
  Qed.

  (** when no branch applies and there is no default, evaluation fails *)
  Lemma switch_no_branch disp tbl o k :
    sem disp o = Ok k -> hashable k = true -> assoc_v k tbl = None ->
    sem (ESwitch disp tbl None) o = Err CSwitch true.
  Proof. intros Hd Hh Ha. now rewrite switch_spec, Hd, Hh, Ha. Qed.

  Lemma switch_no_dispatch_no_default disp tbl o c ee :
    sem disp o = Err c ee -> sem (ESwitch disp tbl None) o = Err c true.
  Proof. intros Hd. now rewrite switch_spec, Hd. Qed.

  Lemma case_no_branch disp cases o x :
    sem disp o = Ok x -> Forall (case_fails u fuel o x) cases ->
    sem (ECase disp cases None) o = Err CCase true.
  Proof. intros Hd Hc. now rewrite (case_no_match u fuel disp cases None o x Hd Hc). Qed.

  (** the dict collection: [dict] of the (key, value) pairs in declaration order *)
  Lemma dict_keeps_order (kvs : list (value * expr)) vs o :
    Forall2 (fun kv v => yields o (snd kv) v /\ deep_err (fst kv) = None) kvs vs ->
    sem (edict kvs) o =
      match dict_of_pairs (map (fun p => VT T_ITER [fst (fst p); snd p]) (combine kvs vs)) [] with
      | Some d => Ok (VT T_DICT d)
      | None => Err CType true
      end.
  Proof.
    intros H. unfold edict.
    set (pairs := map (fun p => VT T_ITER [fst (fst p); snd p]) (combine kvs vs)).
    assert (H1 : Forall2 (yields o) (map (fun kv => EIter [EValue (fst kv); snd kv]) kvs) pairs).
    { subst pairs. induction H as [|[k e] v kvs vs [[He Hv] Hk] _ IH]; [constructor|].
      cbn [map combine fst snd] in *. constructor; [|exact IH]. split.
      - apply iter_keeps_order. repeat constructor; assumption.
      - cbn [deep_err]. now rewrite Hk, Hv. }
    assert (H2 : first_err pairs = None).
    { subst pairs. clear. generalize (combine kvs vs) as l. induction l; [reflexivity|exact IHl]. }
    assert (H3 : first_err (flat_map (fun p => match elements_of p with Some l => l | None => [] end) pairs) = None).
    { subst pairs. clear -H. induction H as [|[k e] v kvs vs [[He Hv] Hk] _ IH]; [reflexivity|].
      cbn [map combine fst snd flat_map] in *.
      change (elements_of (VT T_ITER [k; v])) with (Some [k; v]). cbn [app first_err].
      destruct k; try discriminate Hk; destruct v; try discriminate Hv; exact IH. }
    rewrite apply_spec, (iter_keeps_order _ pairs o H1). cbn [rbind].
    change (sem (EValue (VF B_DICT [] [])) o) with (@Ok value (VF B_DICT [] [])). cbn [rbind].
    change (scall_value u (VF B_DICT [] []) (VT T_ITER pairs)) with
      (ps <~ sforce (VT T_ITER pairs) ;;
       match first_err (flat_map (fun p => match elements_of p with Some l => l | None => [] end) ps) with
       | Some c => Err c true
       | None => match dict_of_pairs ps [] with Some d => Ok (VT T_DICT d) | None => Err CType false end
       end).
    change (sforce (VT T_ITER pairs)) with
      (match first_err pairs with Some c => @Err (list value) c true | None => Ok pairs end).
    rewrite H2. cbn [rbind]. rewrite H3. destruct (dict_of_pairs pairs []); reflexivity.
  Qed.
End Sentences2.

(** ** Sharper forms of the sentences (switch one case at a time; coalesce with a boolean side
    condition and the refutation of the unconditional sentence; Map: count, assignments, override) *)
Section Sentences3.
  Variable u : N -> list value -> cres.
  Variable fuel : nat.
  Notation sem := (Spec.sem u fuel).
  Notation semv := (Spec.sem_valid u fuel).

  (** switch takes the branch registered under the dispatch value … *)
  Lemma switch_registered disp tbl dflt o k b :
    sem disp o = Ok k -> hashable k = true -> assoc_v k tbl = Some b ->
    sem (ESwitch disp tbl dflt) o = sem b o.
  Proof. intros Hd Hh Ha. now rewrite switch_spec, Hd, Hh, Ha. Qed.

  (** … otherwise the default … *)
  Lemma switch_unregistered_default disp tbl d o k :
    sem disp o = Ok k -> hashable k = true -> assoc_v k tbl = None ->
    sem (ESwitch disp tbl (Some d)) o = sem d o.
  Proof. intros Hd Hh Ha. now rewrite switch_spec, Hd, Hh, Ha. Qed.

  (** … also when the dispatch cannot be evaluated (whatever its failure). *)
  Lemma switch_dispatch_fails_default disp tbl d o c ee :
    sem disp o = Err c ee -> c <> CUnmodelled ->
    sem (ESwitch disp tbl (Some d)) o = sem d o.
  Proof.
    intros Hd Hc. rewrite switch_spec, Hd.
    destruct c; try reflexivity. congruence.
  Qed.

  (** coalesce, the side condition as a boolean: the member fails with an EvaluationError at
      validation, or validates and fails at evaluation *)
  Definition passed_overb (o : dict) (m : expr) : bool :=
    match semv m o with
    | Err c true => negb (is_unmodelled c)
    | Err _ false => false
    | Ok _ => match sem m o with Err c true => negb (is_unmodelled c) | _ => false end
    end.

  Lemma passed_overb_sound o m : passed_overb o m = true -> passed_over u fuel o m.
  Proof.
    unfold passed_overb, passed_over. intros H.
    destruct (semv m o) as [[]|c [|]] eqn:Ev; [| |discriminate].
    - destruct (sem m o) as [v|c [|]] eqn:Es; try discriminate.
      exists c. split; [destruct c; try discriminate; discriminate H|]. right. now split.
    - exists c. split; [destruct c; try discriminate; discriminate H|]. now left.
  Qed.

  Lemma coalesce_first_evaluable_b pre m post o v :
    forallb (passed_overb o) pre = true -> semv m o = Ok tt -> sem m o = Ok v ->
    sem (ECoalesce (pre ++ m :: post)) o = Ok v.
  Proof.
    intros Hp. apply coalesce_first_evaluable.
    apply Forall_forall. intros x Hx. apply passed_overb_sound.
    rewrite forallb_forall in Hp. now apply Hp.
  Qed.

  (** Map: one pair per assignment, the assignments in order *)
  Definition pair_fst (v : value) : value := match v with VT _ (a :: _) => a | _ => v end.
  Definition pair_snd (v : value) : value := match v with VT _ [_; b] => b | _ => v end.

  Lemma map_pairs_shape e o rows out :
    map_pairs u fuel e o rows out ->
    length out = length rows /\ map pair_fst out = map row_dict rows.
  Proof.
    induction 1 as [|row rows os r out _ _ _ _ [IH1 IH2]]; [split; reflexivity|].
    cbn [length map pair_fst]. now rewrite IH1, IH2.
  Qed.

  Lemma product_length {A} (ls : list (list A)) :
    length (product ls) = fold_right (fun l n => (length l * n)%nat) 1%nat ls.
  Proof.
    induction ls as [|l ls IH]; [reflexivity|].
    cbn [product fold_right]. rewrite <- IH. clear IH.
    induction l as [|a l IHl]; [reflexivity|].
    cbn [flat_map length]. rewrite app_length, map_length, IHl. reflexivity.
  Qed.

  (** … hence as many pairs as the cartesian product of the evaluated iterables has elements,
      the i-th pair carrying the i-th assignment *)
  Lemma map_one_pair_per_combination e its o vals out :
    Forall2 (iterates u fuel o) its vals ->
    map_pairs u fuel e o (map (fun combo => combine (map fst its) combo) (product vals)) out ->
    sem (EMap e its) o = Ok (VT T_ITER out) /\
    length out = fold_right (fun l n => (length l * n)%nat) 1%nat vals /\
    map pair_fst out = map (fun combo => row_dict (combine (map fst its) combo)) (product vals).
  Proof.
    intros Hi Hp. split; [now apply (map_cartesian_in_order u fuel e its o vals out)|].
    destruct (map_pairs_shape _ _ _ _ Hp) as [H1 H2].
    rewrite map_length, product_length in H1. rewrite map_map in H2. now split.
  Qed.

  (** each result is the body's value under the caller's options overridden by the assignment:
      under the dictionary [mix o os] that [map_pairs] evaluates the body with, the assigned key
      holds the assigned value (whatever the caller had there) and every key that diverges from
      it holds the caller's value *)
  Lemma map_assignment_overrides k j o os :
    k <> [] -> forallb is_name k = true -> wf_json j = true -> (forall m, j <> JObj m) ->
    srow_options [(k, VJ j)] = Ok os ->
    lookup k (JObj (mix o os)) = Found j /\
    (forall k' w, diverge k k' = true -> forallb is_name k' = true ->
                  lookup k' (JObj o) = Found w -> lookup k' (JObj (mix o os)) = Found w).
  Proof.
    intros Hne Hn Hwf Hns H. unfold srow_options in H.
    cbn [flat_map json_of_value snd fst app] in H.
    change (option_set [(k, j)] []) with
      (match set_dotted k j [] with Some acc' => Some acc' | None => None end) in H.
    rewrite set_dotted_nil in H by exact Hne.
    destruct k as [|s k']; [congruence|]. cbn [single as_dict length Nat.eqb andb] in H.
    inversion H; subst os.
    change (mix o [(s, single k' j)]) with (set_option (s :: k') j o).
    split; [now apply set_then_get|]. intros k2 w Hd Hn2 Hl. now apply set_keeps_other_keys.
  Qed.
  (** [src >> f] / [src.apply(f)] for a user function: what the user code returns for the
      source's value (seen with every generator forced), or its exception *)
  Lemma apply_user_function src fn o x f :
    sem src o = Ok x -> sem fn o = Ok (VF f [] []) -> user_fn f = true -> deep_err x = None ->
    sem (EApply src fn) o =
      match u f [listify x] with COk v => Ok v | CRaise n => Err (CUser n) true end.
  Proof.
    intros Hs Hf Hu Hd. rewrite (apply_is_application u fuel src fn o x _ Hs Hf).
    unfold user_fn in Hu. apply negb_true_iff in Hu.
    apply orb_false_iff in Hu as [Hu H4]. apply orb_false_iff in Hu as [Hu H3].
    apply orb_false_iff in Hu as [H1 H2].
    cbn [scall_value]. rewrite H4. cbn [app]. unfold scall_fun. rewrite H1, H2, H3.
    unfold deep_err_list. rewrite Hd. cbn [map].
    destruct (u f [listify x]); reflexivity.
  Qed.
End Sentences3.

(** The unconditional sentence "coalesce yields the first member that can be evaluated" is FALSE
    of the code as it is (finding D23): a member whose bind function raises aborts the coalesce —
    the exception leaves the member's validate un-wrapped — although the next member can be
    evaluated. *)
Lemma coalesce_first_evaluable_refuted :
  exists (u : N -> list value -> cres) (fuel : nat) m1 m2 o v,
    (exists c, sem u fuel m1 o = Err c true) /\
    sem_valid u fuel m2 o = Ok tt /\ sem u fuel m2 o = Ok v /\
    exists c, sem u fuel (ECoalesce [m1; m2]) o = Err c true.
Proof.
  exists (fun _ _ => COk VMissing), 5%nat,
         (EBind (EValue (VJ (JInt 2))) [] None), (EValue (VJ (JInt 1))), [], (VJ (JInt 1)).
  vm_compute. repeat split; eexists; reflexivity.
Qed.
