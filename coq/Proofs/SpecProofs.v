(** C05 — the code-structured interpreter [Eval.eval] refines the reference semantics
    [Spec.sem] on the cache-free reference instance (store = [unit]), for every expression,
    every options dictionary, all user code and every resolution budget; then the sentences of
    the property as corollaries about [sem]. *)
From Coq Require Import List NArith ZArith Bool Lia.
Import ListNotations.
From LV Require Import Model.Base Model.Template Model.Eval Model.Derived Model.EvalRun Model.Spec
  Proofs.BaseProofs Proofs.EvalProofs Proofs.EvalInd.
Local Open Scope spec_scope.

(** ** The result projection of a computation over the trivial store *)
Definition R {A} (m : M unit A) : res A := fst (fst (m tt)).

Lemma R_ret {A} (a : A) : R (ret unit a) = Ok a.
Proof. reflexivity. Qed.
Lemma R_fail {A} c ee : R (@fail unit A c ee) = Err c ee.
Proof. reflexivity. Qed.
Lemma R_emit ev : R (emit unit ev) = Ok tt.
Proof. reflexivity. Qed.

Lemma R_bind {A B} (m : M unit A) (f : A -> M unit B) :
  R (bind unit m f) = rbind (R m) (fun a => R (f a)).
Proof.
  unfold R, bind. destruct (m tt) as [[[a|c ee] []] l]; cbn; [|reflexivity].
  destruct (f a tt) as [[r []] l']. reflexivity.
Qed.

Lemma R_catch {A} (m : M unit A) (h : cause -> bool -> M unit A) :
  R (catch unit m h) = rcatch (R m) (fun c ee => R (h c ee)).
Proof.
  unfold R, catch. destruct (m tt) as [[[a|c ee] []] l]; cbn; [reflexivity|].
  destruct c; cbn; try reflexivity;
    match goal with |- context [h ?c ?e tt] => destruct (h c e tt) as [[r []] l'] end; reflexivity.
Qed.

Lemma R_wrap {A} (m : M unit A) : R (wrap_eval unit m) = as_ee (R m).
Proof. unfold R, wrap_eval. destruct (m tt) as [[[a|c ee] []] l]; reflexivity. Qed.

Lemma rbind_ext {A B} (r : res A) (f g : A -> res B) :
  (forall a, f a = g a) -> rbind r f = rbind r g.
Proof. intros H. destruct r; cbn; [apply H|reflexivity]. Qed.

Lemma rcatch_ext {A} (r : res A) (h k : cause -> bool -> res A) :
  (forall c ee, h c ee = k c ee) -> rcatch r h = rcatch r k.
Proof. intros H. destruct r as [a|c ee]; cbn; [reflexivity|]. destruct c; auto. Qed.

Lemma as_ee_idem {A} (r : res A) : as_ee (as_ee r) = as_ee r.
Proof. destruct r; reflexivity. Qed.

Lemma R_mapM {A B} (f : A -> M unit B) (g : A -> res B) l :
  Forall (fun a => R (f a) = g a) l -> R (mapM unit f l) = rmapM g l.
Proof.
  induction 1 as [|a l Ha _ IH]; [reflexivity|].
  rewrite mapM_cons, R_bind, Ha. cbn [rmapM]. apply rbind_ext; intros b.
  rewrite R_bind. fold (rmapM g). rewrite IH. apply rbind_ext; intros bs. apply R_ret.
Qed.

Lemma R_iterM {A} (f : A -> M unit unit) (g : A -> res unit) l :
  Forall (fun a => R (f a) = g a) l -> R (iterM unit f l) = riterM g l.
Proof.
  induction 1 as [|a l Ha _ IH]; [reflexivity|].
  rewrite iterM_cons, R_bind, Ha. cbn [riterM]. apply rbind_ext; intros _. exact IH.
Qed.

Lemma Forall_all {A} (P : A -> Prop) l : (forall a, P a) -> Forall P l.
Proof. intros H. induction l; constructor; auto. Qed.

Lemma R_pick {A} (k : value) (onhit : expr -> M unit A) (onmiss : M unit A) (g : expr -> res A) (gm : res A) tbl :
  Forall (fun ve => R (onhit (snd ve)) = g (snd ve)) tbl -> R onmiss = gm ->
  R (pick k onhit onmiss tbl) = pick k g gm tbl.
Proof.
  intros H Hm. induction H as [|[v b] tbl Hb _ IH]; [exact Hm|].
  cbn [pick]. destruct (value_eq k v); [exact Hb|exact IH].
Qed.

(** ** Leaf computations *)
Lemma R_emit_reads ks o : R (emit_reads unit ks o) = Ok tt.
Proof. destruct (emit_reads_spec unit ks o tt) as [l [E _]]. unfold R. now rewrite E. Qed.

Lemma R_rd k o : R (rd unit k o) = Ok (lookup k (JObj o)).
Proof. reflexivity. Qed.

Lemma R_of_rres r : R (of_rres unit r) = sres_of r.
Proof. destruct r; reflexivity. Qed.

Lemma R_force_elems v : R (force_elems unit v) = sforce v.
Proof.
  unfold force_elems, sforce. destruct (elements_of v) as [els|]; [|reflexivity].
  destruct (first_err els); reflexivity.
Qed.

Section Calls.
  Variable u : N -> list value -> cres.

  Lemma R_call_fun f args : R (call_fun unit u f args) = scall_fun u f args.
  Proof.
    unfold call_fun, scall_fun.
    destruct (N.eqb f B_LIST).
    { destruct args as [|x [|y args]]; try reflexivity.
      rewrite R_bind, R_force_elems. apply rbind_ext; intros els. reflexivity. }
    destruct (N.eqb f B_TUPLE).
    { destruct args as [|x [|y args]]; try reflexivity.
      rewrite R_bind, R_force_elems. apply rbind_ext; intros els. reflexivity. }
    destruct (N.eqb f B_DICT).
    { destruct args as [|x [|y args]]; try reflexivity.
      rewrite R_bind, R_force_elems. apply rbind_ext; intros ps.
      destruct (first_err _); [reflexivity|]. destruct (dict_of_pairs ps []); reflexivity. }
    destruct (deep_err_list args); [reflexivity|].
    destruct (u f (map listify args)); reflexivity.
  Qed.
End Calls.

(** induction on values with the hypothesis for every captured positional argument of a
    callable (the members of an evaluated pipeline) *)
Section ValueInd.
  Variable P : value -> Prop.
  Hypothesis HJ : forall j, P (VJ j).
  Hypothesis HT : forall t args, P (VT t args).
  Hypothesis HF : forall f pre post, Forall P pre -> P (VF f pre post).
  Hypothesis HM : P VMissing.
  Hypothesis HE : forall c, P (VErr c).

  Fixpoint value_callable_ind (v : value) : P v :=
    match v with
    | VJ j => HJ j
    | VT t args => HT t args
    | VF f pre post =>
        HF f pre post
           ((fix all (l : list value) : Forall P l :=
               match l with [] => Forall_nil _ | x :: l' => Forall_cons _ (value_callable_ind x) (all l') end) pre)
    | VMissing => HM
    | VErr c => HE c
    end.
End ValueInd.

Section Calls2.
  Variable u : N -> list value -> cres.

  Lemma R_call_value f : forall x, R (call_value unit u f x) = scall_value u f x.
  Proof.
    induction f as [j|t args|fid pre post IH| |c] using value_callable_ind; intros x; try reflexivity.
    cbn [call_value scall_value]. destruct (N.eqb fid B_COMPOSE); [|apply R_call_fun].
    revert x. induction IH as [|g fs Hg _ IHfs]; intros x; [reflexivity|].
    rewrite R_bind, Hg. apply rbind_ext; intros y. apply IHfs.
  Qed.

  Lemma R_call_value_n f args : R (call_value_n unit u f args) = scall_value_n u f args.
  Proof.
    destruct f; try reflexivity. cbn [call_value_n scall_value_n].
    destruct (N.eqb f B_COMPOSE); [reflexivity|apply R_call_fun].
  Qed.

  Lemma R_in_domain d v : R (in_domain unit u d v) = sin_domain u d v.
  Proof.
    destruct d as [j|t args|fid pre post| |c]; cbn [in_domain sin_domain];
      try (destruct (elements_of _) as [els|]; [destruct (existsb _ els)|]; reflexivity).
    rewrite R_bind, R_call_value. apply rbind_ext; intros b. destruct (truthy b); reflexivity.
  Qed.
End Calls2.
