(** C03 / C01: keys() is sufficient — evaluating on the options restricted to the reported keys
    gives the same outcome and the same keys — and two dictionaries with the same fingerprint
    evaluate alike (no stale cache hit), for the fragment [frag], under the computed side
    condition that every option the evaluation found present is reported by keys(). *)
From Coq Require Import List NArith ZArith Bool Lia.
Import ListNotations.
From LV Require Import Model.Base Model.Template Model.Eval Model.Derived Model.EvalRun Proofs.BaseProofs Proofs.EvalProofs Proofs.EvalInd Proofs.EvalUnfold.
From LV Require Import Proofs.FrameProofs Proofs.TemplateFrame Proofs.FrameTheorem Proofs.RestrictProofs.

Section Sufficient.
  Variable u : N -> list value -> cres.
  Variable fuel : nat.

  Notation evalN := (eval unit nc_find nc_store cfg_nc u fuel (fun _ _ => true)).
  Notation validateN := (validate unit nc_find nc_store cfg_nc u fuel (fun _ _ => true)).
  Notation keysN := (keys unit nc_find nc_store cfg_nc u fuel (fun _ _ => true)).

  (** every option a run looked up and found present is among [K]; no lookup hit a scalar parent *)
  Definition RR (K : list key) (o : dict) (l : list event) : Prop :=
    forall k, In k (reads_of l) ->
      match lookup k (JObj o) with Found _ => In k K | Absent => True | TypeErr => False end.

  Definition good_keys (K : list key) : Prop := forall k, In k K -> forallb is_name k = true /\ k <> [].

  Definition all_present (K : list key) (o : dict) : Prop :=
    forall k, In k K -> exists v, lookup k (JObj o) = Found v.

  Lemma reported_ok_of K o : good_keys K -> all_present K o -> reported_ok o K.
  Proof. intros Hg Hp k Hk. split; [apply (Hg k Hk)|apply (Hp k Hk)]. Qed.

  Lemma reads_of_filter l : reads_of (filter FrameProofs.is_read l) = reads_of l.
  Proof.
    unfold reads_of. induction l as [|e l IH]; [reflexivity|].
    destruct e; cbn [filter FrameProofs.is_read flat_map app]; try exact IH. now rewrite IH.
  Qed.

  (** the restricted dictionary answers every lookup of a clean run as the original does *)
  Lemma agree_restrict K o l :
    good_keys K -> RR K o l -> agree_keys o (restrict o K) (reads_of l).
  Proof.
    intros Hg Hrr k Hk. unfold same_at. specialize (Hrr k Hk).
    destruct (lookup k (JObj o)) as [v| |] eqn:El; [| |destruct Hrr].
    - destruct (Hg k Hrr) as [Hn Hne]. now apply lookup_restrict_kept.
    - now apply lookup_restrict_absent.
  Qed.

  (** ** C03: keys() is sufficient *)
  Theorem keys_sufficient e o K lk rv lv :
    frag e = true -> wf_dict o = true -> no_par o = true ->
    keysN e o tt = (Ok K, tt, lk) -> evalN e o tt = (rv, tt, lv) ->
    good_keys K -> RR K o lv -> RR K o lk ->
    effects_opt_off (restrict o K) = effects_opt_off o ->
    obs (evalN e (restrict o K) tt) = obs (evalN e o tt) /\
    obs (keysN e (restrict o K) tt) = obs (keysN e o tt).
  Proof.
    intros Hf Hw Hnp Hk He Hg Hrv Hrk Hsw.
    destruct (frame_all u fuel e Hf o (restrict o K) Hw (wf_restrict o K Hw) Hnp (no_par_restrict o K Hnp) Hsw) as (E & _ & Kf).
    split.
    - apply E. rewrite He. cbn [snd]. now apply agree_restrict.
    - apply Kf. rewrite Hk. cbn [snd]. now apply agree_restrict.
  Qed.

  Theorem validate_sufficient e o K lk rv lv :
    frag e = true -> wf_dict o = true -> no_par o = true ->
    keysN e o tt = (Ok K, tt, lk) -> validateN e o tt = (rv, tt, lv) ->
    good_keys K -> RR K o lv ->
    effects_opt_off (restrict o K) = effects_opt_off o ->
    obs (validateN e (restrict o K) tt) = obs (validateN e o tt).
  Proof.
    intros Hf Hw Hnp Hk He Hg Hrv Hsw.
    destruct (frame_all u fuel e Hf o (restrict o K) Hw (wf_restrict o K Hw) Hnp (no_par_restrict o K Hnp) Hsw) as (_ & V & _).
    apply V. rewrite He. cbn [snd]. now apply agree_restrict.
  Qed.

  (** ** C01: equal fingerprints, equal outcomes (no stale hit) *)
  Theorem same_fingerprint_same_outcome e o o' K lk lk' rv lv rv' lv' :
    frag e = true -> wf_dict o = true -> wf_dict o' = true -> no_par o = true -> no_par o' = true ->
    keysN e o tt = (Ok K, tt, lk) -> keysN e o' tt = (Ok K, tt, lk') ->
    evalN e o tt = (rv, tt, lv) -> evalN e o' tt = (rv', tt, lv') ->
    good_keys K -> all_present K o ->
    (forall k, In k K -> lookup k (JObj o') = lookup k (JObj o)) ->
    RR K o lv -> RR K o lk -> RR K o' lv' -> RR K o' lk' ->
    effects_opt_off (restrict o K) = effects_opt_off o ->
    effects_opt_off (restrict o' K) = effects_opt_off o' ->
    effects_opt_off o' = effects_opt_off o ->
    rv' = rv.
  Proof.
    intros Hf Hw Hw' Hnp Hnp' Hk Hk' He He' Hg Hp Hsame Hrv Hrk Hrv' Hrk' Hs1 Hs2 Hs3.
    assert (Hp' : all_present K o').
    { intros k Hin. destruct (Hp k Hin) as [v Hv]. exists v. now rewrite (Hsame k Hin). }
    destruct (keys_sufficient e o K lk rv lv Hf Hw Hnp Hk He Hg Hrv Hrk Hs1) as [E1 _].
    destruct (keys_sufficient e o' K lk' rv' lv' Hf Hw' Hnp' Hk' He' Hg Hrv' Hrk' Hs2) as [E2 _].
    set (R := restrict o K) in *. set (R' := restrict o' K) in *.
    assert (Hrep : reported_ok o K) by now apply reported_ok_of.
    assert (Hrep' : reported_ok o' K) by now apply reported_ok_of.
    (* the two restricted dictionaries answer every lookup of the run alike *)
    assert (HsR : effects_opt_off R' = effects_opt_off R) by congruence.
    destruct (frame_all u fuel e Hf R R' (wf_restrict o K Hw) (wf_restrict o' K Hw') (no_par_restrict o K Hnp) (no_par_restrict o' K Hnp') HsR) as (E3 & _ & _).
    assert (Hag : agree_keys R R' (reads_of (snd (evalN e R tt)))).
    { assert (Hreads : reads_of (snd (evalN e R tt)) = reads_of lv).
      { unfold obs in E1. rewrite He in E1. cbn [fst snd] in E1.
        assert (Hfl : filter FrameProofs.is_read (snd (evalN e R tt)) = filter FrameProofs.is_read lv) by congruence.
        rewrite <- (reads_of_filter (snd (evalN e R tt))), Hfl. apply reads_of_filter. }
      rewrite Hreads. intros k Hk0. unfold same_at.
      pose proof (agree_restrict K o lv Hg Hrv k Hk0) as HoR. unfold same_at in HoR. fold R in HoR.
      specialize (Hrv k Hk0).
      assert (Hcov : forall k0 rest, In k0 K -> k0 <> [] -> k = k0 ++ rest ->
                     lookup k (JObj R') = lookup k (JObj R)).
      { intros k0 rest Hin Hne ->. unfold R, R'.
        rewrite (lookup_restrict_covered k0 rest o K Hrep Hin Hne).
        rewrite (lookup_restrict_covered k0 rest o' K Hrep' Hin Hne).
        destruct (Hp k0 Hin) as [v0 Hv0].
        rewrite (lookup_app k0 rest (JObj o) v0 Hv0).
        rewrite (lookup_app k0 rest (JObj o') v0); [reflexivity|]. now rewrite (Hsame k0 Hin). }
      destruct (lookup k (JObj o)) as [v| |] eqn:El; [| |destruct Hrv].
      - (* found in o: the key is reported *)
        destruct (Hg k Hrv) as [_ Hne]. apply (Hcov k [] Hrv Hne). now rewrite app_nil_r.
      - (* absent in o, hence in R *)
        rewrite HoR.
        assert (Hkne : k <> []) by (intros ->; discriminate).
        destruct (lookup_restrict_cases k o' K Hrep' Hkne) as [(k0 & rest & Hin & Hne & Hk1)|[Ha|(rest & w & Hr & Hin & Hfnd)]].
        + rewrite (Hcov k0 rest Hin Hne Hk1). exact HoR.
        + exact Ha.
        + (* a strict prefix of a reported key is present in o: contradiction *)
          exfalso. destruct (Hp _ Hin) as [v Hv].
          destruct (lookup_prefix_found k rest (JObj o) v Hv) as [w' Hw0]. congruence. }
    specialize (E3 Hag).
    unfold obs in *. rewrite He in E1. rewrite He' in E2. cbn [fst snd] in *.
    congruence.
  Qed.
End Sufficient.
