(** Lemmas about Model/Base.v: keys, association lists, [lookup], [mix], [set_dotted]. *)
From Coq Require Import List NArith ZArith Bool Lia.
Import ListNotations.
From LV Require Import Model.Base.

(** ** equality tests *)
Lemma seg_eqb_refl a : seg_eqb a a = true.
Proof. destruct a; simpl; apply N.eqb_refl. Qed.

Lemma seg_eqb_eq a b : seg_eqb a b = true <-> a = b.
Proof.
  split; [|intros ->; apply seg_eqb_refl].
  destruct a, b; simpl; intros H; try discriminate; apply N.eqb_eq in H; now subst.
Qed.

Lemma seg_eqb_neq a b : seg_eqb a b = false <-> a <> b.
Proof.
  split.
  - intros H E. subst. rewrite seg_eqb_refl in H. discriminate.
  - intros H. destruct (seg_eqb a b) eqn:E; [|reflexivity]. apply seg_eqb_eq in E. contradiction.
Qed.

Lemma seg_eqb_sym a b : seg_eqb a b = seg_eqb b a.
Proof. destruct a, b; simpl; try reflexivity; apply N.eqb_sym. Qed.

Lemma key_eqb_refl k : key_eqb k k = true.
Proof. induction k as [|s k IH]; simpl; [reflexivity|]. now rewrite seg_eqb_refl, IH. Qed.

Lemma key_eqb_eq a b : key_eqb a b = true <-> a = b.
Proof.
  split; [|intros ->; apply key_eqb_refl].
  revert b; induction a as [|x a IH]; intros [|y b]; simpl; intros H; try discriminate; [reflexivity|].
  apply andb_prop in H as [H1 H2]. apply seg_eqb_eq in H1. apply IH in H2. now subst.
Qed.

Lemma key_mem_In k l : key_mem k l = true <-> In k l.
Proof.
  induction l as [|k' l IH]; simpl; [split; [discriminate|tauto]|].
  rewrite orb_true_iff, IH, key_eqb_eq. split; intros [H|H]; auto.
Qed.

(** ** association lists *)
Lemma dget_dset_same k v m : dget k (dset k v m) = Some v.
Proof.
  induction m as [|[k' v'] m IH]; simpl.
  - now rewrite seg_eqb_refl.
  - destruct (seg_eqb k k') eqn:E; simpl.
    + now rewrite seg_eqb_refl.
    + now rewrite E.
Qed.

Lemma dget_dset_other k k' v m : seg_eqb k k' = false -> dget k (dset k' v m) = dget k m.
Proof.
  intros H. induction m as [|[k2 v2] m IH]; simpl.
  - now rewrite H.
  - destruct (seg_eqb k' k2) eqn:E; simpl.
    + apply seg_eqb_eq in E. subst k2. now rewrite H.
    + destruct (seg_eqb k k2); [reflexivity|exact IH].
Qed.

Lemma dget_dset k k' v m :
  dget k (dset k' v m) = if seg_eqb k k' then Some v else dget k m.
Proof.
  destruct (seg_eqb k k') eqn:E.
  - apply seg_eqb_eq in E. subst. apply dget_dset_same.
  - now apply dget_dset_other.
Qed.

Lemma nodup_dget_none k v m :
  nodup_keys ((k, v) :: m) = true -> dget k m = None.
Proof.
  simpl. intros H. apply andb_prop in H as [H _]. apply negb_true_iff in H.
  induction m as [|[k' v'] m IH]; simpl in *; [reflexivity|].
  apply orb_false_iff in H as [H1 H2]. rewrite H1. now apply IH.
Qed.

Lemma nodup_tail k v m : nodup_keys ((k, v) :: m) = true -> nodup_keys m = true.
Proof. simpl. intros H. now apply andb_prop in H as [_ H]. Qed.

(** ** [mix]: one ingredient entry at a time *)
Definition mix_entry (rec : json -> json -> json) (acc : dict) (k : seg) (v : json) : json :=
  match v with
  | JObj _ => rec (match dget k acc with Some d => d | None => JObj [] end) v
  | _ => v
  end.

Lemma mix_loop_cons rec k v ing acc :
  mix_loop rec ((k, v) :: ing) acc = mix_loop rec ing (dset k (mix_entry rec acc k v) acc).
Proof. unfold mix_entry. destruct v; reflexivity. Qed.

(** the entry of the mixed dictionary under [s]: the ingredient's (merged into the dish's when
    it is a section), else the dish's *)
Lemma dget_mix_loop rec s ing : forall acc,
  nodup_keys ing = true ->
  dget s (mix_loop rec ing acc) =
    match dget s ing with
    | None => dget s acc
    | Some v => Some (mix_entry rec acc s v)
    end.
Proof.
  induction ing as [|[k v] ing IH]; intros acc Hnd; [reflexivity|].
  rewrite mix_loop_cons. rewrite IH by (eapply nodup_tail; eauto).
  change (dget s ((k, v) :: ing)) with (if seg_eqb s k then Some v else dget s ing).
  destruct (seg_eqb s k) eqn:E.
  - apply seg_eqb_eq in E. subst k.
    rewrite (nodup_dget_none _ _ _ Hnd). now rewrite dget_dset_same.
  - destruct (dget s ing) as [v'|].
    + unfold mix_entry at 1. destruct v'; try reflexivity.
      rewrite dget_dset_other by exact E. reflexivity.
    + now apply dget_dset_other.
Qed.

Lemma mixj_obj d im : mixj d (JObj im) = JObj (mix (as_dict d) im).
Proof. reflexivity. Qed.

Lemma mixj_scalar d v : (forall m, v <> JObj m) -> mixj d v = v.
Proof. intros H. destruct v; try reflexivity. exfalso. now apply (H m). Qed.

Lemma mix_nil_r o : mix o [] = o.
Proof. reflexivity. Qed.

(** hereditary uniqueness of keys, unfolded one level *)
Lemma wf_json_obj m :
  wf_json (JObj m) = true ->
  nodup_keys m = true /\ forall k v, In (k, v) m -> wf_json v = true.
Proof.
  simpl. intros H. apply andb_prop in H as [H1 H2]. split; [exact H1|].
  induction m as [|[k' v'] m IH]; simpl in *; [tauto|].
  apply andb_prop in H2 as [Hv Hm].
  intros k v [E|HIn].
  - now inversion E; subst.
  - apply (IH (nodup_tail k' v' m H1) Hm k v HIn).
Qed.

Lemma dget_In k m v : dget k m = Some v -> In (k, v) m.
Proof.
  induction m as [|[k' v'] m IH]; simpl; [discriminate|].
  destruct (seg_eqb k k') eqn:E.
  - apply seg_eqb_eq in E. subst. intros H. inversion H. now left.
  - intros H. right. now apply IH.
Qed.

(** ** C08's central lemma: looking a dotted key up in [mix o P] — P wins, nested sections are
    merged key by key, everything P does not mention comes from o. One unfolding step: *)
Theorem lookup_mix_step s k' o p :
  nodup_keys p = true ->
  lookup (s :: k') (JObj (mix o p)) =
    match s with
    | SIdx _ => Absent
    | SName _ =>
        match dget s p with
        | None => lookup (s :: k') (JObj o)
        | Some (JObj sub) =>
            lookup k' (JObj (mix (as_dict (match dget s o with Some d => d | None => JObj [] end)) sub))
        | Some v => lookup k' v
        end
    end.
Proof.
  intros Hnd. destruct s as [n|i]; [|reflexivity].
  cbn [lookup]. unfold mix. rewrite dget_mix_loop by exact Hnd.
  destruct (dget (SName n) p) as [v|]; [|reflexivity].
  unfold mix_entry. destruct v; reflexivity.
Qed.

(** P wins: a key whose value in P is not a section has P's value in the mix … *)
Theorem lookup_mix_preset_wins k : forall o p v,
  wf_json (JObj p) = true ->
  lookup k (JObj p) = Found v -> (forall m, v <> JObj m) -> k <> [] ->
  lookup k (JObj (mix o p)) = Found v.
Proof.
  induction k as [|s k IH]; intros o p v Hwf Hl Hns Hne; [congruence|].
  destruct (wf_json_obj _ Hwf) as [Hnd Hsub].
  rewrite lookup_mix_step by exact Hnd.
  cbn [lookup] in Hl. destruct s as [n|i]; [|discriminate].
  destruct (dget (SName n) p) as [pv|] eqn:Hp; [|discriminate].
  destruct k as [|s' k].
  - cbn [lookup] in Hl. inversion Hl; subst pv. destruct v; try reflexivity. exfalso. now apply (Hns m).
  - destruct pv; try exact Hl.
    apply IH; try assumption; [|discriminate].
    apply (Hsub _ _ (dget_In _ _ _ Hp)).
Qed.

(** … sections present on both sides (under a path of names) are merged … *)
Definition is_name (s : seg) : bool := match s with SName _ => true | SIdx _ => false end.

Theorem lookup_mix_sections_merge k : forall o p so sp,
  wf_json (JObj p) = true -> forallb is_name k = true ->
  lookup k (JObj o) = Found (JObj so) -> lookup k (JObj p) = Found (JObj sp) ->
  lookup k (JObj (mix o p)) = Found (JObj (mix so sp)).
Proof.
  induction k as [|s k IH]; intros o p so sp Hwf Hn Ho Hp.
  - cbn [lookup] in *. inversion Ho; inversion Hp; subst. reflexivity.
  - destruct (wf_json_obj _ Hwf) as [Hnd Hsub].
    rewrite lookup_mix_step by exact Hnd.
    cbn [lookup] in Ho, Hp. destruct s as [n|i]; [|discriminate].
    cbn [forallb is_name andb] in Hn.
    destruct (dget (SName n) p) as [pv|] eqn:Ep; [|discriminate].
    destruct (dget (SName n) o) as [ov|] eqn:Eo; [|discriminate].
    destruct pv; try (destruct k as [|[?|?] k]; cbn in Hp, Hn; discriminate).
    destruct ov; try (destruct k as [|[?|?] k]; cbn in Ho, Hn; discriminate).
    cbn [as_dict]. apply IH; try assumption.
    apply (Hsub _ _ (dget_In _ _ _ Ep)).
Qed.

(** … and a key on whose path P has nothing is looked up in o. *)
Theorem lookup_mix_untouched s k' o p :
  nodup_keys p = true -> dget s p = None ->
  lookup (s :: k') (JObj (mix o p)) = lookup (s :: k') (JObj o).
Proof.
  intros Hnd Hp. rewrite lookup_mix_step by exact Hnd. rewrite Hp.
  destruct s; reflexivity.
Qed.

(** the empty ingredient/dish *)
Lemma mix_loop_nil_acc rec ing : forall acc,
  (forall k v, In (k, v) ing -> mix_entry rec [] k v = v) ->
  nodup_keys ing = true ->
  (forall k v, In (k, v) ing -> dget k acc = None) ->
  mix_loop rec ing acc = acc ++ ing.
Proof.
  induction ing as [|[k v] ing IH]; intros acc Hrec Hnd Hacc.
  - now rewrite app_nil_r.
  - rewrite mix_loop_cons.
    assert (Hk : dget k acc = None) by (apply (Hacc k v); now left).
    assert (Hent : mix_entry rec acc k v = v).
    { unfold mix_entry. rewrite Hk. specialize (Hrec k v (or_introl eq_refl)).
      unfold mix_entry in Hrec. simpl in Hrec. exact Hrec. }
    rewrite Hent.
    assert (Hds : dset k v acc = acc ++ [(k, v)]).
    { clear -Hk. induction acc as [|[k' v'] acc IH]; simpl in *; [reflexivity|].
      destruct (seg_eqb k k') eqn:E; [discriminate|]. now rewrite IH. }
    rewrite Hds, IH.
    + now rewrite <- app_assoc.
    + intros k0 v0 H0. apply Hrec. now right.
    + eapply nodup_tail; eauto.
    + intros k0 v0 H0.
      assert (Hne : seg_eqb k0 k = false).
      { apply seg_eqb_neq. intros ->.
        pose proof (nodup_dget_none _ _ _ Hnd) as Hn.
        clear -H0 Hn. induction ing as [|[k' v'] ing IH]; simpl in *; [tauto|].
        destruct H0 as [E|H0].
        - inversion E; subst. now rewrite seg_eqb_refl in Hn.
        - destruct (seg_eqb k k'); [discriminate|]. now apply IH. }
      clear -Hne Hacc H0. specialize (Hacc k0 v0 (or_intror H0)).
      induction acc as [|[k' v'] acc IH]; simpl in *.
      * now rewrite Hne.
      * destruct (seg_eqb k0 k'); [discriminate|]. now apply IH.
Qed.

(** ** [Option.set(options, value)] = mix(options, {dotted key: value}) *)
Fixpoint single (k : key) (v : json) : json :=
  match k with
  | [] => v
  | s :: k' => JObj [(s, single k' v)]
  end.

Lemma set_dotted_nil k v : k <> [] -> set_dotted k v [] = Some (as_dict (single k v)).
Proof.
  induction k as [|s k IH]; intros Hne; [congruence|].
  destruct k as [|s' k].
  - reflexivity.
  - assert (IH' : set_dotted (s' :: k) v [] = Some (as_dict (single (s' :: k) v))) by (apply IH; discriminate).
    change (set_dotted (s :: s' :: k) v []) with
      (match set_dotted (s' :: k) v [] with Some sub => Some (dset s (JObj sub) []) | None => None end).
    rewrite IH'. reflexivity.
Qed.

Lemma wf_single k v : wf_json v = true -> wf_json (single k v) = true.
Proof. induction k as [|s k IH]; intros H; simpl; [exact H|]. now rewrite IH. Qed.

Lemma lookup_single k v : forallb is_name k = true -> lookup k (single k v) = Found v.
Proof.
  induction k as [|s k IH]; intros H; [reflexivity|].
  cbn [forallb] in H. apply andb_prop in H as [Hs Hk].
  destruct s as [n|i]; [|discriminate].
  cbn [single lookup dget]. rewrite seg_eqb_refl. now apply IH.
Qed.

Definition set_option (k : key) (v : json) (o : dict) : dict := mix o (as_dict (single k v)).

(** the Option then evaluates to the value set … *)
Theorem set_then_get k v o :
  k <> [] -> forallb is_name k = true -> wf_json v = true -> (forall m, v <> JObj m) ->
  lookup k (JObj (set_option k v o)) = Found v.
Proof.
  intros Hne Hn Hwf Hns. unfold set_option.
  destruct k as [|s k]; [congruence|]. cbn [single as_dict].
  apply lookup_mix_preset_wins; try assumption.
  - change (JObj [(s, single k v)]) with (single (s :: k) v). now apply wf_single.
  - change (JObj [(s, single k v)]) with (single (s :: k) v). now apply lookup_single.
Qed.

(** … and every other key (one that is neither a prefix nor an extension of it) is intact. *)
Fixpoint diverge (k k' : key) : bool :=
  match k, k' with
  | s :: kr, s' :: kr' => if seg_eqb s s' then diverge kr kr' else true
  | _, _ => false
  end.

Theorem set_keeps_other_keys k : forall k' v o w,
  diverge k k' = true -> forallb is_name k' = true ->
  lookup k' (JObj o) = Found w ->
  lookup k' (JObj (set_option k v o)) = Found w.
Proof.
  induction k as [|s kr IH]; intros k' v o w Hd Hn Hl; [discriminate|].
  destruct k' as [|s' kr']; [discriminate|].
  unfold set_option. cbn [single as_dict].
  rewrite lookup_mix_step by reflexivity.
  cbn [forallb] in Hn. apply andb_prop in Hn as [Hs' Hn'].
  destruct s' as [n'|i']; [|discriminate].
  cbn [diverge] in Hd. cbn [dget].
  destruct (seg_eqb s (SName n')) eqn:E.
  - apply seg_eqb_eq in E. subst s. rewrite seg_eqb_refl.
    destruct kr as [|s2 kr2]; [discriminate|].
    cbn [single].
    cbn [lookup] in Hl.
    destruct (dget (SName n') o) as [d|] eqn:Ed; [|discriminate].
    destruct kr' as [|s3 kr3]; [destruct s2; discriminate|].
    assert (Hdict : exists dm, d = JObj dm).
    { cbn [forallb] in Hn'. apply andb_prop in Hn' as [Hs3 _].
      destruct s3; [|discriminate]. destruct d; cbn [lookup] in Hl; try discriminate. eauto. }
    destruct Hdict as [dm ->]. cbn [as_dict].
    change (JObj (mix dm [(s2, single kr2 v)])) with (JObj (set_option (s2 :: kr2) v dm)).
    now apply IH.
  - rewrite seg_eqb_sym in E. rewrite E. exact Hl.
Qed.
