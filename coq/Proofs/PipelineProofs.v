(** Proofs about Model/Pipeline.v (property C13). *)
From Coq Require Import List NArith Bool Lia.
Import ListNotations.
From LV Require Import Model.Pipeline.

Definition nonid (s : step) : bool := negb (is_identity s).

Lemma steps_unfold p : steps p = filter nonid (iter p).
Proof. reflexivity. Qed.

Lemma empty_steps p : empty p = true -> steps p = [].
Proof.
  destruct p as [t|t r]; simpl; intros H; [|discriminate].
  unfold steps; simpl. unfold is_identity in *. rewrite H. reflexivity.
Qed.

Lemma iter_mk t r : iter (mk t r) = if empty r then [t] else iter r ++ [t].
Proof. unfold mk. destruct (empty r); reflexivity. Qed.

Lemma steps_mk t r : steps (mk t r) = steps r ++ (if is_identity t then [] else [t]).
Proof.
  unfold mk. destruct (empty r) eqn:E.
  - rewrite (empty_steps r E). unfold steps; simpl. destruct (is_identity t); reflexivity.
  - unfold steps; simpl. rewrite filter_app. simpl. destruct (is_identity t); reflexivity.
Qed.

Lemma steps_PNil t : steps (PNil t) = if is_identity t then [] else [t].
Proof. unfold steps; simpl. destruct (is_identity t); reflexivity. Qed.

Lemma steps_PCons t r : steps (PCons t r) = steps r ++ (if is_identity t then [] else [t]).
Proof. unfold steps; simpl. rewrite filter_app; simpl. destruct (is_identity t); reflexivity. Qed.

(** The heart of C13: [+] concatenates the step sequences. *)
Lemma steps_add p q : steps (add p q) = steps p ++ steps q.
Proof.
  revert p; induction q as [t|t r IH]; intros p; simpl.
  - rewrite steps_PNil. destruct (is_identity t) eqn:E.
    + now rewrite app_nil_r.
    + rewrite steps_mk, E. reflexivity.
  - unfold add_step. rewrite steps_mk, IH, steps_PCons, app_assoc. reflexivity.
Qed.

Lemma steps_add_step p s : steps (add_step p s) = steps p ++ (if is_identity s then [] else [s]).
Proof. unfold add_step. apply steps_mk. Qed.

Lemma steps_empty_pipe : steps empty_pipe = [].
Proof. reflexivity. Qed.

Lemma add_assoc_steps p q r : steps (add (add p q) r) = steps (add p (add q r)).
Proof. now rewrite !steps_add, app_assoc. Qed.

Lemma add_empty_r p : add p empty_pipe = p.
Proof. reflexivity. Qed.

Lemma add_empty_l_steps p : steps (add empty_pipe p) = steps p.
Proof. now rewrite steps_add. Qed.

(** Well-formedness kept by the constructor: the [rest] of a pipeline is never empty. *)
Fixpoint wf (p : pipe) : bool :=
  match p with
  | PNil _ => true
  | PCons _ r => negb (empty r) && wf r
  end.

Lemma wf_mk t r : wf r = true -> wf (mk t r) = true.
Proof. unfold mk; intros H. destruct (empty r) eqn:E; simpl; [reflexivity|]. now rewrite E, H. Qed.

Lemma wf_add p q : wf p = true -> wf (add p q) = true.
Proof.
  revert p; induction q as [t|t r IH]; intros p H; simpl.
  - destruct (is_identity t); [assumption|now apply wf_mk].
  - unfold add_step. apply wf_mk. now apply IH.
Qed.

(** Pipelines without explicit Identity steps: then iteration itself (not only its
    Identity-free part) is determined. *)
Definition noid (p : pipe) : bool := empty p || forallb nonid (iter p).

Lemma filter_all {A} (f : A -> bool) l : forallb f l = true -> filter f l = l.
Proof.
  induction l as [|a l IH]; simpl; [reflexivity|].
  intros H. apply andb_prop in H as [Ha Hl]. now rewrite Ha, IH.
Qed.

Lemma iter_noid p : noid p = true ->
  iter p = if empty p then [identity_step] else steps p.
Proof.
  unfold noid. destruct (empty p) eqn:E; simpl; intros H.
  - destruct p as [t|]; simpl in *; [|discriminate].
    unfold is_identity in E. apply N.eqb_eq in E. now subst.
  - unfold steps. now rewrite filter_all.
Qed.

Lemma empty_iff_steps_nil p : wf p = true -> noid p = true -> (empty p = true <-> steps p = []).
Proof.
  intros Hw Hn; split; [apply empty_steps|].
  intros Hs. destruct (empty p) eqn:E; [reflexivity|].
  pose proof (iter_noid p Hn) as Hi. rewrite E, Hs in Hi.
  destruct p; simpl in Hi; [discriminate|]. now destruct (iter p).
Qed.

Lemma forallb_nonid_steps p : forallb nonid (steps p) = true.
Proof.
  unfold steps. induction (iter p) as [|a l IH]; simpl; [reflexivity|].
  destruct (is_identity a) eqn:E; simpl; [assumption|].
  unfold nonid at 1. now rewrite E.
Qed.

Lemma noid_mk t r : is_identity t = false -> noid r = true -> noid (mk t r) = true.
Proof.
  intros Ht Hr. unfold noid. rewrite iter_mk.
  destruct (empty r) eqn:E; simpl.
  - unfold mk. rewrite E. simpl. rewrite Ht. simpl. unfold nonid. now rewrite Ht.
  - unfold mk. rewrite E. simpl. unfold noid in Hr. rewrite E in Hr. simpl in Hr.
    rewrite forallb_app, Hr. simpl. unfold nonid. now rewrite Ht.
Qed.

Lemma noid_add p q : noid p = true -> noid q = true -> noid (add p q) = true.
Proof.
  revert p; induction q as [t|t r IH]; intros p Hp Hq; simpl.
  - destruct (is_identity t) eqn:E; [assumption|now apply noid_mk].
  - unfold noid in Hq. simpl in Hq. rewrite forallb_app in Hq.
    apply andb_prop in Hq as [Hr Ht]. simpl in Ht. rewrite andb_true_r in Ht.
    unfold add_step. apply noid_mk.
    + unfold nonid in Ht. now destruct (is_identity t).
    + apply IH; [assumption|]. unfold noid. now rewrite Hr, orb_true_r.
Qed.

Lemma empty_add p q : wf p = true -> noid p = true -> noid q = true -> wf q = true ->
  empty (add p q) = empty p && empty q.
Proof.
  intros Hwp Hp Hq Hwq.
  assert (Hn : noid (add p q) = true) by now apply noid_add.
  assert (Hw : wf (add p q) = true) by now apply wf_add.
  destruct (empty (add p q)) eqn:E.
  - apply (proj1 (empty_iff_steps_nil _ Hw Hn)) in E. rewrite steps_add in E.
    apply app_eq_nil in E as [E1 E2].
    apply (proj2 (empty_iff_steps_nil _ Hwp Hp)) in E1.
    apply (proj2 (empty_iff_steps_nil _ Hwq Hq)) in E2. now rewrite E1, E2.
  - destruct (empty p) eqn:E1; [|reflexivity]. destruct (empty q) eqn:E2; [|reflexivity].
    exfalso. assert (steps (add p q) = []).
    { rewrite steps_add, (empty_steps _ E1), (empty_steps _ E2). reflexivity. }
    apply (proj2 (empty_iff_steps_nil _ Hw Hn)) in H. congruence.
Qed.

(** Iteration order = application order = concatenation, exactly (no Identity steps). *)
Lemma iter_add p q :
  wf p = true -> wf q = true -> noid p = true -> noid q = true ->
  iter (add p q) =
    if empty p && empty q then [identity_step] else steps p ++ steps q.
Proof.
  intros Hwp Hwq Hp Hq.
  rewrite (iter_noid _ (noid_add _ _ Hp Hq)), empty_add, steps_add by assumption.
  reflexivity.
Qed.

Lemma iter_add_assoc p q r :
  wf p = true -> wf q = true -> wf r = true ->
  noid p = true -> noid q = true -> noid r = true ->
  iter (add (add p q) r) = iter (add p (add q r)).
Proof.
  intros.
  rewrite !iter_add, !empty_add, !steps_add, app_assoc, andb_assoc;
    auto using wf_add, noid_add.
Qed.

(** Canonical form: a well-formed pipeline without Identity steps is determined by its
    steps, so [+] is associative on the nose for such pipelines. *)
Fixpoint of_rev_steps (l : list step) : pipe :=
  match l with
  | [] => empty_pipe
  | [t] => PNil t
  | t :: l' => PCons t (of_rev_steps l')
  end.

Lemma canonical p : wf p = true -> noid p = true -> p = of_rev_steps (rev (steps p)).
Proof.
  induction p as [t|t r IH]; intros Hw Hn.
  - rewrite steps_PNil. destruct (is_identity t) eqn:E; simpl.
    + unfold is_identity in E. apply N.eqb_eq in E. now subst.
    + reflexivity.
  - simpl in Hw. apply andb_prop in Hw as [He Hw].
    unfold noid in Hn. simpl in Hn. rewrite forallb_app in Hn.
    apply andb_prop in Hn as [Hr Ht]. simpl in Ht. rewrite andb_true_r in Ht.
    assert (Hnr : noid r = true) by (unfold noid; now rewrite Hr, orb_true_r).
    rewrite steps_PCons. unfold nonid in Ht.
    destruct (is_identity t) eqn:E; [discriminate|].
    rewrite rev_app_distr. simpl.
    specialize (IH Hw Hnr).
    destruct (rev (steps r)) as [|a l] eqn:R.
    + exfalso. assert (steps r = []).
      { rewrite <- (rev_involutive (steps r)), R. reflexivity. }
      apply (proj2 (empty_iff_steps_nil _ Hw Hnr)) in H.
      rewrite H in He. discriminate.
    + now rewrite IH at 1.
Qed.

Lemma add_assoc p q r :
  wf p = true -> wf q = true -> wf r = true ->
  noid p = true -> noid q = true -> noid r = true ->
  add (add p q) r = add p (add q r).
Proof.
  intros.
  rewrite (canonical (add (add p q) r)), (canonical (add p (add q r)));
    auto using wf_add, noid_add.
  now rewrite add_assoc_steps.
Qed.

Lemma add_empty_l p : wf p = true -> noid p = true -> add empty_pipe p = p.
Proof.
  intros Hw Hn.
  assert (Hw0 : wf empty_pipe = true) by reflexivity.
  assert (Hn0 : noid empty_pipe = true) by reflexivity.
  rewrite (canonical (add empty_pipe p) (wf_add _ _ Hw0) (noid_add _ _ Hn0 Hn)).
  rewrite add_empty_l_steps. symmetry. now apply canonical.
Qed.

Lemma steps_cval c : steps (as_pipe (cval c)) = cleaves c.
Proof.
  induction c as [s|p|l IHl r IHr]; simpl.
  - unfold single. apply steps_PNil.
  - reflexivity.
  - destruct (cval r) as [b|q]; simpl in *.
    + rewrite steps_add_step, IHl. unfold single in IHr. rewrite steps_PNil in IHr.
      now rewrite IHr.
    + now rewrite steps_add, IHl, IHr.
Qed.

(** ** Transformations *)
Section Sem.
  Variables O V F K : Type.
  Variable sev : step -> O -> option F.
  Variable ap : F -> V -> option V.
  Variable skeys : step -> O -> option (list K).
  Variable svalid : step -> O -> bool.

  (** What the code guarantees about the Identity step ([Value(_identity)]). *)
  Variable idf : F.
  Hypothesis sev_id : forall o, sev identity_step o = Some idf.
  Hypothesis ap_id : forall x, ap idf x = Some x.
  Hypothesis skeys_id : forall o, skeys identity_step o = Some [].
  Hypothesis svalid_id : forall o, svalid identity_step o = true.

  Notation evaluate := (evaluate O V F sev ap).
  Notation transform := (transform O V F sev ap).
  Notation run_steps := (run_steps O V F sev ap).
  Notation all_eval := (all_eval O F sev).
  Notation pkeys := (pkeys O K skeys).
  Notation pvalid := (pvalid O svalid).

  Lemma obind_none {A B} (x : option A) : obind x (fun _ => @None B) = None.
  Proof. now destruct x. Qed.

  Lemma run_steps_app l1 l2 x o :
    run_steps (l1 ++ l2) x o = obind (run_steps l1 x o) (fun y => run_steps l2 y o).
  Proof.
    revert x; induction l1 as [|s l IH]; intros x; simpl; [reflexivity|].
    destruct (sev s o); simpl; [|reflexivity].
    destruct (ap f x); simpl; [apply IH|reflexivity].
  Qed.

  Lemma all_eval_app l1 l2 o : all_eval (l1 ++ l2) o = all_eval l1 o && all_eval l2 o.
  Proof.
    induction l1 as [|s l IH]; simpl; [reflexivity|]. destruct (sev s o); [apply IH|reflexivity].
  Qed.

  (** [evaluate] succeeds iff every step evaluates, and then it is the fold of the steps in
      iteration order. *)
  Lemma evaluate_spec p o :
    match evaluate p o with
    | Some f => all_eval (iter p) o = true /\ forall x, f x = run_steps (iter p) x o
    | None => all_eval (iter p) o = false
    end.
  Proof.
    induction p as [t|t r IH]; cbn [Pipeline.evaluate iter].
    - cbn [Pipeline.all_eval Pipeline.run_steps].
      destruct (sev t o) as [f|]; cbn [obind]; [|reflexivity].
      split; [reflexivity|]. intros x. now destruct (ap f x).
    - rewrite all_eval_app. cbn [Pipeline.all_eval].
      destruct (sev t o) as [f|] eqn:E; cbn [obind].
      + destruct (evaluate r o) as [g|]; cbn [obind].
        * destruct IH as [Ha Hg]. rewrite Ha. split; [reflexivity|].
          intros x. rewrite run_steps_app, Hg. cbn [Pipeline.run_steps]. rewrite E.
          destruct (run_steps (iter r) x o) as [v|]; cbn [obind]; [|reflexivity].
          now destruct (ap f v).
        * now rewrite IH.
      + now rewrite andb_false_r.
  Qed.

  Lemma transform_spec p x o :
    transform p x o = if all_eval (iter p) o then run_steps (iter p) x o else None.
  Proof.
    unfold Pipeline.transform. pose proof (evaluate_spec p o) as H.
    destruct (evaluate p o); simpl.
    - destruct H as [Ha Hf]. now rewrite Ha, Hf.
    - now rewrite H.
  Qed.

  Lemma run_steps_filter l x o : run_steps (filter nonid l) x o = run_steps l x o.
  Proof.
    revert x; induction l as [|s l IH]; intros x; simpl; [reflexivity|].
    unfold nonid at 1. destruct (is_identity s) eqn:E; simpl.
    - unfold is_identity in E. apply N.eqb_eq in E. subst s.
      rewrite sev_id. simpl. rewrite ap_id. simpl. apply IH.
    - destruct (sev s o); simpl; [|reflexivity]. destruct (ap f x); simpl; [apply IH|reflexivity].
  Qed.

  Lemma all_eval_filter l o : all_eval (filter nonid l) o = all_eval l o.
  Proof.
    induction l as [|s l IH]; simpl; [reflexivity|].
    unfold nonid at 1. destruct (is_identity s) eqn:E; simpl.
    - unfold is_identity in E. apply N.eqb_eq in E. subst s. now rewrite sev_id.
    - destruct (sev s o); [apply IH|reflexivity].
  Qed.

  Lemma transform_steps p x o :
    transform p x o = if all_eval (steps p) o then run_steps (steps p) x o else None.
  Proof. unfold steps. now rewrite transform_spec, all_eval_filter, run_steps_filter. Qed.

  (** (p + q).transform(x, o) = q.transform(p.transform(x, o), o), failures included. *)
  Lemma transform_add p q x o :
    transform (add p q) x o = obind (transform p x o) (fun y => transform q y o).
  Proof.
    rewrite !transform_steps, steps_add, all_eval_app, run_steps_app.
    destruct (all_eval (steps p) o); simpl; [|reflexivity].
    destruct (run_steps (steps p) x o) as [y|]; simpl.
    - now rewrite transform_steps.
    - now destruct (all_eval (steps q) o).
  Qed.

  Lemma transform_add_step p s x o :
    transform (add_step p s) x o =
      obind (transform p x o) (fun y => transform (single s) y o).
  Proof.
    rewrite (transform_steps (add_step p s)), steps_add_step, all_eval_app, run_steps_app,
      (transform_steps p).
    destruct (all_eval (steps p) o); simpl; [|reflexivity].
    destruct (run_steps (steps p) x o) as [y|]; simpl.
    - rewrite transform_steps. unfold single. now rewrite steps_PNil.
    - now destruct (all_eval (if is_identity s then [] else [s]) o).
  Qed.

  Lemma transform_empty x o : transform empty_pipe x o = Some x.
  Proof. unfold Pipeline.transform; simpl. rewrite sev_id. simpl. apply ap_id. Qed.

  Lemma transform_assoc p q r x o :
    transform (add (add p q) r) x o = transform (add p (add q r)) x o.
  Proof. now rewrite !transform_steps, add_assoc_steps. Qed.

  Lemma transform_empty_l p x o : transform (add empty_pipe p) x o = transform p x o.
  Proof. now rewrite !transform_steps, add_empty_l_steps. Qed.

  (** Any two bracketings of the same sequence of pipelines: same steps, same transformation. *)
  Lemma steps_bval b : steps (bval b) = concat (map steps (bleaves b)).
  Proof.
    induction b as [p|l IHl r IHr]; simpl.
    - now rewrite app_nil_r.
    - now rewrite steps_add, IHl, IHr, map_app, concat_app.
  Qed.

  Lemma bracketing_irrelevant b1 b2 x o :
    bleaves b1 = bleaves b2 ->
    steps (bval b1) = steps (bval b2) /\ transform (bval b1) x o = transform (bval b2) x o.
  Proof.
    intros H. assert (E : steps (bval b1) = steps (bval b2)) by now rewrite !steps_bval, H.
    split; [exact E|]. now rewrite !transform_steps, E.
  Qed.

  Lemma cexpr_bracketing_irrelevant c1 c2 x o :
    cleaves c1 = cleaves c2 ->
    transform (as_pipe (cval c1)) x o = transform (as_pipe (cval c2)) x o.
  Proof. intros H. now rewrite !transform_steps, !steps_cval, H. Qed.

  (** keys / explain / validate of a composition are the union over both sides. *)
  Fixpoint keys_of (l : list step) (o : O) : option (list K) :=
    match l with
    | [] => Some []
    | s :: l' => obind (skeys s o) (fun a => obind (keys_of l' o) (fun b => Some (a ++ b)))
    end.

  Definition oequiv (a b : option (list K)) : Prop :=
    match a, b with
    | Some x, Some y => forall k, In k x <-> In k y
    | None, None => True
    | _, _ => False
    end.

  Lemma oequiv_refl a : oequiv a a.
  Proof. destruct a; simpl; [tauto|exact I]. Qed.

  Lemma pkeys_spec p o : pkeys p o = keys_of (rev (iter p)) o.
  Proof.
    induction p as [t|t r IH]; simpl.
    - destruct (skeys t o); simpl; [now rewrite app_nil_r|reflexivity].
    - rewrite rev_app_distr. simpl. now rewrite IH.
  Qed.

  Lemma keys_of_app l1 l2 o :
    keys_of (l1 ++ l2) o =
      obind (keys_of l1 o) (fun a => obind (keys_of l2 o) (fun b => Some (a ++ b))).
  Proof.
    induction l1 as [|s l IH]; simpl.
    - destruct (keys_of l2 o); reflexivity.
    - destruct (skeys s o); simpl; [|reflexivity]. rewrite IH.
      destruct (keys_of l o); simpl; [|reflexivity].
      destruct (keys_of l2 o); simpl; [|reflexivity]. now rewrite app_assoc.
  Qed.

  Lemma keys_of_filter l o : keys_of (filter nonid l) o = keys_of l o.
  Proof.
    induction l as [|s l IH]; simpl; [reflexivity|].
    unfold nonid at 1. destruct (is_identity s) eqn:E; simpl.
    - unfold is_identity in E. apply N.eqb_eq in E. subst s. rewrite skeys_id. simpl.
      rewrite IH. now destruct (keys_of l o).
    - now rewrite IH.
  Qed.

  Lemma filter_rev {A} (f : A -> bool) l : filter f (rev l) = rev (filter f l).
  Proof.
    induction l as [|a l IH]; simpl; [reflexivity|].
    rewrite filter_app, IH. simpl. destruct (f a); simpl; [reflexivity|now rewrite app_nil_r].
  Qed.

  Lemma pkeys_steps p o : pkeys p o = keys_of (rev (steps p)) o.
  Proof. unfold steps. now rewrite pkeys_spec, <- filter_rev, keys_of_filter. Qed.

  Lemma pkeys_add p q o :
    oequiv (pkeys (add p q) o)
           (obind (pkeys p o) (fun a => obind (pkeys q o) (fun b => Some (a ++ b)))).
  Proof.
    rewrite !pkeys_steps, steps_add, rev_app_distr, keys_of_app.
    destruct (keys_of (rev (steps q)) o) as [b|]; simpl.
    - destruct (keys_of (rev (steps p)) o) as [a|]; simpl; [|exact I].
      intros k. rewrite !in_app_iff. tauto.
    - now destruct (keys_of (rev (steps p)) o).
  Qed.

  Lemma pvalid_spec p o : pvalid p o = forallb (fun s => svalid s o) (iter p).
  Proof.
    induction p as [t|t r IH]; simpl.
    - now rewrite andb_true_r.
    - rewrite forallb_app, IH. simpl. rewrite andb_true_r. apply andb_comm.
  Qed.

  Lemma forallb_filter_nonid l o :
    forallb (fun s => svalid s o) (filter nonid l) = forallb (fun s => svalid s o) l.
  Proof.
    induction l as [|s l IH]; simpl; [reflexivity|].
    unfold nonid at 1. destruct (is_identity s) eqn:E; simpl.
    - unfold is_identity in E. apply N.eqb_eq in E. subst s. now rewrite svalid_id.
    - now rewrite IH.
  Qed.

  Lemma pvalid_add p q o : pvalid (add p q) o = pvalid p o && pvalid q o.
  Proof.
    rewrite !pvalid_spec.
    rewrite <- (forallb_filter_nonid (iter (add p q))), <- (forallb_filter_nonid (iter p)),
      <- (forallb_filter_nonid (iter q)).
    change (filter nonid (iter (add p q))) with (steps (add p q)).
    rewrite steps_add, forallb_app. reflexivity.
  Qed.
End Sem.
