(** C01 / C03 at the level the property files state them: the side condition is the BOOLEAN
    [clean_at] that the model computes (and that the harness evaluates on every generated
    scenario: the ghost event EvDirty), the fingerprint is the one [Cached] computes.

    1. [clean_at] implies the propositional side conditions of SufficientProofs.
    2. Evaluation on the options restricted to ANY key set that covers the present reads
       gives the same outcome (generalises keys_sufficient: the key set need not come from keys()).
    3. Two dictionaries on which the cached expression has the same fingerprint evaluate alike
       (no stale hit), the reported key LISTS being allowed to differ in order/repetition. *)
From Coq Require Import List NArith ZArith Bool Lia.
Import ListNotations.
From LV Require Import Model.Base Model.Template Model.Eval Model.Derived Model.EvalRun Proofs.BaseProofs Proofs.EvalProofs Proofs.EvalInd Proofs.EvalUnfold Proofs.FingerprintProofs.
From LV Require Import Proofs.DatasetClassProofs.
From LV Require Import Proofs.FrameProofs Proofs.TemplateFrame Proofs.FrameTheorem Proofs.RestrictProofs Proofs.SufficientProofs.

(** ** 1. the boolean side condition *)
Lemma names_only_good k : names_only k = true -> forallb is_name k = true /\ k <> [].
Proof.
  unfold names_only. destruct k as [|s k]; [discriminate|]. intros H. split; [|discriminate].
  revert H. generalize (s :: k). intros l. induction l as [|[n|i] l IH]; cbn [forallb is_name andb]; auto.
Qed.

Lemma names_only_good_keys K : forallb names_only K = true -> good_keys K.
Proof. intros H k Hk. apply names_only_good. rewrite forallb_forall in H. now apply H. Qed.

Lemma reads_reported_RR K o l : reads_reported K o l = true -> RR K o l.
Proof.
  unfold reads_reported, RR. intros H k Hk. rewrite forallb_forall in H.
  unfold reads_of in Hk. apply in_flat_map in Hk as (ev & Hev & Hk).
  specialize (H ev Hev). destruct ev as [k0 p| | | | | | | | |]; try (now destruct Hk). destruct Hk as [<-|[]].
  apply andb_prop in H as [_ H].
  destruct (lookup k0 (JObj o)); [now apply key_mem_In| exact I | discriminate].
Qed.

Section Clean.
  Variable u : N -> list value -> cres.
  Variable fuel : nat.

  Notation evalN := (eval unit nc_find nc_store cfg_nc u fuel (fun _ _ => true)).
  Notation validateN := (validate unit nc_find nc_store cfg_nc u fuel (fun _ _ => true)).
  Notation keysN := (keys unit nc_find nc_store cfg_nc u fuel (fun _ _ => true)).

  (** what [clean_at] says when keys() succeeds *)
  Lemma clean_at_spec e o K lk :
    clean_at u fuel e o = true -> keysN e o tt = (Ok K, tt, lk) ->
    good_keys K /\ RR K o (snd (evalN e o tt)) /\ RR K o lk.
  Proof.
    unfold clean_at, eval_nc, keys_nc. intros H Hk. rewrite Hk in H.
    destruct (evalN e o tt) as [[rv []] lv]. cbn [snd].
    apply andb_prop in H as [H H3]. apply andb_prop in H as [H1 H2].
    split; [now apply names_only_good_keys|]. split; now apply reads_reported_RR.
  Qed.

  (** ** 2. restriction to a covering key set *)
  Theorem eval_sufficient e o K :
    frag e = true -> wf_dict o = true -> no_par o = true -> good_keys K -> RR K o (snd (evalN e o tt)) ->
    effects_opt_off (restrict o K) = effects_opt_off o ->
    obs (evalN e (restrict o K) tt) = obs (evalN e o tt).
  Proof.
    intros Hf Hw Hnp Hg Hrv Hsw.
    destruct (frame_all u fuel e Hf o (restrict o K) Hw (wf_restrict o K Hw) Hnp (no_par_restrict o K Hnp) Hsw) as (E & _ & _).
    apply E. now apply agree_restrict.
  Qed.

  Lemma RR_members K K' o l : (forall k, In k K -> In k K') -> RR K o l -> RR K' o l.
  Proof.
    intros Hsub H k Hk. specialize (H k Hk). destruct (lookup k (JObj o)); auto.
  Qed.

  (** ** 3. same values under a covering, present key set: same outcome *)
  Theorem same_reported_same_outcome e o o' K :
    frag e = true -> wf_dict o = true -> wf_dict o' = true -> no_par o = true -> no_par o' = true ->
    good_keys K -> all_present K o ->
    (forall k, In k K -> lookup k (JObj o') = lookup k (JObj o)) ->
    RR K o (snd (evalN e o tt)) -> RR K o' (snd (evalN e o' tt)) ->
    effects_opt_off (restrict o K) = effects_opt_off o ->
    effects_opt_off (restrict o' K) = effects_opt_off o' ->
    effects_opt_off o' = effects_opt_off o ->
    fst (fst (evalN e o' tt)) = fst (fst (evalN e o tt)).
  Proof.
    intros Hf Hw Hw' Hnp Hnp' Hg Hp Hsame Hrv Hrv' Hs1 Hs2 Hs3.
    assert (Hp' : all_present K o').
    { intros k Hin. destruct (Hp k Hin) as [v Hv]. exists v. now rewrite (Hsame k Hin). }
    pose proof (eval_sufficient e o K Hf Hw Hnp Hg Hrv Hs1) as E1.
    pose proof (eval_sufficient e o' K Hf Hw' Hnp' Hg Hrv' Hs2) as E2.
    set (R := restrict o K) in *. set (R' := restrict o' K) in *.
    assert (Hrep : reported_ok o K) by now apply reported_ok_of.
    assert (Hrep' : reported_ok o' K) by now apply reported_ok_of.
    assert (HsR : effects_opt_off R' = effects_opt_off R) by congruence.
    destruct (frame_all u fuel e Hf R R' (wf_restrict o K Hw) (wf_restrict o' K Hw') (no_par_restrict o K Hnp) (no_par_restrict o' K Hnp') HsR) as (E3 & _ & _).
    assert (Hag : agree_keys R R' (reads_of (snd (evalN e R tt)))).
    { assert (Hreads : reads_of (snd (evalN e R tt)) = reads_of (snd (evalN e o tt))).
      { unfold obs in E1. cbn [fst snd] in E1.
        assert (Hfl : filter FrameProofs.is_read (snd (evalN e R tt)) =
                      filter FrameProofs.is_read (snd (evalN e o tt))) by congruence.
        rewrite <- (reads_of_filter (snd (evalN e R tt))), Hfl. apply reads_of_filter. }
      rewrite Hreads. intros k Hk0. unfold same_at.
      pose proof (agree_restrict K o _ Hg Hrv k Hk0) as HoR. unfold same_at in HoR. fold R in HoR.
      specialize (Hrv k Hk0).
      assert (Hcov : forall k0 rest, In k0 K -> k0 <> [] -> k = k0 ++ rest ->
                     lookup k (JObj R') = lookup k (JObj R)).
      { intros k0 rest Hin Hne ->. unfold R, R'.
        rewrite (lookup_restrict_covered k0 rest o K Hrep Hin Hne).
        rewrite (lookup_restrict_covered k0 rest o' K Hrep' Hin Hne).
        destruct (Hp k0 Hin) as [v0 Hv0].
        rewrite (lookup_app k0 rest (JObj o) v0 Hv0).
        rewrite (lookup_app k0 rest (JObj o') v0); [reflexivity|]. now rewrite (Hsame k0 Hin). }
      destruct (lookup k (JObj o)) as [v| |] eqn:El; [| |destruct Hrv].
      - destruct (Hg k Hrv) as [_ Hne]. apply (Hcov k [] Hrv Hne). now rewrite app_nil_r.
      - rewrite HoR.
        assert (Hkne : k <> []) by (intros ->; discriminate).
        destruct (lookup_restrict_cases k o' K Hrep' Hkne) as [(k0 & rest & Hin & Hne & Hk1)|[Ha|(rest & w & Hr & Hin & Hfnd)]].
        + rewrite (Hcov k0 rest Hin Hne Hk1). exact HoR.
        + exact Ha.
        + exfalso. destruct (Hp _ Hin) as [v Hv].
          destruct (lookup_prefix_found k rest (JObj o) v Hv) as [w' Hw0]. congruence. }
    specialize (E3 Hag).
    unfold obs in *. cbn [fst snd] in *. congruence.
  Qed.

  (** the fingerprint [Cached] computes for [e] under [o] on the reference instance *)
  Definition fingerprintN (e : expr) (o : dict) : res fp :=
    match keysN e o tt with
    | (Ok K, _, _) => fst (fst (fingerprint_of unit K o tt))
    | (Err c ee, _, _) => Err c ee
    end.

  (** ** C01, second sentence: equal fingerprints, equal outcomes.  A value stored under the
      fingerprint of [o] can only be served for an [o'] with the same fingerprint; then the
      cache-free evaluations of [o] and [o'] coincide — provided both dictionaries are clean
      for [e] (every present option the evaluation reads is reported by keys()). *)
  (** the effects switch (LABREA.EFFECTS.DISABLED) is read by Computation without being an option
      read: restricting [o] to the reported keys must not flip it *)
  Definition esw_stable (e : expr) (o : dict) : Prop :=
    forall K, fst (fst (keysN e o tt)) = Ok K -> effects_opt_off (restrict o K) = effects_opt_off o.

  Theorem equal_fingerprint_equal_outcome e o o' f :
    frag e = true -> wf_dict o = true -> wf_dict o' = true -> no_par o = true -> no_par o' = true ->
    clean_at u fuel e o = true -> clean_at u fuel e o' = true ->
    esw_stable e o -> esw_stable e o' -> effects_opt_off o' = effects_opt_off o ->
    fingerprintN e o = Ok f -> fingerprintN e o' = Ok f ->
    fst (fst (evalN e o' tt)) = fst (fst (evalN e o tt)).
  Proof.
    intros Hf Hw Hw' Hnp Hnp' Hc Hc' He1 He2 He3 Hfp Hfp'. unfold fingerprintN in *.
    destruct (keysN e o tt) as [[[K|c ee] []] lk] eqn:Hk; [|discriminate].
    destruct (keysN e o' tt) as [[[K'|c ee] []] lk'] eqn:Hk'; [|discriminate].
    destruct (clean_at_spec e o K lk Hc Hk) as (Hg & Hrv & _).
    destruct (clean_at_spec e o' K' lk' Hc' Hk') as (Hg' & Hrv' & _).
    destruct (fingerprint_of unit K o tt) as [[rf []] lf] eqn:Ef. cbn [fst] in Hfp. subst rf.
    destruct (fingerprint_of unit K' o' tt) as [[rf []] lf'] eqn:Ef'. cbn [fst] in Hfp'. subst rf.
    destruct (fingerprint_of_ok unit _ _ _ _ _ _ Ef) as (_ & _ & Hm & Hv).
    destruct (fingerprint_of_ok unit _ _ _ _ _ _ Ef') as (_ & _ & Hm' & Hv').
    assert (Hmem : forall k, In k K <-> In k K').
    { intros k. rewrite <- (key_sort_In k K), <- (key_sort_In k K'). now rewrite <- Hm, <- Hm'. }
    assert (Hr1 : effects_opt_off (restrict o K) = effects_opt_off o) by (apply He1; now rewrite Hk).
    assert (Hr2 : effects_opt_off (restrict o' K') = effects_opt_off o') by (apply He2; now rewrite Hk').
    assert (HKK : restrict o' K = restrict o' K').
    { apply restrict_ext. intros k. apply Hmem. }
    apply (same_reported_same_outcome e o o' K Hf Hw Hw' Hnp Hnp' Hg).
    - intros k Hk0. assert (Hin : In k (map fst f)) by (rewrite Hm; now apply key_sort_In).
      destruct (In_fst_map _ _ Hin) as [v Hvf]. exists v. now apply Hv.
    - intros k Hk0. assert (Hin : In k (map fst f)) by (rewrite Hm; now apply key_sort_In).
      destruct (In_fst_map _ _ Hin) as [v Hvf]. now rewrite (Hv _ _ Hvf), (Hv' _ _ Hvf).
    - exact Hrv.
    - eapply RR_members; [|exact Hrv']. intros k. apply Hmem.
    - exact Hr1.
    - rewrite HKK. exact Hr2.
    - exact He3.
  Qed.

  (** ** C03: keys() is sufficient, with the boolean side condition *)
  Theorem keys_sufficient_clean e o K lk :
    frag e = true -> wf_dict o = true -> no_par o = true -> clean_at u fuel e o = true ->
    keysN e o tt = (Ok K, tt, lk) ->
    effects_opt_off (restrict o K) = effects_opt_off o ->
    obs (evalN e (restrict o K) tt) = obs (evalN e o tt) /\
    obs (keysN e (restrict o K) tt) = obs (keysN e o tt).
  Proof.
    intros Hf Hw Hnp Hc Hk Hsw. destruct (clean_at_spec e o K lk Hc Hk) as (Hg & Hrv & Hrk).
    destruct (evalN e o tt) as [[rv []] lv] eqn:He. cbn [snd] in Hrv.
    rewrite <- He. eapply keys_sufficient; eauto.
  Qed.
End Clean.
