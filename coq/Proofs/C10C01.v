(** C10 for C01: the agreement that [Cached] relies on ([agree_at], Proofs/CacheSim.v) follows from
    the agreement theorems of C10 on the fragment [fragP pA]: validate, keys and evaluate fail with
    the SAME cause (and validate/keys with the same EvaluationError-ness) unless evaluate fails for
    a value outside its declared domain (keys does not look at domains).  Then: the history
    theorem of C01 without the [agree_at] conjunct, and C10's agreement on the long-lived cached
    graph (warm caches). *)
From Coq Require Import List NArith ZArith Bool Lia.
Import ListNotations.
From LV Require Import Model.Base Model.Template Model.Eval Model.Derived Model.EvalRun.
From LV Require Import Proofs.BaseProofs Proofs.EvalProofs Proofs.EvalInd Proofs.EvalUnfold Proofs.FrameProofs Proofs.AgreeProofs.
From LV Require Import Proofs.TemplateFrame Proofs.CleanProofs Proofs.C11Proofs Proofs.CacheSim.

(** ** the first failing element of a list traversed in order *)
Lemma mapr_app_err {A B} (g : A -> res B) pre x post c ee :
  (forall y, In y pre -> exists v, g y = Ok v) -> g x = Err c ee -> mapr g (pre ++ x :: post) = Err c ee.
Proof.
  induction pre as [|y pre IH]; intros Hp Hx; cbn [app mapr]; [now rewrite Hx|].
  destruct (Hp y (or_introl eq_refl)) as [v ->]. cbn [bindr]. rewrite (IH (fun z Hz => Hp z (or_intror Hz)) Hx). reflexivity.
Qed.
Lemma iterr_app_err {A} (g : A -> res unit) pre x post c ee :
  (forall y, In y pre -> g y = Ok tt) -> g x = Err c ee -> iterr g (pre ++ x :: post) = Err c ee.
Proof.
  induction pre as [|y pre IH]; intros Hp Hx; cbn [app iterr]; [now rewrite Hx|].
  rewrite (Hp y (or_introl eq_refl)). cbn [bindr]. apply (IH (fun z Hz => Hp z (or_intror Hz)) Hx).
Qed.
Lemma unionr_err_first {A} (f : A -> res (list key)) l c ee :
  unionr f l = Err c ee -> exists pre a post, l = pre ++ a :: post /\ (forall b, In b pre -> exists L, f b = Ok L) /\ f a = Err c ee.
Proof.
  induction l as [|b l IH]; [discriminate|]. cbn [unionr]. intros H.
  apply bindr_err in H as [H|[x [Hb H]]].
  - exists [], b, l. split; [reflexivity|]. split; [intros ? []|exact H].
  - apply bindr_err in H as [H|[y [_ H]]]; [|discriminate].
    destruct (IH H) as [pre [a [post [-> [Hp Ha]]]]]. exists (b :: pre), a, post.
    split; [reflexivity|]. split; [|exact Ha]. intros z [<-|Hz]; [now exists x|auto].
Qed.
Lemma first_fail {A B} (g : A -> res B) l :
  (forall y, In y l -> exists v, g y = Ok v) \/
  (exists pre x post c ee, l = pre ++ x :: post /\ (forall y, In y pre -> exists v, g y = Ok v) /\ g x = Err c ee).
Proof.
  induction l as [|a l IH]; [left; intros ? []|].
  destruct (g a) as [v|c ee] eqn:Ea.
  - destruct IH as [IH|[pre [x [post [c [ee [-> [Hp Hx]]]]]]]].
    + left. intros y [<-|Hy]; [now exists v|auto].
    + right. exists (a :: pre), x, post, c, ee. split; [reflexivity|]. split; [|exact Hx]. intros y [<-|Hy]; [now exists v|auto].
  - right. exists [], a, l, c, ee. split; [reflexivity|]. split; [intros ? []|exact Ea].
Qed.

Definition domf {A} (r : res A) : Prop := exists ee, r = Err CDomain ee.

Section Cause.
  Variable u : N -> list value -> cres.
  Variable rfuel : nat.
  Hypothesis Htot : total_u u.
  Hypothesis Hclean : clean_u u.
  Notation ev := (eval unit nc_find nc_store cfg_nc u rfuel (fun _ _ => true)).
  Notation va := (validate unit nc_find nc_store cfg_nc u rfuel (fun _ _ => true)).
  Notation ks := (keys unit nc_find nc_store cfg_nc u rfuel (fun _ _ => true)).
  Local Notation E e o := (rs (ev e o)) (only parsing).
  Local Notation V e o := (rs (va e o)) (only parsing).
  Local Notation K e o := (rs (ks e o)) (only parsing).
  Notation cleanQ := (cleanQ u rfuel).
  Notation AG := (AG u rfuel).
  Notation SC := (SC rfuel).
  Notation agQ := (agQ u rfuel).

  (** validate fails with the cause evaluate fails with *)
  Definition VE (e : expr) (o : dict) : Prop := forall c ee, V e o = Err c ee -> E e o = Err c true.
  (** keys fails with the cause (and EvaluationError-ness) evaluate and validate fail with — unless
      evaluate fails on a value outside its domain *)
  Definition KE (e : expr) (o : dict) : Prop :=
    forall c ee, K e o = Err c ee -> (E e o = Err c true /\ V e o = Err c ee) \/ domf (E e o).
  Definition PE (e : expr) (o : dict) : Prop := AG e o /\ VE e o /\ KE e o.
  Definition caQ (e : expr) : Prop := agQ e /\ forall o, SC o -> VE e o /\ KE e o.

  Lemma pe_of e o : caQ e -> SC o -> PE e o.
  Proof. intros [[_ [Ha _]] Hc] Hs. split; [apply (Ha o Hs)|apply (Hc o Hs)]. Qed.

  Lemma ag_dom e o L c ee : AG e o -> K e o = Ok L -> E e o = Err c ee -> c = CDomain.
  Proof.
    intros [_ [_ Hc]] HK HE. destruct c; try reflexivity; exfalso;
      (assert (Hf : fails (K e o)) by (apply (Hc _ ee HE); discriminate)); rewrite HK in Hf; discriminate Hf.
  Qed.
  Lemma E_err_true e o c ee : E e o = Err c ee -> E e o = Err c true.
  Proof. intros H. pose proof (ev_err_ee u rfuel e o c ee H). now subst. Qed.
  Lemma wrapr_err A (r : res A) c ee : r = Err c ee -> wrapr r = Err c true.
  Proof. now intros ->. Qed.

  (** *** lists of sub-expressions *)
  Lemma list_VE o l : (forall x, In x l -> PE x o) ->
    forall c ee, iterr (fun x => V x o) l = Err c ee -> mapr (fun x => E x o) l = Err c true.
  Proof.
    intros H c ee Hi. apply iterr_err_first in Hi as [pre [a [post [-> [Hp Ha]]]]].
    apply mapr_app_err.
    - intros y Hy. destruct (H y (in_or_app _ _ _ (or_introl Hy))) as [[Aa _] _]. rewrite (Hp y Hy) in Aa.
      destruct (E y o) as [v|]; [now exists v|discriminate Aa].
    - destruct (H a (in_elt a pre post)) as [_ [Hv _]]. apply (Hv c ee Ha).
  Qed.
  Lemma list_KE o l : (forall x, In x l -> PE x o) ->
    forall c ee, unionr (fun x => K x o) l = Err c ee ->
    (mapr (fun x => E x o) l = Err c true /\ iterr (fun x => V x o) l = Err c ee) \/ domf (mapr (fun x => E x o) l).
  Proof.
    intros H c ee Hu. apply unionr_err_first in Hu as [pre [a [post [-> [Hp Ha]]]]].
    assert (Hpre : forall y, In y pre -> PE y o) by (intros y Hy; apply H, in_or_app; now left).
    destruct (first_fail (fun x => E x o) pre) as [Hall|[p1 [y [p2 [c' [ee' [-> [Hp1 Hy]]]]]]]].
    - destruct (H a (in_elt a pre post)) as [_ [_ Hk]].
      destruct (Hk c ee Ha) as [[HE HV]|[ee' HD]].
      + left. split; [now apply mapr_app_err|]. apply iterr_app_err; [|exact HV].
        intros z Hz. destruct (Hall z Hz) as [v Hv]. apply (ag_V_ok u rfuel z o v (proj1 (Hpre z Hz)) Hv).
      + right. exists ee'. now apply mapr_app_err.
    - right. assert (Hin : In y (p1 ++ y :: p2)) by (apply in_or_app; right; now left).
      destruct (Hp y Hin) as [L HL]. pose proof (ag_dom y o L c' ee' (proj1 (Hpre y Hin)) HL Hy). subst c'.
      exists ee'. rewrite <- app_assoc. cbn [app]. now apply mapr_app_err.
  Qed.
  Lemma list_K_ok_E o l L : (forall x, In x l -> PE x o) -> unionr (fun x => K x o) l = Ok L ->
    (exists vs, mapr (fun x => E x o) l = Ok vs /\ iterr (fun x => V x o) l = Ok tt) \/ domf (mapr (fun x => E x o) l).
  Proof.
    intros H HK. destruct (first_fail (fun x => E x o) l) as [Hall|[p1 [y [p2 [c' [ee' [-> [Hp1 Hy]]]]]]]].
    - left. assert (Hv : iterr (fun x => V x o) l = Ok tt).
      { apply iterr_ok. intros x Hx. destruct (Hall x Hx) as [v Hv]. apply (ag_V_ok u rfuel x o v (proj1 (H x Hx)) Hv). }
      destruct (mapr (fun x => E x o) l) as [vs|c ee] eqn:Em; [now exists vs|].
      apply mapr_err in Em as [x [Hx Ex]]. destruct (Hall x Hx) as [v Hv2]. rewrite Hv2 in Ex. discriminate.
    - right. assert (Hin : In y (p1 ++ y :: p2)) by (apply in_or_app; right; now left).
      destruct (unionr_ok _ _ _ HK y Hin) as [Ly [HLy _]].
      pose proof (ag_dom y o Ly c' ee' (proj1 (H y Hin)) HLy Hy). subst c'. exists ee'. now apply mapr_app_err.
  Qed.

  (** *** list()/tuple() of an Iter fails with the first failing element's cause *)
  Lemma iter_go_first_err o pre x post c ee :
    Forall cleanQ pre -> (forall y, In y pre -> exists v, E y o = Ok v) -> E x o = Err c ee ->
    match rs (iter_go u rfuel o (pre ++ x :: post)) with Ok vs => first_err vs = Some c | Err c' _ => c' = c end.
  Proof.
    induction pre as [|y pre IH]; intros HQ Hp Hx; cbn [app]; rewrite rs_iter_cons.
    - rewrite Hx. cbn [bindr catchr]. destruct (unmodb c); reflexivity.
    - inversion HQ as [|? ? Hy HQ']; subst. destruct (Hp y (or_introl eq_refl)) as [v Hv]. rewrite Hv. cbn [bindr].
      pose proof (Hy o v Hv) as Cv. rewrite (vclean_deep_err v Cv). cbn [is_some].
      specialize (IH HQ' (fun z Hz => Hp z (or_intror Hz)) Hx).
      destruct (rs (iter_go u rfuel o (pre ++ x :: post))) as [vs|c' ee']; cbn [bindr catchr].
      + destruct v; try exact IH. discriminate Cv.
      + subst c'. destruct (unmodb c); reflexivity.
  Qed.
  Lemma forced_of_mapr_err es b o c ee :
    b = B_LIST \/ b = B_TUPLE -> Forall cleanQ es -> mapr (fun x => E x o) es = Err c ee ->
    E (EApply (EIter es) (EValue (VF b [] []))) o = Err c true.
  Proof.
    intros Hb HQ Hm.
    assert (Hsplit : exists pre x post ee', es = pre ++ x :: post /\ (forall y, In y pre -> exists v, E y o = Ok v) /\ E x o = Err c ee').
    { destruct (first_fail (fun x => E x o) es) as [Hall|[pre [x [post [c' [ee' [-> [Hp Hx]]]]]]]].
      - apply mapr_err in Hm as [x [Hx Ex]]. destruct (Hall x Hx) as [v Hv]. rewrite Hv in Ex. discriminate.
      - rewrite (mapr_app_err _ pre x post c' ee' Hp Hx) in Hm. assert (Ec : c' = c) by congruence. subst c'.
        exists pre, x, post, ee'. split; [reflexivity|]. split; [exact Hp|exact Hx]. }
    destruct Hsplit as [pre [x [post [ee' [-> [Hp Hx]]]]]].
    assert (HQp : Forall cleanQ pre) by (apply Forall_forall; intros y Hy; apply (proj1 (Forall_forall _ _) HQ), in_or_app; now left).
    pose proof (iter_go_first_err o pre x post c ee' HQp Hp Hx) as G.
    rewrite E_apply, E_iter, E_value.
    assert (Hnc : N.eqb b B_COMPOSE = false) by (destruct Hb as [-> | ->]; reflexivity).
    destruct (rs (iter_go u rfuel o (pre ++ x :: post))) as [vs|c' e']; cbn [bindr wrapr].
    - rewrite call_value_VF, Hnc. cbn [app]. rewrite rs_call_fun.
      assert (Hcore : forall t, wrapr (bindr (rs (force_elems unit (VT T_ITER vs))) (fun els => Ok (VT t els))) = Err c true).
      { intros t. rewrite rs_force_elems. change (elements_of (VT T_ITER vs)) with (Some vs). cbv beta iota. now rewrite G. }
      destruct Hb as [-> | ->]; cbn; apply Hcore.
    - now subst c'.
  Qed.

  (** *** the constructors *)
  Lemma Forall_ag {A} (g : A -> expr) l : Forall (fun a => caQ (g a)) l -> Forall (fun a => agQ (g a)) l.
  Proof. intros H. eapply Forall_impl; [|exact H]. now intros a [Ha _]. Qed.
  Lemma Popt_ag d : Popt caQ d -> Popt agQ d.
  Proof. destruct d; cbn; [now intros [H _]|auto]. Qed.

  Lemma ca_value v : vclean v = true -> caQ (EValue v).
  Proof.
    intros Hc. split; [now apply ag_value|]. intros o _. split; intros c ee H.
    - rewrite V_value in H. discriminate.
    - rewrite K_value in H. discriminate.
  Qed.

  Lemma ca_option k dflt dom :
    Popt caQ dflt ->
    match dflt, dom with
    | None, Some de => exists d, de = EValue d /\ vclean d = true /\ domval d = true
    | Some _, Some _ => False
    | _, None => True
    end -> caQ (EOption k dflt dom).
  Proof.
    intros Hd Hdom. split; [apply (ag_option u rfuel Htot Hclean); [apply Popt_ag, Hd|exact Hdom]|].
    intros o Hsc. pose proof Hsc as [Hwf [Hres Hnp]]. unfold VE, KE.
    rewrite rs_va_option, rs_ev_option, rs_option_eval, K_option.
    destruct (lookup k (JObj o)) as [raw| |] eqn:El.
    - destruct (Hres k raw El) as [j Hj]. rewrite Hj. cbn [of_rres]. rewrite rs_ret. cbn [bindr]. split.
      + intros c ee H. apply bindr_err in H as [H|[v [_ H]]]; [|discriminate].
        destruct (wrapr (dom_check u rfuel dom o (VJ j))) as [v|c1 ee1] eqn:Ew; [discriminate|].
        destruct (dom_check u rfuel dom o (VJ j)) as [v|c2 ee2]; [discriminate|]. cbn in Ew. inversion Ew; subst. now inversion H.
      + intros c ee H. exfalso. destruct raw; try discriminate H.
        destruct (resolved_keys_ok o Hnp rfuel s j Hj) as [Hp [L HL]]. rewrite Hp, HL in H. discriminate H.
    - destruct dflt as [d|].
      + destruct dom; [destruct Hdom|]. destruct (pe_of d o Hd Hsc) as [Ad [Vd Kd]].
        assert (Ew : wrapr (bindr (E d o) (dom_check u rfuel None o)) = E d o).
        { cbn [dom_check]. destruct (E d o) as [v|c ee] eqn:Ed; [reflexivity|]. cbn. f_equal. now apply ev_err_ee in Ed. }
        rewrite Ew. split; [exact Vd|exact Kd].
      + split; intros c ee H; inversion H; subst; [reflexivity|left; split; reflexivity].
    - split; intros c ee H; inversion H; subst; [reflexivity|left; split; reflexivity].
  Qed.

  Lemma ca_apply src fn : caQ src -> caQ fn -> fnexprb fn = true -> caQ (EApply src fn).
  Proof.
    intros Cs Cf Hty. split; [apply (ag_apply u rfuel Htot Hclean); [apply Cs|apply Cf|exact Hty]|].
    intros o Hsc. destruct (pe_of src o Cs Hsc) as [As [Vs Ks]]. destruct (pe_of fn o Cf Hsc) as [Af [Vf Kf]].
    unfold VE, KE. rewrite V_apply, E_apply, K_apply. split.
    - intros c ee H. apply bindr_err in H as [H|[[] [Hv H]]].
      + rewrite (Vs c ee H). reflexivity.
      + destruct (E src o) as [x|c1 ee1] eqn:Ex; [|destruct As as [Aa _]; rewrite Hv, Ex in Aa; discriminate Aa].
        cbn [bindr]. rewrite (Vf c ee H). reflexivity.
    - intros c ee H. unfold app2 in H. apply bindr_err in H as [H|[a [Ha H]]].
      + destruct (Ks c ee H) as [[HE HV]|[ee' HD]]; [left; rewrite HE, HV; split; reflexivity|right; exists true; now rewrite HD].
      + apply bindr_err in H as [H|[b [_ H]]]; [|discriminate].
        destruct (E src o) as [x|c1 ee1] eqn:Ex.
        * rewrite (ag_V_ok u rfuel src o x As Ex). cbn [bindr].
          destruct (Kf c ee H) as [[HE HV]|[ee' HD]]; [left; rewrite HE, HV; split; reflexivity|right; exists true; now rewrite HD].
        * right. pose proof (ag_dom src o a c1 ee1 As Ha Ex). subst c1. exists true. reflexivity.
  Qed.

  Lemma ca_forced es b : b = B_LIST \/ b = B_TUPLE -> Forall caQ es -> caQ (EApply (EIter es) (EValue (VF b [] []))).
  Proof.
    intros Hb HQ. pose proof (Forall_ag (fun x => x) es HQ) as HA. split; [now apply ag_forced|].
    pose proof (Forall_proj1 _ _ _ HA) as HC.
    intros o Hsc. rewrite Forall_forall in HQ. assert (Hpe : forall x, In x es -> PE x o) by (intros x Hx; apply (pe_of x o (HQ x Hx) Hsc)).
    unfold VE, KE. rewrite V_apply, V_iter, V_value, K_apply, K_iter, K_value. split.
    - intros c ee H. apply bindr_err in H as [H|[[] [_ H]]]; [|discriminate].
      apply (forced_of_mapr_err es b o c true Hb HC (list_VE o es Hpe c ee H)).
    - intros c ee H. unfold app2 in H. apply bindr_err in H as [H|[a [_ H]]]; [|discriminate].
      destruct (list_KE o es Hpe c ee H) as [[HE HV]|[ee' HD]].
      + left. split; [apply (forced_of_mapr_err es b o c true Hb HC HE)|now rewrite HV].
      + right. exists true. apply (forced_of_mapr_err es b o CDomain ee' Hb HC HD).
  Qed.

  (** branches: the same branch in the three methods *)
  Lemma ca_branch (tbl : list (value * expr)) dflt o x c0 ee0 :
    (forall b, (exists w, In (w, b) tbl) \/ dflt = Some b -> PE b o) ->
    (forall c ee, pickr x tbl (fun b => V b o) (dfltr dflt (fun b => V b o) c0 ee0) = Err c ee ->
       wrapr (pickr x tbl (fun b => E b o) (dfltr dflt (fun b => E b o) c0 ee0)) = Err c true) /\
    (forall c ee, pickr x tbl (fun b => K b o) (dfltr dflt (fun b => K b o) c0 ee0) = Err c ee ->
       (wrapr (pickr x tbl (fun b => E b o) (dfltr dflt (fun b => E b o) c0 ee0)) = Err c true /\
        pickr x tbl (fun b => V b o) (dfltr dflt (fun b => V b o) c0 ee0) = Err c ee) \/
       domf (wrapr (pickr x tbl (fun b => E b o) (dfltr dflt (fun b => E b o) c0 ee0)))).
  Proof.
    intros H. unfold pickr.
    assert (G : forall b, PE b o ->
              (forall c ee, V b o = Err c ee -> wrapr (E b o) = Err c true) /\
              (forall c ee, K b o = Err c ee -> (wrapr (E b o) = Err c true /\ V b o = Err c ee) \/ domf (wrapr (E b o)))).
    { intros b [_ [Vb Kb]]. split.
      - intros c ee Hv. now rewrite (Vb c ee Hv).
      - intros c ee Hk. destruct (Kb c ee Hk) as [[HE HV]|[ee' HD]]; [left; now rewrite HE|right; exists true; now rewrite HD]. }
    destruct (assoc_v x tbl) as [b|] eqn:Ea.
    - destruct (assoc_v_In _ _ _ Ea) as [w Hw]. apply G, H. left. now exists w.
    - destruct dflt as [d|]; cbn [dfltr]; [apply G, H; now right|].
      split; intros c ee Hx; inversion Hx; subst; [reflexivity|left; split; reflexivity].
  Qed.

  Lemma ca_sub (tbl : list (value * expr)) dflt :
    Forall (fun ve => caQ (snd ve)) tbl -> Popt caQ dflt ->
    forall o, SC o -> forall b, (exists w, In (w, b) tbl) \/ dflt = Some b -> PE b o.
  Proof.
    intros Ht Hd o Hsc b [[w Hw]| ->]; [apply (pe_of b o (Forall_snd_In caQ tbl w b Ht Hw) Hsc)|apply (pe_of b o Hd Hsc)].
  Qed.

  Lemma ca_bind src tbl dflt :
    caQ src -> Forall (fun ve => caQ (snd ve)) tbl -> Popt caQ dflt -> caQ (EBind src tbl dflt).
  Proof.
    intros Cs Ht Hd. split; [apply ag_bind; [apply Cs|apply (Forall_ag (fun ve : value * expr => snd ve)), Ht|apply Popt_ag, Hd]|].
    intros o Hsc. destruct (pe_of src o Cs Hsc) as [As [Vs Ks]].
    unfold VE, KE. rewrite V_bind, E_bind, K_bind. unfold bind_body. split.
    - intros c ee H. apply bindr_err in H as [H|[[] [Hv H]]]; [rewrite (Vs c ee H); reflexivity|].
      destruct (E src o) as [x|c1 ee1] eqn:Ex; cbn [bindr] in *; [|inversion H; subst; reflexivity].
      apply (proj1 (ca_branch tbl dflt o x (CUser 0) false (ca_sub tbl dflt Ht Hd o Hsc)) c ee H).
    - intros c ee H. apply bindr_err in H as [H|[a [Ha H]]].
      + destruct (Ks c ee H) as [[HE HV]|[ee' HD]]; [left; rewrite HE, HV; split; reflexivity|right; exists true; now rewrite HD].
      + destruct (E src o) as [x|c1 ee1] eqn:Ex; cbn [bindr] in *.
        * rewrite (ag_V_ok u rfuel src o x As Ex). cbn [bindr].
          apply bindr_err in H as [H|[b [_ H]]]; [|discriminate].
          apply (proj2 (ca_branch tbl dflt o x (CUser 0) false (ca_sub tbl dflt Ht Hd o Hsc)) c ee H).
        * right. pose proof (ag_dom src o a c1 ee1 As Ha Ex). subst c1. exists true. reflexivity.
  Qed.

  Lemma dispr_err_true e o hd c ee : dispr (E e o) hd = Err c ee -> ee = true.
  Proof. intros H. pose proof (eeerr_dispr u rfuel e o hd) as G. rewrite H in G. destruct ee; [reflexivity|destruct G]. Qed.

  Lemma ca_switch disp tbl dflt :
    caQ disp -> Forall (fun ve => caQ (snd ve)) tbl -> Popt caQ dflt -> caQ (ESwitch disp tbl dflt).
  Proof.
    intros Cd Ht Hd. split; [apply ag_switch; [apply Cd|apply (Forall_ag (fun ve : value * expr => snd ve)), Ht|apply Popt_ag, Hd]|].
    intros o Hsc. destruct (pe_of disp o Cd Hsc) as [Ad _].
    unfold VE, KE. rewrite V_switch, E_switch, K_switch.
    destruct (dispr (E disp o) (is_some dflt)) as [dv|c1 ee1] eqn:Edv; cbn [bindr].
    - destruct dv as [k|]; cbn [switch_sel switch_keys].
      + destruct (negb (hashable k)).
        { split; intros c ee H; inversion H; subst; [reflexivity|left; split; reflexivity]. }
        apply dispr_some in Edv. destruct (ag_K_ok u rfuel disp o k Ad Edv) as [Ld HLd]. rewrite HLd.
        destruct (ca_branch tbl dflt o k CSwitch true (ca_sub tbl dflt Ht Hd o Hsc)) as [Bv Bk]. split; [exact Bv|].
        intros c ee H. unfold app2 in H. apply bindr_err in H as [H|[a [_ H]]]; [apply (Bk c ee H)|discriminate].
      + destruct dflt as [d|]; cbn [dfltr].
        * destruct (pe_of d o Hd Hsc) as [_ [Vd Kd]]. split.
          -- intros c ee H. now rewrite (Vd c ee H).
          -- intros c ee H. destruct (Kd c ee H) as [[HE HV]|[ee' HD]]; [left; now rewrite HE|right; exists true; now rewrite HD].
        * split; intros c ee H; inversion H; subst; [reflexivity|left; split; reflexivity].
    - pose proof (dispr_err_true disp o _ c1 ee1 Edv). subst ee1.
      split; intros c ee H; inversion H; subst; [reflexivity|left; split; reflexivity].
  Qed.

  Lemma ca_case disp cases dflt :
    caQ disp -> Forall (fun cr => caQ (fst cr) /\ caQ (snd cr)) cases -> Popt caQ dflt -> caQ (ECase disp cases dflt).
  Proof.
    intros Cd Hc Hd. split.
    { apply ag_case; [apply Cd| |apply Popt_ag, Hd]. eapply Forall_impl; [|exact Hc]. intros a [[H1 _] [H2 _]]. now split. }
    intros o Hsc. destruct (pe_of disp o Cd Hsc) as [Ad [Vd Kd]]. rewrite Forall_forall in Hc.
    unfold VE, KE. rewrite V_case, E_case, K_case. unfold case_body.
    assert (Hres : forall x s, case_sel u rfuel x o cases = Ok s ->
              (forall c ee, case_res s dflt (fun b => V b o) = Err c ee -> wrapr (case_res s dflt (fun b => E b o)) = Err c true) /\
              (forall c ee, case_res s dflt (fun b => K b o) = Err c ee ->
                 (wrapr (case_res s dflt (fun b => E b o)) = Err c true /\ case_res s dflt (fun b => V b o) = Err c ee) \/
                 domf (wrapr (case_res s dflt (fun b => E b o))))).
    { intros x s Hs.
      assert (G : forall b, PE b o ->
                (forall c ee, V b o = Err c ee -> wrapr (E b o) = Err c true) /\
                (forall c ee, K b o = Err c ee -> (wrapr (E b o) = Err c true /\ V b o = Err c ee) \/ domf (wrapr (E b o)))).
      { intros b [_ [Vb Kb]]. split.
        - intros c ee Hv. now rewrite (Vb c ee Hv).
        - intros c ee Hk. destruct (Kb c ee Hk) as [[HE HV]|[ee' HD]]; [left; now rewrite HE|right; exists true; now rewrite HD]. }
      destruct s as [r|]; cbn [case_res].
      - destruct (case_sel_In _ _ _ _ _ _ Hs) as [c0 Hin]. apply G, (pe_of r o (proj2 (Hc (c0, r) Hin)) Hsc).
      - destruct dflt as [d|]; cbn [dfltr]; [apply G, (pe_of d o Hd Hsc)|].
        split; intros c ee Hx; inversion Hx; subst; [reflexivity|left; split; reflexivity]. }
    split.
    - intros c ee H. apply bindr_err in H as [H|[[] [Hv H]]]; [rewrite (Vd c ee H); reflexivity|].
      destruct (E disp o) as [x|c1 ee1] eqn:Ex; cbn [bindr] in *; [|inversion H; subst; reflexivity].
      destruct (case_sel u rfuel x o cases) as [s|c2 ee2] eqn:Es; cbn [bindr] in *; [|inversion H; subst; reflexivity].
      apply (proj1 (Hres x s Es) c ee H).
    - intros c ee H. apply bindr_err in H as [H|[a [Ha H]]].
      + destruct (Kd c ee H) as [[HE HV]|[ee' HD]]; [left; rewrite HE, HV; split; reflexivity|right; exists true; now rewrite HD].
      + destruct (E disp o) as [x|c1 ee1] eqn:Ex; cbn [bindr] in *.
        * rewrite (ag_V_ok u rfuel disp o x Ad Ex). cbn [bindr].
          destruct (case_sel u rfuel x o cases) as [s|c2 ee2] eqn:Es; cbn [bindr] in *.
          -- apply bindr_err in H as [H|[b [_ H]]]; [|discriminate]. apply (proj2 (Hres x s Es) c ee H).
          -- inversion H; subst. left. split; reflexivity.
        * right. pose proof (ag_dom disp o a c1 ee1 Ad Ha Ex). subst c1. exists true. reflexivity.
  Qed.

  Lemma ca_coal o ms : (forall m, In m ms -> AG m o) -> forall last c ee,
    (coalr (fun m => V m o) (fun m => V m o) ms last = Err c ee -> coalr (fun m => V m o) (fun m => E m o) ms last = Err c ee) /\
    (coalr (fun m => V m o) (fun m => K m o) ms last = Err c ee ->
       coalr (fun m => V m o) (fun m => E m o) ms last = Err c ee /\ coalr (fun m => V m o) (fun m => V m o) ms last = Err c ee).
  Proof.
    induction ms as [|m ms IH]; intros H last c ee.
    - destruct last as [[c0 ee0]|]; cbn [coalr]; split; intros Hx; inversion Hx; subst; try split; reflexivity.
    - cbn [coalr]. pose proof (H m (or_introl eq_refl)) as Am.
      destruct (V m o) as [[]|c1 ee1] eqn:Ev; cbn [bindr].
      + destruct Am as [Aa [Ab _]]. rewrite Ev in Aa. destruct (E m o) as [v|] eqn:Ee; [|discriminate Aa].
        destruct (fails_cases _ (K m o)) as [[L HL]|Hk]; [|apply Ab in Hk; discriminate Hk]. rewrite HL.
        cbn [catchr]. split; intros Hx; discriminate Hx.
      + cbn [catchr]. destruct (unmodb c1); [split; intros Hx; inversion Hx; subst; try split; reflexivity|].
        destruct ee1; [|split; intros Hx; inversion Hx; subst; try split; reflexivity].
        apply (IH (fun m' Hm' => H m' (or_intror Hm'))).
  Qed.

  Lemma ca_coalesce ms : Forall caQ ms -> caQ (ECoalesce ms).
  Proof.
    intros HQ. split; [apply ag_coalesce, (Forall_ag (fun x => x)), HQ|].
    intros o Hsc. rewrite Forall_forall in HQ.
    assert (Ha : forall m, In m ms -> AG m o) by (intros m Hm; apply (pe_of m o (HQ m Hm) Hsc)).
    unfold VE, KE. rewrite V_coalesce, E_coalesce, K_coalesce. split.
    - intros c ee H. now rewrite (proj1 (ca_coal o ms Ha None c ee) H).
    - intros c ee H. destruct (proj2 (ca_coal o ms Ha None c ee) H) as [HE HV]. left. now rewrite HE.
  Qed.

  Lemma ca_with f e : caQ e -> caQ (EWith f [] e).
  Proof.
    intros Ce. split; [apply ag_with, Ce|]. intros o Hsc. pose proof Hsc as [Hwf _]. destruct (pe_of e o Ce Hsc) as [_ [Ve Ke]].
    unfold VE, KE. rewrite V_with, rs_ev_with, K_with, filtr_nil, (with_opts_nil f o Hwf). split; [exact Ve|exact Ke].
  Qed.
  Lemma ca_cached c e : caQ e -> caQ (ECached c e).
  Proof.
    intros Ce. split; [apply ag_cached, Ce|]. intros o Hsc. destruct (pe_of e o Ce Hsc) as [_ [Ve Ke]].
    unfold VE, KE. rewrite V_cached, rs_ev_cached, K_cached. split; [exact Ve|exact Ke].
  Qed.
  Lemma ca_logged e : caQ e -> caQ (ELogged e).
  Proof.
    intros Ce. split; [apply ag_logged, Ce|]. intros o Hsc. destruct (pe_of e o Ce Hsc) as [_ [Ve Ke]].
    unfold VE, KE. rewrite V_logged, rs_ev_logged, K_logged. split; [exact Ve|exact Ke].
  Qed.
  Lemma ca_comp e : caQ e -> caQ (EComp e []).
  Proof.
    intros Ce. split; [apply ag_comp, Ce|]. intros o Hsc. destruct (pe_of e o Ce Hsc) as [_ [Ve Ke]].
    unfold VE, KE. rewrite V_comp, E_comp, K_comp.
    assert (Ev : bindr (V e o) (fun _ => if effects_opt_off o then Ok tt else iterr (fun x => V x o) []) = V e o).
    { destruct (V e o) as [[]|]; [|reflexivity]. cbn [bindr]. destruct (effects_opt_off o); reflexivity. }
    assert (Ee : wrapr (bindr (E e o) (fun v => bindr (if effects_opt_off o then Ok tt else iterr (effr u rfuel o v) []) (fun _ => Ok v))) = E e o).
    { destruct (E e o) as [v|c ee] eqn:Ed; cbn [bindr]; [destruct (effects_opt_off o); reflexivity|]. cbn. f_equal. now apply ev_err_ee in Ed. }
    rewrite Ev, Ee. split; [exact Ve|exact Ke].
  Qed.

  Lemma ca_call pa f args kwargs :
    caQ f -> Forall caQ args -> Forall caQ kwargs -> basefn f = true -> caQ (ECall pa f args kwargs).
  Proof.
    intros Cf Ha Hk Hb. split.
    { apply (ag_call u rfuel Htot Hclean); [apply Cf|apply (Forall_ag (fun x => x)), Ha|apply (Forall_ag (fun x => x)), Hk|exact Hb]. }
    destruct f as [fvv| | | | | | | | | | | | | | | | ]; try discriminate Hb. destruct fvv as [|?|fid pre post| |]; try discriminate Hb.
    intros o Hsc. rewrite Forall_forall in Ha, Hk.
    assert (Pa : forall x, In x args -> PE x o) by (intros x Hx; apply (pe_of x o (Ha x Hx) Hsc)).
    assert (Pk : forall x, In x kwargs -> PE x o) by (intros x Hx; apply (pe_of x o (Hk x Hx) Hsc)).
    unfold VE, KE. rewrite V_call, E_call, K_call, call_body_app2. rewrite V_value, E_value, K_value. cbn [bindr]. split.
    - intros c ee H. apply bindr_err in H as [H|[[] [Hv H]]].
      + now rewrite (list_VE o args Pa c ee H).
      + destruct (mapr (fun x => E x o) args) as [av|c1 ee1] eqn:Eav.
        * cbn [bindr]. now rewrite (list_VE o kwargs Pk c ee H).
        * exfalso. pose proof (okb_iterr_mapr (fun x => V x o) (fun x => E x o) args (fun x Hx => proj1 (proj1 (Pa x Hx)))) as Hok.
          rewrite Hv, Eav in Hok. discriminate Hok.
    - intros c ee H. unfold app2 in H. cbn [bindr] in H. apply bindr_err in H as [H|[b [_ H]]]; [|discriminate].
      apply bindr_err in H as [H|[La [HLa H]]].
      + destruct (list_KE o args Pa c ee H) as [[HE HV]|[ee' HD]]; [left; rewrite HE, HV; split; reflexivity|right; exists true; now rewrite HD].
      + apply bindr_err in H as [H|[Lk [_ H]]]; [|discriminate].
        destruct (list_K_ok_E o args La Pa HLa) as [[av [HE HV]]|[ee' HD]]; [|right; exists true; now rewrite HD].
        rewrite HE, HV. cbn [bindr].
        destruct (list_KE o kwargs Pk c ee H) as [[HE2 HV2]|[ee' HD]]; [left; rewrite HE2, HV2; split; reflexivity|right; exists true; now rewrite HD].
  Qed.

  Lemma ca_pipe steps : Forall caQ steps -> caQ (EPipe steps).
  Proof.
    intros HQ. split; [apply ag_pipe, (Forall_ag (fun x => x)), HQ|]. intros o Hsc. rewrite Forall_forall in HQ.
    assert (Ps : forall x, In x steps -> PE x o) by (intros x Hx; apply (pe_of x o (HQ x Hx) Hsc)).
    unfold VE, KE. rewrite V_pipe, E_pipe, K_pipe. split.
    - intros c ee H. now rewrite (list_VE o steps Ps c ee H).
    - intros c ee H. destruct (list_KE o steps Ps c ee H) as [[HE HV]|[ee' HD]]; [left; rewrite HE, HV; split; reflexivity|right; exists true; now rewrite HD].
  Qed.

  Lemma ca_all : caQ EAllOptions.
  Proof.
    split; [apply ag_all|]. intros o [Hwf [Hres Hnp]]. unfold VE, KE. rewrite V_all, K_all.
    destruct (Hres [] (JObj o) eq_refl) as [j Hj]. unfold allr. rewrite Hj. cbn. split; intros c ee H; discriminate H.
  Qed.

  Theorem cause_main e : fragP pA e = true -> caQ e.
  Proof.
    apply (fragP_ind pA caQ).
    - exact ca_value.
    - intros k dflt dom Hd Hc. apply ca_option; [exact Hd|].
      destruct dflt as [d0|], dom as [de|]; try exact I.
      + destruct Hc as [Hc _]. discriminate Hc.
      + destruct Hc as [_ Hok]. unfold dom_ok in Hok. cbn in Hok. destruct de; try discriminate Hok.
        apply andb_prop in Hok as [H1 H2]. now exists v.
    - intros src fn Hs Hf Hty. now apply ca_apply.
    - intros es b _. apply ca_forced.
    - intros src tbl dflt Hs Ht Hd _. now apply ca_bind.
    - exact ca_switch.
    - intros disp cases dflt Hs Hc Hd _. now apply ca_case.
    - intros ms _. apply ca_coalesce.
    - intros es Hl. discriminate Hl.
    - intros force pr e0 [-> |Hp] He; [now apply ca_with|discriminate Hp].
    - exact ca_cached.
    - intros pa f args kwargs Hf Ha Hk Hty. now apply ca_call.
    - intros s ps Ht. discriminate Ht.
    - intros e0 effs [-> |Hp] He _ _; [now apply ca_comp|discriminate Hp].
    - exact ca_logged.
    - exact ca_pipe.
    - intros _. exact ca_all.
  Qed.
End Cause.

(** ** [agree_at] from C10 *)
Notation evalN u fuel := (eval unit nc_find nc_store cfg_nc u fuel (fun _ _ => true)).

Theorem cause_agreement u fuel e o :
  total_u u -> clean_u u -> fragP pA e = true -> wf_dict o = true -> resolves fuel o -> no_par o = true ->
  (forall c ee, rs (validate unit nc_find nc_store cfg_nc u fuel (fun _ _ => true) e o) = Err c ee ->
     rs (evalN u fuel e o) = Err c true) /\
  (forall c ee, rs (keys unit nc_find nc_store cfg_nc u fuel (fun _ _ => true) e o) = Err c ee ->
     (rs (evalN u fuel e o) = Err c true /\
      rs (validate unit nc_find nc_store cfg_nc u fuel (fun _ _ => true) e o) = Err c ee) \/
     exists ee', rs (evalN u fuel e o) = Err CDomain ee').
Proof.
  intros Ht Hc Hf Hwf Hres Hnp. destruct (cause_main u fuel Ht Hc e Hf) as [_ H].
  apply (H o (conj Hwf (conj Hres Hnp))).
Qed.

Theorem agree_at_of_C10 u fuel b o :
  total_u u -> clean_u u -> fragP pA b = true -> wf_dict o = true -> resolves fuel o -> no_par o = true ->
  (forall ee, rs (evalN u fuel b o) <> Err CDomain ee) ->
  agree_at u fuel b o.
Proof.
  intros Ht Hc Hf Hwf Hres Hnp Hdom. destruct (cause_main u fuel Ht Hc b Hf) as [[_ [Ag _]] H].
  destruct (H o (conj Hwf (conj Hres Hnp))) as [_ Hk]. pose proof (Ag o (conj Hwf (conj Hres Hnp))) as A.
  unfold agree_at. split; [|split].
  - intros c ee HK. destruct (Hk c ee HK) as [[HE _]|[ee' HD]]; [exact HE|destruct (Hdom ee' HD)].
  - intros c ee HK. destruct (Hk c ee HK) as [[_ HV]|[ee' HD]]; [exact HV|destruct (Hdom ee' HD)].
  - intros v HE. apply (ag_V_ok u fuel b o v A HE).
Qed.

(** ** The history theorem of C01 with C10's agreement discharged.
    [scohP P]: the coverage predicate of Proofs/CacheSim.v ([scoh]) with an arbitrary condition [P]
    on the dictionaries that reach a cache site, in place of [okd]. *)
Section History.
  Variable u : N -> list value -> cres.
  Variable fuel : nat.
  Variable sites : N -> option expr.
  Variable esw : bool.

  Fixpoint scohP (P : dict -> Prop) (e : expr) (D : dict -> Prop) {struct e} : Prop :=
    match e with
    | EValue _ => True
    | EOption _ dflt dom =>
        match dflt with Some d => scohP P d D | None => True end /\ match dom with Some d => scohP P d D | None => True end
    | EApply a b => scohP P a D /\ scohP P b D
    | EBind src tbl dflt | ESwitch src tbl dflt =>
        scohP P src D /\
        (fix go (l : list (value * expr)) : Prop :=
           match l with [] => True | (_, x) :: l' => scohP P x D /\ go l' end) tbl /\
        match dflt with Some d => scohP P d D | None => True end
    | ECase disp cases dflt =>
        scohP P disp D /\
        (fix go (l : list (expr * expr)) : Prop :=
           match l with [] => True | (c, r) :: l' => (scohP P c D /\ scohP P r D) /\ go l' end) cases /\
        match dflt with Some d => scohP P d D | None => True end
    | ECoalesce ms | EIter ms | EPipe ms =>
        (fix go (l : list expr) : Prop := match l with [] => True | x :: l' => scohP P x D /\ go l' end) ms
    | EWith force p e => scohP P e (fun o' => exists o, D o /\ o' = with_opts force p o)
    | ELogged e => scohP P e D
    | EComp e effs =>
        scohP P e D /\ (fix go (l : list expr) : Prop := match l with [] => True | x :: l' => scohP P x D /\ go l' end) effs
    | ECached c e =>
        frag e = true /\ (forall o, D o -> P o) /\ scohP P e D /\
        match c with CMem cid => sites cid = Some e | CNone => True end
    | ECall _ f args kwargs =>
        scohP P f D /\
        (fix go (l : list expr) : Prop := match l with [] => True | x :: l' => scohP P x D /\ go l' end) args /\
        (fix go (l : list expr) : Prop := match l with [] => True | x :: l' => scohP P x D /\ go l' end) kwargs
    | ETemplate _ ps =>
        (fix go (l : list (N * expr)) : Prop :=
           match l with [] => True | (_, x) :: l' => scohP P x D /\ go l' end) ps
    | EMap _ _ | EAllOptions => False
    end.

  Section Mono.
    Variable P : dict -> Prop.
    Hypothesis HP : forall o, P o -> okd u fuel sites esw o.

    Lemma go_list l : Forall (fun x => forall D, scohP P x D -> scoh u fuel sites esw x D) l -> forall D,
      (fix go (l : list expr) : Prop := match l with [] => True | x :: l' => scohP P x D /\ go l' end) l ->
      (fix go (l : list expr) : Prop := match l with [] => True | x :: l' => scoh u fuel sites esw x D /\ go l' end) l.
    Proof.
      induction 1 as [|x l Hx _ IH]; intros D H; [exact I|]. destruct H as [H1 H2]. split; [now apply Hx|now apply IH].
    Qed.
    Lemma go_tbl {A} (l : list (A * expr)) : Forall (fun ve => forall D, scohP P (snd ve) D -> scoh u fuel sites esw (snd ve) D) l -> forall D,
      (fix go (l : list (A * expr)) : Prop := match l with [] => True | (_, x) :: l' => scohP P x D /\ go l' end) l ->
      (fix go (l : list (A * expr)) : Prop := match l with [] => True | (_, x) :: l' => scoh u fuel sites esw x D /\ go l' end) l.
    Proof.
      induction 1 as [|[v x] l Hx _ IH]; intros D H; [exact I|]. destruct H as [H1 H2]. split; [now apply Hx|now apply IH].
    Qed.
    Lemma go_cases (l : list (expr * expr)) :
      Forall (fun cr => (forall D, scohP P (fst cr) D -> scoh u fuel sites esw (fst cr) D) /\
                        (forall D, scohP P (snd cr) D -> scoh u fuel sites esw (snd cr) D)) l -> forall D,
      (fix go (l : list (expr * expr)) : Prop := match l with [] => True | (c, r) :: l' => (scohP P c D /\ scohP P r D) /\ go l' end) l ->
      (fix go (l : list (expr * expr)) : Prop :=
         match l with [] => True | (c, r) :: l' => (scoh u fuel sites esw c D /\ scoh u fuel sites esw r D) /\ go l' end) l.
    Proof.
      induction 1 as [|[c r] l [Hc Hr] _ IH]; intros D H; [exact I|]. destruct H as [[H1 H2] H3].
      split; [split; [now apply Hc|now apply Hr]|now apply IH].
    Qed.
    Lemma opt_mono d : Popt (fun x => forall D, scohP P x D -> scoh u fuel sites esw x D) d -> forall D,
      match d with Some x => scohP P x D | None => True end -> match d with Some x => scoh u fuel sites esw x D | None => True end.
    Proof. destruct d; cbn; auto. Qed.

    Lemma scohP_scoh e : forall D, scohP P e D -> scoh u fuel sites esw e D.
    Proof.
      induction e using expr_ind'; intros D HS; cbn [scohP scoh] in HS |- *.
      - exact I.
      - destruct HS as [H1 H2]. split; [now apply (opt_mono dflt)|now apply (opt_mono dom)].
      - destruct HS as [H1 H2]. split; auto.
      - destruct HS as [H1 [H2 H3]]. split; [auto|]. split; [now apply go_tbl|now apply (opt_mono dflt)].
      - destruct HS as [H1 [H2 H3]]. split; [auto|]. split; [now apply go_tbl|now apply (opt_mono dflt)].
      - destruct HS as [H1 [H2 H3]]. split; [auto|]. split; [now apply go_cases|now apply (opt_mono dflt)].
      - now apply go_list.
      - now apply go_list.
      - destruct HS.
      - now apply IHe.
      - destruct HS as [H1 [H2 [H3 H4]]]. split; [exact H1|]. split; [intros o Ho; apply HP, H2, Ho|]. split; [now apply IHe|exact H4].
      - destruct HS as [H1 [H2 H3]]. split; [auto|]. split; now apply go_list.
      - now apply go_tbl.
      - destruct HS as [H1 H2]. split; [auto|now apply go_list].
      - now apply IHe.
      - now apply go_list.
      - destruct HS.
    Qed.
  End Mono.

  (** what a dictionary reaching a cache site must satisfy, with C10's agreement proved instead of
      assumed: the cached expressions are in C10's fragment [pA], every option value resolves, and
      no cached expression fails for a value outside its declared domain — plus what [okd] asks
      besides the agreement (clean, no stored generator, stable effects switch) *)
  Definition okd10 (o : dict) : Prop :=
    wf_dict o = true /\ no_par o = true /\ effects_opt_off o = esw /\ resolves fuel o /\
    forall c b, sites c = Some b ->
      fragP pA b = true /\ clean_at u fuel b o = true /\
      (forall ee, rs (evalN u fuel b o) <> Err CDomain ee) /\
      (forall v, rs (evalN u fuel b o) = Ok v -> has_lazy v = false) /\ esw_stable u fuel b o.

  Hypothesis Htot : total_u u.
  Hypothesis Hclean : clean_u u.

  Lemma okd10_okd o : okd10 o -> okd u fuel sites esw o.
  Proof.
    intros [Hwf [Hnp [He [Hres Hs]]]]. split; [exact Hwf|]. split; [exact Hnp|]. split; [exact He|].
    intros c b Hc. destruct (Hs c b Hc) as [Hf [Hcl [Hd [Hl Hst]]]].
    split; [exact Hcl|]. split; [apply (agree_at_of_C10 u fuel b o Htot Hclean Hf Hwf Hres Hnp Hd)|]. split; [exact Hl|exact Hst].
  Qed.

  Definition hist_ok10 (h : list hop) : Prop :=
    forall p, In p h -> scohP okd10 (hop_expr p) (eq (hop_opts p)).

  Lemma hist_ok10_hist_ok h : hist_ok10 h -> hist_ok u fuel sites esw h.
  Proof. intros H p Hp. apply (scohP_scoh okd10 okd10_okd), H, Hp. Qed.

  (** C01's history theorem without the agreement hypothesis *)
  Theorem history_transparent_C10 cfg site_ok h :
    hist_ok10 h -> run_hist u fuel cfg site_ok h [] = map (ref_op u fuel) h.
  Proof. intros H. apply (history_transparent_from_empty u fuel cfg site_ok sites esw h), hist_ok10_hist_ok, H. Qed.

  (** C10 on the long-lived cached graph (warm caches): after ANY covered history, asking validate,
      keys and evaluate of a [pA] expression on the cached graph gives answers that agree as on the
      cache-free graph *)
  Theorem warm_agreement cfg site_ok h s e o :
    Sound u fuel sites esw s ->
    hist_ok u fuel sites esw (h ++ [HValidate e o; HKeys e o; HEval e o]) ->
    fragP pA e = true -> wf_dict o = true -> resolves fuel o -> no_par o = true ->
    exists rv rk re,
      run_hist u fuel cfg site_ok (h ++ [HValidate e o; HKeys e o; HEval e o]) s =
        map (ref_op u fuel) h ++ [OValidate rv; OKeys rk; OEval re] /\
      okb rv = okb re /\ (okb rk = false -> okb re = false) /\
      (forall c ee, re = Err c ee -> c <> CDomain -> okb rk = false) /\
      ((forall ee, re <> Err CDomain ee) -> okb rk = okb re).
  Proof.
    intros Hs Hh Hf Hwf Hres Hnp.
    exists (rs (validate unit nc_find nc_store cfg_nc u fuel (fun _ _ => true) e o)),
           (rs (keys unit nc_find nc_store cfg_nc u fuel (fun _ _ => true) e o)),
           (rs (evalN u fuel e o)).
    split.
    - rewrite (history_transparent u fuel cfg site_ok sites esw _ s Hs Hh), map_app. reflexivity.
    - destruct (agree_main u fuel Htot Hclean e Hf) as [_ [Ag _]].
      destruct (Ag o (conj Hwf (conj Hres Hnp))) as [Aa [Ab Ac]]. split; [exact Aa|]. split; [exact Ab|]. split; [exact Ac|].
      intros Hd. destruct (rs (evalN u fuel e o)) as [v|c ee] eqn:Ee.
      + destruct (okb (rs (keys unit nc_find nc_store cfg_nc u fuel (fun _ _ => true) e o))) eqn:Ek; [reflexivity|].
        specialize (Ab Ek). discriminate Ab.
      + apply (Ac c ee eq_refl). intros ->. apply (Hd ee eq_refl).
  Qed.
End History.

(** ** witnesses and a non-trivial instance *)
(** the premise on domains is needed: f(Option('A', domain=[1, 2]), Option('B')) on {'A': 5} — keys
    fails for the missing B, evaluate fails earlier, on A's value outside its domain *)
Definition dom_expr : expr :=
  body 100 [EOption kA None (Some (EValue (VJ (JList [JInt 1; JInt 2])))); EOption kB None None].
Definition o_A5 : dict := [(SName 10, JInt 5)].
Lemma same_cause_needs_domains :
  fragP pA dom_expr = true /\
  rs (keys unit nc_find nc_store cfg_nc u_total 40 (fun _ _ => true) dom_expr o_A5) = Err (CKey kB) true /\
  rs (evalN u_total 40 dom_expr o_A5) = Err CDomain true.
Proof. split; [reflexivity|]. split; reflexivity. Qed.

(** a cached switch(Option('A', 2), {1: Option('B'), 2: f(Option('Q'))}) asked along a history *)
Definition site50 (c : N) : option expr := if N.eqb c 50 then Some sw_expr else None.
Definition cached_sw : expr := ECached (CMem 50) sw_expr.
Definition hist_demo : list hop :=
  [HValidate cached_sw o_Q1; HEval cached_sw o_Q1; HKeys cached_sw o_Q1; HValidate cached_sw o_Q1; HEval cached_sw o_Q1].

Lemma okd10_demo : okd10 u_total 40 site50 false o_Q1.
Proof.
  split; [reflexivity|]. split; [reflexivity|]. split; [reflexivity|]. split; [apply resolves_o_Q1|].
  intros c b Hc. unfold site50 in Hc. destruct (N.eqb c 50); [|discriminate]. inversion Hc; subst b.
  split; [reflexivity|]. split; [reflexivity|]. split; [intros ee H; discriminate H|].
  split; [intros v H; vm_compute in H; inversion H; reflexivity|].
  intros K H. vm_compute in H. inversion H; subst K. reflexivity.
Qed.

Lemma hist_demo_ok : hist_ok10 u_total 40 site50 false hist_demo.
Proof.
  assert (G : scohP site50 (okd10 u_total 40 site50 false) cached_sw (eq o_Q1)).
  { cbn [scohP cached_sw sw_expr body]. split; [reflexivity|]. split; [intros o <-; apply okd10_demo|].
    split; [|reflexivity]. repeat split. }
  intros p Hp. cbn [hist_demo In] in Hp. destruct Hp as [<-|[<-|[<-|[<-|[<-|[]]]]]]; exact G.
Qed.

Lemma hist_demo_runs :
  run_hist u_total 40 cfg0 (fun _ _ => true) hist_demo [] =
    [OValidate (Ok tt); OEval (Ok (VJ JNull)); OKeys (Ok [kQ]); OValidate (Ok tt); OEval (Ok (VJ JNull))].
Proof. reflexivity. Qed.
