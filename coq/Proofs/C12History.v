(** C12, second sentence at the level of OUTCOMES: "a failed evaluation does not change the
    outcome of any later evaluation, and supplying the missing option afterwards succeeds".
    Corollaries of the history-level transparency theorem of Proofs/CacheSim.v
    ([history_transparent]: on a long-lived graph with the real memo store, started in a store
    all of whose entries are correct ([Sound]), every operation of a history inside [hist_ok]
    answers what the cache-free reference answers, [ref_op]).  Since the reference answer of an
    operation does not mention the other operations, inserting or deleting an operation —
    failing or succeeding — anywhere in the history changes no other answer. *)
From Coq Require Import List NArith ZArith Bool Lia.
Import ListNotations.
From LV Require Import Model.Base Model.Template Model.Eval Model.Derived Model.EvalRun
  Proofs.TraceProofs Proofs.CoveredDefs Proofs.CacheSim Proofs.CoveredProofs.
Close Scope string_scope.
Open Scope list_scope.

Section C12History.
  Variable u : N -> list value -> cres.
  Variable fuel : nat.
  Variable cfg : config.
  Variable site_ok : expr -> dict -> bool.
  Variable sites : N -> option expr.
  Variable esw : bool.

  Notation evalC := (eval store mem_find mem_store cfg u fuel site_ok).
  Notation evalN := (eval unit nc_find nc_store cfg_nc u fuel (fun _ _ => true)).
  Notation run_hist := (run_hist u fuel cfg site_ok).
  Notation ref_op := (ref_op u fuel).
  Notation hist_ok := (hist_ok u fuel sites esw).
  Notation Sound := (Sound u fuel sites esw).

  Lemma hist_ok_app h1 h2 : hist_ok (h1 ++ h2) <-> hist_ok h1 /\ hist_ok h2.
  Proof.
    unfold CacheSim.hist_ok. split.
    - intros H. split; intros p Hp; apply H, in_or_app; [now left|now right].
    - intros [H1 H2] p Hp. apply in_app_or in Hp as [Hp|Hp]; auto.
  Qed.

  (** DELETING (read right to left: INSERTING) one operation [p] — whatever it is, failing or
      succeeding — anywhere in a history: every other operation answers the same, namely what
      the cache-free reference answers *)
  Theorem deleting_an_operation_changes_no_other_outcome h1 p h2 s :
    Sound s -> hist_ok (h1 ++ [p] ++ h2) ->
    run_hist (h1 ++ [p] ++ h2) s = map ref_op h1 ++ [ref_op p] ++ map ref_op h2 /\
    run_hist (h1 ++ h2) s = map ref_op h1 ++ map ref_op h2.
  Proof.
    intros Hs Hh. split.
    - rewrite (history_transparent u fuel cfg site_ok sites esw _ s Hs Hh). now rewrite !map_app.
    - assert (Hh' : hist_ok (h1 ++ h2)).
      { apply hist_ok_app in Hh as [A B]. apply hist_ok_app in B as [_ B]. apply hist_ok_app. now split. }
      rewrite (history_transparent u fuel cfg site_ok sites esw _ s Hs Hh'). now rewrite map_app.
  Qed.

  (** the same, as one equation between the two runs: the observations of the history without
      [p] are the observations of the history with [p], the one of [p] taken out *)
  Corollary deleting_an_operation_deletes_its_observation h1 p h2 s :
    Sound s -> hist_ok (h1 ++ [p] ++ h2) ->
    run_hist (h1 ++ h2) s =
      firstn (length h1) (run_hist (h1 ++ [p] ++ h2) s) ++ skipn (Datatypes.S (length h1)) (run_hist (h1 ++ [p] ++ h2) s).
  Proof.
    intros Hs Hh. destruct (deleting_an_operation_changes_no_other_outcome h1 p h2 s Hs Hh) as [A B].
    rewrite A, B.
    assert (L : length (map ref_op h1) = length h1) by apply map_length.
    rewrite <- L at 1. rewrite firstn_app, Nat.sub_diag, firstn_all. cbn [firstn]. rewrite app_nil_r.
    f_equal.
    replace (Datatypes.S (length h1)) with (length (map ref_op h1 ++ [ref_op p])) by (rewrite app_length, L; cbn; lia).
    rewrite app_assoc, skipn_app, Nat.sub_diag, skipn_all. reflexivity.
  Qed.

  (** A FAILED EVALUATION DOES NOT CHANGE ANY LATER OUTCOME: whatever is asked afterwards is
      answered the same from the store the evaluation left behind as from the store before it
      (whether the evaluation failed or succeeded) *)
  Theorem an_evaluation_changes_no_later_outcome e o h s :
    Sound s -> hist_ok (HEval e o :: h) ->
    run_hist h (stC (evalC e o) s) = run_hist h s.
  Proof.
    intros Hs Hh.
    assert (Hh' : hist_ok h) by (intros q Hq; apply Hh; now right).
    pose proof (history_transparent u fuel cfg site_ok sites esw _ s Hs Hh) as A.
    cbn [CacheSim.run_hist map] in A. injection A as A1 A2.
    rewrite A2. symmetry. exact (history_transparent u fuel cfg site_ok sites esw _ s Hs Hh').
  Qed.

  (** a failing evaluation, spelled out: it failed as the cache-free reference fails (same cause)
      and everything after it is answered as if it had never happened *)
  Corollary a_failed_evaluation_is_forgotten e o h s c ee :
    Sound s -> hist_ok (HEval e o :: h) -> resC (evalC e o) s = Err c ee ->
    resN (evalN e o) = Err c ee /\
    run_hist (HEval e o :: h) s = OEval (Err c ee) :: run_hist h s.
  Proof.
    intros Hs Hh Hf.
    pose proof (an_evaluation_changes_no_later_outcome e o h s Hs Hh) as B.
    pose proof (history_transparent u fuel cfg site_ok sites esw _ s Hs Hh) as A.
    cbn [CacheSim.run_hist map CacheSim.ref_op] in A. injection A as A1 A2.
    split; [now rewrite <- A1|].
    cbn [CacheSim.run_hist]. rewrite Hf, B. reflexivity.
  Qed.

  (** SUPPLYING THE OPTION AFTERWARDS SUCCEEDS: after an evaluation under [o] (in particular a
      failed one: a missing option), and any further operations [h], an evaluation under a
      dictionary [o'] for which the cache-free reference evaluates to [v] returns [v] *)
  Theorem supplying_the_option_afterwards_succeeds e o h o' v s :
    Sound s -> hist_ok (HEval e o :: h ++ [HEval e o']) ->
    resN (evalN e o') = Ok v ->
    run_hist (HEval e o :: h ++ [HEval e o']) s =
      OEval (resN (evalN e o)) :: map ref_op h ++ [OEval (Ok v)].
  Proof.
    intros Hs Hh Hv.
    rewrite (history_transparent u fuel cfg site_ok sites esw _ s Hs Hh).
    cbn [map CacheSim.ref_op]. rewrite map_app. cbn [map CacheSim.ref_op]. now rewrite Hv.
  Qed.

  (** the two evaluations alone, on the stores: the first failed, the second returns [v] *)
  Corollary after_a_failure_the_supplied_option_succeeds e o o' v s c ee :
    Sound s -> hist_ok [HEval e o; HEval e o'] ->
    resC (evalC e o) s = Err c ee -> resN (evalN e o') = Ok v ->
    resC (evalC e o') (stC (evalC e o) s) = Ok v.
  Proof.
    intros Hs Hh _ Hv.
    pose proof (supplying_the_option_afterwards_succeeds e o [] o' v s Hs Hh Hv) as A.
    cbn [app CacheSim.run_hist map] in A. injection A as A1 A2. exact A2.
  Qed.
End C12History.
