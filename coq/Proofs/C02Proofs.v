(** C02 — memoization is effective.  Lemmas about the REAL memo store (Model/EvalRun.v: one
    association list per MemoryCache object) under the cache clause of Model/Eval.v:
      A. the store: find after put, put leaves other fingerprints / other caches alone, entries
         are never removed (and the store frame theorem instantiated with that relation);
      B. the fingerprint of a [kstatic] expression as a function of the dictionary;
      C. the three paths of Cached.evaluate (hit / miss / failure) with their exact logs;
      D. histories: once a fingerprint is stored every later evaluation under it is a hit; the
         number of successful code-running evaluations per fingerprint is at most one;
      E. the fingerprint depends on the dictionary only through the top-level entries the
         keys()-run looks up (so: unrelated keys, top-level order);
      F. effects: after the body, with its value, in order, none on failure / on a hit. *)
From Coq Require Import List NArith ZArith Bool Lia Permutation.
Import ListNotations.
From LV Require Import Model.Base Model.Template Model.Eval Model.Derived Model.EvalRun
  Proofs.BaseProofs Proofs.EvalProofs Proofs.EvalInd Proofs.FrameProofs Proofs.TraceProofs.

(** * A. The memo store *)

Lemma tok_eqb_eq a b : tok_eqb a b = true <-> a = b.
Proof.
  destruct a, b; cbn; split; intros H; try discriminate; try reflexivity.
  - apply N.eqb_eq in H. now subst.
  - inversion H. apply N.eqb_refl.
  - apply key_eqb_eq in H. now subst.
  - inversion H. apply key_eqb_refl.
  - apply N.eqb_eq in H. now subst.
  - inversion H. apply N.eqb_refl.
Qed.

Lemma str_eqb_eq a : forall b, str_eqb a b = true <-> a = b.
Proof.
  induction a as [|x a IH]; destruct b as [|y b]; cbn; split; intros H; try discriminate; try reflexivity.
  - apply andb_prop in H as [H1 H2]. apply tok_eqb_eq in H1. apply IH in H2. now subst.
  - inversion H; subst. apply andb_true_intro. split; [now apply tok_eqb_eq|now apply IH].
Qed.

Lemma json_eqb_eq a : forall b, json_eqb a b = true <-> a = b.
Proof.
  induction a using json_ind'; intros b0; destruct b0; cbn [json_eqb]; split; intros E;
    try discriminate; try reflexivity.
  - apply Bool.eqb_prop in E. now subst.
  - inversion E. apply Bool.eqb_reflx.
  - apply Z.eqb_eq in E. now subst.
  - inversion E. apply Z.eqb_refl.
  - apply N.eqb_eq in E. now subst.
  - inversion E. apply N.eqb_refl.
  - apply str_eqb_eq in E. now subst.
  - inversion E. now apply str_eqb_eq.
  - f_equal. revert l0 E. induction H as [|x l Hx Hl IH]; intros [|y l0] E; try discriminate; [reflexivity|].
    apply andb_prop in E as [E1 E2]. apply Hx in E1. apply IH in E2. now subst.
  - inversion E; subst l0. clear E. induction H as [|x l Hx Hl IH]; [reflexivity|].
    apply andb_true_intro. split; [now apply Hx|exact IH].
  - f_equal. revert m0 E. induction H as [|[k x] m Hx Hm IH]; intros [|[k' y] m0] E; try discriminate; [reflexivity|].
    apply andb_prop in E as [E1 E3]. apply andb_prop in E1 as [E1 E2].
    apply seg_eqb_eq in E1. cbn [snd] in Hx. apply Hx in E2. apply IH in E3. now subst.
  - inversion E; subst m0. clear E. induction H as [|[k x] m Hx Hm IH]; [reflexivity|].
    apply andb_true_intro. split; [apply andb_true_intro; split|exact IH].
    + apply seg_eqb_refl.
    + cbn [snd] in Hx. now apply Hx.
Qed.

Lemma fp_eqb_eq a : forall b, fp_eqb a b = true <-> a = b.
Proof.
  unfold fp_eqb. induction a as [|[k v] a IH]; destruct b as [|[k' v'] b]; split; intros E;
    try discriminate; try reflexivity.
  - apply andb_prop in E as [E1 E3]. apply andb_prop in E1 as [E1 E2].
    apply key_eqb_eq in E1. apply json_eqb_eq in E2. apply IH in E3. now subst.
  - inversion E; subst. apply andb_true_intro. split; [apply andb_true_intro; split|now apply IH].
    + apply key_eqb_refl.
    + now apply json_eqb_eq.
Qed.

Lemma fp_eqb_refl f : fp_eqb f f = true.
Proof. now apply fp_eqb_eq. Qed.

Lemma fp_eqb_false a b : a <> b -> fp_eqb a b = false.
Proof. intros H. destruct (fp_eqb a b) eqn:E; [|reflexivity]. apply fp_eqb_eq in E. contradiction. Qed.

(** find after put *)
Lemma fp_find_put_same f v l : fp_find f (fp_put f v l) = Some v.
Proof.
  induction l as [|[g w] l IH]; cbn [fp_put fp_find].
  - now rewrite fp_eqb_refl.
  - destruct (fp_eqb f g) eqn:E; cbn [fp_find]; [now rewrite fp_eqb_refl|]. now rewrite E.
Qed.

(** put does not disturb other fingerprints *)
Lemma fp_find_put_other f g v l : g <> f -> fp_find g (fp_put f v l) = fp_find g l.
Proof.
  intros Hne. induction l as [|[h w] l IH]; cbn [fp_put fp_find].
  - now rewrite (fp_eqb_false g f Hne).
  - destruct (fp_eqb f h) eqn:E; cbn [fp_find].
    + apply fp_eqb_eq in E. subst h. now rewrite (fp_eqb_false g f Hne).
    + destruct (fp_eqb g h); [reflexivity|exact IH].
Qed.

Lemma st_get_put_same c l s : st_get c (st_put c l s) = l.
Proof.
  induction s as [|[c' l'] s IH]; cbn [st_put st_get].
  - now rewrite N.eqb_refl.
  - destruct (N.eqb c c') eqn:E; cbn [st_get]; [now rewrite N.eqb_refl|]. now rewrite E.
Qed.

Lemma st_get_put_other c c' l s : c <> c' -> st_get c (st_put c' l s) = st_get c s.
Proof.
  intros Hne. induction s as [|[d l'] s IH]; cbn [st_put st_get].
  - destruct (N.eqb c c') eqn:E; [apply N.eqb_eq in E; contradiction|reflexivity].
  - destruct (N.eqb c' d) eqn:E; cbn [st_get].
    + apply N.eqb_eq in E. subst d.
      destruct (N.eqb c c') eqn:E2; [apply N.eqb_eq in E2; contradiction|reflexivity].
    + destruct (N.eqb c d); [reflexivity|exact IH].
Qed.

Lemma mem_find_store_same c f v s : mem_find c f (mem_store c f v s) = Some v.
Proof. unfold mem_find, mem_store. rewrite st_get_put_same. apply fp_find_put_same. Qed.

Lemma mem_find_store_other_fp c f g v s : g <> f -> mem_find c g (mem_store c f v s) = mem_find c g s.
Proof. intros H. unfold mem_find, mem_store. rewrite st_get_put_same. now apply fp_find_put_other. Qed.

Lemma mem_find_store_other_cache c c' f g v s : c <> c' -> mem_find c g (mem_store c' f v s) = mem_find c g s.
Proof. intros H. unfold mem_find, mem_store. now rewrite st_get_put_other. Qed.

(** entries are never removed *)
Definition stored (c : N) (f : fp) (s : store) : Prop := mem_find c f s <> None.
Definition mono (s s' : store) : Prop := forall c f, stored c f s -> stored c f s'.

Lemma mono_refl s : mono s s.
Proof. intros c f H. exact H. Qed.
Lemma mono_trans a b c : mono a b -> mono b c -> mono a c.
Proof. intros H1 H2 d f H. apply H2, H1, H. Qed.
Lemma mono_store c f v s : mono s (mem_store c f v s).
Proof.
  intros d g H. unfold stored in *.
  destruct (N.eq_dec d c) as [->|Hc].
  - destruct (fp_eqb g f) eqn:E.
    + apply fp_eqb_eq in E. subst g. rewrite mem_find_store_same. discriminate.
    + rewrite mem_find_store_other_fp; [exact H|]. intros ->. now rewrite fp_eqb_refl in E.
  - now rewrite mem_find_store_other_cache.
Qed.

(** a cache other than the one written keeps exactly its entries *)
Definition same_cache (c : N) (s s' : store) : Prop := forall f, mem_find c f s' = mem_find c f s.

(** every cache is permitted: the store frame theorem applies to every expression *)
Lemma caches_allowed_all e : caches_allowed (fun _ => true) e = true.
Proof.
  assert (Hopt : forall x, Popt (fun e => caches_allowed (fun _ => true) e = true) x ->
                           optb (caches_allowed (fun _ => true)) x = true)
    by (intros [d|] H; [exact H|reflexivity]).
  assert (Hall : forall l, Forall (fun e => caches_allowed (fun _ => true) e = true) l ->
                           forallb (caches_allowed (fun _ => true)) l = true)
    by (intros l H; apply forallb_forall; now apply Forall_forall).
  assert (Hsnd : forall K (l : list (K * expr)),
             Forall (fun ve => caches_allowed (fun _ => true) (snd ve) = true) l ->
             forallb (fun ve => caches_allowed (fun _ => true) (snd ve)) l = true)
    by (intros K l H; apply forallb_forall; now apply Forall_forall).
  induction e using expr_ind'; cbn [caches_allowed]; try reflexivity;
    repeat (apply andb_true_intro; split); auto.
  - apply forallb_forall. intros [c r] Hcr. rewrite Forall_forall in H.
    destruct (H (c, r) Hcr) as [H1 H2]. cbn [fst snd] in *. now rewrite H1, H2.
  - destruct c; reflexivity.
Qed.

Section Memo.
  Variable cfg : config.
  Variable ucall : N -> list value -> cres.
  Variable rfuel : nat.
  Variable site_ok : expr -> dict -> bool.

  Notation eval := (eval store mem_find mem_store cfg ucall rfuel site_ok).
  Notation validate := (validate store mem_find mem_store cfg ucall rfuel site_ok).
  Notation keys := (keys store mem_find mem_store cfg ucall rfuel site_ok).
  Notation fingerprint := (fingerprint store mem_find mem_store cfg ucall rfuel site_ok).
  Notation cached_on := (cached_on store mem_find mem_store cfg ucall rfuel site_ok).
  Notation miss_path := (miss_path store mem_find mem_store cfg ucall rfuel site_ok).
  Notation store_back := (store_back store mem_find mem_store cfg ucall rfuel site_ok).
  Notation effect_run := (effect_run store mem_find mem_store cfg ucall rfuel site_ok).
  Notation call_value := (call_value store ucall).
  Notation M := (M store).
  Notation bind := (bind store).
  Notation ret := (ret store).
  Notation emit := (emit store).
  Notation after := (after store).
  Notation static := (static store).
  Notation cache_off := (cache_off cfg).

  (** no run of evaluate / validate / keys of any expression removes an entry *)
  Theorem eval_mono e o s r s' l : eval e o s = (r, s', l) -> mono s s'.
  Proof.
    apply (eval_frame store mem_find mem_store cfg ucall rfuel site_ok mono mono_refl mono_trans
             (fun _ => true) (fun c f v s _ => mono_store c f v s) e o s r s' l (caches_allowed_all e)).
  Qed.
  Theorem validate_mono e o s r s' l : validate e o s = (r, s', l) -> mono s s'.
  Proof.
    apply (validate_frame store mem_find mem_store cfg ucall rfuel site_ok mono mono_refl mono_trans
             (fun _ => true) (fun c f v s _ => mono_store c f v s) e o s r s' l (caches_allowed_all e)).
  Qed.
  Theorem keys_mono e o s r s' l : keys e o s = (r, s', l) -> mono s s'.
  Proof.
    apply (keys_frame_store store mem_find mem_store cfg ucall rfuel site_ok mono mono_refl mono_trans
             (fun _ => true) (fun c f v s _ => mono_store c f v s) e o s r s' l (caches_allowed_all e)).
  Qed.

  (** * B. The fingerprint of a [kstatic] expression is a function of the dictionary *)
  Definition fp_res (e : expr) (o : dict) : res fp := fst (fst (fingerprint e o [])).
  Definition fp_log (e : expr) (o : dict) : list event := snd (fingerprint e o []).

  Lemma fingerprint_run e o :
    kstatic e = true ->
    quiet (fp_log e o) = true /\ forall s, fingerprint e o s = (fp_res e o, s, fp_log e o).
  Proof.
    intros Hk.
    destruct (fingerprint_static store mem_find mem_store cfg ucall rfuel site_ok e Hk o) as (r & l & Hq & Hall).
    unfold fp_res, fp_log. rewrite (Hall []). cbn [fst snd]. split; [exact Hq|exact Hall].
  Qed.

  (** * C. The paths of Cached.evaluate *)
  Definition dirty_log (cid : N) (e : expr) (o : dict) : list event :=
    if site_ok e o then [] else [EvDirty cid].
  Definition lazy_log (cid : N) (v : value) : list event :=
    if has_lazy v then [EvLazyStored cid] else [].

  (** the log of a hit: option reads of the two fingerprint computations, exists, get *)
  Definition hit_log (cid : N) (e : expr) (o : dict) : list event :=
    dirty_log cid e o ++ fp_log e o ++ [EvCacheExists cid true] ++ fp_log e o ++ [EvCacheGet cid true].

  Lemma dirty_run cid e o s :
    (if site_ok e o then ret tt else emit (EvDirty cid)) s = (Ok tt, s, dirty_log cid e o).
  Proof. unfold dirty_log. destruct (site_ok e o); reflexivity. Qed.
  Lemma lazy_run cid v s :
    (if has_lazy v then emit (EvLazyStored cid) else ret tt) s = (Ok tt, s, lazy_log cid v).
  Proof. unfold lazy_log. destruct (has_lazy v); reflexivity. Qed.
  Lemma get_store_run s : get_store store s = (Ok s, s, []).
  Proof. reflexivity. Qed.
  Lemma put_store_run f s : put_store store f s = (Ok tt, f s, []).
  Proof. reflexivity. Qed.
  Lemma emit_run ev s : emit ev s = (Ok tt, s, [ev]).
  Proof. reflexivity. Qed.

  Lemma cached_on_hit cid e o s f v :
    kstatic e = true -> fp_res e o = Ok f -> mem_find cid f s = Some v ->
    cached_on cid e o s = (Ok v, s, hit_log cid e o).
  Proof.
    intros Hk Hf Hfind. destruct (fingerprint_run e o Hk) as [_ Hrun]. rewrite Hf in Hrun.
    unfold TraceProofs.cached_on.
    rewrite (bind_okE _ _ _ _ _ _ _ (dirty_run cid e o s)).
    rewrite (bind_okE _ _ _ _ _ _ _ (Hrun s)).
    rewrite (bind_okE _ _ _ _ _ _ _ (get_store_run s)). rewrite Hfind.
    rewrite (bind_okE _ _ _ _ _ _ _ (emit_run _ s)).
    rewrite (bind_okE _ _ _ _ _ _ _ (Hrun s)).
    rewrite (bind_okE _ _ _ _ _ _ _ (get_store_run s)). rewrite Hfind.
    rewrite (bind_okE _ _ _ _ _ _ _ (emit_run _ s)).
    unfold Eval.ret, TraceProofs.after, hit_log. cbn [fst snd app]. rewrite ?app_nil_r. try reflexivity.
  Qed.

  (** the log of a miss that succeeds *)
  Definition miss_log (cid : N) (e : expr) (o : dict) (v : value) (l1 : list event) : list event :=
    dirty_log cid e o ++ fp_log e o ++ [EvCacheExists cid false] ++ l1 ++
    fp_log e o ++ [EvCacheSet cid] ++ lazy_log cid v ++ fp_log e o ++ [EvCacheGet cid true].

  Lemma store_back_run cid e o v s f :
    kstatic e = true -> fp_res e o = Ok f ->
    store_back cid e o v s =
      (Ok v, mem_store cid f (exhaust v) s,
       fp_log e o ++ [EvCacheSet cid] ++ lazy_log cid v ++ fp_log e o ++ [EvCacheGet cid true]).
  Proof.
    intros Hk Hf. destruct (fingerprint_run e o Hk) as [_ Hrun]. rewrite Hf in Hrun.
    unfold TraceProofs.store_back.
    rewrite (bind_okE _ _ _ _ _ _ _ (Hrun s)).
    rewrite (bind_okE _ _ _ _ _ _ _ (put_store_run _ s)).
    rewrite (bind_okE _ _ _ _ _ _ _ (emit_run _ _)).
    rewrite (bind_okE _ _ _ _ _ _ _ (lazy_run cid v _)).
    rewrite (bind_okE _ _ _ _ _ _ _ (Hrun _)).
    rewrite (bind_okE _ _ _ _ _ _ _ (get_store_run _)).
    rewrite mem_find_store_same.
    rewrite (bind_okE _ _ _ _ _ _ _ (emit_run _ _)).
    unfold Eval.ret, TraceProofs.after. cbn [fst snd app]. rewrite ?app_nil_r. try reflexivity.
  Qed.

  Lemma cached_on_miss_ok cid e o s f v s1 l1 :
    kstatic e = true -> fp_res e o = Ok f -> mem_find cid f s = None ->
    eval e o s = (Ok v, s1, l1) ->
    cached_on cid e o s = (Ok v, mem_store cid f (exhaust v) s1, miss_log cid e o v l1).
  Proof.
    intros Hk Hf Hfind He. destruct (fingerprint_run e o Hk) as [_ Hrun]. rewrite Hf in Hrun.
    unfold TraceProofs.cached_on.
    rewrite (bind_okE _ _ _ _ _ _ _ (dirty_run cid e o s)).
    rewrite (bind_okE _ _ _ _ _ _ _ (Hrun s)).
    rewrite (bind_okE _ _ _ _ _ _ _ (get_store_run s)). rewrite Hfind.
    rewrite (bind_okE _ _ _ _ _ _ _ (emit_run _ s)).
    unfold TraceProofs.miss_path. rewrite (bind_okE _ _ _ _ _ _ _ He).
    rewrite (store_back_run cid e o v s1 f Hk Hf).
    unfold TraceProofs.after, miss_log. cbn [fst snd app]. rewrite ?app_nil_r. try reflexivity.
  Qed.

  Lemma cached_on_miss_err cid e o s f c ee s1 l1 :
    kstatic e = true -> fp_res e o = Ok f -> mem_find cid f s = None ->
    eval e o s = (Err c ee, s1, l1) ->
    cached_on cid e o s = (Err c ee, s1, dirty_log cid e o ++ fp_log e o ++ [EvCacheExists cid false] ++ l1).
  Proof.
    intros Hk Hf Hfind He. destruct (fingerprint_run e o Hk) as [_ Hrun]. rewrite Hf in Hrun.
    unfold TraceProofs.cached_on.
    rewrite (bind_okE _ _ _ _ _ _ _ (dirty_run cid e o s)).
    rewrite (bind_okE _ _ _ _ _ _ _ (Hrun s)).
    rewrite (bind_okE _ _ _ _ _ _ _ (get_store_run s)). rewrite Hfind.
    rewrite (bind_okE _ _ _ _ _ _ _ (emit_run _ s)).
    unfold TraceProofs.miss_path. rewrite (bind_errE _ _ _ _ _ _ _ _ He).
    unfold TraceProofs.after. cbn [fst snd app]. rewrite ?app_nil_r. try reflexivity.
  Qed.

  Lemma cached_on_fp_err cid e o s c ee :
    kstatic e = true -> fp_res e o = Err c ee ->
    cached_on cid e o s = (Err c ee, s, dirty_log cid e o ++ fp_log e o).
  Proof.
    intros Hk Hf. destruct (fingerprint_run e o Hk) as [_ Hrun]. rewrite Hf in Hrun.
    unfold TraceProofs.cached_on.
    rewrite (bind_okE _ _ _ _ _ _ _ (dirty_run cid e o s)).
    rewrite (bind_errE _ _ _ _ _ _ _ _ (Hrun s)).
    unfold TraceProofs.after. cbn [fst snd app]. reflexivity.
  Qed.

  (** events that witness that code ran or that something was stored: user code (dataset body,
      effect, step …), a log request / emission, a cache write *)
  Definition no_code (ev : event) : bool :=
    match ev with
    | EvCall _ _ | EvLogReq | EvLogEmit | EvCacheSet _ | EvLazyStored _ => false
    | _ => true
    end.
  Definition code_free (l : list event) : bool := forallb no_code l.

  Lemma code_free_app a b : code_free (a ++ b) = code_free a && code_free b.
  Proof. apply forallb_app. Qed.
  Lemma quiet_code_free l : quiet l = true -> code_free l = true.
  Proof.
    unfold quiet, code_free. intros H. apply forallb_forall. intros ev Hev.
    rewrite forallb_forall in H. specialize (H ev Hev). destruct ev; try discriminate; reflexivity.
  Qed.

  Lemma hit_log_code_free cid e o : kstatic e = true -> code_free (hit_log cid e o) = true.
  Proof.
    intros Hk. destruct (fingerprint_run e o Hk) as [Hq _]. apply quiet_code_free in Hq.
    unfold hit_log, dirty_log. rewrite !code_free_app, Hq. destruct (site_ok e o); reflexivity.
  Qed.

  (** the only events of a hit: option reads, the ghost marker, exists(true), get(true) *)
  Definition hit_event (cid : N) (ev : event) : bool :=
    match ev with
    | EvRead _ _ | EvReadAll => true
    | EvDirty c => N.eqb c cid
    | EvCacheExists c true | EvCacheGet c true => N.eqb c cid
    | _ => false
    end.
  Lemma hit_log_events cid e o : kstatic e = true -> forallb (hit_event cid) (hit_log cid e o) = true.
  Proof.
    intros Hk. destruct (fingerprint_run e o Hk) as [Hq _].
    assert (Hfl : forallb (hit_event cid) (fp_log e o) = true).
    { unfold quiet in Hq. apply forallb_forall. intros ev Hev. rewrite forallb_forall in Hq.
      specialize (Hq ev Hev). destruct ev; try discriminate; reflexivity. }
    unfold hit_log, dirty_log. rewrite !forallb_app, Hfl. cbn. rewrite N.eqb_refl.
    destruct (site_ok e o); cbn; rewrite ?N.eqb_refl; reflexivity.
  Qed.

  Lemma eval_node_E cid e o s :
    cache_off o = false ->
    eval (ECached (CMem cid) e) o s = wrap_out store (cached_on cid e o s).
  Proof. intros Hc. rewrite eval_cached_mem_E, wrap_eval_out, Hc. reflexivity. Qed.

  (** ** (1) a hit returns the stored value, leaves the store alone and runs nothing *)
  Theorem hit_runs_nothing cid e o s f v :
    kstatic e = true -> cache_off o = false ->
    fp_res e o = Ok f -> mem_find cid f s = Some v ->
    eval (ECached (CMem cid) e) o s = (Ok v, s, hit_log cid e o).
  Proof.
    intros Hk Hc Hf Hfind. rewrite (eval_node_E cid e o s Hc).
    now rewrite (cached_on_hit cid e o s f v Hk Hf Hfind).
  Qed.

  (** every successful evaluation of a cached node is a hit or a storing miss *)
  Theorem node_eval_ok cid e o s v s' l :
    kstatic e = true -> cache_off o = false ->
    eval (ECached (CMem cid) e) o s = (Ok v, s', l) ->
    exists f, fp_res e o = Ok f /\
      ((mem_find cid f s = Some v /\ s' = s /\ l = hit_log cid e o) \/
       (mem_find cid f s = None /\
        exists s1 l1, eval e o s = (Ok v, s1, l1) /\
                      s' = mem_store cid f (exhaust v) s1 /\ l = miss_log cid e o v l1)).
  Proof.
    intros Hk Hc H. rewrite (eval_node_E cid e o s Hc) in H.
    destruct (fp_res e o) as [f|c ee] eqn:Hf.
    - exists f. split; [reflexivity|].
      destruct (mem_find cid f s) as [w|] eqn:Hfind.
      + rewrite (cached_on_hit cid e o s f w Hk Hf Hfind) in H. cbn in H. inversion H; subst. left. auto.
      + destruct (eval e o s) as [[[w|c ee] s1] l1] eqn:He.
        * rewrite (cached_on_miss_ok cid e o s f w s1 l1 Hk Hf Hfind He) in H. cbn in H. inversion H; subst.
          right. split; [reflexivity|]. exists s1, l1. auto.
        * rewrite (cached_on_miss_err cid e o s f c ee s1 l1 Hk Hf Hfind He) in H. cbn in H. discriminate.
    - rewrite (cached_on_fp_err cid e o s c ee Hk Hf) in H. cbn in H. discriminate.
  Qed.

  (** a failing evaluation of a cached node stores nothing under its own fingerprint: either
      the fingerprint cannot be computed or the cached expression itself failed *)
  Theorem node_eval_err cid e o s c ee s' l :
    kstatic e = true -> cache_off o = false ->
    eval (ECached (CMem cid) e) o s = (Err c ee, s', l) ->
    (exists ee0, fp_res e o = Err c ee0 /\ s' = s) \/
    (exists f ee0 l1, fp_res e o = Ok f /\ mem_find cid f s = None /\ eval e o s = (Err c ee0, s', l1)).
  Proof.
    intros Hk Hc H. rewrite (eval_node_E cid e o s Hc) in H.
    destruct (fp_res e o) as [f|c0 ee0] eqn:Hf.
    - destruct (mem_find cid f s) as [w|] eqn:Hfind.
      + rewrite (cached_on_hit cid e o s f w Hk Hf Hfind) in H. cbn in H. discriminate.
      + destruct (eval e o s) as [[[w|c1 ee1] s1] l1] eqn:He.
        * rewrite (cached_on_miss_ok cid e o s f w s1 l1 Hk Hf Hfind He) in H. cbn in H. discriminate.
        * rewrite (cached_on_miss_err cid e o s f c1 ee1 s1 l1 Hk Hf Hfind He) in H. cbn in H.
          inversion H; subst. right. exists f, ee1, l1. auto.
    - rewrite (cached_on_fp_err cid e o s c0 ee0 Hk Hf) in H. cbn in H. inversion H; subst.
      left. exists ee0. auto.
  Qed.

  (** after a successful evaluation the store holds the fingerprint *)
  Corollary node_eval_stores cid e o s v s' l :
    kstatic e = true -> cache_off o = false ->
    eval (ECached (CMem cid) e) o s = (Ok v, s', l) ->
    exists f, fp_res e o = Ok f /\ stored cid f s'.
  Proof.
    intros Hk Hc H. destruct (node_eval_ok cid e o s v s' l Hk Hc H) as (f & Hf & [(Hfind & -> & _)|(_ & s1 & l1 & _ & -> & _)]).
    - exists f. split; [exact Hf|]. unfold stored. rewrite Hfind. discriminate.
    - exists f. split; [exact Hf|]. unfold stored. rewrite mem_find_store_same. discriminate.
  Qed.

  (** stored => hit *)
  Theorem stored_then_hit cid e o s f :
    kstatic e = true -> cache_off o = false -> fp_res e o = Ok f -> stored cid f s ->
    exists v, mem_find cid f s = Some v /\
              eval (ECached (CMem cid) e) o s = (Ok v, s, hit_log cid e o).
  Proof.
    intros Hk Hc Hf Hs. unfold stored in Hs. destruct (mem_find cid f s) as [v|] eqn:Hfind; [|contradiction].
    exists v. split; [reflexivity|]. now apply (hit_runs_nothing cid e o s f v).
  Qed.

  (** * D. Histories *)
  Inductive hop := HEval (e : expr) (o : dict) | HValidate (e : expr) (o : dict) | HKeys (e : expr) (o : dict).
  Definition hop_store (h : hop) (s : store) : store :=
    match h with
    | HEval e o => snd (fst (eval e o s))
    | HValidate e o => snd (fst (validate e o s))
    | HKeys e o => snd (fst (keys e o s))
    end.
  Definition hist_store (hs : list hop) (s : store) : store := fold_left (fun s h => hop_store h s) hs s.

  Lemma hop_mono h s : mono s (hop_store h s).
  Proof.
    destruct h as [e o|e o|e o]; cbn [hop_store].
    - destruct (eval e o s) as [[r s'] l] eqn:E. exact (eval_mono e o s r s' l E).
    - destruct (validate e o s) as [[r s'] l] eqn:E. exact (validate_mono e o s r s' l E).
    - destruct (keys e o s) as [[r s'] l] eqn:E. exact (keys_mono e o s r s' l E).
  Qed.
  Lemma hist_mono hs : forall s, mono s (hist_store hs s).
  Proof.
    induction hs as [|h hs IH]; intros s; [apply mono_refl|].
    cbn [hist_store fold_left]. eapply mono_trans; [apply hop_mono|apply IH].
  Qed.

  Lemma exhaust_no_lazy v : has_lazy v = false -> exhaust v = v.
  Proof.
    induction v using value_ind'; intros Hl; try reflexivity.
    cbn [has_lazy] in Hl. apply orb_false_elim in Hl as [Ht Hargs].
    cbn [exhaust]. rewrite Ht. f_equal.
    induction H as [|x l Hx Hl' IH]; [reflexivity|].
    apply orb_false_elim in Hargs as [Hx0 Hrest]. rewrite (Hx Hx0). f_equal. now apply IH.
  Qed.

  (** ** (2) after a successful evaluation, every later evaluation of the same node under a
      dictionary with the same fingerprint — whatever operations on whatever expressions were
      run in between — is a hit: it returns a stored value, leaves the store alone, runs no user
      code, issues no log request, writes no cache entry *)
  Theorem miss_then_hit cid e o1 o2 s v s1 l hs :
    kstatic e = true -> cache_off o1 = false -> cache_off o2 = false ->
    eval (ECached (CMem cid) e) o1 s = (Ok v, s1, l) ->
    fp_res e o2 = fp_res e o1 ->
    let s2 := hist_store hs s1 in
    exists v', eval (ECached (CMem cid) e) o2 s2 = (Ok v', s2, hit_log cid e o2) /\
               code_free (hit_log cid e o2) = true.
  Proof.
    intros Hk Hc1 Hc2 H1 Hfp s2.
    destruct (node_eval_stores cid e o1 s v s1 l Hk Hc1 H1) as (f & Hf & Hst).
    assert (Hst2 : stored cid f s2) by (apply (hist_mono hs s1), Hst).
    rewrite <- Hfp in Hf.
    destruct (stored_then_hit cid e o2 s2 f Hk Hc2 Hf Hst2) as (v' & _ & He).
    exists v'. split; [exact He|now apply hit_log_code_free].
  Qed.

  (** the immediately repeated evaluation returns the same value (a value holding a generator
      comes back exhausted: finding D21) *)
  Theorem immediate_repeat cid e o s v s1 l :
    kstatic e = true -> cache_off o = false ->
    eval (ECached (CMem cid) e) o s = (Ok v, s1, l) ->
    exists v', eval (ECached (CMem cid) e) o s1 = (Ok v', s1, hit_log cid e o) /\
               (has_lazy v = false -> v' = v) /\ (v' = v \/ v' = exhaust v).
  Proof.
    intros Hk Hc H.
    destruct (node_eval_ok cid e o s v s1 l Hk Hc H) as (f & Hf & [(Hfind & -> & _)|(_ & s0 & l0 & _ & -> & _)]).
    - exists v. split; [now apply (hit_runs_nothing cid e o s f v)|]. split; [reflexivity|now left].
    - exists (exhaust v). split.
      + apply (hit_runs_nothing cid e o _ f (exhaust v) Hk Hc Hf). apply mem_find_store_same.
      + split; [apply exhaust_no_lazy|now right].
  Qed.

  (** ** the counting form.  A history interleaves evaluations of ONE cached node with arbitrary
      other operations (evaluate / validate / keys of any expressions under any dictionaries);
      the observations of the node's evaluations are collected in order. *)
  Inductive item := INode (o : dict) | IOther (h : hop).

  Fixpoint run_items (node : expr) (its : list item) (s : store) : list (dict * res value * list event) :=
    match its with
    | [] => []
    | INode o :: r => let '(rv, s', l) := eval node o s in (o, rv, l) :: run_items node r s'
    | IOther h :: r => run_items node r (hop_store h s)
    end.

  Definition is_ok {A} (r : res A) : bool := match r with Ok _ => true | Err _ _ => false end.
  Definition fp_is (e : expr) (o : dict) (f : fp) : bool :=
    match fp_res e o with Ok g => fp_eqb g f | Err _ _ => false end.

  (** a successful evaluation, with the cache switched on, under a dictionary whose fingerprint
      is [f], that ran code (user code / log request / cache write) *)
  Definition counted (e : expr) (f : fp) (x : dict * res value * list event) : bool :=
    let '(o, rv, l) := x in
    negb (cache_off o) && is_ok rv && fp_is e o f && negb (code_free l).

  Lemma body_at_most_once_inv cid e f its :
    kstatic e = true ->
    forall s,
      let n := length (filter (counted e f) (run_items (ECached (CMem cid) e) its s)) in
      (n <= 1)%nat /\ (stored cid f s -> n = 0%nat).
  Proof.
    intros Hk. induction its as [|[o|h] its IH]; intros s; cbn zeta.
    - cbn. split; [lia|reflexivity].
    - cbn [run_items]. destruct (eval (ECached (CMem cid) e) o s) as [[rv s'] l] eqn:He.
      specialize (IH s'). cbn zeta in IH. destruct IH as [IH1 IH2].
      cbn [filter]. destruct (counted e f (o, rv, l)) eqn:Hcnt.
      + unfold counted in Hcnt.
        apply andb_prop in Hcnt as [Hcnt Hcode]. apply andb_prop in Hcnt as [Hcnt Hfp].
        apply andb_prop in Hcnt as [Hc Hok]. apply negb_true_iff in Hc.
        destruct rv as [v|c ee]; [|discriminate].
        unfold fp_is in Hfp.
        destruct (node_eval_ok cid e o s v s' l Hk Hc He) as (g & Hg & Hcase).
        rewrite Hg in Hfp. apply fp_eqb_eq in Hfp. subst g.
        destruct Hcase as [(_ & _ & ->)|(Hfind & s1 & l1 & _ & -> & _)].
        * rewrite (hit_log_code_free cid e o Hk) in Hcode. discriminate.
        * assert (Hst : stored cid f (mem_store cid f (exhaust v) s1))
            by (unfold stored; rewrite mem_find_store_same; discriminate).
          cbn [length]. rewrite (IH2 Hst). split; [lia|].
          intros Hs. unfold stored in Hs. contradiction.
      + split; [exact IH1|]. intros Hs. apply IH2.
        apply (eval_mono _ _ _ _ _ _ He). exact Hs.
    - cbn [run_items]. specialize (IH (hop_store h s)). cbn zeta in IH. destruct IH as [IH1 IH2].
      split; [exact IH1|]. intros Hs. apply IH2. apply (hop_mono h s). exact Hs.
  Qed.

  Theorem body_at_most_once cid e f its s :
    kstatic e = true ->
    (length (filter (counted e f) (run_items (ECached (CMem cid) e) its s)) <= 1)%nat.
  Proof. intros Hk. exact (proj1 (body_at_most_once_inv cid e f its Hk s)). Qed.

  (** ** (5) sharing within one evaluation: among sibling sub-expressions evaluated in sequence
      under one dictionary (the arguments of a dataset body, the steps of a pipeline), the second
      occurrence of a cached node is a hit, whatever lies in between *)
  Lemma mapM_app_ok {A B} (f : A -> M B) a b s vs s' l :
    mapM store f (a ++ b) s = (Ok vs, s', l) ->
    exists va vb s1 l1 l2, mapM store f a s = (Ok va, s1, l1) /\ mapM store f b s1 = (Ok vb, s', l2) /\
                           vs = va ++ vb /\ l = l1 ++ l2.
  Proof.
    revert s vs l. induction a as [|x a IH]; intros s vs l H.
    - exists [], vs, s, [], l. cbn. auto.
    - cbn [app] in H. rewrite mapM_cons in H.
      apply bind_ok in H as (y & sa & la & lb & Hx & H & ->).
      apply bind_ok in H as (ys & sb & lc & ld & Hrest & H & ->).
      cbn in H. inversion H; subst. clear H.
      destruct (IH _ _ _ Hrest) as (va & vb & s1 & l1 & l2 & Ha & Hb & -> & ->).
      exists (y :: va), vb, s1, (la ++ l1), l2. split; [|split; [exact Hb|split; [reflexivity|]]].
      + rewrite mapM_cons. rewrite (bind_okE _ _ _ _ _ _ _ Hx). rewrite (bind_okE _ _ _ _ _ _ _ Ha).
        unfold Eval.ret, TraceProofs.after. cbn [fst snd]. now rewrite app_nil_r.
      + now rewrite !app_nil_r, app_assoc.
  Qed.

  Lemma mapM_eval_mono o es s r s' l : mapM store (fun x => eval x o) es s = (r, s', l) -> mono s s'.
  Proof.
    apply (fr_mapM store mono mono_refl mono_trans). intros x _ s0 r0 s0' l0 H0. exact (eval_mono _ _ _ _ _ _ H0).
  Qed.

  Lemma mapM_app_okE {A B} (f : A -> M B) a b s va s1 l1 vb s2 l2 :
    mapM store f a s = (Ok va, s1, l1) -> mapM store f b s1 = (Ok vb, s2, l2) ->
    mapM store f (a ++ b) s = (Ok (va ++ vb), s2, l1 ++ l2).
  Proof.
    revert s va l1. induction a as [|x a IH]; intros s va l1 Ha Hb.
    - cbn in Ha. inversion Ha; subst. exact Hb.
    - cbn [app]. rewrite mapM_cons in *.
      apply bind_ok in Ha as (y & sa & la & lb & Hx & Ha & ->).
      apply bind_ok in Ha as (ys & sb & lc & ld & Hrest & Ha & ->).
      cbn in Ha. inversion Ha; subst. clear Ha.
      rewrite (bind_okE _ _ _ _ _ _ _ Hx). rewrite (bind_okE _ _ _ _ _ _ _ (IH _ _ _ Hrest Hb)).
      unfold Eval.ret, TraceProofs.after. cbn [fst snd app]. now rewrite !app_nil_r, <- !app_assoc.
  Qed.

  Theorem shared_dependency_runs_once cid e o pre mid post s vs s' l :
    kstatic e = true -> cache_off o = false ->
    let n := ECached (CMem cid) e in
    mapM store (fun x => eval x o) (pre ++ n :: mid ++ n :: post) s = (Ok vs, s', l) ->
    exists va v1 vm w vp s1 s2 s4 la l1 lb lc,
      mapM store (fun x => eval x o) pre s = (Ok va, s1, la) /\
      eval n o s1 = (Ok v1, s2, l1) /\
      mapM store (fun x => eval x o) mid s2 = (Ok vm, s4, lb) /\
      mapM store (fun x => eval x o) (pre ++ n :: mid) s = (Ok (va ++ v1 :: vm), s4, la ++ l1 ++ lb) /\
      eval n o s4 = (Ok w, s4, hit_log cid e o) /\
      mapM store (fun x => eval x o) post s4 = (Ok vp, s', lc) /\
      vs = va ++ v1 :: vm ++ w :: vp /\
      l = la ++ l1 ++ lb ++ hit_log cid e o ++ lc /\
      code_free (hit_log cid e o) = true.
  Proof.
    intros Hk Hc n H.
    apply mapM_app_ok in H as (va & vb & s1 & la & l2 & Hpre & H & -> & ->).
    rewrite mapM_cons in H. apply bind_ok in H as (v1 & s2 & l1 & l3 & Hn1 & H & ->).
    apply bind_ok in H as (vs2 & s3 & l4 & l5 & H & Hret & ->).
    cbn in Hret. inversion Hret; subst. clear Hret.
    apply mapM_app_ok in H as (vm & vp0 & s4 & lb & l6 & Hmid & H & -> & ->).
    rewrite mapM_cons in H. apply bind_ok in H as (v2 & s5 & l7 & l8 & Hn2 & H & ->).
    apply bind_ok in H as (vp & s6 & l9 & l10 & Hpost & Hret & ->).
    cbn in Hret. inversion Hret; subst. clear Hret.
    destruct (node_eval_stores cid e o s1 v1 s2 l1 Hk Hc Hn1) as (f & Hf & Hst).
    assert (Hst4 : stored cid f s4) by (apply (mapM_eval_mono _ _ _ _ _ _ Hmid), Hst).
    destruct (stored_then_hit cid e o s4 f Hk Hc Hf Hst4) as (w & _ & Hhit).
    fold n in Hhit. rewrite Hhit in Hn2. injection Hn2 as E1 E2 E3. subst v2 s5 l7.
    exists va, v1, vm, w, vp, s1, s2, s4, la, l1, lb, l9.
    repeat split; try assumption.
    - apply (mapM_app_okE _ _ _ _ _ _ _ _ _ _ Hpre).
      rewrite mapM_cons, (bind_okE _ _ _ _ _ _ _ Hn1), (bind_okE _ _ _ _ _ _ _ Hmid).
        unfold Eval.ret, TraceProofs.after. cbn [fst snd]. now rewrite app_nil_r.
    - rewrite !app_nil_r. rewrite <- ?app_assoc. reflexivity.
    - now apply hit_log_code_free.
  Qed.

  (** * F. Effects *)
  (** ** (4) the effects of a Computation run after its expression, each applied to the
      expression's value, in order; the log is the expression's log followed by theirs *)
  Theorem effects_follow_body e effects o s v s1 l1 :
    effects_opt_off o = false -> eval e o s = (Ok v, s1, l1) ->
    eval (EComp e effects) o s =
      match iterM store (effect_run o v) effects s1 with
      | (Ok _, s2, l2) => (Ok v, s2, l1 ++ l2)
      | (Err c _, s2, l2) => (Err c true, s2, l1 ++ l2)
      end.
  Proof.
    intros Hoff He. rewrite eval_comp_E, wrap_eval_out, Hoff.
    rewrite (bind_okE _ _ _ _ _ _ _ He).
    destruct (iterM store (effect_run o v) effects s1) as [[[[]|c ee] s2] l2] eqn:Ei.
    - rewrite (bind_okE _ _ _ _ _ _ _ Ei). unfold Eval.ret, TraceProofs.after. cbn. now rewrite app_nil_r.
    - rewrite (bind_errE _ _ _ _ _ _ _ _ Ei). reflexivity.
  Qed.

  (** no effect runs when the expression fails … *)
  Theorem effects_none_on_failure e effects o s c ee s1 l1 :
    eval e o s = (Err c ee, s1, l1) -> eval (EComp e effects) o s = (Err c true, s1, l1).
  Proof. intros He. rewrite eval_comp_E, wrap_eval_out. now rewrite (bind_errE _ _ _ _ _ _ _ _ He). Qed.

  (** … or when effects are switched off by option *)
  Theorem effects_off_by_option e effects o s :
    effects_opt_off o = true -> eval (EComp e effects) o s = eval e o s.
  Proof.
    intros Hoff. rewrite eval_comp_E, wrap_eval_out, Hoff.
    destruct (eval e o s) as [[[v|c ee] s1] l1] eqn:He.
    - rewrite (bind_okE _ _ _ _ _ _ _ He). cbn. now rewrite app_nil_r.
    - rewrite (bind_errE _ _ _ _ _ _ _ _ He). cbn. f_equal. f_equal. f_equal.
      symmetry. exact (eval_err_true _ _ _ _ _ _ _ _ _ _ _ _ _ _ He).
  Qed.

  (** what one effect does: evaluate the callback expression, apply the callable to the value *)
  Lemma effect_run_E o v eff :
    effect_run o v eff = bind (eval eff o) (fun f => bind (call_value f v) (fun _ => ret tt)).
  Proof. reflexivity. Qed.

  (** effects given as plain functions (a function value, or a parameterless pipeline step):
      exactly one call each, with the body's value, in the order of registration *)
  Definition user_fn (f : N) : bool := N.ltb 4 f.
  Definition fn_effect (o : dict) (eff : expr) (fid : N) : Prop :=
    forall s, eval eff o s = (Ok (VF fid [] []), s, []).

  Lemma fn_effect_value o fid : fn_effect o (EValue (VF fid [] [])) fid.
  Proof. intros s. reflexivity. Qed.
  Lemma fn_effect_pstep o fid : fn_effect o (pstep fid []) fid.
  Proof. intros s. reflexivity. Qed.

  Lemma call_user_fn fid v r s :
    user_fn fid = true -> deep_err v = None -> ucall fid [listify v] = COk r ->
    call_value (VF fid [] []) v s = (Ok r, s, [EvCall fid [listify v]]).
  Proof.
    intros Hu Hd Hr. unfold user_fn in Hu. apply N.ltb_lt in Hu.
    rewrite call_value_VF.
    assert (E4 : N.eqb fid B_COMPOSE = false) by (apply N.eqb_neq; unfold B_COMPOSE; lia).
    rewrite E4. cbn [app]. unfold call_fun.
    assert (E1 : N.eqb fid B_LIST = false) by (apply N.eqb_neq; unfold B_LIST; lia).
    assert (E2 : N.eqb fid B_TUPLE = false) by (apply N.eqb_neq; unfold B_TUPLE; lia).
    assert (E3 : N.eqb fid B_DICT = false) by (apply N.eqb_neq; unfold B_DICT; lia).
    rewrite E1, E2, E3. unfold deep_err_list. rewrite Hd. cbn [map]. rewrite Hr. reflexivity.
  Qed.

  Lemma fn_effect_run o v eff fid r s :
    fn_effect o eff fid -> user_fn fid = true -> deep_err v = None -> ucall fid [listify v] = COk r ->
    effect_run o v eff s = (Ok tt, s, [EvCall fid [listify v]]).
  Proof.
    intros Hf Hu Hd Hr. rewrite effect_run_E. rewrite (bind_okE _ _ _ _ _ _ _ (Hf s)).
    rewrite (bind_okE _ _ _ _ _ _ _ (call_user_fn fid v r s Hu Hd Hr)). reflexivity.
  Qed.

  Theorem fn_effects_run o v (effs : list (expr * N)) s :
    deep_err v = None ->
    Forall (fun ef => fn_effect o (fst ef) (snd ef) /\ user_fn (snd ef) = true /\
                      exists r, ucall (snd ef) [listify v] = COk r) effs ->
    iterM store (effect_run o v) (map fst effs) s =
      (Ok tt, s, map (fun ef => EvCall (snd ef) [listify v]) effs).
  Proof.
    intros Hd H. induction H as [|[eff fid] effs (Hf & Hu & r & Hr) _ IH]; [reflexivity|].
    cbn [map fst snd] in *. rewrite iterM_cons.
    rewrite (bind_okE _ _ _ _ _ _ _ (fn_effect_run o v eff fid r s Hf Hu Hd Hr)). rewrite IH. reflexivity.
  Qed.

  Corollary fn_effects_follow_body e (effs : list (expr * N)) o s v s1 l1 :
    effects_opt_off o = false -> eval e o s = (Ok v, s1, l1) -> deep_err v = None ->
    Forall (fun ef => fn_effect o (fst ef) (snd ef) /\ user_fn (snd ef) = true /\
                      exists r, ucall (snd ef) [listify v] = COk r) effs ->
    eval (EComp e (map fst effs)) o s = (Ok v, s1, l1 ++ map (fun ef => EvCall (snd ef) [listify v]) effs).
  Proof.
    intros Hoff He Hd H. rewrite (effects_follow_body e _ o s v s1 l1 Hoff He).
    now rewrite (fn_effects_run o v effs s1 Hd H).
  Qed.

  (** * Datasets: Dataset._composed = defaults(presets(Cached(Logged(Computation(body >> callback, effects))))) *)
  Definition ds_calc (d : dsrec) : expr :=
    EApply (ESwitch d.(ds_dispatch) d.(ds_table) d.(ds_default)) d.(ds_callback).
  Definition ds_inner (d : dsrec) : expr :=
    ELogged (if d.(ds_effects_disabled) then ds_calc d else EComp (ds_calc d) d.(ds_effects)).
  (** the dictionary the cached region sees *)
  Definition ds_opts (d : dsrec) (o : dict) : dict := mix (mix d.(ds_default_options) o) d.(ds_options).

  Lemma eval_dataset_node d o s :
    eval (dataset_expr d) o s = eval (ECached d.(ds_cache) (ds_inner d)) (ds_opts d o) s.
  Proof. exact (eval_dataset store mem_find mem_store cfg ucall rfuel site_ok d o s). Qed.

  (** (1) for a dataset: on a hit no body, no effect, no log request *)
  Theorem dataset_hit_runs_nothing d cid o s f v :
    d.(ds_cache) = CMem cid -> kstatic (ds_inner d) = true -> cache_off (ds_opts d o) = false ->
    fp_res (ds_inner d) (ds_opts d o) = Ok f -> mem_find cid f s = Some v ->
    eval (dataset_expr d) o s = (Ok v, s, hit_log cid (ds_inner d) (ds_opts d o)) /\
    code_free (hit_log cid (ds_inner d) (ds_opts d o)) = true.
  Proof.
    intros Hc Hk Hoff Hf Hfind. rewrite eval_dataset_node, Hc. split.
    - now apply (hit_runs_nothing cid (ds_inner d) (ds_opts d o) s f v).
    - now apply hit_log_code_free.
  Qed.

  (** (2) for a dataset: once evaluated, every later evaluation under a dictionary that gives
      the cached region the same fingerprint is a hit *)
  Theorem dataset_miss_then_hit d cid o1 o2 s v s1 l hs :
    d.(ds_cache) = CMem cid -> kstatic (ds_inner d) = true ->
    cache_off (ds_opts d o1) = false -> cache_off (ds_opts d o2) = false ->
    eval (dataset_expr d) o1 s = (Ok v, s1, l) ->
    fp_res (ds_inner d) (ds_opts d o2) = fp_res (ds_inner d) (ds_opts d o1) ->
    let s2 := hist_store hs s1 in
    exists v', eval (dataset_expr d) o2 s2 = (Ok v', s2, hit_log cid (ds_inner d) (ds_opts d o2)) /\
               code_free (hit_log cid (ds_inner d) (ds_opts d o2)) = true.
  Proof.
    intros Hc Hk Hoff1 Hoff2 H1 Hfp s2. rewrite eval_dataset_node, Hc in H1.
    destruct (miss_then_hit cid (ds_inner d) (ds_opts d o1) (ds_opts d o2) s v s1 l hs Hk Hoff1 Hoff2 H1 Hfp)
      as (v' & He & Hcf).
    exists v'. split; [|exact Hcf]. rewrite eval_dataset_node, Hc. exact He.
  Qed.

  (** the log of a dataset's storing miss: log request, body (with callback), then the effects
      with the body's value, then the cache write — effects run once per body execution *)
  Definition emit_log (o : dict) : list event :=
    if cfg.(log_ctx_off) || logging_opt_off o then [] else [EvLogEmit].

  Theorem dataset_miss_log d cid o s f v s1 lc s2 le :
    d.(ds_cache) = CMem cid -> kstatic (ds_inner d) = true -> d.(ds_effects_disabled) = false ->
    let o' := ds_opts d o in
    cache_off o' = false -> effects_opt_off o' = false ->
    fp_res (ds_inner d) o' = Ok f -> mem_find cid f s = None ->
    eval (ds_calc d) o' s = (Ok v, s1, lc) ->
    iterM store (effect_run o' v) d.(ds_effects) s1 = (Ok tt, s2, le) ->
    eval (dataset_expr d) o s =
      (Ok v, mem_store cid f (exhaust v) s2,
       miss_log cid (ds_inner d) o' v ([EvLogReq] ++ emit_log o' ++ lc ++ le)).
  Proof.
    intros Hc Hk Hed o' Hoff Heff Hf Hfind Hcalc Hiter.
    rewrite eval_dataset_node, Hc. fold o'. rewrite (eval_node_E cid _ o' s Hoff).
    assert (Hin : eval (ds_inner d) o' s = (Ok v, s2, [EvLogReq] ++ emit_log o' ++ lc ++ le)).
    { unfold ds_inner. rewrite Hed. rewrite eval_logged_E, wrap_eval_out.
      rewrite (bind_okE _ _ _ _ _ _ _ (emit_run EvLogReq s)).
      assert (Hem : (if log_ctx_off cfg || logging_opt_off o' then ret tt else emit EvLogEmit) s = (Ok tt, s, emit_log o'))
        by (unfold emit_log; destruct (log_ctx_off cfg || logging_opt_off o'); reflexivity).
      rewrite (bind_okE _ _ _ _ _ _ _ Hem).
      rewrite (effects_follow_body (ds_calc d) _ o' s v s1 lc Heff Hcalc), Hiter. reflexivity. }
    rewrite (cached_on_miss_ok cid (ds_inner d) o' s f v s2 _ Hk Hf Hfind Hin). reflexivity.
  Qed.

  (** * E. What the fingerprint depends on *)
  (** two dictionaries hold the same entry under the top-level name a dotted key starts with *)
  Definition tsame (o o' : dict) (k : key) : Prop :=
    match k with [] => o' = o | s :: _ => dget s o' = dget s o end.
  Definition tagree (o o' : dict) (ks : list key) : Prop := forall k, In k ks -> tsame o o' k.

  Lemma tagree_app o o' a b : tagree o o' (a ++ b) <-> tagree o o' a /\ tagree o o' b.
  Proof.
    unfold tagree. split.
    - intros H. split; intros k Hk; apply H; apply in_or_app; auto.
    - intros [Ha Hb] k Hk. apply in_app_or in Hk as [Hk|Hk]; auto.
  Qed.
  Lemma tagree_incl o o' a b : incl a b -> tagree o o' b -> tagree o o' a.
  Proof. intros Hi H k Hk. apply H, Hi, Hk. Qed.

  Lemma tsame_lookup o o' k : tsame o o' k -> lookup k (JObj o') = lookup k (JObj o).
  Proof.
    destruct k as [|s k]; cbn [tsame]; intros H; [now subst|].
    cbn [lookup]. now rewrite H.
  Qed.
  Lemma tagree_agree o o' ks : tagree o o' ks -> agree_keys o o' ks.
  Proof. intros H k Hk. apply tsame_lookup, H, Hk. Qed.

  (** agreement is carried through [mix] on either side *)
  Lemma tsame_mix_dish o o' p k :
    nodup_keys p = true -> tsame o o' k -> tsame (mix o p) (mix o' p) k.
  Proof.
    intros Hp. destruct k as [|s k]; cbn [tsame]; intros H; [now subst|].
    unfold mix. rewrite !dget_mix_loop by exact Hp. unfold mix_entry. now rewrite H.
  Qed.
  Lemma tsame_mix_ing o o' p k :
    nodup_keys o = true -> nodup_keys o' = true -> tsame o o' k -> tsame (mix p o) (mix p o') k.
  Proof.
    intros Ho Ho'. destruct k as [|s k]; cbn [tsame]; intros H; [now subst|].
    unfold mix. rewrite !dget_mix_loop by assumption. now rewrite H.
  Qed.
  Lemma tsame_with_opts force p o o' k :
    nodup_keys p = true -> nodup_keys o = true -> nodup_keys o' = true ->
    tsame o o' k -> tsame (with_opts force p o) (with_opts force p o') k.
  Proof.
    intros Hp Ho Ho' H. destruct force; cbn [with_opts]; [now apply tsame_mix_dish|now apply tsame_mix_ing].
  Qed.

  Lemma existsb_dset_other k s v m :
    seg_eqb k s = false ->
    existsb (fun kv => seg_eqb k (fst kv)) (dset s v m) = existsb (fun kv => seg_eqb k (fst kv)) m.
  Proof.
    intros Hne. induction m as [|[k' v'] m IH]; cbn [dset existsb fst].
    - now rewrite Hne.
    - destruct (seg_eqb s k') eqn:E; cbn [existsb fst].
      + apply seg_eqb_eq in E. subst k'. now rewrite Hne.
      + now rewrite IH.
  Qed.
  Lemma nodup_dset s v m : nodup_keys m = true -> nodup_keys (dset s v m) = true.
  Proof.
    induction m as [|[k' v'] m IH]; intros H; [reflexivity|].
    cbn [dset]. cbn [nodup_keys] in H. apply andb_prop in H as [H1 H2].
    destruct (seg_eqb s k') eqn:E.
    - apply seg_eqb_eq in E. subst k'. cbn [nodup_keys]. now rewrite H1, H2.
    - cbn [nodup_keys]. rewrite (IH H2), andb_true_r.
      rewrite existsb_dset_other; [exact H1|]. rewrite seg_eqb_sym. exact E.
  Qed.
  Lemma nodup_mix_loop rec ing : forall acc, nodup_keys acc = true -> nodup_keys (mix_loop rec ing acc) = true.
  Proof.
    induction ing as [|[k v] ing IH]; intros acc H; [exact H|].
    rewrite mix_loop_cons. apply IH. now apply nodup_dset.
  Qed.
  Lemma nodup_with_opts force p o :
    nodup_keys p = true -> nodup_keys o = true -> nodup_keys (with_opts force p o) = true.
  Proof. intros Hp Ho. destruct force; cbn [with_opts]; unfold mix; now apply nodup_mix_loop. Qed.

  (** ** two computations, one per dictionary: both leave the store alone and run no code, and
      when the dictionaries agree on what the first looks up, they are the same computation *)
  Definition SAG {A} (o o' : dict) (m m' : M A) : Prop :=
    static m /\ (tagree o o' (reads_of (snd (m []))) -> forall s, m' s = m s).

  Lemma SAG_refl {A} o o' (m : M A) : static m -> SAG o o' m m.
  Proof. intros H. split; [exact H|]. intros _ s. reflexivity. Qed.

  Lemma SAG_bind {A B} o o' (m m' : M A) (f f' : A -> M B) :
    SAG o o' m m' -> (forall a, SAG o o' (f a) (f' a)) -> SAG o o' (bind m f) (bind m' f').
  Proof.
    intros [Hst Hm] Hf. split.
    - apply static_bind; [exact Hst|]. intros a. apply (Hf a).
    - destruct Hst as (r & l & _ & Hrun). intros Hag s. destruct r as [a|c ee].
      + rewrite (bind_okE _ _ _ _ _ _ _ (Hrun [])) in Hag. cbn [TraceProofs.after snd] in Hag.
        rewrite reads_of_app in Hag. apply tagree_app in Hag as [H1 H2].
        rewrite (Hrun []) in Hm. cbn [snd] in Hm. specialize (Hm H1).
        assert (Hm' : m' s = (Ok a, s, l)) by (rewrite Hm; apply Hrun).
        rewrite (bind_okE _ _ _ _ _ _ _ Hm'), (bind_okE _ _ _ _ _ _ _ (Hrun s)).
        destruct (Hf a) as [_ Hfa]. now rewrite (Hfa H2 s).
      + rewrite (bind_errE _ _ _ _ _ _ _ _ (Hrun [])) in Hag. cbn [snd] in Hag.
        rewrite (Hrun []) in Hm. cbn [snd] in Hm. specialize (Hm Hag).
        assert (Hm' : m' s = (Err c ee, s, l)) by (rewrite Hm; apply Hrun).
        now rewrite (bind_errE _ _ _ _ _ _ _ _ Hm'), (bind_errE _ _ _ _ _ _ _ _ (Hrun s)).
  Qed.

  Lemma catch_log_prefix {A} (m : M A) h s : exists extra, snd (catch store m h s) = snd (m s) ++ extra.
  Proof.
    unfold catch. destruct (m s) as [[[a|c ee] s1] l1]; [exists []; cbn; now rewrite app_nil_r|].
    destruct (h c ee s1) as [[r s2] l2]. destruct c; try (exists l2; reflexivity).
    exists []. cbn. now rewrite app_nil_r.
  Qed.

  Lemma SAG_catch {A} o o' (m m' : M A) h :
    SAG o o' m m' -> (forall c ee, static (h c ee)) -> SAG o o' (catch store m h) (catch store m' h).
  Proof.
    intros [Hst Hm] Hh. split; [now apply static_catch|].
    intros Hag s. destruct (catch_log_prefix m h []) as [extra He]. rewrite He, reads_of_app in Hag.
    apply tagree_app in Hag as [H1 _]. specialize (Hm H1). unfold catch. now rewrite Hm.
  Qed.

  Lemma SAG_wrap {A} o o' (m m' : M A) : SAG o o' m m' -> SAG o o' (wrap_eval store m) (wrap_eval store m').
  Proof.
    intros [Hst Hm]. split; [now apply static_wrap|]. intros Hag s.
    assert (Hlog : snd (wrap_eval store m []) = snd (m []))
      by (unfold wrap_eval; destruct (m []) as [[[a|c ee] s1] l1]; reflexivity).
    rewrite Hlog in Hag. unfold wrap_eval. now rewrite (Hm Hag s).
  Qed.

  Lemma SAG_unionM {A} o o' (f f' : A -> M (list key)) l :
    (forall a, In a l -> SAG o o' (f a) (f' a)) -> SAG o o' (unionM store f l) (unionM store f' l).
  Proof.
    induction l as [|a l IH]; intros H; [apply SAG_refl, static_ret|].
    rewrite !unionM_cons. apply SAG_bind; [apply H; now left|]. intros ks.
    apply SAG_bind; [apply IH; intros x Hx; apply H; now right|]. intros; apply SAG_refl, static_ret.
  Qed.

  Lemma SAG_pick {A} o o' k (onhit onhit' : expr -> M A) onmiss onmiss' tbl :
    (forall ve, In ve tbl -> SAG o o' (onhit (snd ve)) (onhit' (snd ve))) -> SAG o o' onmiss onmiss' ->
    SAG o o' (pick k onhit onmiss tbl) (pick k onhit' onmiss' tbl).
  Proof.
    intros Hh Hm. induction tbl as [|[v b] tbl IH]; [exact Hm|]. cbn [pick].
    destruct (value_eq k v).
    - apply (Hh (v, b)). now left.
    - apply IH. intros ve Hve. apply Hh. now right.
  Qed.

  Lemma SAG_dflt_or {A} o o' dflt (f f' : expr -> M A) none :
    (forall d, dflt = Some d -> SAG o o' (f d) (f' d)) -> static none ->
    SAG o o' (dflt_or store dflt f none) (dflt_or store dflt f' none).
  Proof. intros Hf Hn. destruct dflt as [d|]; cbn; [now apply Hf|now apply SAG_refl]. Qed.

  Lemma SAG_rd o o' k : SAG o o' (rd store k o) (rd store k o').
  Proof.
    split; [apply static_rd|]. intros Hag s. rewrite !rd_E. rewrite rd_E in Hag. cbn [snd reads_of flat_map app] in Hag.
    assert (H : tsame o o' k) by (apply Hag; now left). now rewrite (tsame_lookup o o' k H).
  Qed.

  Lemma SAG_ref_keys o o' strict fuel : forall k, SAG o o' (ref_keys store fuel strict o k) (ref_keys store fuel strict o' k).
  Proof.
    induction fuel as [|fuel IH]; intros k; [apply SAG_refl, static_fail|].
    rewrite !ref_keys_S. apply SAG_bind; [apply SAG_rd|]. intros r.
    destruct r as [[]| |]; try (apply SAG_refl; first [apply static_ret|apply static_fail]).
    - destruct (has_par s); [apply SAG_refl, static_fail|].
      apply SAG_bind; [|intros; apply SAG_refl, static_ret]. apply SAG_unionM. intros; apply IH.
    - destruct strict; apply SAG_refl; [apply static_fail|apply static_ret].
  Qed.

  Definition present (o : dict) (k : key) : bool :=
    match lookup k (JObj o) with Found _ => true | _ => false end.
  Lemma emit_reads_run ks o s :
    emit_reads store ks o s = (Ok tt, s, map (fun k => EvRead k (present o k)) ks).
  Proof.
    unfold emit_reads. induction ks as [|k ks IH]; [reflexivity|].
    rewrite iterM_cons. rewrite (bind_okE _ _ _ _ _ _ _ (emit_run _ s)). rewrite IH. reflexivity.
  Qed.
  Lemma reads_of_map_read o ks : reads_of (map (fun k => EvRead k (present o k)) ks) = ks.
  Proof. unfold reads_of. induction ks as [|k ks IH]; [reflexivity|]. cbn [map flat_map app]. now rewrite IH. Qed.

  (** resolving a present option's (templated) value *)
  Lemma SAG_resolved o o' raw :
    SAG o o'
      (bind (emit_reads store (resolve_reads rfuel o raw) o)
         (fun _ => bind (of_rres store (resolve rfuel o raw)) (fun j => ret (VJ j))))
      (bind (emit_reads store (resolve_reads rfuel o' raw) o')
         (fun _ => bind (of_rres store (resolve rfuel o' raw)) (fun j => ret (VJ j)))).
  Proof.
    split.
    - apply static_bind; [apply static_emit_reads|]. intros _.
      apply static_bind; [apply static_of_rres|intros; apply static_ret].
    - intros Hag s.
      assert (Hreads : tagree o o' (resolve_reads rfuel o raw)).
      { rewrite (bind_okE _ _ _ _ _ _ _ (emit_reads_run _ o [])) in Hag. cbn [TraceProofs.after snd] in Hag.
        rewrite reads_of_app, reads_of_map_read in Hag. now apply tagree_app in Hag as [H _]. }
      destruct (resolve_frame o o' rfuel raw (tagree_agree _ _ _ Hreads)) as [E1 E2].
      rewrite E1, E2.
      rewrite (bind_okE _ _ _ _ _ _ _ (emit_reads_run _ o' s)), (bind_okE _ _ _ _ _ _ _ (emit_reads_run _ o s)).
      f_equal. apply map_ext_in. intros k Hk. unfold present. now rewrite (tsame_lookup o o' k (Hreads k Hk)).
  Qed.

  (** dispatch expressions: constants and plain Options *)
  Lemma SAG_pure e : pure_expr e = true -> forall o o', SAG o o' (eval e o) (eval e o').
  Proof.
    induction e using expr_ind'; intros Hp o o'; try discriminate.
    - apply SAG_refl. rewrite eval_value_E. apply static_wrap, static_ret.
    - destruct dom; [discriminate|]. cbn [pure_expr] in Hp.
      rewrite !eval_option_unfold. apply SAG_wrap. rewrite !option_eval_E.
      apply SAG_bind; [apply SAG_rd|]. intros r.
      apply SAG_bind; [|intros; apply SAG_refl, static_ret].
      destruct r as [raw| |]; [apply SAG_resolved| |apply SAG_refl, static_fail].
      destruct dflt as [d|]; [|apply SAG_refl, static_fail]. cbn in *. now apply H.
  Qed.

  (** the pre-set filter asks the caller's and the overlaid dictionary about the reported keys only *)
  Lemma filter_preset_agree force p o o' mixed mixed' ks :
    tagree o o' ks -> tagree mixed mixed' ks ->
    filter_preset store force p o' mixed' ks = filter_preset store force p o mixed ks.
  Proof.
    induction ks as [|k ks IH]; intros H1 H2; [reflexivity|].
    cbn [filter_preset].
    assert (Hk : preset_drops force p o' mixed' k = preset_drops force p o mixed k).
    { unfold preset_drops. rewrite (tsame_lookup o o' k (H1 k (or_introl eq_refl))).
      rewrite (tsame_lookup mixed mixed' k (H2 k (or_introl eq_refl))). reflexivity. }
    rewrite Hk, IH; [reflexivity| |]; intros x Hx; [apply H1|apply H2]; now right.
  Qed.

  Lemma filter_preset_incl force p o mixed ks : forall s r s' l,
    filter_preset store force p o mixed ks s = (Ok r, s', l) -> incl r ks /\ l = [].
  Proof.
    induction ks as [|k ks IH]; intros s r s' l H.
    - cbn in H. inversion H; subst. split; [apply incl_refl|reflexivity].
    - cbn [filter_preset] in H. destruct (preset_drops force p o mixed k) as [b|]; [|discriminate].
      apply bind_ok in H as (r0 & s1 & l1 & l2 & H0 & H & ->).
      destruct (IH _ _ _ _ H0) as [Hi ->]. cbn in H. inversion H; subst. split; [|reflexivity].
      destruct b; [now apply incl_tl|]. apply incl_cons; [now left|now apply incl_tl].
  Qed.

  (** ** the fragment: [kstatic] (keys() never looks at the store and runs no user code) minus
      AllOptions (whose key set is the whole dictionary), with duplicate-free pre-set dictionaries *)
  Fixpoint kfrag (e : expr) : bool :=
    match e with
    | EValue _ => true
    | EAllOptions => false
    | EOption _ dflt _ => optb kfrag dflt
    | EApply src fn => kfrag src && kfrag fn
    | EBind src tbl dflt | ESwitch src tbl dflt =>
        pure_expr src && kfrag src && forallb (fun ve => kfrag (snd ve)) tbl && optb kfrag dflt
    | ECase _ _ _ | ECoalesce _ | EMap _ _ => false
    | EIter es | EPipe es => forallb kfrag es
    | EWith _ p e => nodup_keys p && kfrag e
    | ELogged e | ECached _ e | EComp e _ => kfrag e
    | ECall _ f args kwargs => kfrag f && forallb kfrag args && forallb kfrag kwargs
    | ETemplate _ ps => forallb (fun pe => kfrag (snd pe)) ps
    end.

  Lemma use_opt (Q : expr -> Prop) dflt :
    Popt (fun e => kfrag e = true -> Q e) dflt -> optb kfrag dflt = true -> forall d, dflt = Some d -> Q d.
  Proof. intros H1 H2 d ->. cbn in *. auto. Qed.
  Lemma use_list (Q : expr -> Prop) l :
    Forall (fun e => kfrag e = true -> Q e) l -> forallb kfrag l = true -> forall x, In x l -> Q x.
  Proof. intros H1 H2 x Hx. rewrite Forall_forall in H1. rewrite forallb_forall in H2. apply H1; auto. Qed.
  Lemma use_snd {K} (Q : expr -> Prop) (l : list (K * expr)) :
    Forall (fun ve => kfrag (snd ve) = true -> Q (snd ve)) l -> forallb (fun ve => kfrag (snd ve)) l = true ->
    forall ve, In ve l -> Q (snd ve).
  Proof. intros H1 H2 x Hx. rewrite Forall_forall in H1. rewrite forallb_forall in H2. apply H1; auto. Qed.

  Lemma kfrag_kstatic e : kfrag e = true -> kstatic e = true.
  Proof.
    induction e using expr_ind'; intros Hk; cbn [kfrag] in Hk; cbn [kstatic]; try discriminate; try reflexivity.
    - destruct dflt as [d|]; [|reflexivity]. cbn in *. auto.
    - apply andb_prop in Hk as [K1 K2]. now rewrite IHe1, IHe2.
    - apply andb_prop in Hk as [Hk K4]. apply andb_prop in Hk as [Hk K3]. apply andb_prop in Hk as [K1 K2].
      rewrite K1, (IHe K2). cbn [andb]. apply andb_true_intro. split.
      + apply forallb_forall. intros ve Hve. exact (use_snd (fun x => kstatic x = true) tbl H K3 ve Hve).
      + destruct dflt as [d|]; [|reflexivity]. cbn in *. auto.
    - apply andb_prop in Hk as [Hk K4]. apply andb_prop in Hk as [Hk K3]. apply andb_prop in Hk as [K1 K2].
      rewrite K1, (IHe K2). cbn [andb]. apply andb_true_intro. split.
      + apply forallb_forall. intros ve Hve. exact (use_snd (fun x => kstatic x = true) tbl H K3 ve Hve).
      + destruct dflt as [d|]; [|reflexivity]. cbn in *. auto.
    - apply forallb_forall. intros x Hx. exact (use_list (fun x => kstatic x = true) es H Hk x Hx).
    - apply andb_prop in Hk as [_ K2]. auto.
    - auto.
    - apply andb_prop in Hk as [Hk K3]. apply andb_prop in Hk as [K1 K2]. rewrite (IHe K1). cbn [andb].
      apply andb_true_intro. split; apply forallb_forall; intros x Hx.
      + exact (use_list (fun x => kstatic x = true) args H K2 x Hx).
      + exact (use_list (fun x => kstatic x = true) kwargs H0 K3 x Hx).
    - apply forallb_forall. intros pe Hpe. exact (use_snd (fun x => kstatic x = true) ps H Hk pe Hpe).
    - auto.
    - auto.
    - apply forallb_forall. intros x Hx. exact (use_list (fun x => kstatic x = true) steps H Hk x Hx).
  Qed.

  (** ** every key keys() reports was looked up by that keys() run *)
  Definition RR2 (m : M (list key)) : Prop :=
    forall s ks s' l, m s = (Ok ks, s', l) -> incl ks (reads_of l).
  Definition RRx (a : list key) (m : M (list key)) : Prop :=
    forall s ks s' l, m s = (Ok ks, s', l) -> exists b, ks = a ++ b /\ incl b (reads_of l).

  Lemma RR2_ret_nil : RR2 (ret []).
  Proof. intros s ks s' l H. inversion H; subst. apply incl_nil_l. Qed.
  Lemma RR2_fail c ee : RR2 (Eval.fail store c ee).
  Proof. intros s ks s' l H. discriminate. Qed.
  Lemma RR2_pre {A} (m : M A) f : (forall a, RR2 (f a)) -> RR2 (bind m f).
  Proof.
    intros Hf s ks s' l H. apply bind_ok in H as (a & s1 & l1 & l2 & _ & H & ->).
    rewrite reads_of_app. apply incl_appr. exact (Hf a _ _ _ _ H).
  Qed.
  Lemma RRx_pre {A} a (m : M A) f : (forall x, RRx a (f x)) -> RRx a (bind m f).
  Proof.
    intros Hf s ks s' l H. apply bind_ok in H as (x & s1 & l1 & l2 & _ & H & ->).
    destruct (Hf x _ _ _ _ H) as (b & -> & Hb). exists b. split; [reflexivity|].
    rewrite reads_of_app. now apply incl_appr.
  Qed.
  Lemma RRx_ret_app a g : RR2 g -> RRx a (bind g (fun b => ret (a ++ b))).
  Proof.
    intros Hg s ks s' l H. apply bind_ok in H as (b & s1 & l1 & l2 & H1 & H & ->).
    cbn in H. inversion H; subst. exists b. split; [reflexivity|]. rewrite app_nil_r. exact (Hg _ _ _ _ H1).
  Qed.
  Lemma RR2_split m1 g : RR2 m1 -> (forall a, RRx a (g a)) -> RR2 (bind m1 g).
  Proof.
    intros H1 Hg s ks s' l H. apply bind_ok in H as (a & s1 & l1 & l2 & Ha & H & ->).
    destruct (Hg a _ _ _ _ H) as (b & -> & Hb). rewrite reads_of_app.
    apply incl_app; [apply incl_appl; exact (H1 _ _ _ _ Ha)|now apply incl_appr].
  Qed.
  Lemma RR2_unionM {A} (f : A -> M (list key)) l : (forall a, In a l -> RR2 (f a)) -> RR2 (unionM store f l).
  Proof.
    induction l as [|a l IH]; intros H; [apply RR2_ret_nil|]. rewrite unionM_cons.
    apply RR2_split; [apply H; now left|]. intros ks. apply RRx_ret_app. apply IH. intros x Hx. apply H. now right.
  Qed.
  Lemma RR2_pick k (onhit : expr -> M (list key)) onmiss tbl :
    (forall ve, In ve tbl -> RR2 (onhit (snd ve))) -> RR2 onmiss -> RR2 (pick k onhit onmiss tbl).
  Proof.
    intros Hh Hm. induction tbl as [|[v b] tbl IH]; [exact Hm|]. cbn [pick].
    destruct (value_eq k v); [apply (Hh (v, b)); now left|]. apply IH. intros ve Hve. apply Hh. now right.
  Qed.
  Lemma RR2_dflt_or dflt (f : expr -> M (list key)) c ee :
    (forall d, dflt = Some d -> RR2 (f d)) -> RR2 (dflt_or store dflt f (Eval.fail store c ee)).
  Proof. intros Hf. destruct dflt as [d|]; cbn; [now apply Hf|apply RR2_fail]. Qed.

  Lemma RR2_rd_cons k o (f : lres -> M (list key)) :
    (forall s ks s' l, f (lookup k (JObj o)) s = (Ok ks, s', l) -> incl ks (k :: reads_of l)) ->
    RR2 (bind (rd store k o) f).
  Proof.
    intros Hf s ks s' l H. rewrite (bind_okE _ _ _ _ _ _ _ (rd_E store k o s)) in H.
    destruct (f (lookup k (JObj o)) s) as [[r s1] l1] eqn:E. cbn in H. inversion H; subst.
    cbn [reads_of flat_map app]. exact (Hf _ _ _ _ E).
  Qed.

  Lemma RR2_ref_keys strict o fuel : forall k, RR2 (ref_keys store fuel strict o k).
  Proof.
    induction fuel as [|fuel IH]; intros k; [apply RR2_fail|].
    rewrite ref_keys_S. apply RR2_rd_cons. intros s ks s' l H.
    destruct (lookup k (JObj o)) as [[]| |];
      try (cbn in H; inversion H; subst; apply incl_cons; [now left|apply incl_nil_l]); try discriminate.
    - destruct (has_par s0); [discriminate|].
      apply bind_ok in H as (ks0 & s1 & l1 & l2 & H1 & H & ->). cbn in H. inversion H; subst.
      rewrite app_nil_r. apply incl_cons; [now left|]. apply incl_tl.
      exact (RR2_unionM _ _ (fun k' _ => IH k') _ _ _ _ H1).
    - destruct strict; [discriminate|]. cbn in H. inversion H; subst. apply incl_cons; [now left|apply incl_nil_l].
  Qed.

  Theorem keys_reported_read e : kfrag e = true -> forall o, RR2 (keys e o).
  Proof.
    induction e using expr_ind'; intros Hk o; cbn [kfrag] in Hk; try discriminate.
    - rewrite keys_value_E. apply RR2_ret_nil.
    - rewrite keys_option_E. apply RR2_rd_cons. intros s ks s' l Hr.
      destruct (lookup k (JObj o)) as [[]| |];
        try (cbn in Hr; inversion Hr; subst; apply incl_cons; [now left|apply incl_nil_l]); try discriminate.
      + destruct (has_par s0); [discriminate|].
        apply bind_ok in Hr as (ks0 & s1 & l1 & l2 & H1 & Hr & ->). cbn in Hr. inversion Hr; subst.
        rewrite app_nil_r. apply incl_cons; [now left|]. apply incl_tl.
        exact (RR2_unionM _ _ (fun k' _ => RR2_ref_keys true o rfuel k') _ _ _ _ H1).
      + apply incl_tl. revert Hr. apply RR2_dflt_or. intros d Ed.
        exact (use_opt (fun x => forall o, RR2 (keys x o)) dflt H Hk d Ed o).
    - apply andb_prop in Hk as [K1 K2]. rewrite keys_apply_E.
      apply RR2_split; [now apply IHe1|]. intros a. apply RRx_ret_app. now apply IHe2.
    - apply andb_prop in Hk as [Hk K4]. apply andb_prop in Hk as [Hk K3]. apply andb_prop in Hk as [K1 K2].
      rewrite keys_bind_E. apply RR2_split; [now apply IHe|]. intros a. apply RRx_pre. intros x.
      apply RRx_ret_app. apply RR2_pick.
      + intros ve Hve. exact (use_snd (fun x => forall o, RR2 (keys x o)) tbl H K3 ve Hve o).
      + apply RR2_dflt_or. intros d Ed. exact (use_opt (fun x => forall o, RR2 (keys x o)) dflt H0 K4 d Ed o).
    - apply andb_prop in Hk as [Hk K4]. apply andb_prop in Hk as [Hk K3]. apply andb_prop in Hk as [K1 K2].
      rewrite keys_switch_E. apply RR2_pre. intros [k|].
      + destruct (negb (hashable k)); [apply RR2_fail|].
        apply RR2_split; [|intros a; apply RRx_ret_app; now apply IHe]. apply RR2_pick.
        * intros ve Hve. exact (use_snd (fun x => forall o, RR2 (keys x o)) tbl H K3 ve Hve o).
        * apply RR2_dflt_or. intros d Ed. exact (use_opt (fun x => forall o, RR2 (keys x o)) dflt H0 K4 d Ed o).
      + apply RR2_dflt_or. intros d Ed. exact (use_opt (fun x => forall o, RR2 (keys x o)) dflt H0 K4 d Ed o).
    - rewrite keys_iter_E. apply RR2_unionM. intros x Hx.
      exact (use_list (fun x => forall o, RR2 (keys x o)) es H Hk x Hx o).
    - apply andb_prop in Hk as [_ K2]. rewrite keys_with_E.
      intros s ks s' l H0. apply bind_ok in H0 as (ks0 & s1 & l1 & l2 & H1 & H2 & ->).
      destruct (filter_preset_incl _ _ _ _ _ _ _ _ _ H2) as [Hi ->]. rewrite app_nil_r.
      eapply incl_tran; [exact Hi|]. exact (IHe K2 _ _ _ _ _ H1).
    - rewrite keys_cached_E. now apply IHe.
    - apply andb_prop in Hk as [Hk K3]. apply andb_prop in Hk as [K1 K2]. rewrite keys_call_E.
      apply RR2_split; [now apply IHe|]. intros a.
      intros s ks s' l H1. apply bind_ok in H1 as (b & s1 & l1 & l2 & Hb & H1 & ->).
      apply bind_ok in H1 as (c & s2 & l3 & l4 & Hc & H1 & ->). cbn in H1. inversion H1; subst.
      exists (b ++ c). split; [reflexivity|]. rewrite app_nil_r, reads_of_app. apply incl_app.
      + apply incl_appl. refine (RR2_unionM _ _ _ _ _ _ _ Hb). intros x Hx.
        exact (use_list (fun x => forall o, RR2 (keys x o)) args H K2 x Hx o).
      + apply incl_appr. refine (RR2_unionM _ _ _ _ _ _ _ Hc). intros x Hx.
        exact (use_list (fun x => forall o, RR2 (keys x o)) kwargs H0 K3 x Hx o).
    - rewrite keys_template_E. apply RR2_split.
      + apply RR2_unionM. intros pe Hpe. exact (use_snd (fun x => forall o, RR2 (keys x o)) ps H Hk pe Hpe o).
      + intros a. apply RRx_ret_app. apply RR2_unionM. intros k _. apply RR2_ref_keys.
    - rewrite keys_comp_E. now apply IHe.
    - rewrite keys_logged_E. now apply IHe.
    - rewrite keys_pipe_E. apply RR2_unionM. intros x Hx.
      exact (use_list (fun x => forall o, RR2 (keys x o)) steps H Hk x Hx o).
  Qed.

  (** ** THE KEYS FRAME: on [kfrag], keys() under [o'] is keys() under [o] whenever the two
      dictionaries hold the same entries under the top-level names that run looks up *)
  Definition KF (e : expr) : Prop :=
    kfrag e = true -> forall o o', nodup_keys o = true -> nodup_keys o' = true ->
    SAG o o' (keys e o) (keys e o').

  Theorem keys_frame_top e : KF e.
  Proof.
    induction e using expr_ind'; intros Hk o o' Ho Ho'; cbn [kfrag] in Hk; try discriminate.
    - rewrite !keys_value_E. apply SAG_refl, static_ret.
    - rewrite !keys_option_E. apply SAG_bind; [apply SAG_rd|]. intros r.
      destruct r as [[]| |]; try (apply SAG_refl; first [apply static_ret|apply static_fail]).
      + destruct (has_par s); [apply SAG_refl, static_fail|].
        apply SAG_bind; [|intros; apply SAG_refl, static_ret]. apply SAG_unionM. intros; apply SAG_ref_keys.
      + apply SAG_dflt_or; [|apply static_fail]. intros d Ed.
        destruct dflt as [d0|]; [|discriminate]. inversion Ed; subst. cbn in *. now apply H.
    - apply andb_prop in Hk as [K1 K2]. rewrite !keys_apply_E.
      apply SAG_bind; [now apply IHe1|]. intros a.
      apply SAG_bind; [now apply IHe2|intros; apply SAG_refl, static_ret].
    - apply andb_prop in Hk as [Hk K4]. apply andb_prop in Hk as [Hk K3]. apply andb_prop in Hk as [K1 K2].
      rewrite !keys_bind_E. apply SAG_bind; [now apply IHe|]. intros a.
      apply SAG_bind; [now apply SAG_pure|]. intros x.
      apply SAG_bind; [|intros; apply SAG_refl, static_ret].
      apply SAG_pick.
      + intros ve Hve. rewrite Forall_forall in H. rewrite forallb_forall in K3. now apply (H ve Hve (K3 ve Hve)).
      + apply SAG_dflt_or; [|apply static_fail]. intros d ->. cbn in *. now apply H0.
    - apply andb_prop in Hk as [Hk K4]. apply andb_prop in Hk as [Hk K3]. apply andb_prop in Hk as [K1 K2].
      rewrite !keys_switch_E. apply SAG_bind.
      { unfold dispatch_value. apply SAG_catch.
        - apply SAG_bind; [now apply SAG_pure|intros; apply SAG_refl, static_ret].
        - intros c ee. destruct (ee && is_some dflt); [apply static_ret|apply static_fail]. }
      intros [k|].
      + destruct (negb (hashable k)); [apply SAG_refl, static_fail|].
        apply SAG_bind; [|intros; apply SAG_bind; [now apply IHe|intros; apply SAG_refl, static_ret]].
        apply SAG_pick.
        * intros ve Hve. rewrite Forall_forall in H. rewrite forallb_forall in K3. now apply (H ve Hve (K3 ve Hve)).
        * apply SAG_dflt_or; [|apply static_fail]. intros d ->. cbn in *. now apply H0.
      + apply SAG_dflt_or; [|apply static_fail]. intros d ->. cbn in *. now apply H0.
    - rewrite !keys_iter_E. apply SAG_unionM. intros x Hx.
      rewrite Forall_forall in H. rewrite forallb_forall in Hk. now apply (H x Hx (Hk x Hx)).
    - (* EWith: the reported keys are asked of the caller's dictionary by the pre-set filter *)
      apply andb_prop in Hk as [Kp Ke]. rewrite !keys_with_E.
      set (mixed := with_opts force p o). set (mixed' := with_opts force p o').
      assert (Hm : nodup_keys mixed = true) by now apply nodup_with_opts.
      assert (Hm' : nodup_keys mixed' = true) by now apply nodup_with_opts.
      destruct (IHe Ke mixed mixed' Hm Hm') as [Hst Hag].
      split; [apply static_bind; [exact Hst|intros; apply static_filter_preset]|].
      destruct Hst as (r & l & _ & Hrun). intros Hread s.
      assert (Hl : tagree o o' (reads_of l)).
      { destruct r as [ks|c ee].
        - rewrite (bind_okE _ _ _ _ _ _ _ (Hrun [])) in Hread. cbn [TraceProofs.after snd] in Hread.
          rewrite reads_of_app in Hread. now apply tagree_app in Hread as [H1 _].
        - now rewrite (bind_errE _ _ _ _ _ _ _ _ (Hrun [])) in Hread. }
      assert (Hlm : tagree mixed mixed' (reads_of l))
        by (intros k Hin; apply tsame_with_opts; auto).
      rewrite (Hrun []) in Hag. cbn [snd] in Hag. specialize (Hag Hlm).
      assert (Hrun' : keys e mixed' s = (r, s, l)) by (rewrite Hag; apply Hrun).
      destruct r as [ks|c ee].
      + rewrite (bind_okE _ _ _ _ _ _ _ Hrun'), (bind_okE _ _ _ _ _ _ _ (Hrun s)).
        assert (Hincl : incl ks (reads_of l)) by exact (keys_reported_read e Ke mixed _ _ _ _ (Hrun [])).
        rewrite (filter_preset_agree force p o o' mixed mixed' ks
                   (tagree_incl _ _ _ _ Hincl Hl) (tagree_incl _ _ _ _ Hincl Hlm)).
        reflexivity.
      + now rewrite (bind_errE _ _ _ _ _ _ _ _ Hrun'), (bind_errE _ _ _ _ _ _ _ _ (Hrun s)).
    - rewrite !keys_cached_E. now apply IHe.
    - apply andb_prop in Hk as [Hk K3]. apply andb_prop in Hk as [K1 K2]. rewrite !keys_call_E.
      apply SAG_bind; [now apply IHe|]. intros a.
      apply SAG_bind.
      { apply SAG_unionM. intros x Hx. rewrite Forall_forall in H. rewrite forallb_forall in K2.
        now apply (H x Hx (K2 x Hx)). }
      intros b. apply SAG_bind; [|intros; apply SAG_refl, static_ret].
      apply SAG_unionM. intros x Hx. rewrite Forall_forall in H0. rewrite forallb_forall in K3.
      now apply (H0 x Hx (K3 x Hx)).
    - rewrite !keys_template_E. apply SAG_bind.
      { apply SAG_unionM. intros pe Hpe. rewrite Forall_forall in H. rewrite forallb_forall in Hk.
        now apply (H pe Hpe (Hk pe Hpe)). }
      intros a. apply SAG_bind; [|intros; apply SAG_refl, static_ret].
      apply SAG_unionM. intros; apply SAG_ref_keys.
    - rewrite !keys_comp_E. now apply IHe.
    - rewrite !keys_logged_E. now apply IHe.
    - rewrite !keys_pipe_E. apply SAG_unionM. intros x Hx.
      rewrite Forall_forall in H. rewrite forallb_forall in Hk. now apply (H x Hx (Hk x Hx)).
  Qed.

  Lemma key_insert_In k x l : In x (key_insert k l) <-> x = k \/ In x l.
  Proof.
    induction l as [|k' l IH]; cbn [key_insert].
    - split; [intros [<-|[]]; auto|intros [->|[]]; left; reflexivity].
    - destruct (key_ltb k k').
      + split; [intros [<-|H]; auto|intros [->|H]; [now left|now right]].
      + destruct (key_eqb k k') eqn:E.
        * apply key_eqb_eq in E. subst k'. split; [auto|intros [->|H]; [now left|exact H]].
        * split.
          -- intros [<-|H]; [right; now left|]. apply IH in H as [->|H]; [now left|right; now right].
          -- intros [->|[<-|H]]; [right; apply IH; now left|now left|right; apply IH; now right].
  Qed.
  Lemma key_sort_In x l : In x (key_sort l) <-> In x l.
  Proof.
    induction l as [|k l IH]; [reflexivity|].
    cbn [key_sort fold_right]. fold (key_sort l). rewrite key_insert_In, IH.
    split; (intros [H|H]; [left; now symmetry|right; exact H]).
  Qed.

  (** the fingerprint looks only at the values under the reported keys *)
  Lemma fingerprint_of_agree ks o o' :
    tagree o o' ks -> fingerprint_of store ks o' = fingerprint_of store ks o.
  Proof.
    intros H. unfold fingerprint_of.
    assert (Hs : forall l, (forall k, In k l -> In k ks) ->
      mapM store (fun k => match lookup k (JObj o') with Found v => ret (k, v) | Absent => Eval.fail store (CKey k) false | TypeErr => Eval.fail store CType false end) l =
      mapM store (fun k => match lookup k (JObj o) with Found v => ret (k, v) | Absent => Eval.fail store (CKey k) false | TypeErr => Eval.fail store CType false end) l).
    { induction l as [|k l IH]; intros Hl; [reflexivity|]. cbn [mapM].
      rewrite (tsame_lookup o o' k (H k (Hl k (or_introl eq_refl)))). rewrite IH; [reflexivity|].
      intros x Hx. apply Hl. now right. }
    apply Hs. intros k Hk. exact (proj1 (key_sort_In k ks) Hk).
  Qed.

  (** ** (3) an irrelevant change leaves the fingerprint alone.  [o'] may differ from [o] in any
      top-level entry whose name no key of the keys()-run starts with (added, changed, removed)
      and in the order of the entries. *)
  Theorem irrelevant_change_same_fingerprint e o o' :
    kfrag e = true -> nodup_keys o = true -> nodup_keys o' = true ->
    tagree o o' (reads_of (fp_log e o)) ->
    forall s, fingerprint e o' s = fingerprint e o s.
  Proof.
    intros Hk Ho Ho' Hag s.
    destruct (keys_frame_top e Hk o o' Ho Ho') as [Hst Hkeys].
    destruct Hst as (r & l & _ & Hrun).
    unfold fp_log, TraceProofs.fingerprint in Hag.
    unfold TraceProofs.fingerprint.
    assert (Hl : tagree o o' (reads_of l)).
    { destruct r as [ks|c ee].
      - rewrite (bind_okE _ _ _ _ _ _ _ (Hrun [])) in Hag. cbn [TraceProofs.after snd] in Hag.
        rewrite reads_of_app in Hag. now apply tagree_app in Hag as [H1 _].
      - now rewrite (bind_errE _ _ _ _ _ _ _ _ (Hrun [])) in Hag. }
    rewrite (Hrun []) in Hkeys. cbn [snd] in Hkeys. specialize (Hkeys Hl).
    assert (Hrun' : keys e o' s = (r, s, l)) by (rewrite Hkeys; apply Hrun).
    destruct r as [ks|c ee].
    - rewrite (bind_okE _ _ _ _ _ _ _ Hrun'), (bind_okE _ _ _ _ _ _ _ (Hrun s)).
      assert (Hincl : incl ks (reads_of l)) by exact (keys_reported_read e Hk o _ _ _ _ (Hrun [])).
      now rewrite (fingerprint_of_agree ks o o' (tagree_incl _ _ _ _ Hincl Hl)).
    - now rewrite (bind_errE _ _ _ _ _ _ _ _ Hrun'), (bind_errE _ _ _ _ _ _ _ _ (Hrun s)).
  Qed.

  Corollary irrelevant_change_same_fp_res e o o' :
    kfrag e = true -> nodup_keys o = true -> nodup_keys o' = true ->
    tagree o o' (reads_of (fp_log e o)) -> fp_res e o' = fp_res e o /\ fp_log e o' = fp_log e o.
  Proof.
    intros Hk Ho Ho' Hag. unfold fp_res, fp_log.
    now rewrite (irrelevant_change_same_fingerprint e o o' Hk Ho Ho' Hag []).
  Qed.

  (** the two shapes of an irrelevant change named in the property *)
  (** (a) setting (adding or changing) a top-level entry no looked-up key starts with *)
  Definition starts_with (s : seg) (k : key) : bool :=
    match k with [] => true | s' :: _ => seg_eqb s s' end.
  Lemma tagree_dset o s v ks :
    forallb (fun k => negb (starts_with s k)) ks = true -> tagree o (dset s v o) ks.
  Proof.
    intros H k Hk. rewrite forallb_forall in H. specialize (H k Hk).
    destruct k as [|s' k]; [discriminate|]. cbn [starts_with] in H. apply negb_true_iff in H.
    cbn [tsame]. apply dget_dset_other. rewrite seg_eqb_sym. exact H.
  Qed.

  (** (b) permuting the top-level order *)
  Lemma dget_notin s (m : dict) : existsb (fun kv => seg_eqb s (fst kv)) m = false -> dget s m = None.
  Proof.
    induction m as [|[k v] m IH]; [reflexivity|]. cbn [existsb fst dget]. intros H.
    apply orb_false_elim in H as [H1 H2]. rewrite H1. now apply IH.
  Qed.
  Lemma existsb_perm s (m m' : dict) :
    Permutation m m' ->
    existsb (fun kv => seg_eqb s (fst kv)) m' = existsb (fun kv => seg_eqb s (fst kv)) m.
  Proof.
    induction 1 as [|x l l' _ IH|x y l|l l' l'' _ IH1 _ IH2]; cbn [existsb].
    - reflexivity.
    - now rewrite IH.
    - destruct (seg_eqb s (fst x)), (seg_eqb s (fst y)); reflexivity.
    - now rewrite IH2, IH1.
  Qed.
  Lemma nodup_perm (m m' : dict) : Permutation m m' -> nodup_keys m = true -> nodup_keys m' = true.
  Proof.
    induction 1 as [|[k v] l l' Hp IH|[k v] [k' v'] l|l l' l'' _ IH1 _ IH2]; intros H.
    - reflexivity.
    - cbn [nodup_keys] in *. apply andb_prop in H as [H1 H2]. rewrite (IH H2), andb_true_r.
      now rewrite (existsb_perm k l l' Hp).
    - cbn [nodup_keys existsb fst] in *. apply andb_prop in H as [H1 H2]. apply andb_prop in H2 as [H2 H3].
      apply negb_true_iff in H1. apply orb_false_elim in H1 as [H1a H1b].
      apply negb_true_iff in H2. rewrite H3, H2, H1b. rewrite seg_eqb_sym, H1a. reflexivity.
    - auto.
  Qed.
  Lemma dget_perm s (m m' : dict) : Permutation m m' -> nodup_keys m = true -> dget s m' = dget s m.
  Proof.
    induction 1 as [|[k v] l l' Hp IH|[k v] [k' v'] l|l l' l'' Hp1 IH1 Hp2 IH2]; intros H.
    - reflexivity.
    - cbn [dget]. cbn [nodup_keys] in H. apply andb_prop in H as [_ H2]. now rewrite (IH H2).
    - cbn [dget]. destruct (seg_eqb s k') eqn:E1, (seg_eqb s k) eqn:E2; try reflexivity.
      apply seg_eqb_eq in E1, E2. subst k k'. cbn [nodup_keys existsb fst] in H.
      rewrite seg_eqb_refl in H. discriminate.
    - rewrite (IH2 (nodup_perm _ _ Hp1 H)). now apply IH1.
  Qed.
  Lemma tagree_perm o o' ks :
    Permutation o o' -> nodup_keys o = true -> ~ In [] ks -> tagree o o' ks.
  Proof.
    intros Hp Ho Hnil k Hk. destruct k as [|s k]; [contradiction|]. cbn [tsame]. now apply dget_perm.
  Qed.

  (** ** (3) + (2): evaluating under the irrelevantly changed dictionary after the original one
      is a hit — the stored value comes back, no body, no effect, no log request *)
  Theorem irrelevant_change_is_hit cid e o o' s v s1 l hs :
    kfrag e = true -> nodup_keys o = true -> nodup_keys o' = true ->
    cache_off o = false -> cache_off o' = false ->
    eval (ECached (CMem cid) e) o s = (Ok v, s1, l) ->
    tagree o o' (reads_of (fp_log e o)) ->
    let s2 := hist_store hs s1 in
    exists v', eval (ECached (CMem cid) e) o' s2 = (Ok v', s2, hit_log cid e o') /\
               code_free (hit_log cid e o') = true.
  Proof.
    intros Hk Ho Ho' Hc Hc' He Hag.
    destruct (irrelevant_change_same_fp_res e o o' Hk Ho Ho' Hag) as [Hfp _].
    exact (miss_then_hit cid e o o' s v s1 l hs (kfrag_kstatic e Hk) Hc Hc' He Hfp).
  Qed.

  (** the same for a dataset: the caller's dictionaries [o], [o'] reach the cached region
      overlaid with the dataset's default and pre-set options *)
  Lemma tagree_ds_opts d o o' ks :
    nodup_keys d.(ds_options) = true -> nodup_keys o = true -> nodup_keys o' = true ->
    tagree o o' ks -> tagree (ds_opts d o) (ds_opts d o') ks.
  Proof.
    intros Hp Ho Ho' H k Hk. unfold ds_opts. apply tsame_mix_dish; [exact Hp|].
    apply tsame_mix_ing; auto.
  Qed.
  Lemma nodup_ds_opts d o :
    nodup_keys d.(ds_default_options) = true -> nodup_keys (ds_opts d o) = true.
  Proof. intros Hd. unfold ds_opts, mix. apply nodup_mix_loop. now apply nodup_mix_loop. Qed.

  Theorem dataset_irrelevant_change_is_hit d cid o o' s v s1 l hs :
    d.(ds_cache) = CMem cid -> kfrag (ds_inner d) = true ->
    nodup_keys d.(ds_options) = true -> nodup_keys d.(ds_default_options) = true ->
    nodup_keys o = true -> nodup_keys o' = true ->
    cache_off (ds_opts d o) = false -> cache_off (ds_opts d o') = false ->
    eval (dataset_expr d) o s = (Ok v, s1, l) ->
    tagree o o' (reads_of (fp_log (ds_inner d) (ds_opts d o))) ->
    let s2 := hist_store hs s1 in
    exists v', eval (dataset_expr d) o' s2 = (Ok v', s2, hit_log cid (ds_inner d) (ds_opts d o')) /\
               code_free (hit_log cid (ds_inner d) (ds_opts d o')) = true.
  Proof.
    intros Hc Hk Hp Hd Ho Ho' Hoff Hoff' He Hag s2.
    rewrite eval_dataset_node, Hc in He.
    destruct (irrelevant_change_is_hit cid (ds_inner d) (ds_opts d o) (ds_opts d o') s v s1 l hs Hk
                (nodup_ds_opts d o Hd) (nodup_ds_opts d o' Hd) Hoff Hoff' He
                (tagree_ds_opts d o o' _ Hp Ho Ho' Hag)) as (v' & He' & Hcf).
    exists v'. split; [|exact Hcf]. rewrite eval_dataset_node, Hc. exact He'.
  Qed.

  (** the cache switch options live under the top-level name LABREA *)
  Lemma cache_off_same_labrea o o' :
    dget (SName A_LABREA) o' = dget (SName A_LABREA) o -> cache_off o' = cache_off o.
  Proof.
    intros H. unfold TraceProofs.cache_off, cache_opt_off, flag_at, k_cache_disabled, k_cache_disable.
    cbn [lookup]. now rewrite H.
  Qed.

  (** the two shapes spelled out: a repeat with the top-level order permuted … *)
  Theorem permuted_options_is_hit cid e o o' s v s1 l hs :
    kfrag e = true -> nodup_keys o = true -> Permutation o o' ->
    ~ In [] (reads_of (fp_log e o)) -> cache_off o = false ->
    eval (ECached (CMem cid) e) o s = (Ok v, s1, l) ->
    let s2 := hist_store hs s1 in
    exists v', eval (ECached (CMem cid) e) o' s2 = (Ok v', s2, hit_log cid e o') /\
               code_free (hit_log cid e o') = true.
  Proof.
    intros Hk Ho Hp Hnil Hc He.
    apply (irrelevant_change_is_hit cid e o o' s v s1 l hs Hk Ho (nodup_perm o o' Hp Ho) Hc); [|exact He|].
    - rewrite (cache_off_same_labrea o o'); [exact Hc|]. now apply dget_perm.
    - now apply tagree_perm.
  Qed.

  (** … and a repeat with a top-level entry added or changed that no looked-up key starts with *)
  Theorem unmentioned_key_is_hit cid e o nm x s v s1 l hs :
    kfrag e = true -> nodup_keys o = true -> nm <> SName A_LABREA ->
    forallb (fun k => negb (starts_with nm k)) (reads_of (fp_log e o)) = true ->
    cache_off o = false ->
    eval (ECached (CMem cid) e) o s = (Ok v, s1, l) ->
    let s2 := hist_store hs s1 in
    let o' := dset nm x o in
    exists v', eval (ECached (CMem cid) e) o' s2 = (Ok v', s2, hit_log cid e o') /\
               code_free (hit_log cid e o') = true.
  Proof.
    intros Hk Ho Hnm Hun Hc He.
    apply (irrelevant_change_is_hit cid e o (dset nm x o) s v s1 l hs Hk Ho (nodup_dset nm x o Ho) Hc); [|exact He|].
    - rewrite (cache_off_same_labrea o (dset nm x o)); [exact Hc|].
      apply dget_dset_other. apply seg_eqb_neq. congruence.
    - now apply tagree_dset.
  Qed.

  (** ** what is NOT memoized: NoCache nodes, and evaluations with the cache switched off (by the
      [labrea.cache.disabled()] context or by option) evaluate their expression every time *)
  Theorem nocache_evaluates_every_time e o s : eval (ECached CNone e) o s = eval e o s.
  Proof. rewrite eval_cached_none_E, wrap_eval_out. apply wrap_out_eval. Qed.
  Theorem cache_off_evaluates_every_time cid e o s :
    cache_off o = true -> eval (ECached (CMem cid) e) o s = eval e o s.
  Proof. intros Hc. rewrite eval_cached_mem_E, wrap_eval_out, Hc. apply wrap_out_eval. Qed.

  (** ** with_options / with_default_options derivatives use the SAME cache and the same cached
      region: an evaluation of a derivative after one of the original dataset (or the other way
      round) under dictionaries that give the region the same fingerprint is a hit *)
  Lemma ds_inner_with_options d p :
    d.(ds_effects_disabled) = false -> ds_inner (ds_with_options d p) = ds_inner d.
  Proof. intros H. unfold ds_inner, ds_calc. cbn. now rewrite H. Qed.
  Lemma ds_inner_with_default_options d p :
    d.(ds_effects_disabled) = false -> ds_inner (ds_with_default_options d p) = ds_inner d.
  Proof. intros H. unfold ds_inner, ds_calc. cbn. now rewrite H. Qed.

  Theorem derivative_shares_entries d p cid o1 o2 s v s1 l hs :
    d.(ds_cache) = CMem cid -> d.(ds_effects_disabled) = false -> kstatic (ds_inner d) = true ->
    let d' := ds_with_options d p in
    cache_off (ds_opts d o1) = false -> cache_off (ds_opts d' o2) = false ->
    eval (dataset_expr d) o1 s = (Ok v, s1, l) ->
    fp_res (ds_inner d) (ds_opts d' o2) = fp_res (ds_inner d) (ds_opts d o1) ->
    let s2 := hist_store hs s1 in
    exists v', eval (dataset_expr d') o2 s2 = (Ok v', s2, hit_log cid (ds_inner d) (ds_opts d' o2)) /\
               code_free (hit_log cid (ds_inner d) (ds_opts d' o2)) = true.
  Proof.
    intros Hc Hed Hk d' Hoff1 Hoff2 H1 Hfp s2. rewrite eval_dataset_node, Hc in H1.
    destruct (miss_then_hit cid (ds_inner d) (ds_opts d o1) (ds_opts d' o2) s v s1 l hs Hk Hoff1 Hoff2 H1 Hfp)
      as (v' & He & Hcf).
    exists v'. split; [|exact Hcf]. rewrite eval_dataset_node.
    unfold d'. rewrite (ds_inner_with_options d p Hed). cbn [ds_with_options ds_cache]. rewrite Hc. exact He.
  Qed.
End Memo.
