(** C05 — an INDEPENDENT, declarative specification of the combinators whose code is structurally
    non-trivial, and the proof that [Spec.sem] (hence, by the refinement theorem of
    Proofs/SpecProofs.v, the code-structured interpreter [Eval.eval]) computes it.

    [Spec.sem] itself is "eval with the effects erased": the same clause-by-clause recursion as
    [Eval.eval] with store and event log dropped, sharing [pick], [product], [option_set], … with
    it.  The specification here shares none of that:
    - Map: the assignments are a comprehension over the standard library's [list_prod] ([cart]),
      also characterised by membership and, position by position, by mixed-radix counting (last
      key fastest); the dictionary an assignment denotes is characterised by what [lookup] returns
      in it ([overlays]), not by how it is built; the lazily produced sequence is "all elements up
      to and including the first failing one" ([upto_first_bad], a [firstn]);
    - Coalesce: [List.find] over the list of the members' outcomes, else [List.last];
    - switch / bind / case-when: [List.find] in the table / the case list. *)
From Coq Require Import List NArith ZArith Bool Lia PeanoNat.
Import ListNotations.
From LV Require Import Model.Base Model.Template Model.Eval Model.Derived Model.EvalRun Model.Spec
  Proofs.BaseProofs Proofs.EvalProofs Proofs.SpecProofs Proofs.C08Overlay.
Local Open Scope spec_scope.

(** ** The cartesian product, independently of [Eval.product] *)
Fixpoint cart {A} (ls : list (list A)) : list (list A) :=
  match ls with
  | [] => [[]]
  | l :: ls' => map (fun xr => fst xr :: snd xr) (list_prod l (cart ls'))
  end.

Lemma product_is_cart {A} (ls : list (list A)) : product ls = cart ls.
Proof.
  induction ls as [|l ls IH]; [reflexivity|].
  cbn [product cart]. rewrite IH. clear IH.
  induction l as [|a l IHl]; [reflexivity|].
  cbn [flat_map list_prod]. rewrite map_app, map_map, IHl. reflexivity.
Qed.

(** membership: exactly the lists that pick one element from each factor, in order *)
Lemma in_cart {A} (ls : list (list A)) : forall combo,
  In combo (cart ls) <-> Forall2 (fun x l => In x l) combo ls.
Proof.
  induction ls as [|l ls IH]; intros combo.
  - cbn [cart In]. split.
    + intros [<-|[]]. constructor.
    + intros H. inversion H. now left.
  - cbn [cart]. rewrite in_map_iff. split.
    + intros [[x r] [<- Hin]]. apply in_prod_iff in Hin as [Hx Hr]. cbn [fst snd].
      constructor; [exact Hx|]. now apply IH.
    + intros H. inversion H as [|x l0 r ls0 Hx Hr]; subst.
      exists (x, r). split; [reflexivity|]. apply in_prod_iff. split; [exact Hx|]. now apply IH.
Qed.

(** order: the i-th combination is the mixed-radix representation of i, the LAST factor being
    the least significant digit (itertools.product order) *)
Definition radix {A} (ls : list (list A)) : nat := fold_right (fun l n => (length l * n)%nat) 1%nat ls.

Fixpoint digits {A} (d : A) (ls : list (list A)) (i : nat) : list A :=
  match ls with
  | [] => []
  | l :: ls' => nth (i / radix ls') l d :: digits d ls' (i mod radix ls')
  end.

Lemma cart_length {A} (ls : list (list A)) : length (cart ls) = radix ls.
Proof. rewrite <- product_is_cart. apply product_length. Qed.

Lemma nth_cart {A} (d : A) (ls : list (list A)) : forall i,
  (i < radix ls)%nat -> nth i (cart ls) [] = digits d ls i.
Proof.
  induction ls as [|l ls IH]; intros i Hi.
  - cbn [radix fold_right] in Hi. assert (i = 0%nat) by lia. subst. reflexivity.
  - rewrite <- product_is_cart. cbn [product digits]. rewrite product_is_cart.
    change (radix (l :: ls)) with (length l * radix ls)%nat in Hi.
    set (m := radix ls) in *.
    assert (Hm : (0 < m)%nat) by (destruct m; [lia|lia]).
    revert i Hi. induction l as [|a l IHl]; intros i Hi; [cbn in Hi; lia|].
    cbn [flat_map]. destruct (Nat.lt_ge_cases i m) as [Hlt|Hge].
    + rewrite app_nth1 by (rewrite map_length, cart_length; exact Hlt).
      rewrite (nth_indep _ [] (a :: []))
        by (rewrite map_length, cart_length; exact Hlt).
      change (a :: []) with ((fun r => a :: r) []). rewrite map_nth.
      rewrite Nat.div_small, Nat.mod_small by exact Hlt. cbn [nth]. f_equal. now apply IH.
    + rewrite app_nth2 by (rewrite map_length, cart_length; exact Hge).
      rewrite map_length, cart_length. fold m.
      cbn [length] in Hi.
      rewrite IHl by lia.
      assert (E : i = ((i - m) + 1 * m)%nat) by lia.
      rewrite E at 3 4. rewrite Nat.div_add, Nat.mod_add by lia.
      replace ((i - m) / m + 1)%nat with (S ((i - m) / m)) by lia. reflexivity.
Qed.

(** ** "all elements up to and including the first bad one" *)
Fixpoint leading {A} (good : A -> bool) (l : list A) : nat :=
  match l with
  | [] => 0
  | a :: l' => if good a then S (leading good l') else 0
  end.

Definition upto_first_bad {A} (good : A -> bool) (l : list A) : list A := firstn (S (leading good l)) l.

Lemma upto_first_bad_all_good {A} (good : A -> bool) l : forallb good l = true -> upto_first_bad good l = l.
Proof.
  unfold upto_first_bad. induction l as [|a l IH]; intros H; [reflexivity|].
  cbn [forallb] in H. apply andb_prop in H as [Ha Hl]. cbn [leading]. rewrite Ha.
  cbn [firstn]. f_equal. now apply IH.
Qed.

Lemma upto_first_bad_split {A} (good : A -> bool) pre b post :
  forallb good pre = true -> good b = false -> upto_first_bad good (pre ++ b :: post) = pre ++ [b].
Proof.
  unfold upto_first_bad. induction pre as [|a pre IH]; intros H Hb.
  - cbn [app leading]. rewrite Hb. reflexivity.
  - cbn [forallb] in H. apply andb_prop in H as [Ha Hl]. cbn [app leading]. rewrite Ha.
    cbn [firstn]. f_equal. now apply IH.
Qed.

Section MapSpec.
  Variable u : N -> list value -> cres.
  Variable fuel : nat.
  Notation sem := (Spec.sem u fuel).
  Notation semv := (Spec.sem_valid u fuel).
  Ltac unf := cbn [Spec.sem Spec.sem_valid]; fold sem; fold semv.

  (** ** Map.  The assignments: one per element of the cartesian product of the evaluated
      iterables, each pairing the keys (in declaration order) with the chosen elements *)
  Definition assignments (ks : list key) (xss : list (list value)) : list (list (key * value)) :=
    map (fun combo => combine ks combo) (cart xss).

  (** the i-th assignment pairs the keys with the mixed-radix digits of i *)
  Lemma nth_assignments (ks : list key) xss i :
    (i < radix xss)%nat -> nth i (assignments ks xss) [] = combine ks (digits VMissing xss i).
  Proof.
    intros H. unfold assignments.
    rewrite (nth_indep _ [] (combine ks [])) by (rewrite map_length, cart_length; exact H).
    rewrite (map_nth (fun combo => combine ks combo)). f_equal. now apply nth_cart.
  Qed.

  (** one element of the result: the pair (assignment, value) — or, the evaluation being lazy,
      the failure deferred to whoever consumes that element *)
  Definition map_elem (ro : list (key * value) * res value) : value :=
    match snd ro with
    | Ok v => VT T_TUPLE [row_dict (fst ro); v]
    | Err c _ => VErr c
    end.

  (** an element after which the iteration cannot go on: it fails, or holds a deferred failure *)
  Definition outcome_ok (ro : list (key * value) * res value) : bool :=
    match snd ro with Ok v => negb (is_some (deep_err v)) | Err _ _ => false end.

  Definition modelled (r : res value) : bool :=
    match r with Err c _ => negb (is_unmodelled c) | Ok _ => true end.

  Lemma smap_rows_ok its o xss :
    Forall2 (iterates u fuel o) its xss ->
    smap_rows (fun x => sem x o) its = Ok (assignments (map fst its) xss).
  Proof.
    intros Hi. unfold smap_rows, assignments. rewrite (rmapM_ok _ its xss).
    - cbn [rbind]. now rewrite product_is_cart.
    - eapply Forall2_imp; [|exact Hi]. intros ke vs (v & Hv & Hf). cbn beta. now rewrite Hv.
  Qed.

  (** the value of a Map whose iterables evaluate to the collections [xss], given for each
      assignment the dictionary [osf row] it denotes: the elements (assignment, value of the body
      under the caller's options overlaid by that dictionary), in the order of [cart], up to and
      including the first one that fails *)
  Theorem map_value_spec e its o xss (osf : list (key * value) -> dict) :
    Forall2 (iterates u fuel o) its xss ->
    let rows := assignments (map fst its) xss in
    (forall row, In row rows -> srow_options row = Ok (osf row)) ->
    (forall row, In row rows -> modelled (sem e (mix o (osf row))) = true) ->
    sem (EMap e its) o =
      Ok (VT T_ITER (map map_elem
                      (upto_first_bad outcome_ok
                         (map (fun row => (row, sem e (mix o (osf row)))) rows)))).
  Proof.
    intros Hi rows Hos Hmod. unf. rewrite (smap_rows_ok its o xss Hi). cbn [rbind]. fold rows.
    assert (E1 : rmapM (fun row => os <~ srow_options row ;; Ok (row, os)) rows =
                 Ok (map (fun row => (row, osf row)) rows)).
    { clear Hmod. induction rows as [|row rows' IH]; [reflexivity|].
      cbn [rmapM]. rewrite (Hos row (or_introl eq_refl)). cbn [rbind].
      fold (rmapM (fun row => os <~ srow_options row ;; Ok (row, os))).
      rewrite IH by (intros r Hr; apply Hos; now right). reflexivity. }
    rewrite E1. cbn [rbind]. clear E1 Hos.
    match goal with
    | |- as_ee (rbind ?G _) = _ =>
        assert (E2 : G = Ok (map map_elem (upto_first_bad outcome_ok
                               (map (fun row => (row, sem e (mix o (osf row)))) rows))))
    end.
    { induction rows as [|row rows' IH]; [reflexivity|].
      cbn [map]. pose proof (Hmod row (or_introl eq_refl)) as Hm.
      unfold upto_first_bad. cbn [leading]. unfold outcome_ok at 1. cbn [snd].
      destruct (sem e (mix o (osf row))) as [r|c ee] eqn:Er.
      - cbn [rbind]. destruct (deep_err r) as [c|] eqn:Ed; cbn [is_some negb].
        + reflexivity.
        + rewrite IH by (intros r0 Hr0; apply Hmod; now right). cbn [rbind rcatch firstn map].
          unfold map_elem at 2. cbn [snd fst]. reflexivity.
      - cbn [rbind]. unfold modelled in Hm. destruct c; try discriminate Hm; reflexivity. }
    rewrite E2. reflexivity.
  Qed.

  (** an iterable that cannot be evaluated, or is not a collection, or holds a deferred failure
      (all earlier ones being fine): the Map fails with that failure, before any element *)
  Theorem map_iterable_fails e pre k it post o xss c ee :
    Forall2 (iterates u fuel o) pre xss ->
    (sem it o = Err c ee \/ exists v, sem it o = Ok v /\ sforce v = Err c ee) ->
    sem (EMap e (pre ++ (k, it) :: post)) o = Err c true.
  Proof.
    intros Hp Hf. unf. unfold smap_rows.
    assert (E : rmapM (fun kv : key * expr => v <~ sem (snd kv) o ;; sforce v) (pre ++ (k, it) :: post) = Err c ee).
    { induction Hp as [|ke vs pre xss (v & Hv & Hfo) _ IH]; cbn [app rmapM].
      - cbn [snd]. destruct Hf as [->|(v & -> & Hs)]; [reflexivity|]. cbn [rbind]. now rewrite Hs.
      - rewrite Hv. cbn [rbind]. rewrite Hfo. cbn [rbind].
        fold (rmapM (fun kv : key * expr => v <~ sem (snd kv) o ;; sforce v)). now rewrite IH. }
    rewrite E. reflexivity.
  Qed.

  (** *** The dictionary an assignment denotes, characterised by lookups: [d] answers every
      assigned key with the assigned value, and every other key — one that diverges from all
      assigned keys, i.e. is neither a prefix nor an extension of one — as the caller's [o] does *)
  Definition overlays (o : dict) (row : list (key * value)) (d : dict) : Prop :=
    (forall k j, In (k, VJ j) row -> lookup k (JObj d) = Found j) /\
    (forall k', k' <> [] -> forallb is_name k' = true ->
                (forall k, In k (map fst row) -> diverge k k' = true) ->
                lookup k' (JObj o) <> TypeErr ->
                lookup k' (JObj d) = lookup k' (JObj o)).

  (** assigned values: JSON values other than dictionaries (a dictionary would be MERGED into the
      caller's section, C08) *)
  Definition scalar_value (v : value) : bool :=
    match v with
    | VJ (JObj _) => false
    | VJ j => wf_json j
    | _ => false
    end.

  Lemma row_kvs row :
    forallb scalar_value (map snd row) = true ->
    exists kvs,
      flat_map (fun kv : key * value => match json_of_value (snd kv) with
                                        | Some j => [(fst kv, j)] | None => [] end) row = kvs /\
      map fst kvs = map fst row /\
      forallb (fun kv => wf_json (snd kv)) kvs = true /\
      (forall k j, In (k, VJ j) row <-> In (k, j) kvs) /\
      (forall k j, In (k, j) kvs -> forall m, j <> JObj m).
  Proof.
    induction row as [|[k v] row IH]; intros H.
    - exists []. repeat split; auto; intros ? ? [].
    - cbn [map snd forallb] in H. apply andb_prop in H as [Hv H].
      destruct (IH H) as (kvs & E & Hk & Hw & Hin & Hns).
      destruct v as [j| | | |]; try discriminate Hv.
      exists ((k, j) :: kvs). cbn [flat_map snd fst json_of_value app]. rewrite E.
      split; [reflexivity|]. split; [cbn [map fst]; now rewrite Hk|].
      split; [cbn [forallb snd]; rewrite Hw, andb_true_r; destruct j; try exact Hv; discriminate Hv|].
      split.
      + intros k2 j2. cbn [In]. rewrite <- Hin. split; intros [E2|E2]; auto; left; inversion E2; reflexivity.
      + intros k2 j2 [E2|E2]; [|now apply (Hns k2)].
        inversion E2; subst. intros m Hm. subst j2. discriminate Hv.
  Qed.

  Theorem row_overlay_spec o row :
    forallb name_key (map fst row) = true -> pairwise_diverge (map fst row) = true ->
    forallb scalar_value (map snd row) = true ->
    exists os, srow_options row = Ok os /\ overlays o row (mix o os).
  Proof.
    intros Hn Hp Hs. destruct (row_kvs row Hs) as (kvs & E & Hk & Hw & Hin & Hns).
    destruct (option_set_spec kvs []) as (os & Hos & Hwos & Hget & Hfr & Hnon).
    - now rewrite Hk.
    - now rewrite Hk.
    - exact Hw.
    - reflexivity.
    - intros k Hkin. rewrite Hk in Hkin. apply untouched_nil.
      rewrite forallb_forall in Hn. exact (proj1 (name_key_spec _ (Hn k Hkin))).
    - exists os. split.
      + unfold srow_options. rewrite E, Hos.
        destruct row as [|kv row']; [cbn [length Nat.eqb negb]; now rewrite andb_false_r|].
        assert (Hne : os <> []).
        { apply Hnon. destruct kvs; [|discriminate]. destruct kv; discriminate Hk. }
        destruct os; [congruence|reflexivity].
      + split.
        * intros k j Hi. apply Hin in Hi.
          apply lookup_mix_preset_wins; [exact Hwos|now apply Hget|now apply (Hns k)|].
          rewrite forallb_forall in Hn. apply (name_key_spec k). apply Hn. rewrite <- Hk.
          change k with (fst (k, j)). now apply in_map.
        * intros k' Hne Hnm Hd Ht. apply lookup_mix_untouched_deep; try assumption.
          apply (Hfr k'); [now rewrite Hk|]. now apply untouched_nil.
  Qed.

  (** the rows of a Map with well-formed keys over collections of scalars are well-formed *)
  Lemma cart_lengths {A} (xss : list (list A)) combo : In combo (cart xss) -> length combo = length xss.
  Proof. intros H. apply in_cart in H. induction H; cbn [length]; congruence. Qed.

  Lemma map_fst_combine {A B} (ks : list A) : forall (vs : list B),
    length vs = length ks -> map fst (combine ks vs) = ks.
  Proof. induction ks as [|k ks IH]; intros [|v vs] H; try discriminate; [reflexivity|]. cbn. f_equal. apply IH. now inversion H. Qed.

  Lemma map_snd_combine {A B} (ks : list A) : forall (vs : list B),
    length vs = length ks -> map snd (combine ks vs) = vs.
  Proof. induction ks as [|k ks IH]; intros [|v vs] H; try discriminate; [reflexivity|]. cbn. f_equal. apply IH. now inversion H. Qed.

  Definition assignment_dict (o : dict) (row : list (key * value)) : dict :=
    match srow_options row with Ok os => mix o os | Err _ _ => o end.

  (** Map, declaratively, on well-formed inputs: keys that are non-empty paths of names none of
      which is a prefix of another, iterables evaluating to collections of non-dictionary JSON
      values.  There is a dictionary [ov row] for every assignment, characterised by [overlays],
      such that the Map evaluates to the elements (assignment, value of the body under [ov row])
      in the order of [cart], up to and including the first failing one. *)
  Theorem map_spec_wf e its o xss :
    Forall2 (iterates u fuel o) its xss ->
    forallb name_key (map fst its) = true -> pairwise_diverge (map fst its) = true ->
    Forall (fun xs => forallb scalar_value xs = true) xss ->
    let rows := assignments (map fst its) xss in
    (forall row, In row rows -> map fst row = map fst its /\ overlays o row (assignment_dict o row)) /\
    ((forall row, In row rows -> modelled (sem e (assignment_dict o row)) = true) ->
     sem (EMap e its) o =
       Ok (VT T_ITER (map map_elem
                       (upto_first_bad outcome_ok
                          (map (fun row => (row, sem e (assignment_dict o row))) rows))))).
  Proof.
    intros Hi Hn Hp Hsc rows.
    assert (Hlen : length xss = length (map fst its)).
    { rewrite map_length. clear -Hi. induction Hi; cbn [length]; congruence. }
    assert (Hrow : forall row, In row rows ->
              map fst row = map fst its /\ exists os, srow_options row = Ok os /\ overlays o row (mix o os)).
    { intros row Hr. unfold rows, assignments in Hr. apply in_map_iff in Hr as [combo [<- Hc]].
      pose proof (cart_lengths _ _ Hc) as Hl. rewrite Hlen in Hl.
      split; [now apply map_fst_combine|].
      apply row_overlay_spec.
      - now rewrite map_fst_combine.
      - now rewrite map_fst_combine.
      - rewrite map_snd_combine by exact Hl. apply in_cart in Hc.
        clear -Hc Hsc. induction Hc as [|x xs combo xss Hx _ IH]; [reflexivity|].
        inversion Hsc as [|? ? Hxs Hrest]; subst. cbn [forallb]. rewrite IH by exact Hrest.
        rewrite forallb_forall in Hxs. now rewrite (Hxs x Hx). }
    split.
    - intros row Hr. destruct (Hrow row Hr) as (Hk & os & Hos & Hov). split; [exact Hk|].
      unfold assignment_dict. now rewrite Hos.
    - intros Hmod.
      set (osf := fun row => match srow_options row with Ok os => os | Err _ _ => [] end).
      assert (Hd : forall row, In row rows -> assignment_dict o row = mix o (osf row)).
      { intros row Hr. destruct (Hrow row Hr) as (_ & os & Hos & _). unfold assignment_dict, osf. now rewrite Hos. }
      rewrite (map_value_spec e its o xss osf Hi).
      + fold rows. do 4 f_equal. apply map_ext_in. intros row Hr. now rewrite Hd.
      + intros row Hr. fold rows in Hr. destruct (Hrow row Hr) as (_ & os & Hos & _). unfold osf. now rewrite Hos.
      + intros row Hr. fold rows in Hr. rewrite <- Hd by exact Hr. now apply Hmod.
  Qed.

  (** laziness: when the body fails at the i-th assignment (all earlier ones yielding values
      without deferred failures), the Map still evaluates — to the earlier pairs followed by the
      deferred failure — and the failure surfaces when that element is consumed *)
  Theorem map_failure_surfaces_at_element e its o xss pre row post c ee :
    Forall2 (iterates u fuel o) its xss ->
    forallb name_key (map fst its) = true -> pairwise_diverge (map fst its) = true ->
    Forall (fun xs => forallb scalar_value xs = true) xss ->
    assignments (map fst its) xss = pre ++ row :: post ->
    forallb (fun r => outcome_ok (r, sem e (assignment_dict o r))) pre = true ->
    sem e (assignment_dict o row) = Err c ee -> c <> CUnmodelled ->
    (forall r, In r post -> modelled (sem e (assignment_dict o r)) = true) ->
    sem (EMap e its) o =
      Ok (VT T_ITER (map (fun r => map_elem (r, sem e (assignment_dict o r))) pre ++ [VErr c])).
  Proof.
    intros Hi Hn Hp Hsc Hrows Hpre Hrow Hc Hpost.
    destruct (map_spec_wf e its o xss Hi Hn Hp Hsc) as [_ H]. rewrite H.
    - rewrite Hrows, map_app. cbn [map].
      rewrite upto_first_bad_split.
      + rewrite map_app, map_map. cbn [map]. unfold map_elem at 2. cbn [snd]. now rewrite Hrow.
      + rewrite forallb_forall in Hpre |- *. intros x Hx. apply in_map_iff in Hx as [r [<- Hr]]. now apply Hpre.
      + unfold outcome_ok. cbn [snd]. now rewrite Hrow.
    - intros r Hr. rewrite Hrows in Hr. apply in_app_or in Hr as [Hr|[<-|Hr]].
      + rewrite forallb_forall in Hpre. specialize (Hpre r Hr). unfold outcome_ok in Hpre. cbn [snd] in Hpre.
        destruct (sem e (assignment_dict o r)); [reflexivity|discriminate].
      + rewrite Hrow. unfold modelled. destruct c; try reflexivity. congruence.
      + now apply Hpost.
  Qed.
End MapSpec.

(** ** Coalesce, switch, bind, case-when against [List.find] *)
Section FindSpecs.
  Variable u : N -> list value -> cres.
  Variable fuel : nat.
  Notation sem := (Spec.sem u fuel).
  Notation semv := (Spec.sem_valid u fuel).
  Ltac unf := cbn [Spec.sem Spec.sem_valid]; fold sem; fold semv.

  (** what trying one member gives: it is validated, then evaluated *)
  Definition attempt (o : dict) (m : expr) : res value := semv m o ;;> sem m o.

  (** a member is passed over iff trying it fails with an EvaluationError *)
  Definition passed {A} (r : res A) : bool :=
    match r with Err c true => negb (is_unmodelled c) | _ => false end.

  Lemma last_cons {A} (l : list A) : forall a d, last (a :: l) d = last l a.
  Proof. induction l as [|b l IH]; intros a d; [reflexivity|]. cbn [last] in *. destruct l; [reflexivity|apply IH]. Qed.

  Lemma coalesce_go_find {A} (f : expr -> res A) ms : forall lst,
    (fix go (ms : list expr) (last : option (cause * bool)) : res A :=
       match ms with
       | [] => match last with Some (c, ee) => Err c ee | None => Err CUnmodelled false end
       | m :: ms' => rcatch (f m) (fun c ee => if ee then go ms' (Some (c, ee)) else Err c ee)
       end) ms lst =
    match find (fun r => negb (passed r)) (map f ms) with
    | Some r => r
    | None => last (map f ms) (match lst with Some (c, ee) => Err c ee | None => Err CUnmodelled false end)
    end.
  Proof.
    induction ms as [|m ms IH]; intros lst; [destruct lst as [[c ee]|]; reflexivity|].
    cbn [map find]. destruct (f m) as [a|c ee] eqn:E; [reflexivity|].
    destruct ee; [|destruct c; reflexivity].
    destruct c; try reflexivity; cbn [rcatch passed is_unmodelled negb];
      rewrite IH, last_cons; reflexivity.
  Qed.

  (** coalesce: the outcome of the first member that is not passed over — the first that
      validates and evaluates, but ALSO the first whose validation or evaluation fails with anything
      other than an EvaluationError (finding D23) — and, when every member is passed over, the
      failure of the last one *)
  Theorem coalesce_find_spec ms o :
    sem (ECoalesce ms) o =
      as_ee (match find (fun r => negb (passed r)) (map (attempt o) ms) with
             | Some r => r
             | None => last (map (attempt o) ms) (Err CUnmodelled false)
             end).
  Proof. unf. f_equal. apply (coalesce_go_find (attempt o) ms None). Qed.

  Theorem coalesce_valid_find_spec ms o :
    semv (ECoalesce ms) o =
      match find (fun r => negb (passed r)) (map (fun m => semv m o) ms) with
      | Some r => r
      | None => last (map (fun m => semv m o) ms) (Err CUnmodelled false)
      end.
  Proof.
    unf. rewrite <- (coalesce_go_find (fun m => semv m o) ms None).
    generalize (@None (cause * bool)). induction ms as [|m ms IH]; intros lst; [reflexivity|].
    assert (E : (semv m o ;;> semv m o) = semv m o) by (destruct (semv m o) as [[]|]; reflexivity).
    rewrite E. apply rcatch_ext. intros c ee. destruct ee; [apply IH|reflexivity].
  Qed.

  (** table lookup by Python [==] is [List.find] *)
  Definition tbl_find (k : value) (tbl : list (value * expr)) : option expr :=
    option_map snd (find (fun ve => value_eq k (fst ve)) tbl).

  Lemma assoc_v_find k (tbl : list (value * expr)) : assoc_v k tbl = tbl_find k tbl.
  Proof.
    unfold assoc_v, tbl_find. induction tbl as [|[v b] tbl IH]; [reflexivity|].
    cbn [find fst]. destruct (value_eq k v); [reflexivity|exact IH].
  Qed.

  Theorem switch_find_spec disp tbl dflt o :
    sem (ESwitch disp tbl dflt) o =
      match sem disp o with
      | Ok k =>
          if hashable k then
            match tbl_find k tbl with
            | Some b => sem b o
            | None => match dflt with Some d => sem d o | None => Err CSwitch true end
            end
          else Err CType true
      | Err c ee =>
          match dflt with
          | Some d => if is_unmodelled c then Err c true else sem d o
          | None => Err c true
          end
      end.
  Proof. rewrite switch_spec. destruct (sem disp o); [|reflexivity]. now rewrite assoc_v_find. Qed.

  Theorem bind_find_spec src tbl dflt o :
    sem (EBind src tbl dflt) o =
      match sem src o with
      | Ok x =>
          match tbl_find x tbl with
          | Some b => sem b o
          | None => match dflt with Some d => sem d o | None => Err (CUser 0) true end
          end
      | Err c ee => Err c true
      end.
  Proof.
    unf. destruct (sem src o) as [x|c ee]; [|reflexivity]. cbn [rbind].
    rewrite pick_assoc, assoc_v_find.
    destruct (tbl_find x tbl) as [b|]; [apply sem_is_wrapped|].
    destruct dflt; [apply sem_is_wrapped|reflexivity].
  Qed.

  (** case-when: whether a case's condition holds of the dispatch value [x] *)
  Definition case_test (o : dict) (x : value) (cr : expr * expr) : res bool :=
    p <~ sem (fst cr) o ;; b <~ scall_value u p x ;; Ok (truthy b).

  Definition case_decides (o : dict) (x : value) (cr : expr * expr) : bool :=
    match case_test o x cr with Ok false => false | _ => true end.

  (** the first case whose condition is not plainly false decides: its result if the condition
      holds, the condition's failure if it cannot be evaluated; with no such case the default *)
  Theorem case_find_spec disp cases dflt o :
    sem (ECase disp cases dflt) o =
      match sem disp o with
      | Ok x =>
          match find (case_decides o x) cases with
          | Some cr => match case_test o x cr with Ok _ => sem (snd cr) o | Err c _ => Err c true end
          | None => match dflt with Some d => sem d o | None => Err CCase true end
          end
      | Err c ee => Err c true
      end.
  Proof.
    unf. destruct (sem disp o) as [x|c ee]; [|reflexivity]. cbn [rbind].
    induction cases as [|[c r] cases IH].
    - cbn [find]. destruct dflt; [apply sem_is_wrapped|reflexivity].
    - cbn [find]. unfold case_decides at 1.
      assert (Et : case_test o x (c, r) = (p <~ sem c o ;; b <~ scall_value u p x ;; Ok (truthy b)))
        by reflexivity.
      destruct (sem c o) as [p|c0 ee0]; cbn [rbind] in Et |- *.
      + destruct (scall_value u p x) as [b|c0 ee0]; cbn [rbind] in Et |- *.
        * rewrite Et. destruct (truthy b); cbv beta iota.
          -- rewrite Et. apply sem_is_wrapped.
          -- exact IH.
        * rewrite Et. cbv beta iota. rewrite Et. reflexivity.
      + rewrite Et. cbv beta iota. rewrite Et. reflexivity.
  Qed.
End FindSpecs.

(** ** The same, of the code-structured interpreter: transport along the refinement theorem *)
Section OfEval.
  Variable u : N -> list value -> cres.
  Variable fuel : nat.
  Notation evalR e o := (fst (fst (eval unit nc_find nc_store cfg_nc u fuel (fun _ _ => true) e o tt))).
  Notation validR e o := (fst (fst (validate unit nc_find nc_store cfg_nc u fuel (fun _ _ => true) e o tt))).

  Definition iterates_eval (o : dict) (ke : key * expr) (vs : list value) : Prop :=
    exists v, evalR (snd ke) o = Ok v /\ sforce v = Ok vs.

  Lemma iterates_eval_sem o its xss :
    Forall2 (iterates_eval o) its xss -> Forall2 (iterates u fuel o) its xss.
  Proof.
    apply Forall2_imp. intros ke vs (v & Hv & Hf). exists v. split; [|exact Hf].
    now rewrite <- C05_refinement.
  Qed.

  Theorem eval_map_spec_wf e its o xss :
    Forall2 (iterates_eval o) its xss ->
    forallb name_key (map fst its) = true -> pairwise_diverge (map fst its) = true ->
    Forall (fun xs => forallb scalar_value xs = true) xss ->
    let rows := assignments (map fst its) xss in
    (forall row, In row rows -> map fst row = map fst its /\ overlays o row (assignment_dict o row)) /\
    ((forall row, In row rows -> modelled (evalR e (assignment_dict o row)) = true) ->
     evalR (EMap e its) o =
       Ok (VT T_ITER (map map_elem
                       (upto_first_bad outcome_ok
                          (map (fun row => (row, evalR e (assignment_dict o row))) rows))))).
  Proof.
    intros Hi Hn Hp Hsc rows.
    destruct (map_spec_wf u fuel e its o xss (iterates_eval_sem o its xss Hi) Hn Hp Hsc) as [H1 H2].
    split; [exact H1|]. intros Hm. rewrite C05_refinement.
    fold rows in H2.
    rewrite (map_ext _ (fun row => (row, sem u fuel e (assignment_dict o row))))
      by (intros row; now rewrite C05_refinement).
    apply H2. intros row Hr. rewrite <- C05_refinement. now apply Hm.
  Qed.

  Theorem eval_coalesce_find_spec ms o :
    evalR (ECoalesce ms) o =
      as_ee (match find (fun r => negb (passed r))
                        (map (fun m => validR m o ;;> evalR m o) ms) with
             | Some r => r
             | None => last (map (fun m => validR m o ;;> evalR m o) ms) (Err CUnmodelled false)
             end).
  Proof.
    rewrite C05_refinement, coalesce_find_spec.
    rewrite (map_ext (attempt u fuel o) (fun m => validR m o ;;> evalR m o)); [reflexivity|].
    intros m. unfold attempt. now rewrite C05_refinement, C05_refinement_validate.
  Qed.
End OfEval.
