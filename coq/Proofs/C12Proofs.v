(** C12 — failures surface as EvaluationError with the original cause; a failed evaluation of a
    cached node stores nothing.  Lemmas; the statements of the property are in Properties/C12.v.

    What the model carries.  An error is [Err c ee]: the CAUSE [c] (which primitive raise it
    was: a missing option with its key, SwitchError, CaseWhenError, the n-th exception class of
    user code, …) and [ee] (is it an EvaluationError: that alone decides which handlers catch
    it).  The chain of EvaluationError objects that Python builds with `raise … from e` — one
    per nested node, each with its own [.source] — is NOT represented: [wrap_eval] keeps the
    cause and sets [ee].  So the model can state (and we prove) that the cause reaching the top
    is the cause raised at the failing leaf, unchanged by every node on the way; that the
    topmost wrapper is the evaluated object's own ([eval e o = wrap_eval (eval e o)]); and what
    the handlers do.  Identity of [.source] and of the exception object at the end of
    [__cause__] is decided on the implementation by harness/props/c12.py. *)
From Coq Require Import List NArith ZArith Bool Lia.
Import ListNotations.
From LV Require Import Model.Base Model.Template Model.Eval Model.Derived Model.EvalRun
  Proofs.BaseProofs Proofs.EvalProofs Proofs.EvalInd Proofs.FrameProofs Proofs.TraceProofs.

Section C12.
  Variable S : Type.
  Variable mem_find : N -> fp -> S -> option value.
  Variable mem_store : N -> fp -> value -> S -> S.
  Variable cfg : config.
  Variable ucall : N -> list value -> cres.
  Variable rfuel : nat.
  Variable site_ok : expr -> dict -> bool.

  Notation eval := (eval S mem_find mem_store cfg ucall rfuel site_ok).
  Notation validate := (validate S mem_find mem_store cfg ucall rfuel site_ok).
  Notation keys := (keys S mem_find mem_store cfg ucall rfuel site_ok).
  Notation M := (M S).
  Notation bind := (bind S).
  Notation ret := (ret S).
  Notation fail := (fail S).
  Notation emit := (emit S).
  Notation catch := (catch S).
  Notation wrap_eval := (wrap_eval S).
  Notation call_value := (call_value S ucall).
  Notation after := (after S).
  Notation wrap_out := (wrap_out S).
  Notation case_loop := (case_loop S mem_find mem_store cfg ucall rfuel site_ok).
  Notation coal_loop := (coal_loop S mem_find mem_store cfg ucall rfuel site_ok).
  Notation fingerprint := (fingerprint S mem_find mem_store cfg ucall rfuel site_ok).
  Notation miss_path := (miss_path S mem_find mem_store cfg ucall rfuel site_ok).
  Notation store_back := (store_back S mem_find mem_store cfg ucall rfuel site_ok).
  Notation cached_on := (cached_on S mem_find mem_store cfg ucall rfuel site_ok).
  Notation effect_run := (effect_run S mem_find mem_store cfg ucall rfuel site_ok).
  Notation cache_off := (cache_off cfg).

  (** rewriting with a known sub-outcome *)
  Ltac bok H := rewrite (bind_okE S _ _ _ _ _ _ H); cbv beta.
  Ltac berr H := rewrite (bind_errE S _ _ _ _ _ _ _ H).

  (** ** The handlers' bookkeeping: case-when conditions that were false, coalesce members
      that were passed over *)
  Inductive conds_false (o : dict) (x : value) : list (expr * expr) -> S -> S -> list event -> Prop :=
  | cf_nil s : conds_false o x [] s s []
  | cf_cons c r rest s p s1 l1 b s2 l2 s3 l3 :
      eval c o s = (Ok p, s1, l1) -> call_value p x s1 = (Ok b, s2, l2) -> truthy b = false ->
      conds_false o x rest s2 s3 l3 ->
      conds_false o x ((c, r) :: rest) s s3 (l1 ++ l2 ++ l3).

  Lemma case_loop_skip {A} o x (fin : M A) sel pre rest s s1 l1 :
    conds_false o x pre s s1 l1 ->
    case_loop o x fin sel (pre ++ rest) s = after l1 (case_loop o x fin sel rest s1).
  Proof.
    induction 1 as [s|c r pre s p s1 l1 b s2 l2 s3 l3 Hc Hp Hb Hrest IH].
    - cbn [app]. now rewrite after_nil.
    - cbn [app TraceProofs.case_loop]. bok Hc. bok Hp. rewrite Hb.
      fold (case_loop o x fin sel (pre ++ rest)). rewrite IH. rewrite !after_after.
      now rewrite <- !app_assoc.
  Qed.

  (** a member is passed over when its validate-then-evaluate attempt raises an
      EvaluationError (only those are caught) *)
  Inductive skipped (o : dict) : list expr -> S -> S -> list event -> Prop :=
  | sk_nil s : skipped o [] s s []
  | sk_cons m rest s c s1 l1 s2 l2 :
      bind (validate m o) (fun _ => eval m o) s = (Err c true, s1, l1) -> c <> CUnmodelled ->
      skipped o rest s1 s2 l2 ->
      skipped o (m :: rest) s s2 (l1 ++ l2).

  Lemma coal_loop_skip o pre rest s s1 l1 :
    skipped o pre s s1 l1 ->
    forall last, exists last',
      coal_loop o (fun m => eval m o) (pre ++ rest) last s =
        after l1 (coal_loop o (fun m => eval m o) rest last' s1).
  Proof.
    induction 1 as [s|m pre s c s1 l1 s2 l2 Hm Hc Hrest IH]; intros last.
    - exists last. cbn [app]. now rewrite after_nil.
    - destruct (IH (Some (c, true))) as [last' E]. exists last'.
      cbn [app TraceProofs.coal_loop]. rewrite (catch_errE S _ _ _ _ _ _ _ Hm Hc). cbv beta iota.
      fold (coal_loop o (fun m => eval m o) (pre ++ rest)). rewrite E. now rewrite after_after.
  Qed.

  Lemma bind_assoc {A B C} (m : M A) (f : A -> M B) (g : B -> M C) s :
    bind (bind m f) g s = bind m (fun a => bind (f a) g) s.
  Proof.
    unfold Eval.bind. destruct (m s) as [[[a|c ee] s1] l1]; [|reflexivity].
    destruct (f a s1) as [[[b|c ee] s2] l2]; [|reflexivity].
    destruct (g b s2) as [[r s3] l3]. now rewrite app_assoc.
  Qed.

  (** the value of an Option before its domain is looked at *)
  Definition option_base (k : key) (dflt : option expr) (o : dict) : M value :=
    bind (rd S k o) (fun r =>
      match r with
      | TypeErr => fail CType false
      | Absent => match dflt with None => fail (CKey k) true | Some d => eval d o end
      | Found raw =>
          bind (emit_reads S (resolve_reads rfuel o raw) o) (fun _ =>
          bind (of_rres S (resolve rfuel o raw)) (fun j => ret (VJ j)))
      end).
  Lemma option_eval_base k dflt dom o s :
    option_eval S ucall rfuel (fun x => eval x o) k dflt dom o s =
      bind (option_base k dflt o) (fun v =>
        match dom with
        | None => ret v
        | Some de => bind (eval de o) (fun d => bind (in_domain S ucall d v) (fun _ => ret v))
        end) s.
  Proof. rewrite option_eval_E. unfold option_base. now rewrite bind_assoc. Qed.

  Definition dirty_evs (cid : N) (e : expr) (o : dict) : list event :=
    if site_ok e o then [] else [EvDirty cid].
  Definition log_evs (o : dict) : list event :=
    EvLogReq :: (if cfg.(log_ctx_off) || logging_opt_off o then [] else [EvLogEmit]).

  (** ** Strict positions.  [strict_pos e o s x o' s' lpre]: while [e] is evaluated under [o]
      from store [s], the sub-expression [x] is evaluated under [o'] from store [s'], after the
      events [lpre], in a position where NO handler of [e] stands between [x] and [e]'s own
      wrapper.  The premises say that everything [e] does before reaching [x] succeeded.
      Every sub-evaluation performed by [eval] is listed, except the handler positions:
      the dispatch of a switch that has a default, coalesce members other than the last,
      the elements of Iter and the body of Map (deferred). *)
  Inductive strict_pos : expr -> dict -> S -> expr -> dict -> S -> list event -> Prop :=
  | sp_option_default k d dom o s :
      lookup k (JObj o) = Absent -> strict_pos (EOption k (Some d) dom) o s d o s [EvRead k false]
  | sp_option_domain k dflt de o s v s1 l1 :
      option_base k dflt o s = (Ok v, s1, l1) -> strict_pos (EOption k dflt (Some de)) o s de o s1 l1
  | sp_apply_src src fn o s : strict_pos (EApply src fn) o s src o s []
  | sp_apply_fn src fn o s x s1 l1 :
      eval src o s = (Ok x, s1, l1) -> strict_pos (EApply src fn) o s fn o s1 l1
  | sp_bind_src src tbl dflt o s : strict_pos (EBind src tbl dflt) o s src o s []
  | sp_bind_branch src tbl dflt o s x s1 l1 b :
      eval src o s = (Ok x, s1, l1) -> assoc_v x tbl = Some b ->
      strict_pos (EBind src tbl dflt) o s b o s1 l1
  | sp_bind_default src tbl d o s x s1 l1 :
      eval src o s = (Ok x, s1, l1) -> assoc_v x tbl = None ->
      strict_pos (EBind src tbl (Some d)) o s d o s1 l1
  | sp_switch_disp disp tbl o s : strict_pos (ESwitch disp tbl None) o s disp o s []
  | sp_switch_branch disp tbl dflt o s k s1 l1 b :
      eval disp o s = (Ok k, s1, l1) -> hashable k = true -> assoc_v k tbl = Some b ->
      strict_pos (ESwitch disp tbl dflt) o s b o s1 l1
  | sp_switch_default disp tbl d o s k s1 l1 :
      eval disp o s = (Ok k, s1, l1) -> hashable k = true -> assoc_v k tbl = None ->
      strict_pos (ESwitch disp tbl (Some d)) o s d o s1 l1
  | sp_switch_fallback disp tbl d o s c s1 l1 :
      eval disp o s = (Err c true, s1, l1) -> c <> CUnmodelled ->
      strict_pos (ESwitch disp tbl (Some d)) o s d o s1 l1
  | sp_case_disp disp cases dflt o s : strict_pos (ECase disp cases dflt) o s disp o s []
  | sp_case_cond disp pre c r post dflt o s x s1 l1 s2 l2 :
      eval disp o s = (Ok x, s1, l1) -> conds_false o x pre s1 s2 l2 ->
      strict_pos (ECase disp (pre ++ (c, r) :: post) dflt) o s c o s2 (l1 ++ l2)
  | sp_case_result disp pre c r post dflt o s x s1 l1 s2 l2 p s3 l3 b s4 l4 :
      eval disp o s = (Ok x, s1, l1) -> conds_false o x pre s1 s2 l2 ->
      eval c o s2 = (Ok p, s3, l3) -> call_value p x s3 = (Ok b, s4, l4) -> truthy b = true ->
      strict_pos (ECase disp (pre ++ (c, r) :: post) dflt) o s r o s4 (l1 ++ l2 ++ l3 ++ l4)
  | sp_case_default disp cases d o s x s1 l1 s2 l2 :
      eval disp o s = (Ok x, s1, l1) -> conds_false o x cases s1 s2 l2 ->
      strict_pos (ECase disp cases (Some d)) o s d o s2 (l1 ++ l2)
  | sp_coalesce_last pre m o s s1 l1 s2 l2 :
      skipped o pre s s1 l1 -> validate m o s1 = (Ok tt, s2, l2) ->
      strict_pos (ECoalesce (pre ++ [m])) o s m o s2 (l1 ++ l2)
  | sp_map_iterable e pre k x post o s vs s1 l1 :
      mapM S (fun kv => bind (eval (snd kv) o) (fun v => force_elems S v)) pre s = (Ok vs, s1, l1) ->
      strict_pos (EMap e (pre ++ (k, x) :: post)) o s x o s1 l1
  | sp_with force p e o s : strict_pos (EWith force p e) o s e (with_opts force p o) s []
  | sp_cached_none e o s : strict_pos (ECached CNone e) o s e o s []
  | sp_cached_off cid e o s :
      cache_off o = true -> strict_pos (ECached (CMem cid) e) o s e o s []
  | sp_cached_miss cid e o s f s1 l1 :
      cache_off o = false -> fingerprint e o s = (Ok f, s1, l1) -> mem_find cid f s1 = None ->
      strict_pos (ECached (CMem cid) e) o s e o s1 (dirty_evs cid e o ++ l1 ++ [EvCacheExists cid false])
  | sp_cached_lost cid e o s f s1 l1 v0 f2 s2 l2 :
      cache_off o = false -> fingerprint e o s = (Ok f, s1, l1) -> mem_find cid f s1 = Some v0 ->
      fingerprint e o s1 = (Ok f2, s2, l2) -> mem_find cid f2 s2 = None ->
      strict_pos (ECached (CMem cid) e) o s e o s2
        (dirty_evs cid e o ++ l1 ++ [EvCacheExists cid true] ++ l2 ++ [EvCacheGet cid false])
  | sp_call_f p f args kwargs o s : strict_pos (ECall p f args kwargs) o s f o s []
  | sp_call_arg p f pre x post kwargs o s fv s1 l1 vs s2 l2 :
      eval f o s = (Ok fv, s1, l1) -> mapM S (fun y => eval y o) pre s1 = (Ok vs, s2, l2) ->
      strict_pos (ECall p f (pre ++ x :: post) kwargs) o s x o s2 (l1 ++ l2)
  | sp_call_kwarg p f args pre x post o s fv s1 l1 av s2 l2 vs s3 l3 :
      eval f o s = (Ok fv, s1, l1) -> mapM S (fun y => eval y o) args s1 = (Ok av, s2, l2) ->
      mapM S (fun y => eval y o) pre s2 = (Ok vs, s3, l3) ->
      strict_pos (ECall p f args (pre ++ x :: post)) o s x o s3 (l1 ++ l2 ++ l3)
  | sp_template_param str pre p x post o s pvs s1 l1 :
      mapM S (fun pe => bind (eval (snd pe) o) (fun v => ret (fst pe, v))) pre s = (Ok pvs, s1, l1) ->
      strict_pos (ETemplate str (pre ++ (p, x) :: post)) o s x o s1 l1
  | sp_comp_body e effects o s : strict_pos (EComp e effects) o s e o s []
  | sp_comp_effect e pre eff post o s v s1 l1 s2 l2 :
      eval e o s = (Ok v, s1, l1) -> effects_opt_off o = false ->
      iterM S (effect_run o v) pre s1 = (Ok tt, s2, l2) ->
      strict_pos (EComp e (pre ++ eff :: post)) o s eff o s2 (l1 ++ l2)
  | sp_logged e o s : strict_pos (ELogged e) o s e o s (log_evs o)
  | sp_pipe_step pre x post o s fs s1 l1 :
      mapM S (fun y => eval y o) pre s = (Ok fs, s1, l1) ->
      strict_pos (EPipe (pre ++ x :: post)) o s x o s1 l1.

  Lemma dispatch_ok (m : M value) b s k s1 l1 :
    m s = (Ok k, s1, l1) -> dispatch_value S m b s = (Ok (Some k), s1, l1).
  Proof.
    intros H. unfold dispatch_value. erewrite catch_okE; [reflexivity|].
    bok H. unfold after. cbn. now rewrite app_nil_r.
  Qed.
  Lemma dispatch_nodefault_err (m : M value) s c ee s1 l1 :
    m s = (Err c ee, s1, l1) -> dispatch_value S m false s = (Err c ee, s1, l1).
  Proof.
    intros H. unfold dispatch_value.
    assert (Hb : bind m (fun k => ret (Some k)) s = (Err c ee, s1, l1)) by (now berr H).
    assert (Hc : c = CUnmodelled \/ c <> CUnmodelled)
      by (destruct c; first [now left|right; discriminate]).
    destruct Hc as [->|Hne].
    - now rewrite (catch_unmodE S _ _ _ _ _ _ Hb).
    - rewrite (catch_errE S _ _ _ _ _ _ _ Hb Hne). rewrite andb_false_r.
      unfold after. cbn. now rewrite app_nil_r.
  Qed.
  Lemma dispatch_fallback (m : M value) s c s1 l1 :
    m s = (Err c true, s1, l1) -> c <> CUnmodelled -> dispatch_value S m true s = (Ok None, s1, l1).
  Proof.
    intros H Hne. unfold dispatch_value.
    assert (Hb : bind m (fun k => ret (Some k)) s = (Err c true, s1, l1)) by (now berr H).
    rewrite (catch_errE S _ _ _ _ _ _ _ Hb Hne). unfold after. cbn. now rewrite app_nil_r.
  Qed.
  Lemma case_loop_all_false {A} o x (fin : M A) sel cases s s1 l1 :
    conds_false o x cases s s1 l1 -> case_loop o x fin sel cases s = after l1 (fin s1).
  Proof. intros H. rewrite <- (app_nil_r cases). now rewrite (case_loop_skip o x fin sel _ [] _ _ _ H). Qed.

  Ltac fin :=
    rewrite ?wrap_after, ?after_after; unfold TraceProofs.after, TraceProofs.wrap_out;
    cbn [fst snd app]; repeat (rewrite <- app_assoc; cbn [app]); rewrite ?app_nil_r; try reflexivity.

  (** PROPAGATION: a failure in strict position reaches the node's caller with the same cause,
      the same store, and the node's events followed by the failing sub-evaluation's *)
  Theorem strict_pos_propagates e o s x o' s' lpre c ee s'' l :
    strict_pos e o s x o' s' lpre -> eval x o' s' = (Err c ee, s'', l) ->
    eval e o s = (Err c true, s'', lpre ++ l).
  Proof.
    intros Hp Hx. assert (ee = true) as -> by (eapply eval_err_true; eauto).
    destruct Hp.
    - (* option default *)
      rewrite eval_option_unfold, wrap_eval_out, option_eval_E. bok (rd_E S k o s). rewrite H. cbv iota.
      berr Hx. fin.
    - (* option domain *)
      rewrite eval_option_unfold, wrap_eval_out, option_eval_base. bok H. berr Hx. fin.
    - rewrite eval_apply_E, wrap_eval_out. berr Hx. fin.
    - rewrite eval_apply_E, wrap_eval_out. bok H. berr Hx. fin.
    - rewrite eval_bind_E, wrap_eval_out. berr Hx. fin.
    - rewrite eval_bind_E, wrap_eval_out. bok H. rewrite pick_assoc, H0, Hx. fin.
    - rewrite eval_bind_E, wrap_eval_out. bok H. rewrite pick_assoc, H0. cbn [dflt_or]. rewrite Hx. fin.
    - (* switch dispatch, no default *)
      rewrite eval_switch_E, wrap_eval_out. cbn [is_some]. berr (dispatch_nodefault_err _ _ _ _ _ _ Hx). fin.
    - rewrite eval_switch_E, wrap_eval_out. bok (dispatch_ok _ (is_some dflt) _ _ _ _ H).
      rewrite H0. cbn [negb]. rewrite pick_assoc, H1, Hx. fin.
    - rewrite eval_switch_E, wrap_eval_out. bok (dispatch_ok _ (is_some (Some d)) _ _ _ _ H).
      rewrite H0. cbn [negb]. rewrite pick_assoc, H1. cbn [dflt_or]. rewrite Hx. fin.
    - (* the default after a failed dispatch *)
      rewrite eval_switch_E, wrap_eval_out. cbn [is_some]. bok (dispatch_fallback _ _ _ _ _ H H0).
      cbn [dflt_or]. rewrite Hx. fin.
    - rewrite eval_case_E, wrap_eval_out. berr Hx. fin.
    - rewrite eval_case_E, wrap_eval_out. bok H. rewrite (case_loop_skip _ _ _ _ _ _ _ _ _ H0).
      cbn [TraceProofs.case_loop]. berr Hx. fin.
    - rewrite eval_case_E, wrap_eval_out. bok H. rewrite (case_loop_skip _ _ _ _ _ _ _ _ _ H0).
      cbn [TraceProofs.case_loop]. bok H1. bok H2. rewrite H3, Hx. fin.
    - rewrite eval_case_E, wrap_eval_out. bok H. rewrite (case_loop_all_false _ _ _ _ _ _ _ _ H0).
      cbn [dflt_or]. rewrite Hx. fin.
    - (* the last coalesce member *)
      rewrite eval_coalesce_E, wrap_eval_out.
      destruct (coal_loop_skip o pre [m] _ _ _ H None) as [last' E]. rewrite E.
      cbn [TraceProofs.coal_loop].
      assert (Hatt : bind (validate m o) (fun _ => eval m o) s1 = (Err c true, s'', l2 ++ l))
        by (bok H0; rewrite Hx; reflexivity).
      assert (Hc : c = CUnmodelled \/ c <> CUnmodelled)
        by (destruct c; first [now left|right; discriminate]).
      destruct Hc as [->|Hne].
      + rewrite (catch_unmodE S _ _ _ _ _ _ Hatt). fin.
      + rewrite (catch_errE S _ _ _ _ _ _ _ Hatt Hne). cbv iota. fin.
    - (* an iterable of Map *)
      rewrite eval_map_E, wrap_eval_out. unfold map_rows. rewrite bind_assoc.
      assert (HF : (fun kv : key * expr => bind (eval (snd kv) o) (fun v => force_elems S v)) (k, x) s1
                   = (Err c true, s'', l)) by (cbn [snd]; now berr Hx).
      berr (mapM_app_err S _ _ _ post _ _ _ _ _ _ _ _ H HF). fin.
    - rewrite eval_with_E, wrap_eval_out, Hx. fin.
    - rewrite eval_cached_none_E, wrap_eval_out, Hx. fin.
    - rewrite eval_cached_mem_E, wrap_eval_out, H, Hx. fin.
    - (* cached node, miss *)
      rewrite eval_cached_mem_E, wrap_eval_out, H. unfold TraceProofs.cached_on, dirty_evs.
      destruct (site_ok e o).
      + bok (ret_E S tt s). bok H0. bok (eq_refl : get_store S s1 = (Ok s1, s1, [])). rewrite H1.
        bok (emit_E S (EvCacheExists cid false) s1). unfold TraceProofs.miss_path. berr Hx. fin.
      + bok (emit_E S (EvDirty cid) s). bok H0. bok (eq_refl : get_store S s1 = (Ok s1, s1, [])). rewrite H1.
        bok (emit_E S (EvCacheExists cid false) s1). unfold TraceProofs.miss_path. berr Hx. fin.
    - (* cached node, entry seen by exists() but not by get() *)
      rewrite eval_cached_mem_E, wrap_eval_out, H. unfold TraceProofs.cached_on, dirty_evs.
      destruct (site_ok e o).
      + bok (ret_E S tt s). bok H0. bok (eq_refl : get_store S s1 = (Ok s1, s1, [])). rewrite H1.
        bok (emit_E S (EvCacheExists cid true) s1). bok H2.
        bok (eq_refl : get_store S s2 = (Ok s2, s2, [])). rewrite H3.
        bok (emit_E S (EvCacheGet cid false) s2). unfold TraceProofs.miss_path. berr Hx. fin.
      + bok (emit_E S (EvDirty cid) s). bok H0. bok (eq_refl : get_store S s1 = (Ok s1, s1, [])). rewrite H1.
        bok (emit_E S (EvCacheExists cid true) s1). bok H2.
        bok (eq_refl : get_store S s2 = (Ok s2, s2, [])). rewrite H3.
        bok (emit_E S (EvCacheGet cid false) s2). unfold TraceProofs.miss_path. berr Hx. fin.
    - rewrite eval_call_E, wrap_eval_out. berr Hx. fin.
    - rewrite eval_call_E, wrap_eval_out. bok H.
      berr (mapM_app_err S _ _ _ post _ _ _ _ _ _ _ _ H0 Hx). fin.
    - rewrite eval_call_E, wrap_eval_out. bok H. bok H0.
      berr (mapM_app_err S _ _ _ post _ _ _ _ _ _ _ _ H1 Hx). fin.
    - (* a Template parameter *)
      rewrite eval_template_E, wrap_eval_out. unfold template_options. rewrite bind_assoc.
      assert (HF : (fun pe : N * expr => bind (eval (snd pe) o) (fun v => ret (fst pe, v))) (p, x) s1
                   = (Err c true, s'', l)) by (cbn [snd]; now berr Hx).
      berr (mapM_app_err S _ _ _ post _ _ _ _ _ _ _ _ H HF). fin.
    - rewrite eval_comp_E, wrap_eval_out. berr Hx. fin.
    - (* an effect's callback expression *)
      rewrite eval_comp_E, wrap_eval_out. bok H. rewrite H0.
      assert (HF : effect_run o v eff s2 = (Err c true, s'', l))
        by (unfold TraceProofs.effect_run; now berr Hx).
      berr (iterM_app_err S _ _ _ post _ _ _ _ _ _ _ H1 HF). fin.
    - rewrite eval_logged_E, wrap_eval_out. bok (emit_E S EvLogReq s). unfold log_evs.
      destruct (log_ctx_off cfg || logging_opt_off o).
      + bok (ret_E S tt s). rewrite Hx. fin.
      + bok (emit_E S EvLogEmit s). rewrite Hx. fin.
    - rewrite eval_pipe_E, wrap_eval_out. berr (mapM_app_err S _ _ _ post _ _ _ _ _ _ _ _ H Hx). fin.
  Qed.

  (** chains of strict positions *)
  Inductive strict_path : expr -> dict -> S -> expr -> dict -> S -> list event -> Prop :=
  | path_here e o s : strict_path e o s e o s []
  | path_step e o s y oy sy l1 x ox sx l2 :
      strict_pos e o s y oy sy l1 -> strict_path y oy sy x ox sx l2 ->
      strict_path e o s x ox sx (l1 ++ l2).

  (** THE CAUSE IS ORIGINAL: whatever fails at the end of a chain of strict positions is what
      the evaluated object reports — same cause, same store, events in order *)
  Theorem cause_is_original e o s x ox sx lpre c ee s'' l :
    strict_path e o s x ox sx lpre -> eval x ox sx = (Err c ee, s'', l) ->
    eval e o s = (Err c true, s'', lpre ++ l).
  Proof.
    induction 1 as [e o s|e o s y oy sy l1 x ox sx l2 Hpos Hpath IH]; intros Hx.
    - pose proof (eval_err_true S _ _ _ _ _ _ _ _ _ _ _ _ _ Hx) as ->. exact Hx.
    - specialize (IH Hx). rewrite <- app_assoc. eapply strict_pos_propagates; eauto.
  Qed.

  (** ** Where causes are raised (the leaves) *)
  Lemma raise_switch disp tbl o s k s1 l1 :
    eval disp o s = (Ok k, s1, l1) -> hashable k = true -> assoc_v k tbl = None ->
    eval (ESwitch disp tbl None) o s = (Err CSwitch true, s1, l1).
  Proof.
    intros H Hh Ha. rewrite eval_switch_E, wrap_eval_out. bok (dispatch_ok _ (is_some (@None expr)) _ _ _ _ H).
    rewrite Hh. cbn [negb]. rewrite pick_assoc, Ha. cbn [dflt_or]. fin.
  Qed.
  Lemma raise_case disp cases o s x s1 l1 s2 l2 :
    eval disp o s = (Ok x, s1, l1) -> conds_false o x cases s1 s2 l2 ->
    eval (ECase disp cases None) o s = (Err CCase true, s2, l1 ++ l2).
  Proof.
    intros H Hc. rewrite eval_case_E, wrap_eval_out. bok H.
    rewrite (case_loop_all_false _ _ _ _ _ _ _ _ Hc). cbn [dflt_or]. fin.
  Qed.

  Definition user_fun (f : N) : bool :=
    negb (N.eqb f B_LIST || N.eqb f B_TUPLE || N.eqb f B_DICT).

  (** user code raising its n-th exception class: the body did run (event), the raw exception
      is not an EvaluationError yet *)
  Lemma raise_user f args n s :
    user_fun f = true -> deep_err_list args = None -> ucall f (map listify args) = CRaise n ->
    call_fun S ucall f args s = (Err (CUser n) false, s, [EvCall f (map listify args)]).
  Proof.
    unfold user_fun. intros Hf Hd Hu. apply negb_true_iff in Hf.
    apply orb_false_elim in Hf as [Hf H3]. apply orb_false_elim in Hf as [H1 H2].
    unfold call_fun. rewrite H1, H2, H3, Hd, Hu. reflexivity.
  Qed.

  (** a FunctionApplication: everything before the call succeeded, then the outcome of the
      call, wrapped (shared with C06: the events of the arguments come first) *)
  Lemma eval_call_decompose fe args kwargs o s fv s1 l1 av s2 l2 kv s3 l3 :
    eval fe o s = (Ok fv, s1, l1) ->
    mapM S (fun y => eval y o) args s1 = (Ok av, s2, l2) ->
    mapM S (fun y => eval y o) kwargs s2 = (Ok kv, s3, l3) ->
    eval (ECall false fe args kwargs) o s =
      wrap_out (after (l1 ++ l2 ++ l3) (call_value_n S ucall fv (av ++ kv) s3)).
  Proof.
    intros H1 H2 H3. rewrite eval_call_E, wrap_eval_out. bok H1. bok H2. bok H3.
    rewrite !after_after. now rewrite <- !app_assoc.
  Qed.

  Lemma raise_user_in_body fe args kwargs o s fid pre post s1 l1 av s2 l2 kv s3 l3 n :
    eval fe o s = (Ok (VF fid pre post), s1, l1) ->
    mapM S (fun y => eval y o) args s1 = (Ok av, s2, l2) ->
    mapM S (fun y => eval y o) kwargs s2 = (Ok kv, s3, l3) ->
    N.eqb fid B_COMPOSE = false -> user_fun fid = true ->
    deep_err_list (pre ++ (av ++ kv) ++ post) = None ->
    ucall fid (map listify (pre ++ (av ++ kv) ++ post)) = CRaise n ->
    eval (ECall false fe args kwargs) o s =
      (Err (CUser n) true, s3, l1 ++ l2 ++ l3 ++ [EvCall fid (map listify (pre ++ (av ++ kv) ++ post))]).
  Proof.
    intros H1 H2 H3 Hc Hu Hd Hr. rewrite (eval_call_decompose _ _ _ _ _ _ _ _ _ _ _ _ _ _ H1 H2 H3).
    unfold call_value_n. rewrite Hc. rewrite (raise_user _ _ _ _ Hu Hd Hr). fin.
  Qed.

  (** ** What the deferring handlers do: the element's cause is kept, and raised by whoever
      consumes the iterable *)
  Notation iter_loop := (iter_loop S mem_find mem_store cfg ucall rfuel site_ok).
  Lemma iter_defers_head o x rest s c ee s1 l1 :
    eval x o s = (Err c ee, s1, l1) -> c <> CUnmodelled ->
    iter_loop o (x :: rest) s = (Ok [VErr c], s1, l1).
  Proof.
    intros H Hc. cbn [TraceProofs.iter_loop].
    assert (Hb : bind (eval x o) (fun v => if is_some (deep_err v) then ret [v]
                   else bind (iter_loop o rest) (fun vs => ret (v :: vs))) s = (Err c ee, s1, l1))
      by (now berr H).
    rewrite (catch_errE S _ _ _ _ _ _ _ Hb Hc). fin.
  Qed.
  Lemma consumer_raises_deferred t vs c s :
    (N.eqb t T_ITER || N.eqb t T_LIST || N.eqb t T_TUPLE) = true -> first_err vs = Some c ->
    force_elems S (VT t vs) s = (Err c true, s, []).
  Proof. intros Ht Hf. unfold force_elems, elements_of. rewrite Ht, Hf. reflexivity. Qed.

  (** ** The statements of the property, assembled *)

  (** every error leaving [eval] is an EvaluationError *)
  Theorem eval_error_is_evaluation_error e o s c ee s' l :
    eval e o s = (Err c ee, s', l) -> ee = true.
  Proof. apply eval_err_true. Qed.

  (** a missing option, anywhere below [e] in strict position, is reported with ITS key *)
  Theorem missing_option_reports_its_key e o s k dom ox sx lpre :
    strict_path e o s (EOption k None dom) ox sx lpre -> lookup k (JObj ox) = Absent ->
    eval e o s = (Err (CKey k) true, sx, lpre ++ [EvRead k false]).
  Proof.
    intros Hp Ha. eapply cause_is_original; [exact Hp|].
    apply (eval_option_absent_nodefault S mem_find mem_store cfg ucall rfuel site_ok). exact Ha.
  Qed.

  (** a present option whose templated value references an absent key: THAT key is reported *)
  Theorem missing_reference_reports_its_key e o s k dflt dom raw k' ox sx lpre :
    strict_path e o s (EOption k dflt dom) ox sx lpre ->
    lookup k (JObj ox) = Found raw -> resolve rfuel ox raw = RMissing k' ->
    exists l, eval e o s = (Err (CKey k') true, sx, lpre ++ l).
  Proof.
    intros Hp Hf Hr.
    destruct (eval_option_missing_reference S mem_find mem_store cfg ucall rfuel site_ok
                k dflt dom raw k' ox sx Hf Hr) as [l [Hl _]].
    exists l. eapply cause_is_original; eauto.
  Qed.

  (** an exception raised by user code in a body, anywhere below [e] in strict position, is
      the cause [e] reports; the body ran exactly where it should (last event) *)
  Theorem user_exception_reaches_the_top e o s fe args kwargs ox sx lpre fid pre post s1 l1 av s2 l2 kv s3 l3 n :
    strict_path e o s (ECall false fe args kwargs) ox sx lpre ->
    eval fe ox sx = (Ok (VF fid pre post), s1, l1) ->
    mapM S (fun y => eval y ox) args s1 = (Ok av, s2, l2) ->
    mapM S (fun y => eval y ox) kwargs s2 = (Ok kv, s3, l3) ->
    N.eqb fid B_COMPOSE = false -> user_fun fid = true ->
    deep_err_list (pre ++ (av ++ kv) ++ post) = None ->
    ucall fid (map listify (pre ++ (av ++ kv) ++ post)) = CRaise n ->
    eval e o s = (Err (CUser n) true, s3,
                  lpre ++ l1 ++ l2 ++ l3 ++ [EvCall fid (map listify (pre ++ (av ++ kv) ++ post))]).
  Proof.
    intros Hp H1 H2 H3 Hc Hu Hd Hr. eapply cause_is_original; [exact Hp|].
    eapply raise_user_in_body; eauto.
  Qed.

  (** an unmatched switch / case below [e] in strict position *)
  Theorem unmatched_switch_reaches_the_top e o s disp tbl ox sx lpre k s1 l1 :
    strict_path e o s (ESwitch disp tbl None) ox sx lpre ->
    eval disp ox sx = (Ok k, s1, l1) -> hashable k = true -> assoc_v k tbl = None ->
    eval e o s = (Err CSwitch true, s1, lpre ++ l1).
  Proof. intros Hp H Hh Ha. eapply cause_is_original; [exact Hp|]. eapply raise_switch; eauto. Qed.
  Theorem unmatched_case_reaches_the_top e o s disp cases ox sx lpre x s1 l1 s2 l2 :
    strict_path e o s (ECase disp cases None) ox sx lpre ->
    eval disp ox sx = (Ok x, s1, l1) -> conds_false ox x cases s1 s2 l2 ->
    eval e o s = (Err CCase true, s2, lpre ++ l1 ++ l2).
  Proof. intros Hp H Hc. eapply cause_is_original; [exact Hp|]. eapply raise_case; eauto. Qed.

  (** ** The handlers *)
  (** Switch: ONLY an EvaluationError of the dispatch makes it use the default … *)
  Theorem switch_falls_back_on_dispatch_failure disp tbl d o s c s1 l1 :
    eval disp o s = (Err c true, s1, l1) -> c <> CUnmodelled ->
    eval (ESwitch disp tbl (Some d)) o s = after l1 (eval d o s1).
  Proof.
    intros H Hne. rewrite eval_switch_E, wrap_eval_out. cbn [is_some].
    bok (dispatch_fallback _ _ _ _ _ H Hne). cbn [dflt_or]. rewrite wrap_after. now rewrite wrap_out_eval.
  Qed.
  (** … an exception that is not an EvaluationError goes through the dispatch handler … *)
  Theorem dispatch_handler_lets_raw_errors_through (m : M value) b s c s1 l1 :
    m s = (Err c false, s1, l1) -> dispatch_value S m b s = (Err c false, s1, l1).
  Proof.
    intros H. unfold dispatch_value.
    assert (Hb : bind m (fun k => ret (Some k)) s = (Err c false, s1, l1)) by (now berr H).
    assert (Hc : c = CUnmodelled \/ c <> CUnmodelled)
      by (destruct c; first [now left|right; discriminate]).
    destruct Hc as [->|Hne].
    - now rewrite (catch_unmodE S _ _ _ _ _ _ Hb).
    - rewrite (catch_errE S _ _ _ _ _ _ _ Hb Hne). cbn [andb]. unfold after. cbn. now rewrite app_nil_r.
  Qed.
  (** … a dispatch value that cannot be looked up (unhashable) is not caught either … *)
  Theorem switch_unhashable_dispatch_fails disp tbl dflt o s k s1 l1 :
    eval disp o s = (Ok k, s1, l1) -> hashable k = false ->
    eval (ESwitch disp tbl dflt) o s = (Err CType true, s1, l1).
  Proof.
    intros H Hh. rewrite eval_switch_E, wrap_eval_out. bok (dispatch_ok _ (is_some dflt) _ _ _ _ H).
    rewrite Hh. cbn [negb]. fin.
  Qed.
  (** … and neither is the failure of the chosen branch, default or not *)
  Theorem switch_branch_failure_is_not_caught disp tbl dflt o s k s1 l1 b c ee s2 l2 :
    eval disp o s = (Ok k, s1, l1) -> hashable k = true -> assoc_v k tbl = Some b ->
    eval b o s1 = (Err c ee, s2, l2) ->
    eval (ESwitch disp tbl dflt) o s = (Err c true, s2, l1 ++ l2).
  Proof. intros H Hh Ha Hb. eapply strict_pos_propagates; [eapply sp_switch_branch; eauto|exact Hb]. Qed.

  (** Coalesce: the attempt on a member is validate-then-evaluate *)
  Definition attempt (o : dict) (m : expr) : M value := bind (validate m o) (fun _ => eval m o).

  (** the first member whose attempt succeeds gives the value; members before it were passed
      over because their attempts raised EvaluationErrors ([skipped]) *)
  Theorem coalesce_first_success o pre m post s s1 l1 v s2 l2 :
    skipped o pre s s1 l1 -> attempt o m s1 = (Ok v, s2, l2) ->
    eval (ECoalesce (pre ++ m :: post)) o s = (Ok v, s2, l1 ++ l2).
  Proof.
    intros Hs Hm. rewrite eval_coalesce_E, wrap_eval_out.
    destruct (coal_loop_skip o pre (m :: post) _ _ _ Hs None) as [last' E]. rewrite E.
    cbn [TraceProofs.coal_loop]. unfold attempt in Hm. rewrite (catch_okE S _ _ _ _ _ _ Hm). fin.
  Qed.
  (** an exception that is NOT an EvaluationError (validate re-raises whatever it meets) ends
      the coalesce: later members are not tried *)
  Theorem coalesce_raw_error_propagates o pre m post s s1 l1 c s2 l2 :
    skipped o pre s s1 l1 -> attempt o m s1 = (Err c false, s2, l2) ->
    eval (ECoalesce (pre ++ m :: post)) o s = (Err c true, s2, l1 ++ l2).
  Proof.
    intros Hs Hm. rewrite eval_coalesce_E, wrap_eval_out.
    destruct (coal_loop_skip o pre (m :: post) _ _ _ Hs None) as [last' E]. rewrite E.
    cbn [TraceProofs.coal_loop]. unfold attempt in Hm.
    assert (Hc : c = CUnmodelled \/ c <> CUnmodelled)
      by (destruct c; first [now left|right; discriminate]).
    destruct Hc as [->|Hne].
    - rewrite (catch_unmodE S _ _ _ _ _ _ Hm). fin.
    - rewrite (catch_errE S _ _ _ _ _ _ _ Hm Hne). cbv iota. fin.
  Qed.
  (** when every member fails, the error of the LAST one is what surfaces (root of D20) *)
  Theorem coalesce_reports_last_member o pre m s s1 l1 c ee s2 l2 :
    skipped o pre s s1 l1 -> attempt o m s1 = (Err c ee, s2, l2) ->
    eval (ECoalesce (pre ++ [m])) o s = (Err c true, s2, l1 ++ l2).
  Proof.
    intros Hs Hm. rewrite eval_coalesce_E, wrap_eval_out.
    destruct (coal_loop_skip o pre [m] _ _ _ Hs None) as [last' E]. rewrite E.
    cbn [TraceProofs.coal_loop]. unfold attempt in Hm.
    assert (Hc : c = CUnmodelled \/ c <> CUnmodelled)
      by (destruct c; first [now left|right; discriminate]).
    destruct Hc as [->|Hne].
    - rewrite (catch_unmodE S _ _ _ _ _ _ Hm). fin.
    - rewrite (catch_errE S _ _ _ _ _ _ _ Hm Hne). destruct ee; cbv iota; fin.
  Qed.

  (** Iter: elements before the failing one evaluated, none of them lazily failing *)
  Inductive elems_ok (o : dict) : list expr -> S -> list value -> S -> list event -> Prop :=
  | eo_nil s : elems_ok o [] s [] s []
  | eo_cons x rest s v s1 l1 vs s2 l2 :
      eval x o s = (Ok v, s1, l1) -> deep_err v = None -> elems_ok o rest s1 vs s2 l2 ->
      elems_ok o (x :: rest) s (v :: vs) s2 (l1 ++ l2).

  Lemma iter_defers o pre x post s vs s1 l1 c ee s2 l2 :
    elems_ok o pre s vs s1 l1 -> eval x o s1 = (Err c ee, s2, l2) -> c <> CUnmodelled ->
    iter_loop o (pre ++ x :: post) s = (Ok (vs ++ [VErr c]), s2, l1 ++ l2).
  Proof.
    intros Hpre Hx Hc. induction Hpre as [s|y rest s v sa la vs sb lb Hy Hd Hrest IH].
    - cbn [app]. now apply iter_defers_head with (ee := ee).
    - specialize (IH Hx). cbn [app TraceProofs.iter_loop].
      assert (Hb : bind (eval y o) (fun v => if is_some (deep_err v) then ret [v]
                     else bind (iter_loop o (rest ++ x :: post)) (fun vs => ret (v :: vs))) s
                   = (Ok (v :: vs ++ [VErr c]), s2, la ++ lb ++ l2)).
      { bok Hy. rewrite Hd. cbn [is_some]. bok IH. fin. }
      rewrite (catch_okE S _ _ _ _ _ _ Hb). now rewrite <- app_assoc.
  Qed.

  (** the evaluation of an Iter does not fail when an element does: the failure is kept in the
      iterable, the elements after it are never evaluated *)
  Theorem iter_element_failure_is_deferred o pre x post s vs s1 l1 c ee s2 l2 :
    elems_ok o pre s vs s1 l1 -> eval x o s1 = (Err c ee, s2, l2) -> c <> CUnmodelled ->
    eval (EIter (pre ++ x :: post)) o s = (Ok (VT T_ITER (vs ++ [VErr c])), s2, l1 ++ l2).
  Proof.
    intros Hpre Hx Hc. rewrite eval_iter_E, wrap_eval_out. bok (iter_defers _ _ _ post _ _ _ _ _ _ _ _ Hpre Hx Hc). fin.
  Qed.

  Lemma elems_ok_no_err o es s vs s1 l1 : elems_ok o es s vs s1 l1 -> first_err vs = None.
  Proof.
    induction 1 as [|x rest s v sa la vs sb lb Hx Hd Hrest IH]; [reflexivity|].
    cbn [first_err]. destruct v; try exact IH. discriminate Hd.
  Qed.
  Lemma first_err_app vs c : first_err vs = None -> first_err (vs ++ [VErr c]) = Some c.
  Proof.
    induction vs as [|v vs IH]; intros H; [reflexivity|]. cbn [app first_err] in *.
    destruct v; try (now apply IH). discriminate H.
  Qed.

  (** … and whoever consumes the iterable (here: [list(...)], the first step of an Apply)
      gets the element's failure, as an EvaluationError with the element's cause *)
  Theorem consumer_gets_the_element_failure o pre x post s vs s1 l1 c ee s2 l2 :
    elems_ok o pre s vs s1 l1 -> eval x o s1 = (Err c ee, s2, l2) -> c <> CUnmodelled ->
    eval (EApply (EIter (pre ++ x :: post)) (EValue (VF B_LIST [] []))) o s = (Err c true, s2, l1 ++ l2).
  Proof.
    intros Hpre Hx Hc. rewrite eval_apply_E, wrap_eval_out.
    bok (iter_element_failure_is_deferred _ _ _ post _ _ _ _ _ _ _ _ Hpre Hx Hc).
    bok (eq_refl : eval (EValue (VF B_LIST [] [])) o s2 = (Ok (VF B_LIST [] []), s2, [])).
    rewrite call_value_VF. cbn [N.eqb B_LIST B_COMPOSE Pos.eqb app]. unfold call_fun. cbn [N.eqb B_LIST Pos.eqb].
    berr (consumer_raises_deferred T_ITER (vs ++ [VErr c]) c s2 eq_refl
            (first_err_app _ _ (elems_ok_no_err _ _ _ _ _ _ Hpre))).
    fin.
  Qed.

  (** ** Only successes are stored.  The only call of [mem_store] in the interpreters is in the
      CacheSetRequest step of a Cached node, which is reached only through the successful branch
      of the bind on the body's evaluation.  Stated as a frame theorem that is STRONGER than
      TraceProofs.store_frame: the relation [R] has to be respected only by stores of the shape
      "the value [v] that the evaluation of the cached expression [e] under [o] just returned,
      at the fingerprint of [e] under [o], into the node's cache" — not by arbitrary stores. *)
  Definition after_store (cid : N) (e : expr) (o : dict) (v : value) : M value :=
    bind (emit (EvCacheSet cid)) (fun _ =>
    bind (if has_lazy v then emit (EvLazyStored cid) else ret tt) (fun _ =>
    bind (fingerprint e o) (fun f' =>
    bind (get_store S) (fun s =>
      match mem_find cid f' s with
      | Some _ => bind (emit (EvCacheGet cid true)) (fun _ => ret v)
      | None => bind (emit (EvCacheGet cid false)) (fun _ => ret v)
      end)))).
  Lemma store_back_E cid e o v :
    store_back cid e o v =
      bind (fingerprint e o) (fun f =>
      bind (put_store S (mem_store cid f (exhaust v))) (fun _ => after_store cid e o v)).
  Proof. reflexivity. Qed.

  Section OnlySuccesses.
    Variable R : S -> S -> Prop.
    Hypothesis R_refl : forall s, R s s.
    Hypothesis R_trans : forall a b c, R a b -> R b c -> R a c.
    Variable allowed : N -> bool.
    Hypothesis R_store_success : forall cid e o s1 v s2 l1 f s3 lf,
      allowed cid = true ->
      eval e o s1 = (Ok v, s2, l1) -> fingerprint e o s2 = (Ok f, s3, lf) ->
      R s3 (mem_store cid f (exhaust v) s3).

    Notation fr := (fr S R).
    Notation fr3 := (fr3 S mem_find mem_store cfg ucall rfuel site_ok R).
    Notation PP := (PP S mem_find mem_store cfg ucall rfuel site_ok R allowed).
    Notation caches_allowed := (caches_allowed allowed).

    Let Fbind {A B} := @fr_bind S R R_trans A B.
    Let Fret {A} := @fr_ret S R R_refl A.
    Let Femit := fr_emit S R R_refl.
    Let Fget := fr_get_store S R R_refl.

    Lemma fr_after_store cid e o v : fr3 e -> fr (after_store cid e o v).
    Proof.
      intros He. unfold after_store. apply Fbind; [apply Femit|]. intros _.
      apply Fbind; [destruct (has_lazy v); [apply Femit|apply Fret]|]. intros _.
      apply Fbind; [now apply (fr_fingerprint S mem_find mem_store cfg ucall rfuel site_ok R R_refl R_trans)|].
      intros f'. apply Fbind; [apply Fget|]. intros s0.
      destruct (mem_find cid f' s0); (apply Fbind; [apply Femit|intros _; apply Fret]).
    Qed.

    (** the miss path: evaluate, and only when that SUCCEEDED store *)
    Lemma fr_miss_path cid e o : allowed cid = true -> fr3 e -> fr (miss_path cid e o).
    Proof.
      intros Ha He s r s' l H. unfold TraceProofs.miss_path in H.
      destruct (eval e o s) as [[[v|c ee] s1] l1] eqn:Ev.
      - assert (R01 : R s s1) by (exact (proj1 (He o) _ _ _ _ Ev)).
        rewrite (bind_okE S _ _ _ _ _ _ Ev) in H. rewrite store_back_E in H.
        destruct (fingerprint e o s1) as [[[f|c ee] s2] l2] eqn:Ef.
        + assert (R12 : R s1 s2)
            by (exact (fr_fingerprint S mem_find mem_store cfg ucall rfuel site_ok R R_refl R_trans e o He _ _ _ _ Ef)).
          rewrite (bind_okE S _ _ _ _ _ _ Ef) in H.
          rewrite (bind_okE S _ _ _ _ _ _ (eq_refl : put_store S (mem_store cid f (exhaust v)) s2
                                             = (Ok tt, mem_store cid f (exhaust v) s2, []))) in H.
          cbv beta in H.
          destruct (after_store cid e o v (mem_store cid f (exhaust v) s2)) as [[r3 s3] l3] eqn:Ea.
          unfold TraceProofs.after in H. cbn [fst snd] in H. inversion H; subst r3 s3.
          pose proof (fr_after_store cid e o v He _ _ _ _ Ea) as R3.
          pose proof (R_store_success cid e o s v s1 l1 f s2 l2 Ha Ev Ef) as Rst.
          eauto.
        + assert (R12 : R s1 s2)
            by (exact (fr_fingerprint S mem_find mem_store cfg ucall rfuel site_ok R R_refl R_trans e o He _ _ _ _ Ef)).
          rewrite (bind_errE S _ _ _ _ _ _ _ Ef) in H. unfold TraceProofs.after in H. cbn [fst snd] in H.
          inversion H; subst. eauto.
      - rewrite (bind_errE S _ _ _ _ _ _ _ Ev) in H. inversion H; subst.
        exact (proj1 (He o) _ _ _ _ Ev).
    Qed.

    Lemma success_ECached c e : PP e -> PP (ECached c e).
    Proof.
      intros H1 Hc. cbn [TraceProofs.caches_allowed] in Hc. apply andb_prop in Hc as [Ca Ce].
      specialize (H1 Ce). destruct c as [cid|].
      - pose proof (fun o => fr_miss_path cid e o Ca H1) as Hmiss.
        pose proof (fun o => fr_fingerprint S mem_find mem_store cfg ucall rfuel site_ok R R_refl R_trans e o H1) as Hfp.
        intros o. split; [|split].
        + rewrite eval_cached_mem_E. apply fr_wrap. destruct (cache_off o); [exact (proj1 (H1 o))|].
          unfold TraceProofs.cached_on. apply Fbind; [destruct (site_ok e o); [apply Fret|apply Femit]|].
          intros _. apply Fbind; [apply Hfp|]. intros f.
          apply Fbind; [apply Fget|]. intros s.
          destruct (mem_find cid f s).
          * apply Fbind; [apply Femit|]. intros _. apply Fbind; [apply Hfp|].
            intros f2. apply Fbind; [apply Fget|]. intros s2.
            destruct (mem_find cid f2 s2); (apply Fbind; [apply Femit|]); intros _;
              [apply Fret|apply Hmiss].
          * apply Fbind; [apply Femit|]. intros _. apply Hmiss.
        + rewrite validate_cached_mem_E. destruct (cache_off o); [exact (proj1 (proj2 (H1 o)))|].
          apply Fbind; [exact (proj2 (proj2 (H1 o)))|]. intros ks.
          apply Fbind; [apply (fr_fingerprint_of S R R_refl R_trans)|]. intros f.
          apply Fbind; [apply Fget|]. intros s. destruct (mem_find cid f s).
          * apply Fbind; [apply Femit|intros _; apply Fret].
          * apply Fbind; [apply Femit|intros _; exact (proj1 (proj2 (H1 o)))].
        + rewrite keys_cached_E. exact (proj2 (proj2 (H1 o))).
      - intros o. split; [|split].
        + rewrite eval_cached_none_E. apply fr_wrap. exact (proj1 (H1 o)).
        + rewrite validate_cached_none_E. exact (proj1 (proj2 (H1 o))).
        + rewrite keys_cached_E. exact (proj2 (proj2 (H1 o))).
    Qed.

    (** EVERY run of evaluate / validate / keys — failing or not — relates its initial store to
        its final store by [R] *)
    Theorem only_successes_are_stored e : caches_allowed e = true -> fr3 e.
    Proof.
      induction e using expr_ind'.
      - intros _ o. split; [|split].
        + rewrite eval_value_E. apply fr_wrap, Fret.
        + rewrite validate_value_E. apply Fret.
        + rewrite keys_value_E. apply Fret.
      - now apply (frame_EOption S mem_find mem_store cfg ucall rfuel site_ok R R_refl R_trans allowed).
      - now apply (frame_EApply S mem_find mem_store cfg ucall rfuel site_ok R R_refl R_trans allowed).
      - now apply (frame_EBind S mem_find mem_store cfg ucall rfuel site_ok R R_refl R_trans allowed).
      - now apply (frame_ESwitch S mem_find mem_store cfg ucall rfuel site_ok R R_refl R_trans allowed).
      - now apply (frame_ECase S mem_find mem_store cfg ucall rfuel site_ok R R_refl R_trans allowed).
      - now apply (frame_ECoalesce S mem_find mem_store cfg ucall rfuel site_ok R R_refl R_trans allowed).
      - now apply (frame_EIter S mem_find mem_store cfg ucall rfuel site_ok R R_refl R_trans allowed).
      - now apply (frame_EMap S mem_find mem_store cfg ucall rfuel site_ok R R_refl R_trans allowed).
      - now apply (frame_EWith S mem_find mem_store cfg ucall rfuel site_ok R R_refl R_trans allowed).
      - now apply success_ECached.
      - now apply (frame_ECall S mem_find mem_store cfg ucall rfuel site_ok R R_refl R_trans allowed).
      - now apply (frame_ETemplate S mem_find mem_store cfg ucall rfuel site_ok R R_refl R_trans allowed).
      - now apply (frame_EComp S mem_find mem_store cfg ucall rfuel site_ok R R_refl R_trans allowed).
      - now apply (frame_ELogged S mem_find mem_store cfg ucall rfuel site_ok R R_refl R_trans allowed).
      - now apply (frame_EPipe S mem_find mem_store cfg ucall rfuel site_ok R R_refl R_trans allowed).
      - intros _ o. split; [|split].
        + rewrite eval_alloptions_E. apply fr_wrap, (fr_all_options_eval S rfuel R R_refl R_trans).
        + rewrite validate_alloptions_E.
          apply Fbind; [apply fr_wrap, (fr_all_options_eval S rfuel R R_refl R_trans)|intros; apply Fret].
        + rewrite keys_alloptions_E. apply Fbind; [apply Femit|intros; apply Fret].
    Qed.
  End OnlySuccesses.

  (** the smallest relation of that kind: the stores reachable by storing successes *)
  Inductive stored_successes : S -> S -> Prop :=
  | ss_refl s : stored_successes s s
  | ss_trans a b c : stored_successes a b -> stored_successes b c -> stored_successes a c
  | ss_store cid e o s1 v s2 l1 f s3 lf :
      eval e o s1 = (Ok v, s2, l1) -> fingerprint e o s2 = (Ok f, s3, lf) ->
      stored_successes s3 (mem_store cid f (exhaust v) s3).

  Lemma all_caches_allowed e : caches_allowed (fun _ => true) e = true.
  Proof.
    assert (HL : forall l, Forall (fun x => caches_allowed (fun _ => true) x = true) l ->
                           forallb (caches_allowed (fun _ => true)) l = true).
    { intros l H. apply forallb_forall. now rewrite Forall_forall in H. }
    assert (HS : forall K (l : list (K * expr)),
               Forall (fun ve => caches_allowed (fun _ => true) (snd ve) = true) l ->
               forallb (fun ve => caches_allowed (fun _ => true) (snd ve)) l = true).
    { intros K l H. apply forallb_forall. now rewrite Forall_forall in H. }
    assert (HO : forall d, Popt (fun x => caches_allowed (fun _ => true) x = true) d ->
                           optb (caches_allowed (fun _ => true)) d = true).
    { intros [d|] H; [exact H|reflexivity]. }
    induction e using expr_ind'; cbn [caches_allowed]; try reflexivity;
      repeat (apply andb_true_intro; split); auto.
    - (* case *)
      apply forallb_forall. intros cr Hcr. rewrite Forall_forall in H. destruct (H cr Hcr) as [A B].
      now rewrite A, B.
    - destruct c; reflexivity.
  Qed.

  (** NO FAILURE IS EVER STORED: every run of evaluate (validate, keys), failing or not, changes
      the store only by storing values that evaluations of cached expressions just returned *)
  Theorem every_store_is_of_a_success e o :
    (forall s r s' l, eval e o s = (r, s', l) -> stored_successes s s') /\
    (forall s r s' l, validate e o s = (r, s', l) -> stored_successes s s') /\
    (forall s r s' l, keys e o s = (r, s', l) -> stored_successes s s').
  Proof.
    pose proof (only_successes_are_stored stored_successes ss_refl ss_trans (fun _ => true)
                  (fun cid e o s1 v s2 l1 f s3 lf _ Hv Hf => ss_store cid e o s1 v s2 l1 f s3 lf Hv Hf)
                  e (all_caches_allowed e) o) as [A [B C]].
    split; [exact A|split; [exact B|exact C]].
  Qed.

  (** what such a store sequence can contain, given that a lookup after a store finds either
      the stored value or what was there before (true of the real store, below) *)
  Section Entries.
    Hypothesis find_after_store : forall c f v s c' f' w,
      mem_find c' f' (mem_store c f v s) = Some w -> w = v \/ mem_find c' f' s = Some w.

    Definition produced (w : value) : Prop :=
      exists e o s1 v s2 l1, eval e o s1 = (Ok v, s2, l1) /\ w = exhaust v.

    Lemma stored_successes_entries s s' :
      stored_successes s s' ->
      forall c f w, mem_find c f s' = Some w -> mem_find c f s = Some w \/ produced w.
    Proof.
      induction 1 as [s|a b c0 Hab IHab Hbc IHbc|cid e o s1 v s2 l1 f s3 lf Hv Hf]; intros c f' w Hw.
      - now left.
      - destruct (IHbc _ _ _ Hw) as [Hb|Hp]; [|now right]. now apply IHab.
      - destruct (find_after_store _ _ _ _ _ _ _ Hw) as [->|Hold]; [|now left].
        right. exists e, o, s1, v, s2, l1. now split.
    Qed.

    (** A FAILED EVALUATION IS FORGOTTEN: after it, every entry of every cache is an entry that
        was there before, or the value that a successful evaluation of a cached expression
        returned during the run *)
    Theorem failure_is_forgotten e o s c ee s' l :
      eval e o s = (Err c ee, s', l) ->
      forall cid f w, mem_find cid f s' = Some w -> mem_find cid f s = Some w \/ produced w.
    Proof.
      intros H. apply stored_successes_entries. exact (proj1 (every_store_is_of_a_success e o) _ _ _ _ H).
    Qed.
  End Entries.

  (** the failing node itself: a Cached node whose expression fails to evaluate fails with that
      cause, and the run performed no store into its cache — [R] is any relation respected by
      stores into OTHER caches ([allowed]); the node's own cache need not be among them *)
  Theorem failing_body_is_not_stored (R : S -> S -> Prop) (allowed : N -> bool) cid e o s f s1 l1 c ee s2 l2 :
    (forall s, R s s) -> (forall a b c, R a b -> R b c -> R a c) ->
    (forall c f v s, allowed c = true -> R s (mem_store c f v s)) ->
    caches_allowed allowed e = true ->
    cache_off o = false -> fingerprint e o s = (Ok f, s1, l1) -> mem_find cid f s1 = None ->
    eval e o s1 = (Err c ee, s2, l2) ->
    eval (ECached (CMem cid) e) o s =
      (Err c true, s2, (dirty_evs cid e o ++ l1 ++ [EvCacheExists cid false]) ++ l2) /\ R s s2.
  Proof.
    intros Rr Rt Rs Hc Hoff Hf Hm Hx. split.
    - eapply strict_pos_propagates; [eapply sp_cached_miss; eauto|exact Hx].
    - pose proof (store_frame S mem_find mem_store cfg ucall rfuel site_ok R Rr Rt allowed Rs e Hc) as F3.
      eapply Rt.
      + exact (fr_fingerprint S mem_find mem_store cfg ucall rfuel site_ok R Rr Rt e o F3 _ _ _ _ Hf).
      + exact (proj1 (F3 o) _ _ _ _ Hx).
  Qed.
End C12.

(** * The real memo store (Model/EvalRun.v) *)
Lemma c12_tok_eqb_eq a b : tok_eqb a b = true <-> a = b.
Proof.
  destruct a, b; cbn; split; intros H; try discriminate; try reflexivity.
  - apply N.eqb_eq in H. now subst.
  - inversion H. apply N.eqb_refl.
  - apply key_eqb_eq in H. now subst.
  - inversion H. apply key_eqb_refl.
  - apply N.eqb_eq in H. now subst.
  - inversion H. apply N.eqb_refl.
Qed.
Lemma c12_str_eqb_eq a : forall b, str_eqb a b = true <-> a = b.
Proof.
  induction a as [|x a IH]; destruct b as [|y b]; cbn; split; intros H; try discriminate; try reflexivity.
  - apply andb_prop in H as [H1 H2]. apply c12_tok_eqb_eq in H1. apply IH in H2. now subst.
  - inversion H; subst. apply andb_true_intro. split; [now apply c12_tok_eqb_eq|now apply IH].
Qed.
Lemma c12_json_eqb_eq a : forall b, json_eqb a b = true <-> a = b.
Proof.
  induction a using json_ind'; intros b0; destruct b0; cbn [json_eqb]; split; intros E;
    try discriminate; try reflexivity.
  - apply Bool.eqb_prop in E. now subst.
  - inversion E. apply Bool.eqb_reflx.
  - apply Z.eqb_eq in E. now subst.
  - inversion E. apply Z.eqb_refl.
  - apply N.eqb_eq in E. now subst.
  - inversion E. apply N.eqb_refl.
  - apply c12_str_eqb_eq in E. now subst.
  - inversion E. now apply c12_str_eqb_eq.
  - f_equal. revert l0 E. induction H as [|x l Hx Hl IH]; intros [|y l0] E; try discriminate; [reflexivity|].
    apply andb_prop in E as [E1 E2]. apply Hx in E1. apply IH in E2. now subst.
  - inversion E; subst l0. clear E. induction H as [|x l Hx Hl IH]; [reflexivity|].
    apply andb_true_intro. split; [now apply Hx|exact IH].
  - f_equal. revert m0 E. induction H as [|[k x] m Hx Hm IH]; intros [|[k' y] m0] E; try discriminate; [reflexivity|].
    apply andb_prop in E as [E1 E3]. apply andb_prop in E1 as [E1 E2].
    apply seg_eqb_eq in E1. cbn [snd] in Hx. apply Hx in E2. apply IH in E3. now subst.
  - inversion E; subst m0. clear E. induction H as [|[k x] m Hx Hm IH]; [reflexivity|].
    apply andb_true_intro. split; [apply andb_true_intro; split|exact IH].
    + apply seg_eqb_refl.
    + cbn [snd] in Hx. now apply Hx.
Qed.
Lemma c12_fp_eqb_eq a : forall b, fp_eqb a b = true <-> a = b.
Proof.
  unfold fp_eqb. induction a as [|[k v] a IH]; destruct b as [|[k' v'] b]; split; intros E;
    try discriminate; try reflexivity.
  - apply andb_prop in E as [E1 E3]. apply andb_prop in E1 as [E1 E2].
    apply key_eqb_eq in E1. apply c12_json_eqb_eq in E2. apply IH in E3. now subst.
  - inversion E; subst. apply andb_true_intro. split; [apply andb_true_intro; split|now apply IH].
    + apply key_eqb_refl.
    + now apply c12_json_eqb_eq.
Qed.

Lemma fp_find_after_put f v l f' w :
  fp_find f' (fp_put f v l) = Some w -> w = v \/ fp_find f' l = Some w.
Proof.
  induction l as [|[g u] l IH]; cbn [fp_put fp_find]; intros H.
  - destruct (fp_eqb f' f); [left; congruence|discriminate].
  - destruct (fp_eqb f g) eqn:E; cbn [fp_find] in H.
    + apply c12_fp_eqb_eq in E. subst g. destruct (fp_eqb f' f); [left; congruence|now right].
    + destruct (fp_eqb f' g); [now right|now apply IH].
Qed.
Lemma st_get_after_put c l s c' :
  st_get c' (st_put c l s) = if N.eqb c' c then l else st_get c' s.
Proof.
  induction s as [|[d l'] s IH]; cbn [st_put st_get].
  - reflexivity.
  - destruct (N.eqb c d) eqn:E; cbn [st_get].
    + apply N.eqb_eq in E. subst d. destruct (N.eqb c' c); reflexivity.
    + destruct (N.eqb c' d) eqn:E2.
      * apply N.eqb_eq in E2. subst d.
        destruct (N.eqb c' c) eqn:E3; [|reflexivity].
        apply N.eqb_eq in E3. subst c'. rewrite N.eqb_refl in E. discriminate.
      * exact IH.
Qed.
Lemma real_find_after_store c f v s c' f' w :
  mem_find c' f' (mem_store c f v s) = Some w -> w = v \/ mem_find c' f' s = Some w.
Proof.
  unfold mem_find, mem_store. rewrite st_get_after_put. destruct (N.eqb c' c) eqn:E; [|now right].
  apply N.eqb_eq in E. subst c'. apply fp_find_after_put.
Qed.
Lemma real_store_other_cache c f v s cid :
  negb (N.eqb c cid) = true -> st_get cid (mem_store c f v s) = st_get cid s.
Proof.
  intros H. unfold mem_store. rewrite st_get_after_put. destruct (N.eqb cid c) eqn:E; [|reflexivity].
  apply N.eqb_eq in E. subst c. rewrite N.eqb_refl in H. discriminate.
Qed.

Section RealStore.
  Variable cfg : config.
  Variable ucall : N -> list value -> cres.
  Variable rfuel : nat.
  Variable site_ok : expr -> dict -> bool.
  Notation eval := (Eval.eval store mem_find mem_store cfg ucall rfuel site_ok).
  Notation fingerprint := (fingerprint store mem_find mem_store cfg ucall rfuel site_ok).

  (** on the real store: after a FAILED evaluation every cache entry was there before or is a
      value that a successful evaluation of a cached expression returned *)
  Theorem real_failure_is_forgotten e o s c ee s' l :
    eval e o s = (Err c ee, s', l) ->
    forall cid f w, mem_find cid f s' = Some w ->
      mem_find cid f s = Some w \/ produced store mem_find mem_store cfg ucall rfuel site_ok w.
  Proof.
    exact (failure_is_forgotten store mem_find mem_store cfg ucall rfuel site_ok real_find_after_store e o s c ee s' l).
  Qed.

  (** on the real store: a Cached node (no other node of its expression uses its cache) whose
      expression fails leaves the WHOLE content of its cache as it was *)
  Theorem real_failed_cached_eval_stores_nothing cid e o s f s1 l1 c ee s2 l2 :
    caches_allowed (fun c => negb (N.eqb c cid)) e = true ->
    cache_off cfg o = false -> fingerprint e o s = (Ok f, s1, l1) -> mem_find cid f s1 = None ->
    eval e o s1 = (Err c ee, s2, l2) ->
    eval (ECached (CMem cid) e) o s =
      (Err c true, s2, (dirty_evs site_ok cid e o ++ l1 ++ [EvCacheExists cid false]) ++ l2)
    /\ st_get cid s2 = st_get cid s.
  Proof.
    intros Hc Hoff Hf Hm Hx.
    apply (failing_body_is_not_stored store mem_find mem_store cfg ucall rfuel site_ok
             (fun a b => st_get cid b = st_get cid a) (fun c => negb (N.eqb c cid))
             cid e o s f s1 l1 c ee s2 l2); auto.
    - intros a b d H1 H2. congruence.
    - intros c0 f0 v0 s0 H. now apply real_store_other_cache.
  Qed.
End RealStore.
