(** C12 — failures surface as EvaluationError with the original cause; a failed evaluation of a
    cached node stores nothing.  Lemmas; the statements of the property are in Properties/C12.v.

    What the model carries.  An error is [Err c ee]: the CAUSE [c] (which primitive raise it
    was: a missing option with its key, SwitchError, CaseWhenError, the n-th exception class of
    user code, …) and [ee] (is it an EvaluationError: that alone decides which handlers catch
    it).  The chain of EvaluationError objects that Python builds with `raise … from e` — one
    per nested node, each with its own [.source] — is NOT represented: [wrap_eval] keeps the
    cause and sets [ee].  So the model can state (and we prove) that the cause reaching the top
    is the cause raised at the failing leaf, unchanged by every node on the way; that the
    topmost wrapper is the evaluated object's own ([eval e o = wrap_eval (eval e o)]); and what
    the handlers do.  Identity of [.source] and of the exception object at the end of
    [__cause__] is decided on the implementation by harness/props/c12.py. *)
From Coq Require Import List NArith ZArith Bool Lia.
Import ListNotations.
From LV Require Import Model.Base Model.Template Model.Eval Model.Derived Model.EvalRun
  Proofs.BaseProofs Proofs.EvalProofs Proofs.EvalInd Proofs.EvalUnfold Proofs.FrameProofs Proofs.TraceProofs Proofs.CoveredDefs.
Close Scope string_scope.
Open Scope list_scope.

(** a size for expressions: a cache site inside an expression is smaller than the expression *)
Fixpoint esize (e : expr) : nat :=
  match e with
  | EValue _ | EAllOptions => 1
  | EOption _ dflt dom =>
      S (match dflt with Some d => esize d | None => 0 end + match dom with Some d => esize d | None => 0 end)
  | EApply a b => S (esize a + esize b)
  | EBind src tbl dflt | ESwitch src tbl dflt =>
      S (esize src +
         (fix go (l : list (value * expr)) := match l with [] => 0 | (_, x) :: l' => esize x + go l' end) tbl +
         match dflt with Some d => esize d | None => 0 end)
  | ECase disp cases dflt =>
      S (esize disp +
         (fix go (l : list (expr * expr)) := match l with [] => 0 | (c, r) :: l' => esize c + esize r + go l' end) cases +
         match dflt with Some d => esize d | None => 0 end)
  | ECoalesce ms | EIter ms | EPipe ms =>
      S ((fix go (l : list expr) := match l with [] => 0 | x :: l' => esize x + go l' end) ms)
  | EMap e its =>
      S (esize e + (fix go (l : list (key * expr)) := match l with [] => 0 | (_, x) :: l' => esize x + go l' end) its)
  | EWith _ _ e | ELogged e | ECached _ e => S (esize e)
  | EComp e effs => S (esize e + (fix go (l : list expr) := match l with [] => 0 | x :: l' => esize x + go l' end) effs)
  | ECall _ f args kwargs =>
      S (esize f +
         (fix go (l : list expr) := match l with [] => 0 | x :: l' => esize x + go l' end) args +
         (fix go (l : list expr) := match l with [] => 0 | x :: l' => esize x + go l' end) kwargs)
  | ETemplate _ ps =>
      S ((fix go (l : list (N * expr)) := match l with [] => 0 | (_, x) :: l' => esize x + go l' end) ps)
  end.

Lemma sites_smaller_list (l : list expr) cb :
  Forall (fun x => forall cb, In cb (sites_of x) -> esize (snd cb) < esize x) l ->
  In cb ((fix go (l : list expr) := match l with [] => [] | x :: l' => sites_of x ++ go l' end) l) ->
  esize (snd cb) < (fix go (l : list expr) := match l with [] => 0 | x :: l' => esize x + go l' end) l.
Proof.
  induction 1 as [|x l Hx Hl IH]; intros Hin; [destruct Hin|].
  apply in_app_or in Hin as [Hin|Hin]; [specialize (Hx _ Hin)|specialize (IH Hin)]; lia.
Qed.
Lemma sites_smaller_snd {K} (l : list (K * expr)) cb :
  Forall (fun ke => forall cb, In cb (sites_of (snd ke)) -> esize (snd cb) < esize (snd ke)) l ->
  In cb ((fix go (l : list (K * expr)) := match l with [] => [] | (_, x) :: l' => sites_of x ++ go l' end) l) ->
  esize (snd cb) < (fix go (l : list (K * expr)) := match l with [] => 0 | (_, x) :: l' => esize x + go l' end) l.
Proof.
  induction 1 as [|[k x] l Hx Hl IH]; intros Hin; [destruct Hin|]. cbn [snd] in Hx.
  apply in_app_or in Hin as [Hin|Hin]; [specialize (Hx _ Hin)|specialize (IH Hin)]; lia.
Qed.
Lemma sites_smaller_cases (l : list (expr * expr)) cb :
  Forall (fun cr => (forall cb, In cb (sites_of (fst cr)) -> esize (snd cb) < esize (fst cr)) /\
                    (forall cb, In cb (sites_of (snd cr)) -> esize (snd cb) < esize (snd cr))) l ->
  In cb ((fix go (l : list (expr * expr)) :=
            match l with [] => [] | (c, r) :: l' => sites_of c ++ sites_of r ++ go l' end) l) ->
  esize (snd cb) <
    (fix go (l : list (expr * expr)) := match l with [] => 0 | (c, r) :: l' => esize c + esize r + go l' end) l.
Proof.
  induction 1 as [|[c r] l [Hc Hr] Hl IH]; intros Hin; [destruct Hin|]. cbn [fst snd] in Hc, Hr.
  apply in_app_or in Hin as [Hin|Hin]; [specialize (Hc _ Hin); lia|].
  apply in_app_or in Hin as [Hin|Hin]; [specialize (Hr _ Hin)|specialize (IH Hin)]; lia.
Qed.
Lemma sites_smaller_opt (d : option expr) cb :
  Popt (fun x => forall cb, In cb (sites_of x) -> esize (snd cb) < esize x) d ->
  In cb (match d with Some x => sites_of x | None => [] end) ->
  esize (snd cb) < match d with Some x => esize x | None => 0 end.
Proof. destruct d as [x|]; cbn; intros H Hin; [now apply H|destruct Hin]. Qed.

Lemma sites_smaller e : forall cb, In cb (sites_of e) -> esize (snd cb) < esize e.
Proof.
  induction e using expr_ind'; intros cb Hin; cbn [sites_of esize] in *;
    repeat match goal with
           | H : In _ (_ ++ _) |- _ => apply in_app_or in H as [H|H]
           end;
    try (destruct Hin; fail);
    try (match goal with
         | H : In _ (sites_of ?x), IH : forall cb, In cb (sites_of ?x) -> _ |- _ => specialize (IH _ H); lia
         end);
    try (match goal with
         | H : In _ (match ?d with Some _ => _ | None => _ end), IH : Popt _ ?d |- _ =>
             pose proof (sites_smaller_opt d _ IH H); lia
         end);
    try (match goal with
         | H : In _ _, IH : Forall _ ?l |- _ => pose proof (sites_smaller_list l _ IH H); lia
         end);
    try (match goal with
         | H : In _ _, IH : Forall _ ?l |- _ => pose proof (sites_smaller_snd l _ IH H); lia
         end);
    try (match goal with
         | H : In _ _, IH : Forall _ ?l |- _ => pose proof (sites_smaller_cases l _ IH H); lia
         end).
  (* the site of the Cached node itself *)
  destruct c as [cid|]; [|destruct Hin]. destruct Hin as [<-|[]]. cbn [snd]. lia.
Qed.

(** the cache site of a Cached node is not among the sites inside its own expression *)
Lemma own_site_not_inside cid e : ~ In (cid, e) (sites_of e).
Proof. intros H. apply sites_smaller in H. cbn [snd] in H. lia. Qed.

Section C12.
  Variable S : Type.
  Variable mem_find : N -> fp -> S -> option value.
  Variable mem_store : N -> fp -> value -> S -> S.
  Variable cfg : config.
  Variable ucall : N -> list value -> cres.
  Variable rfuel : nat.
  Variable site_ok : expr -> dict -> bool.

  Notation eval := (eval S mem_find mem_store cfg ucall rfuel site_ok).
  Notation validate := (validate S mem_find mem_store cfg ucall rfuel site_ok).
  Notation keys := (keys S mem_find mem_store cfg ucall rfuel site_ok).
  Notation explain := (explain S mem_find mem_store cfg ucall rfuel site_ok).
  Notation M := (M S).
  Notation bind := (bind S).
  Notation ret := (ret S).
  Notation fail := (fail S).
  Notation emit := (emit S).
  Notation catch := (catch S).
  Notation wrap_eval := (wrap_eval S).
  Notation call_value := (call_value S ucall).
  Notation after := (after S).
  Notation wrap_out := (wrap_out S).
  Notation case_loop := (case_loop S mem_find mem_store cfg ucall rfuel site_ok).
  Notation coal_loop := (coal_loop S mem_find mem_store cfg ucall rfuel site_ok).
  Notation fingerprint := (fingerprint S mem_find mem_store cfg ucall rfuel site_ok).
  Notation miss_path := (miss_path S mem_find mem_store cfg ucall rfuel site_ok).
  Notation store_back := (store_back S mem_find mem_store cfg ucall rfuel site_ok).
  Notation cached_on := (cached_on S mem_find mem_store cfg ucall rfuel site_ok).
  Notation effect_run := (effect_run S mem_find mem_store cfg ucall rfuel site_ok).
  Notation cache_off := (cache_off cfg).

  (** rewriting with a known sub-outcome *)
  Ltac bok H := rewrite (bind_okE S _ _ _ _ _ _ H); cbv beta.
  Ltac berr H := rewrite (bind_errE S _ _ _ _ _ _ _ H).

  (** ** The handlers' bookkeeping: case-when conditions that were false, coalesce members
      that were passed over *)
  Inductive conds_false (o : dict) (x : value) : list (expr * expr) -> S -> S -> list event -> Prop :=
  | cf_nil s : conds_false o x [] s s []
  | cf_cons c r rest s p s1 l1 b s2 l2 s3 l3 :
      eval c o s = (Ok p, s1, l1) -> call_value p x s1 = (Ok b, s2, l2) -> truthy b = false ->
      conds_false o x rest s2 s3 l3 ->
      conds_false o x ((c, r) :: rest) s s3 (l1 ++ l2 ++ l3).

  Lemma case_loop_skip {A} o x (fin : M A) sel pre rest s s1 l1 :
    conds_false o x pre s s1 l1 ->
    case_loop o x fin sel (pre ++ rest) s = after l1 (case_loop o x fin sel rest s1).
  Proof.
    induction 1 as [s|c r pre s p s1 l1 b s2 l2 s3 l3 Hc Hp Hb Hrest IH].
    - cbn [app]. now rewrite after_nil.
    - cbn [app TraceProofs.case_loop]. bok Hc. bok Hp. rewrite Hb.
      fold (case_loop o x fin sel (pre ++ rest)). rewrite IH. rewrite !after_after.
      now rewrite <- !app_assoc.
  Qed.

  (** a member is passed over when its validate-then-evaluate attempt raises an
      EvaluationError (only those are caught) *)
  Inductive skipped (o : dict) : list expr -> S -> S -> list event -> Prop :=
  | sk_nil s : skipped o [] s s []
  | sk_cons m rest s c s1 l1 s2 l2 :
      bind (validate m o) (fun _ => eval m o) s = (Err c true, s1, l1) -> c <> CUnmodelled ->
      skipped o rest s1 s2 l2 ->
      skipped o (m :: rest) s s2 (l1 ++ l2).

  Lemma coal_loop_skip o pre rest s s1 l1 :
    skipped o pre s s1 l1 ->
    forall last, exists last',
      coal_loop o (fun m => eval m o) (pre ++ rest) last s =
        after l1 (coal_loop o (fun m => eval m o) rest last' s1).
  Proof.
    induction 1 as [s|m pre s c s1 l1 s2 l2 Hm Hc Hrest IH]; intros last.
    - exists last. cbn [app]. now rewrite after_nil.
    - destruct (IH (Some (c, true))) as [last' E]. exists last'.
      cbn [app TraceProofs.coal_loop]. rewrite (catch_errE S _ _ _ _ _ _ _ Hm Hc). cbv beta iota.
      fold (coal_loop o (fun m => eval m o) (pre ++ rest)). rewrite E. now rewrite after_after.
  Qed.

  Lemma bind_assoc {A B C} (m : M A) (f : A -> M B) (g : B -> M C) s :
    bind (bind m f) g s = bind m (fun a => bind (f a) g) s.
  Proof.
    unfold Eval.bind. destruct (m s) as [[[a|c ee] s1] l1]; [|reflexivity].
    destruct (f a s1) as [[[b|c ee] s2] l2]; [|reflexivity].
    destruct (g b s2) as [[r s3] l3]. now rewrite app_assoc.
  Qed.

  (** the value of an Option before its domain is looked at *)
  Definition option_base (k : key) (dflt : option expr) (o : dict) : M value :=
    bind (rd S k o) (fun r =>
      match r with
      | TypeErr => fail CType false
      | Absent => match dflt with None => fail (CKey k) true | Some d => eval d o end
      | Found raw =>
          bind (emit_reads S (resolve_reads rfuel o raw) o) (fun _ =>
          bind (of_rres S (resolve rfuel o raw)) (fun j => ret (VJ j)))
      end).
  Lemma option_eval_base k dflt dom o s :
    option_eval S ucall rfuel (fun x => eval x o) k dflt dom o s =
      bind (option_base k dflt o) (fun v =>
        match dom with
        | None => ret v
        | Some de => bind (eval de o) (fun d => bind (in_domain S ucall d v) (fun _ => ret v))
        end) s.
  Proof. rewrite option_eval_E. unfold option_base. now rewrite bind_assoc. Qed.

  Definition dirty_evs (cid : N) (e : expr) (o : dict) : list event :=
    if site_ok e o then [] else [EvDirty cid].
  Definition log_evs (o : dict) : list event :=
    EvLogReq :: (if cfg.(log_ctx_off) || logging_opt_off o then [] else [EvLogEmit]).

  (** ** Strict positions.  [strict_pos e o s x o' s' lpre]: while [e] is evaluated under [o]
      from store [s], the sub-expression [x] is evaluated under [o'] from store [s'], after the
      events [lpre], in a position where NO handler of [e] stands between [x] and [e]'s own
      wrapper.  The premises say that everything [e] does before reaching [x] succeeded.
      Every sub-evaluation performed by [eval] is listed, except the handler positions:
      the dispatch of a switch that has a default, coalesce members other than the last,
      the elements of Iter and the body of Map (deferred). *)
  Inductive strict_pos : expr -> dict -> S -> expr -> dict -> S -> list event -> Prop :=
  | sp_option_default k d dom o s :
      lookup k (JObj o) = Absent -> strict_pos (EOption k (Some d) dom) o s d o s [EvRead k false]
  | sp_option_domain k dflt de o s v s1 l1 :
      option_base k dflt o s = (Ok v, s1, l1) -> strict_pos (EOption k dflt (Some de)) o s de o s1 l1
  | sp_apply_src src fn o s : strict_pos (EApply src fn) o s src o s []
  | sp_apply_fn src fn o s x s1 l1 :
      eval src o s = (Ok x, s1, l1) -> strict_pos (EApply src fn) o s fn o s1 l1
  | sp_bind_src src tbl dflt o s : strict_pos (EBind src tbl dflt) o s src o s []
  | sp_bind_branch src tbl dflt o s x s1 l1 b :
      eval src o s = (Ok x, s1, l1) -> assoc_v x tbl = Some b ->
      strict_pos (EBind src tbl dflt) o s b o s1 l1
  | sp_bind_default src tbl d o s x s1 l1 :
      eval src o s = (Ok x, s1, l1) -> assoc_v x tbl = None ->
      strict_pos (EBind src tbl (Some d)) o s d o s1 l1
  | sp_switch_disp disp tbl o s : strict_pos (ESwitch disp tbl None) o s disp o s []
  | sp_switch_branch disp tbl dflt o s k s1 l1 b :
      eval disp o s = (Ok k, s1, l1) -> hashable k = true -> assoc_v k tbl = Some b ->
      strict_pos (ESwitch disp tbl dflt) o s b o s1 l1
  | sp_switch_default disp tbl d o s k s1 l1 :
      eval disp o s = (Ok k, s1, l1) -> hashable k = true -> assoc_v k tbl = None ->
      strict_pos (ESwitch disp tbl (Some d)) o s d o s1 l1
  | sp_switch_fallback disp tbl d o s c s1 l1 :
      eval disp o s = (Err c true, s1, l1) -> c <> CUnmodelled ->
      strict_pos (ESwitch disp tbl (Some d)) o s d o s1 l1
  | sp_case_disp disp cases dflt o s : strict_pos (ECase disp cases dflt) o s disp o s []
  | sp_case_cond disp pre c r post dflt o s x s1 l1 s2 l2 :
      eval disp o s = (Ok x, s1, l1) -> conds_false o x pre s1 s2 l2 ->
      strict_pos (ECase disp (pre ++ (c, r) :: post) dflt) o s c o s2 (l1 ++ l2)
  | sp_case_result disp pre c r post dflt o s x s1 l1 s2 l2 p s3 l3 b s4 l4 :
      eval disp o s = (Ok x, s1, l1) -> conds_false o x pre s1 s2 l2 ->
      eval c o s2 = (Ok p, s3, l3) -> call_value p x s3 = (Ok b, s4, l4) -> truthy b = true ->
      strict_pos (ECase disp (pre ++ (c, r) :: post) dflt) o s r o s4 (l1 ++ l2 ++ l3 ++ l4)
  | sp_case_default disp cases d o s x s1 l1 s2 l2 :
      eval disp o s = (Ok x, s1, l1) -> conds_false o x cases s1 s2 l2 ->
      strict_pos (ECase disp cases (Some d)) o s d o s2 (l1 ++ l2)
  | sp_coalesce_last pre m o s s1 l1 s2 l2 :
      skipped o pre s s1 l1 -> validate m o s1 = (Ok tt, s2, l2) ->
      strict_pos (ECoalesce (pre ++ [m])) o s m o s2 (l1 ++ l2)
  | sp_map_iterable e pre k x post o s vs s1 l1 :
      mapM S (fun kv => bind (eval (snd kv) o) (fun v => force_elems S v)) pre s = (Ok vs, s1, l1) ->
      strict_pos (EMap e (pre ++ (k, x) :: post)) o s x o s1 l1
  | sp_with force p e o s : strict_pos (EWith force p e) o s e (with_opts force p o) s []
  | sp_cached_none e o s : strict_pos (ECached CNone e) o s e o s []
  | sp_cached_off cid e o s :
      cache_off o = true -> strict_pos (ECached (CMem cid) e) o s e o s []
  | sp_cached_miss cid e o s f s1 l1 :
      cache_off o = false -> fingerprint e o s = (Ok f, s1, l1) -> mem_find cid f s1 = None ->
      strict_pos (ECached (CMem cid) e) o s e o s1 (dirty_evs cid e o ++ l1 ++ [EvCacheExists cid false])
  | sp_cached_lost cid e o s f s1 l1 v0 f2 s2 l2 :
      cache_off o = false -> fingerprint e o s = (Ok f, s1, l1) -> mem_find cid f s1 = Some v0 ->
      fingerprint e o s1 = (Ok f2, s2, l2) -> mem_find cid f2 s2 = None ->
      strict_pos (ECached (CMem cid) e) o s e o s2
        (dirty_evs cid e o ++ l1 ++ [EvCacheExists cid true] ++ l2 ++ [EvCacheGet cid false])
  | sp_call_f p f args kwargs o s : strict_pos (ECall p f args kwargs) o s f o s []
  | sp_call_arg p f pre x post kwargs o s fv s1 l1 vs s2 l2 :
      eval f o s = (Ok fv, s1, l1) -> mapM S (fun y => eval y o) pre s1 = (Ok vs, s2, l2) ->
      strict_pos (ECall p f (pre ++ x :: post) kwargs) o s x o s2 (l1 ++ l2)
  | sp_call_kwarg p f args pre x post o s fv s1 l1 av s2 l2 vs s3 l3 :
      eval f o s = (Ok fv, s1, l1) -> mapM S (fun y => eval y o) args s1 = (Ok av, s2, l2) ->
      mapM S (fun y => eval y o) pre s2 = (Ok vs, s3, l3) ->
      strict_pos (ECall p f args (pre ++ x :: post)) o s x o s3 (l1 ++ l2 ++ l3)
  | sp_template_param str pre p x post o s pvs s1 l1 :
      mapM S (fun pe => bind (eval (snd pe) o) (fun v => ret (fst pe, v))) pre s = (Ok pvs, s1, l1) ->
      strict_pos (ETemplate str (pre ++ (p, x) :: post)) o s x o s1 l1
  | sp_comp_body e effects o s : strict_pos (EComp e effects) o s e o s []
  | sp_comp_effect e pre eff post o s v s1 l1 s2 l2 :
      eval e o s = (Ok v, s1, l1) -> effects_opt_off o = false ->
      iterM S (effect_run o v) pre s1 = (Ok tt, s2, l2) ->
      strict_pos (EComp e (pre ++ eff :: post)) o s eff o s2 (l1 ++ l2)
  | sp_logged e o s : strict_pos (ELogged e) o s e o s (log_evs o)
  | sp_pipe_step pre x post o s fs s1 l1 :
      mapM S (fun y => eval y o) pre s = (Ok fs, s1, l1) ->
      strict_pos (EPipe (pre ++ x :: post)) o s x o s1 l1.

  Lemma dispatch_ok (m : M value) b s k s1 l1 :
    m s = (Ok k, s1, l1) -> dispatch_value S m b s = (Ok (Some k), s1, l1).
  Proof.
    intros H. unfold dispatch_value. erewrite catch_okE; [reflexivity|].
    bok H. unfold after. cbn. now rewrite app_nil_r.
  Qed.
  Lemma dispatch_nodefault_err (m : M value) s c ee s1 l1 :
    m s = (Err c ee, s1, l1) -> dispatch_value S m false s = (Err c ee, s1, l1).
  Proof.
    intros H. unfold dispatch_value.
    assert (Hb : bind m (fun k => ret (Some k)) s = (Err c ee, s1, l1)) by (now berr H).
    assert (Hc : c = CUnmodelled \/ c <> CUnmodelled)
      by (destruct c; first [now left|right; discriminate]).
    destruct Hc as [->|Hne].
    - now rewrite (catch_unmodE S _ _ _ _ _ _ Hb).
    - rewrite (catch_errE S _ _ _ _ _ _ _ Hb Hne). rewrite andb_false_r.
      unfold after. cbn. now rewrite app_nil_r.
  Qed.
  Lemma dispatch_fallback (m : M value) s c s1 l1 :
    m s = (Err c true, s1, l1) -> c <> CUnmodelled -> dispatch_value S m true s = (Ok None, s1, l1).
  Proof.
    intros H Hne. unfold dispatch_value.
    assert (Hb : bind m (fun k => ret (Some k)) s = (Err c true, s1, l1)) by (now berr H).
    rewrite (catch_errE S _ _ _ _ _ _ _ Hb Hne). unfold after. cbn. now rewrite app_nil_r.
  Qed.
  Lemma case_loop_all_false {A} o x (fin : M A) sel cases s s1 l1 :
    conds_false o x cases s s1 l1 -> case_loop o x fin sel cases s = after l1 (fin s1).
  Proof. intros H. rewrite <- (app_nil_r cases). now rewrite (case_loop_skip o x fin sel _ [] _ _ _ H). Qed.

  Ltac fin :=
    rewrite ?wrap_after, ?after_after; unfold TraceProofs.after, TraceProofs.wrap_out;
    cbn [fst snd app]; repeat (rewrite <- app_assoc; cbn [app]); rewrite ?app_nil_r; try reflexivity.

  (** PROPAGATION: a failure in strict position reaches the node's caller with the same cause,
      the same store, and the node's events followed by the failing sub-evaluation's *)
  Theorem strict_pos_propagates e o s x o' s' lpre c ee s'' l :
    strict_pos e o s x o' s' lpre -> eval x o' s' = (Err c ee, s'', l) ->
    eval e o s = (Err c true, s'', lpre ++ l).
  Proof.
    intros Hp Hx. assert (ee = true) as -> by (eapply eval_err_true; eauto).
    destruct Hp.
    - (* option default *)
      rewrite eval_option_unfold, wrap_eval_out, option_eval_E. bok (rd_E S k o s). rewrite H. cbv iota.
      berr Hx. fin.
    - (* option domain *)
      rewrite eval_option_unfold, wrap_eval_out, option_eval_base. bok H. berr Hx. fin.
    - rewrite eval_apply_E, wrap_eval_out. berr Hx. fin.
    - rewrite eval_apply_E, wrap_eval_out. bok H. berr Hx. fin.
    - rewrite eval_bind_E, wrap_eval_out. berr Hx. fin.
    - rewrite eval_bind_E, wrap_eval_out. bok H. rewrite pick_assoc, H0, Hx. fin.
    - rewrite eval_bind_E, wrap_eval_out. bok H. rewrite pick_assoc, H0. cbn [dflt_or]. rewrite Hx. fin.
    - (* switch dispatch, no default *)
      rewrite eval_switch_E, wrap_eval_out. cbn [is_some]. berr (dispatch_nodefault_err _ _ _ _ _ _ Hx). fin.
    - rewrite eval_switch_E, wrap_eval_out. bok (dispatch_ok _ (is_some dflt) _ _ _ _ H).
      rewrite H0. cbn [negb]. rewrite pick_assoc, H1, Hx. fin.
    - rewrite eval_switch_E, wrap_eval_out. bok (dispatch_ok _ (is_some (Some d)) _ _ _ _ H).
      rewrite H0. cbn [negb]. rewrite pick_assoc, H1. cbn [dflt_or]. rewrite Hx. fin.
    - (* the default after a failed dispatch *)
      rewrite eval_switch_E, wrap_eval_out. cbn [is_some]. bok (dispatch_fallback _ _ _ _ _ H H0).
      cbn [dflt_or]. rewrite Hx. fin.
    - rewrite eval_case_E, wrap_eval_out. berr Hx. fin.
    - rewrite eval_case_E, wrap_eval_out. bok H. rewrite (case_loop_skip _ _ _ _ _ _ _ _ _ H0).
      cbn [TraceProofs.case_loop]. berr Hx. fin.
    - rewrite eval_case_E, wrap_eval_out. bok H. rewrite (case_loop_skip _ _ _ _ _ _ _ _ _ H0).
      cbn [TraceProofs.case_loop]. bok H1. bok H2. rewrite H3, Hx. fin.
    - rewrite eval_case_E, wrap_eval_out. bok H. rewrite (case_loop_all_false _ _ _ _ _ _ _ _ H0).
      cbn [dflt_or]. rewrite Hx. fin.
    - (* the last coalesce member *)
      rewrite eval_coalesce_E, wrap_eval_out.
      destruct (coal_loop_skip o pre [m] _ _ _ H None) as [last' E]. rewrite E.
      cbn [TraceProofs.coal_loop].
      assert (Hatt : bind (validate m o) (fun _ => eval m o) s1 = (Err c true, s'', l2 ++ l))
        by (bok H0; rewrite Hx; reflexivity).
      assert (Hc : c = CUnmodelled \/ c <> CUnmodelled)
        by (destruct c; first [now left|right; discriminate]).
      destruct Hc as [->|Hne].
      + rewrite (catch_unmodE S _ _ _ _ _ _ Hatt). fin.
      + rewrite (catch_errE S _ _ _ _ _ _ _ Hatt Hne). cbv iota. fin.
    - (* an iterable of Map *)
      rewrite eval_map_E, wrap_eval_out. unfold map_rows. rewrite bind_assoc.
      assert (HF : (fun kv : key * expr => bind (eval (snd kv) o) (fun v => force_elems S v)) (k, x) s1
                   = (Err c true, s'', l)) by (cbn [snd]; now berr Hx).
      berr (mapM_app_err S _ _ _ post _ _ _ _ _ _ _ _ H HF). fin.
    - rewrite eval_with_E, wrap_eval_out, Hx. fin.
    - rewrite eval_cached_none_E, wrap_eval_out, Hx. fin.
    - rewrite eval_cached_mem_E, wrap_eval_out, H, Hx. fin.
    - (* cached node, miss *)
      rewrite eval_cached_mem_E, wrap_eval_out, H. unfold TraceProofs.cached_on, dirty_evs.
      destruct (site_ok e o).
      + bok (ret_E S tt s). bok H0. bok (eq_refl : get_store S s1 = (Ok s1, s1, [])). rewrite H1.
        bok (emit_E S (EvCacheExists cid false) s1). unfold TraceProofs.miss_path. berr Hx. fin.
      + bok (emit_E S (EvDirty cid) s). bok H0. bok (eq_refl : get_store S s1 = (Ok s1, s1, [])). rewrite H1.
        bok (emit_E S (EvCacheExists cid false) s1). unfold TraceProofs.miss_path. berr Hx. fin.
    - (* cached node, entry seen by exists() but not by get() *)
      rewrite eval_cached_mem_E, wrap_eval_out, H. unfold TraceProofs.cached_on, dirty_evs.
      destruct (site_ok e o).
      + bok (ret_E S tt s). bok H0. bok (eq_refl : get_store S s1 = (Ok s1, s1, [])). rewrite H1.
        bok (emit_E S (EvCacheExists cid true) s1). bok H2.
        bok (eq_refl : get_store S s2 = (Ok s2, s2, [])). rewrite H3.
        bok (emit_E S (EvCacheGet cid false) s2). unfold TraceProofs.miss_path. berr Hx. fin.
      + bok (emit_E S (EvDirty cid) s). bok H0. bok (eq_refl : get_store S s1 = (Ok s1, s1, [])). rewrite H1.
        bok (emit_E S (EvCacheExists cid true) s1). bok H2.
        bok (eq_refl : get_store S s2 = (Ok s2, s2, [])). rewrite H3.
        bok (emit_E S (EvCacheGet cid false) s2). unfold TraceProofs.miss_path. berr Hx. fin.
    - rewrite eval_call_E, wrap_eval_out. berr Hx. fin.
    - rewrite eval_call_E, wrap_eval_out. bok H.
      berr (mapM_app_err S _ _ _ post _ _ _ _ _ _ _ _ H0 Hx). fin.
    - rewrite eval_call_E, wrap_eval_out. bok H. bok H0.
      berr (mapM_app_err S _ _ _ post _ _ _ _ _ _ _ _ H1 Hx). fin.
    - (* a Template parameter *)
      rewrite eval_template_E, wrap_eval_out. unfold template_options. rewrite bind_assoc.
      assert (HF : (fun pe : N * expr => bind (eval (snd pe) o) (fun v => ret (fst pe, v))) (p, x) s1
                   = (Err c true, s'', l)) by (cbn [snd]; now berr Hx).
      berr (mapM_app_err S _ _ _ post _ _ _ _ _ _ _ _ H HF). fin.
    - rewrite eval_comp_E, wrap_eval_out. berr Hx. fin.
    - (* an effect's callback expression *)
      rewrite eval_comp_E, wrap_eval_out. bok H. rewrite H0.
      assert (HF : effect_run o v eff s2 = (Err c true, s'', l))
        by (unfold TraceProofs.effect_run; now berr Hx).
      berr (iterM_app_err S _ _ _ post _ _ _ _ _ _ _ H1 HF). fin.
    - rewrite eval_logged_E, wrap_eval_out. bok (emit_E S EvLogReq s). unfold log_evs.
      destruct (log_ctx_off cfg || logging_opt_off o).
      + bok (ret_E S tt s). rewrite Hx. fin.
      + bok (emit_E S EvLogEmit s). rewrite Hx. fin.
    - rewrite eval_pipe_E, wrap_eval_out. berr (mapM_app_err S _ _ _ post _ _ _ _ _ _ _ _ H Hx). fin.
  Qed.

  (** chains of strict positions *)
  Inductive strict_path : expr -> dict -> S -> expr -> dict -> S -> list event -> Prop :=
  | path_here e o s : strict_path e o s e o s []
  | path_step e o s y oy sy l1 x ox sx l2 :
      strict_pos e o s y oy sy l1 -> strict_path y oy sy x ox sx l2 ->
      strict_path e o s x ox sx (l1 ++ l2).

  (** THE CAUSE IS ORIGINAL: whatever fails at the end of a chain of strict positions is what
      the evaluated object reports — same cause, same store, events in order *)
  Theorem cause_is_original e o s x ox sx lpre c ee s'' l :
    strict_path e o s x ox sx lpre -> eval x ox sx = (Err c ee, s'', l) ->
    eval e o s = (Err c true, s'', lpre ++ l).
  Proof.
    induction 1 as [e o s|e o s y oy sy l1 x ox sx l2 Hpos Hpath IH]; intros Hx.
    - pose proof (eval_err_true S _ _ _ _ _ _ _ _ _ _ _ _ _ Hx) as ->. exact Hx.
    - specialize (IH Hx). rewrite <- app_assoc. eapply strict_pos_propagates; eauto.
  Qed.

  (** ** Where causes are raised (the leaves) *)
  Lemma raise_switch disp tbl o s k s1 l1 :
    eval disp o s = (Ok k, s1, l1) -> hashable k = true -> assoc_v k tbl = None ->
    eval (ESwitch disp tbl None) o s = (Err CSwitch true, s1, l1).
  Proof.
    intros H Hh Ha. rewrite eval_switch_E, wrap_eval_out. bok (dispatch_ok _ (is_some (@None expr)) _ _ _ _ H).
    rewrite Hh. cbn [negb]. rewrite pick_assoc, Ha. cbn [dflt_or]. fin.
  Qed.
  Lemma raise_case disp cases o s x s1 l1 s2 l2 :
    eval disp o s = (Ok x, s1, l1) -> conds_false o x cases s1 s2 l2 ->
    eval (ECase disp cases None) o s = (Err CCase true, s2, l1 ++ l2).
  Proof.
    intros H Hc. rewrite eval_case_E, wrap_eval_out. bok H.
    rewrite (case_loop_all_false _ _ _ _ _ _ _ _ Hc). cbn [dflt_or]. fin.
  Qed.

  Definition user_fun (f : N) : bool :=
    negb (N.eqb f B_LIST || N.eqb f B_TUPLE || N.eqb f B_DICT).

  (** user code raising its n-th exception class: the body did run (event), the raw exception
      is not an EvaluationError yet *)
  Lemma raise_user f args n s :
    user_fun f = true -> deep_err_list args = None -> ucall f (map listify args) = CRaise n ->
    call_fun S ucall f args s = (Err (CUser n) false, s, [EvCall f (map listify args)]).
  Proof.
    unfold user_fun. intros Hf Hd Hu. apply negb_true_iff in Hf.
    apply orb_false_elim in Hf as [Hf H3]. apply orb_false_elim in Hf as [H1 H2].
    unfold call_fun. rewrite H1, H2, H3, Hd, Hu. reflexivity.
  Qed.

  (** a FunctionApplication: everything before the call succeeded, then the outcome of the
      call, wrapped (shared with C06: the events of the arguments come first) *)
  Lemma eval_call_decompose fe args kwargs o s fv s1 l1 av s2 l2 kv s3 l3 :
    eval fe o s = (Ok fv, s1, l1) ->
    mapM S (fun y => eval y o) args s1 = (Ok av, s2, l2) ->
    mapM S (fun y => eval y o) kwargs s2 = (Ok kv, s3, l3) ->
    eval (ECall false fe args kwargs) o s =
      wrap_out (after (l1 ++ l2 ++ l3) (call_value_n S ucall fv (av ++ kv) s3)).
  Proof.
    intros H1 H2 H3. rewrite eval_call_E, wrap_eval_out. bok H1. bok H2. bok H3.
    rewrite !after_after. now rewrite <- !app_assoc.
  Qed.

  Lemma raise_user_in_body fe args kwargs o s fid pre post s1 l1 av s2 l2 kv s3 l3 n :
    eval fe o s = (Ok (VF fid pre post), s1, l1) ->
    mapM S (fun y => eval y o) args s1 = (Ok av, s2, l2) ->
    mapM S (fun y => eval y o) kwargs s2 = (Ok kv, s3, l3) ->
    N.eqb fid B_COMPOSE = false -> user_fun fid = true ->
    deep_err_list (pre ++ (av ++ kv) ++ post) = None ->
    ucall fid (map listify (pre ++ (av ++ kv) ++ post)) = CRaise n ->
    eval (ECall false fe args kwargs) o s =
      (Err (CUser n) true, s3, l1 ++ l2 ++ l3 ++ [EvCall fid (map listify (pre ++ (av ++ kv) ++ post))]).
  Proof.
    intros H1 H2 H3 Hc Hu Hd Hr. rewrite (eval_call_decompose _ _ _ _ _ _ _ _ _ _ _ _ _ _ H1 H2 H3).
    unfold call_value_n. rewrite Hc. rewrite (raise_user _ _ _ _ Hu Hd Hr). fin.
  Qed.

  (** ** What the deferring handlers do: the element's cause is kept, and raised by whoever
      consumes the iterable *)
  Notation iter_loop := (iter_loop S mem_find mem_store cfg ucall rfuel site_ok).
  Lemma iter_defers_head o x rest s c ee s1 l1 :
    eval x o s = (Err c ee, s1, l1) -> c <> CUnmodelled ->
    iter_loop o (x :: rest) s = (Ok [VErr c], s1, l1).
  Proof.
    intros H Hc. cbn [TraceProofs.iter_loop].
    assert (Hb : bind (eval x o) (fun v => if is_some (deep_err v) then ret [v]
                   else bind (iter_loop o rest) (fun vs => ret (v :: vs))) s = (Err c ee, s1, l1))
      by (now berr H).
    rewrite (catch_errE S _ _ _ _ _ _ _ Hb Hc). fin.
  Qed.
  Lemma consumer_raises_deferred t vs c s :
    (N.eqb t T_ITER || N.eqb t T_LIST || N.eqb t T_TUPLE) = true -> first_err vs = Some c ->
    force_elems S (VT t vs) s = (Err c true, s, []).
  Proof. intros Ht Hf. unfold force_elems, elements_of. rewrite Ht, Hf. reflexivity. Qed.

  (** ** The statements of the property, assembled *)

  (** every error leaving [eval] is an EvaluationError *)
  Theorem eval_error_is_evaluation_error e o s c ee s' l :
    eval e o s = (Err c ee, s', l) -> ee = true.
  Proof. apply eval_err_true. Qed.

  (** a missing option, anywhere below [e] in strict position, is reported with ITS key *)
  Theorem missing_option_reports_its_key e o s k dom ox sx lpre :
    strict_path e o s (EOption k None dom) ox sx lpre -> lookup k (JObj ox) = Absent ->
    eval e o s = (Err (CKey k) true, sx, lpre ++ [EvRead k false]).
  Proof.
    intros Hp Ha. eapply cause_is_original; [exact Hp|].
    apply (eval_option_absent_nodefault S mem_find mem_store cfg ucall rfuel site_ok). exact Ha.
  Qed.

  (** a present option whose templated value references an absent key: THAT key is reported *)
  Theorem missing_reference_reports_its_key e o s k dflt dom raw k' ox sx lpre :
    strict_path e o s (EOption k dflt dom) ox sx lpre ->
    lookup k (JObj ox) = Found raw -> resolve rfuel ox raw = RMissing k' ->
    exists l, eval e o s = (Err (CKey k') true, sx, lpre ++ l).
  Proof.
    intros Hp Hf Hr.
    destruct (eval_option_missing_reference S mem_find mem_store cfg ucall rfuel site_ok
                k dflt dom raw k' ox sx Hf Hr) as [l [Hl _]].
    exists l. eapply cause_is_original; eauto.
  Qed.

  (** an exception raised by user code in a body, anywhere below [e] in strict position, is
      the cause [e] reports; the body ran exactly where it should (last event) *)
  Theorem user_exception_reaches_the_top e o s fe args kwargs ox sx lpre fid pre post s1 l1 av s2 l2 kv s3 l3 n :
    strict_path e o s (ECall false fe args kwargs) ox sx lpre ->
    eval fe ox sx = (Ok (VF fid pre post), s1, l1) ->
    mapM S (fun y => eval y ox) args s1 = (Ok av, s2, l2) ->
    mapM S (fun y => eval y ox) kwargs s2 = (Ok kv, s3, l3) ->
    N.eqb fid B_COMPOSE = false -> user_fun fid = true ->
    deep_err_list (pre ++ (av ++ kv) ++ post) = None ->
    ucall fid (map listify (pre ++ (av ++ kv) ++ post)) = CRaise n ->
    eval e o s = (Err (CUser n) true, s3,
                  lpre ++ l1 ++ l2 ++ l3 ++ [EvCall fid (map listify (pre ++ (av ++ kv) ++ post))]).
  Proof.
    intros Hp H1 H2 H3 Hc Hu Hd Hr. eapply cause_is_original; [exact Hp|].
    eapply raise_user_in_body; eauto.
  Qed.

  (** an unmatched switch / case below [e] in strict position *)
  Theorem unmatched_switch_reaches_the_top e o s disp tbl ox sx lpre k s1 l1 :
    strict_path e o s (ESwitch disp tbl None) ox sx lpre ->
    eval disp ox sx = (Ok k, s1, l1) -> hashable k = true -> assoc_v k tbl = None ->
    eval e o s = (Err CSwitch true, s1, lpre ++ l1).
  Proof. intros Hp H Hh Ha. eapply cause_is_original; [exact Hp|]. eapply raise_switch; eauto. Qed.
  Theorem unmatched_case_reaches_the_top e o s disp cases ox sx lpre x s1 l1 s2 l2 :
    strict_path e o s (ECase disp cases None) ox sx lpre ->
    eval disp ox sx = (Ok x, s1, l1) -> conds_false ox x cases s1 s2 l2 ->
    eval e o s = (Err CCase true, s2, lpre ++ l1 ++ l2).
  Proof. intros Hp H Hc. eapply cause_is_original; [exact Hp|]. eapply raise_case; eauto. Qed.

  (** ** The handlers *)
  (** Switch: ONLY an EvaluationError of the dispatch makes it use the default … *)
  Theorem switch_falls_back_on_dispatch_failure disp tbl d o s c s1 l1 :
    eval disp o s = (Err c true, s1, l1) -> c <> CUnmodelled ->
    eval (ESwitch disp tbl (Some d)) o s = after l1 (eval d o s1).
  Proof.
    intros H Hne. rewrite eval_switch_E, wrap_eval_out. cbn [is_some].
    bok (dispatch_fallback _ _ _ _ _ H Hne). cbn [dflt_or]. rewrite wrap_after. now rewrite wrap_out_eval.
  Qed.
  (** … an exception that is not an EvaluationError goes through the dispatch handler … *)
  Theorem dispatch_handler_lets_raw_errors_through (m : M value) b s c s1 l1 :
    m s = (Err c false, s1, l1) -> dispatch_value S m b s = (Err c false, s1, l1).
  Proof.
    intros H. unfold dispatch_value.
    assert (Hb : bind m (fun k => ret (Some k)) s = (Err c false, s1, l1)) by (now berr H).
    assert (Hc : c = CUnmodelled \/ c <> CUnmodelled)
      by (destruct c; first [now left|right; discriminate]).
    destruct Hc as [->|Hne].
    - now rewrite (catch_unmodE S _ _ _ _ _ _ Hb).
    - rewrite (catch_errE S _ _ _ _ _ _ _ Hb Hne). cbn [andb]. unfold after. cbn. now rewrite app_nil_r.
  Qed.
  (** … a dispatch value that cannot be looked up (unhashable) is not caught either … *)
  Theorem switch_unhashable_dispatch_fails disp tbl dflt o s k s1 l1 :
    eval disp o s = (Ok k, s1, l1) -> hashable k = false ->
    eval (ESwitch disp tbl dflt) o s = (Err CType true, s1, l1).
  Proof.
    intros H Hh. rewrite eval_switch_E, wrap_eval_out. bok (dispatch_ok _ (is_some dflt) _ _ _ _ H).
    rewrite Hh. cbn [negb]. fin.
  Qed.
  (** … and neither is the failure of the chosen branch, default or not *)
  Theorem switch_branch_failure_is_not_caught disp tbl dflt o s k s1 l1 b c ee s2 l2 :
    eval disp o s = (Ok k, s1, l1) -> hashable k = true -> assoc_v k tbl = Some b ->
    eval b o s1 = (Err c ee, s2, l2) ->
    eval (ESwitch disp tbl dflt) o s = (Err c true, s2, l1 ++ l2).
  Proof. intros H Hh Ha Hb. eapply strict_pos_propagates; [eapply sp_switch_branch; eauto|exact Hb]. Qed.

  (** Coalesce: the attempt on a member is validate-then-evaluate *)
  Definition attempt (o : dict) (m : expr) : M value := bind (validate m o) (fun _ => eval m o).

  (** the first member whose attempt succeeds gives the value; members before it were passed
      over because their attempts raised EvaluationErrors ([skipped]) *)
  Theorem coalesce_first_success o pre m post s s1 l1 v s2 l2 :
    skipped o pre s s1 l1 -> attempt o m s1 = (Ok v, s2, l2) ->
    eval (ECoalesce (pre ++ m :: post)) o s = (Ok v, s2, l1 ++ l2).
  Proof.
    intros Hs Hm. rewrite eval_coalesce_E, wrap_eval_out.
    destruct (coal_loop_skip o pre (m :: post) _ _ _ Hs None) as [last' E]. rewrite E.
    cbn [TraceProofs.coal_loop]. unfold attempt in Hm. rewrite (catch_okE S _ _ _ _ _ _ Hm). fin.
  Qed.
  (** an exception that is NOT an EvaluationError (validate re-raises whatever it meets) ends
      the coalesce: later members are not tried *)
  Theorem coalesce_raw_error_propagates o pre m post s s1 l1 c s2 l2 :
    skipped o pre s s1 l1 -> attempt o m s1 = (Err c false, s2, l2) ->
    eval (ECoalesce (pre ++ m :: post)) o s = (Err c true, s2, l1 ++ l2).
  Proof.
    intros Hs Hm. rewrite eval_coalesce_E, wrap_eval_out.
    destruct (coal_loop_skip o pre (m :: post) _ _ _ Hs None) as [last' E]. rewrite E.
    cbn [TraceProofs.coal_loop]. unfold attempt in Hm.
    assert (Hc : c = CUnmodelled \/ c <> CUnmodelled)
      by (destruct c; first [now left|right; discriminate]).
    destruct Hc as [->|Hne].
    - rewrite (catch_unmodE S _ _ _ _ _ _ Hm). fin.
    - rewrite (catch_errE S _ _ _ _ _ _ _ Hm Hne). cbv iota. fin.
  Qed.
  (** when every member fails, the error of the LAST one is what surfaces (root of D20) *)
  Theorem coalesce_reports_last_member o pre m s s1 l1 c ee s2 l2 :
    skipped o pre s s1 l1 -> attempt o m s1 = (Err c ee, s2, l2) ->
    eval (ECoalesce (pre ++ [m])) o s = (Err c true, s2, l1 ++ l2).
  Proof.
    intros Hs Hm. rewrite eval_coalesce_E, wrap_eval_out.
    destruct (coal_loop_skip o pre [m] _ _ _ Hs None) as [last' E]. rewrite E.
    cbn [TraceProofs.coal_loop]. unfold attempt in Hm.
    assert (Hc : c = CUnmodelled \/ c <> CUnmodelled)
      by (destruct c; first [now left|right; discriminate]).
    destruct Hc as [->|Hne].
    - rewrite (catch_unmodE S _ _ _ _ _ _ Hm). fin.
    - rewrite (catch_errE S _ _ _ _ _ _ _ Hm Hne). destruct ee; cbv iota; fin.
  Qed.

  (** Iter: elements before the failing one evaluated, none of them lazily failing *)
  Inductive elems_ok (o : dict) : list expr -> S -> list value -> S -> list event -> Prop :=
  | eo_nil s : elems_ok o [] s [] s []
  | eo_cons x rest s v s1 l1 vs s2 l2 :
      eval x o s = (Ok v, s1, l1) -> deep_err v = None -> elems_ok o rest s1 vs s2 l2 ->
      elems_ok o (x :: rest) s (v :: vs) s2 (l1 ++ l2).

  Lemma iter_defers o pre x post s vs s1 l1 c ee s2 l2 :
    elems_ok o pre s vs s1 l1 -> eval x o s1 = (Err c ee, s2, l2) -> c <> CUnmodelled ->
    iter_loop o (pre ++ x :: post) s = (Ok (vs ++ [VErr c]), s2, l1 ++ l2).
  Proof.
    intros Hpre Hx Hc. induction Hpre as [s|y rest s v sa la vs sb lb Hy Hd Hrest IH].
    - cbn [app]. now apply iter_defers_head with (ee := ee).
    - specialize (IH Hx). cbn [app TraceProofs.iter_loop].
      assert (Hb : bind (eval y o) (fun v => if is_some (deep_err v) then ret [v]
                     else bind (iter_loop o (rest ++ x :: post)) (fun vs => ret (v :: vs))) s
                   = (Ok (v :: vs ++ [VErr c]), s2, la ++ lb ++ l2)).
      { bok Hy. rewrite Hd. cbn [is_some]. bok IH. fin. }
      rewrite (catch_okE S _ _ _ _ _ _ Hb). now rewrite <- app_assoc.
  Qed.

  (** the evaluation of an Iter does not fail when an element does: the failure is kept in the
      iterable, the elements after it are never evaluated *)
  Theorem iter_element_failure_is_deferred o pre x post s vs s1 l1 c ee s2 l2 :
    elems_ok o pre s vs s1 l1 -> eval x o s1 = (Err c ee, s2, l2) -> c <> CUnmodelled ->
    eval (EIter (pre ++ x :: post)) o s = (Ok (VT T_ITER (vs ++ [VErr c])), s2, l1 ++ l2).
  Proof.
    intros Hpre Hx Hc. rewrite eval_iter_E, wrap_eval_out. bok (iter_defers _ _ _ post _ _ _ _ _ _ _ _ Hpre Hx Hc). fin.
  Qed.

  Lemma elems_ok_no_err o es s vs s1 l1 : elems_ok o es s vs s1 l1 -> first_err vs = None.
  Proof.
    induction 1 as [|x rest s v sa la vs sb lb Hx Hd Hrest IH]; [reflexivity|].
    cbn [first_err]. destruct v; try exact IH. discriminate Hd.
  Qed.
  Lemma first_err_app vs c : first_err vs = None -> first_err (vs ++ [VErr c]) = Some c.
  Proof.
    induction vs as [|v vs IH]; intros H; [reflexivity|]. cbn [app first_err] in *.
    destruct v; try (now apply IH). discriminate H.
  Qed.

  (** … and whoever consumes the iterable (here: [list(...)], the first step of an Apply)
      gets the element's failure, as an EvaluationError with the element's cause *)
  Theorem consumer_gets_the_element_failure o pre x post s vs s1 l1 c ee s2 l2 :
    elems_ok o pre s vs s1 l1 -> eval x o s1 = (Err c ee, s2, l2) -> c <> CUnmodelled ->
    eval (EApply (EIter (pre ++ x :: post)) (EValue (VF B_LIST [] []))) o s = (Err c true, s2, l1 ++ l2).
  Proof.
    intros Hpre Hx Hc. rewrite eval_apply_E, wrap_eval_out.
    bok (iter_element_failure_is_deferred _ _ _ post _ _ _ _ _ _ _ _ Hpre Hx Hc).
    bok (eq_refl : eval (EValue (VF B_LIST [] [])) o s2 = (Ok (VF B_LIST [] []), s2, [])).
    rewrite call_value_VF. cbn [N.eqb B_LIST B_COMPOSE Pos.eqb app]. unfold call_fun. cbn [N.eqb B_LIST Pos.eqb].
    berr (consumer_raises_deferred T_ITER (vs ++ [VErr c]) c s2 eq_refl
            (first_err_app _ _ (elems_ok_no_err _ _ _ _ _ _ Hpre))).
    fin.
  Qed.

  (** ** Only successes are stored, and only at their own cache site.  The only call of
      [mem_store] in the interpreters is in the CacheSetRequest step of a Cached node, which is
      reached only through the successful branch of the bind on the evaluation of the node's own
      expression.  Stated for EVERY run (evaluate / validate / keys / explain, failing or not) of an
      expression [e_top] as a statement about the path of stores the run goes through
      ([site_run], below), then entry by entry. *)
  Definition after_store (cid : N) (e : expr) (o : dict) (v : value) : M value :=
    bind (emit (EvCacheSet cid)) (fun _ =>
    bind (if has_lazy v then emit (EvLazyStored cid) else ret tt) (fun _ =>
    bind (fingerprint e o) (fun f' =>
    bind (get_store S) (fun s =>
      match mem_find cid f' s with
      | Some _ => bind (emit (EvCacheGet cid true)) (fun _ => ret v)
      | None => bind (emit (EvCacheGet cid false)) (fun _ => ret v)
      end)))).
  Lemma store_back_E cid e o v :
    store_back cid e o v =
      bind (fingerprint e o) (fun f =>
      bind (put_store S (mem_store cid f (exhaust v))) (fun _ => after_store cid e o v)).
  Proof. reflexivity. Qed.

  Lemma all_caches_allowed e : caches_allowed (fun _ => true) e = true.
  Proof.
    assert (HL : forall l, Forall (fun x => caches_allowed (fun _ => true) x = true) l ->
                           forallb (caches_allowed (fun _ => true)) l = true).
    { intros l H. apply forallb_forall. now rewrite Forall_forall in H. }
    assert (HS : forall K (l : list (K * expr)),
               Forall (fun ve => caches_allowed (fun _ => true) (snd ve) = true) l ->
               forallb (fun ve => caches_allowed (fun _ => true) (snd ve)) l = true).
    { intros K l H. apply forallb_forall. now rewrite Forall_forall in H. }
    assert (HO : forall d, Popt (fun x => caches_allowed (fun _ => true) x = true) d ->
                           optb (caches_allowed (fun _ => true)) d = true).
    { intros [d|] H; [exact H|reflexivity]. }
    induction e using expr_ind'; cbn [caches_allowed]; try reflexivity;
      repeat (apply andb_true_intro; split); auto.
    - (* case *)
      apply forallb_forall. intros cr Hcr. rewrite Forall_forall in H. destruct (H cr Hcr) as [A B].
      now rewrite A, B.
    - destruct c; reflexivity.
  Qed.

  (** the cache sites of a sub-expression are cache sites of the expression *)
  Lemma incl_app_l {A} (a b c : list A) : incl (a ++ b) c -> incl a c.
  Proof. intros H x Hx. apply H, in_or_app. now left. Qed.
  Lemma incl_app_r {A} (a b c : list A) : incl (a ++ b) c -> incl b c.
  Proof. intros H x Hx. apply H, in_or_app. now right. Qed.
  Lemma sites_list_In (l : list expr) x :
    In x l ->
    incl (sites_of x) ((fix go (l : list expr) := match l with [] => [] | x :: l' => sites_of x ++ go l' end) l).
  Proof.
    induction l as [|a l IH]; intros Hx; [destruct Hx|].
    destruct Hx as [<-|Hx]; [now apply incl_appl, incl_refl|now apply incl_appr, IH].
  Qed.
  Lemma sites_snd_In {K} (l : list (K * expr)) ke :
    In ke l ->
    incl (sites_of (snd ke))
         ((fix go (l : list (K * expr)) := match l with [] => [] | (_, x) :: l' => sites_of x ++ go l' end) l).
  Proof.
    induction l as [|[k a] l IH]; intros Hx; [destruct Hx|].
    destruct Hx as [<-|Hx]; [now apply incl_appl, incl_refl|now apply incl_appr, IH].
  Qed.
  Lemma sites_cases_In (l : list (expr * expr)) cr :
    In cr l ->
    let all := (fix go (l : list (expr * expr)) :=
                  match l with [] => [] | (c, r) :: l' => sites_of c ++ sites_of r ++ go l' end) l in
    incl (sites_of (fst cr)) all /\ incl (sites_of (snd cr)) all.
  Proof.
    induction l as [|[c r] l IH]; intros Hx; [destruct Hx|]. cbv zeta.
    destruct Hx as [<-|Hx].
    - split; [now apply incl_appl, incl_refl|now apply incl_appr, incl_appl, incl_refl].
    - destruct (IH Hx) as [A B]. split; now apply incl_appr, incl_appr.
  Qed.

  Section SiteStores.
    (** the cache sites (cache id, cached expression) of the expression being run *)
    Variable sl : list (N * expr).

    (** THE PATH OF STORES OF A RUN.  [site_run a b]: the store [b] is reached from [a] by a
        sequence of segments, each of which is: the evaluation of the cached expression [e] of
        one of the sites [(cid, e)], under some dictionary [o], which RETURNED [v]; then Cached's
        computation of the fingerprint of [e] under that same [o]; then the one store
        [mem_store cid f (exhaust v)] — of that value, at that fingerprint, into that site's
        cache.  The segment starts at the store in which the sub-evaluation started ([s1]), so
        the successful sub-evaluation is PART OF the path; what happens inside it (and inside the
        fingerprint computation) is again a path of this kind.  There is no other way to change
        the store: in particular no constructor stores after a failed sub-evaluation. *)
    Inductive site_run : S -> S -> Prop :=
    | sr_refl s : site_run s s
    | sr_trans a b c : site_run a b -> site_run b c -> site_run a c
    | sr_store cid e o s1 v s2 l1 f s3 lf :
        In (cid, e) sl ->
        eval e o s1 = (Ok v, s2, l1) -> site_run s1 s2 ->
        fingerprint e o s2 = (Ok f, s3, lf) -> site_run s2 s3 ->
        site_run s1 (mem_store cid f (exhaust v) s3).

    Notation fr := (fr S site_run).
    Notation fr3 := (fr3 S mem_find mem_store cfg ucall rfuel site_ok site_run).
    Notation PP := (PP S mem_find mem_store cfg ucall rfuel site_ok site_run (fun _ => true)).

    Let Fbind {A B} := @fr_bind S site_run sr_trans A B.
    Let Fret {A} := @fr_ret S site_run sr_refl A.
    Let Femit := fr_emit S site_run sr_refl.
    Let Fget := fr_get_store S site_run sr_refl.
    Let Ffp := fr_fingerprint S mem_find mem_store cfg ucall rfuel site_ok site_run sr_refl sr_trans.

    Lemma fr_after_store cid e o v : fr3 e -> fr (after_store cid e o v).
    Proof.
      intros He. unfold after_store. apply Fbind; [apply Femit|]. intros _.
      apply Fbind; [destruct (has_lazy v); [apply Femit|apply Fret]|]. intros _.
      apply Fbind; [now apply Ffp|].
      intros f'. apply Fbind; [apply Fget|]. intros s0.
      destruct (mem_find cid f' s0); (apply Fbind; [apply Femit|intros _; apply Fret]).
    Qed.

    (** the miss path: evaluate, and only when that SUCCEEDED store — the site's own value *)
    Lemma fr_miss_path cid e o : In (cid, e) sl -> fr3 e -> fr (miss_path cid e o).
    Proof.
      intros Hin He s r s' l H. unfold TraceProofs.miss_path in H.
      destruct (eval e o s) as [[[v|c ee] s1] l1] eqn:Ev.
      - assert (R01 : site_run s s1) by (exact (proj1 (He o) _ _ _ _ Ev)).
        rewrite (bind_okE S _ _ _ _ _ _ Ev) in H. rewrite store_back_E in H.
        destruct (fingerprint e o s1) as [[[f|c ee] s2] l2] eqn:Ef.
        + assert (R12 : site_run s1 s2) by (exact (Ffp e o He _ _ _ _ Ef)).
          rewrite (bind_okE S _ _ _ _ _ _ Ef) in H.
          rewrite (bind_okE S _ _ _ _ _ _ (eq_refl : put_store S (mem_store cid f (exhaust v)) s2
                                             = (Ok tt, mem_store cid f (exhaust v) s2, []))) in H.
          cbv beta in H.
          destruct (after_store cid e o v (mem_store cid f (exhaust v) s2)) as [[r3 s3] l3] eqn:Ea.
          unfold TraceProofs.after in H. cbn [fst snd] in H. inversion H; subst.
          pose proof (fr_after_store cid e o v He _ _ _ _ Ea) as R3.
          exact (sr_trans _ _ _ (sr_store cid e o s v s1 l1 f s2 l2 Hin Ev R01 Ef R12) R3).
        + assert (R12 : site_run s1 s2) by (exact (Ffp e o He _ _ _ _ Ef)).
          rewrite (bind_errE S _ _ _ _ _ _ _ Ef) in H. unfold TraceProofs.after in H. cbn [fst snd] in H.
          inversion H; subst. exact (sr_trans _ _ _ R01 R12).
      - rewrite (bind_errE S _ _ _ _ _ _ _ Ev) in H. inversion H; subst.
        exact (proj1 (He o) _ _ _ _ Ev).
    Qed.

    Lemma site_ECached c e :
      (forall cid, c = CMem cid -> In (cid, e) sl) -> fr3 e -> fr3 (ECached c e).
    Proof.
      intros Hin H1. destruct c as [cid|].
      - pose proof (fun o => fr_miss_path cid e o (Hin cid eq_refl) H1) as Hmiss.
        pose proof (fun o => Ffp e o H1) as Hfp.
        intros o. split; [|split].
        + rewrite eval_cached_mem_E. apply fr_wrap. destruct (cache_off o); [exact (proj1 (H1 o))|].
          unfold TraceProofs.cached_on. apply Fbind; [destruct (site_ok e o); [apply Fret|apply Femit]|].
          intros _. apply Fbind; [apply Hfp|]. intros f.
          apply Fbind; [apply Fget|]. intros s.
          destruct (mem_find cid f s).
          * apply Fbind; [apply Femit|]. intros _. apply Fbind; [apply Hfp|].
            intros f2. apply Fbind; [apply Fget|]. intros s2.
            destruct (mem_find cid f2 s2); (apply Fbind; [apply Femit|]); intros _;
              [apply Fret|apply Hmiss].
          * apply Fbind; [apply Femit|]. intros _. apply Hmiss.
        + rewrite validate_cached_mem_E. destruct (cache_off o); [exact (proj1 (proj2 (H1 o)))|].
          apply Fbind; [exact (proj2 (proj2 (H1 o)))|]. intros ks.
          apply Fbind; [apply (fr_fingerprint_of S site_run sr_refl sr_trans)|]. intros f.
          apply Fbind; [apply Fget|]. intros s. destruct (mem_find cid f s).
          * apply Fbind; [apply Femit|intros _; apply Fret].
          * apply Fbind; [apply Femit|intros _; exact (proj1 (proj2 (H1 o)))].
        + rewrite keys_cached_E. exact (proj2 (proj2 (H1 o))).
      - intros o. split; [|split].
        + rewrite eval_cached_none_E. apply fr_wrap. exact (proj1 (H1 o)).
        + rewrite validate_cached_none_E. exact (proj1 (proj2 (H1 o))).
        + rewrite keys_cached_E. exact (proj2 (proj2 (H1 o))).
    Qed.

    (** from the induction hypotheses (for sub-expressions whose sites are among [sl]) to the
        premises of the shared per-constructor frame lemmas of TraceProofs *)
    Definition Q (e : expr) : Prop := incl (sites_of e) sl -> fr3 e.
    Lemma Q_PP e : Q e -> incl (sites_of e) sl -> PP e.
    Proof. intros H Hi _. now apply H. Qed.
    Lemma Qopt_PP d :
      Popt Q d -> incl (match d with Some x => sites_of x | None => [] end) sl -> Popt PP d.
    Proof. destruct d as [x|]; [apply Q_PP|intros; exact I]. Qed.
    Lemma Qlist_PP l :
      Forall Q l ->
      incl ((fix go (l : list expr) := match l with [] => [] | x :: l' => sites_of x ++ go l' end) l) sl ->
      Forall PP l.
    Proof.
      intros H Hi. rewrite Forall_forall in *. intros x Hx. apply Q_PP; [now apply H|].
      exact (incl_tran (sites_list_In l x Hx) Hi).
    Qed.
    Lemma Qsnd_PP {K} (l : list (K * expr)) :
      Forall (fun ve => Q (snd ve)) l ->
      incl ((fix go (l : list (K * expr)) := match l with [] => [] | (_, x) :: l' => sites_of x ++ go l' end) l) sl ->
      Forall (fun ve => PP (snd ve)) l.
    Proof.
      intros H Hi. rewrite Forall_forall in *. intros x Hx. apply Q_PP; [now apply H|].
      exact (incl_tran (sites_snd_In l x Hx) Hi).
    Qed.
    Lemma Qcases_PP (l : list (expr * expr)) :
      Forall (fun cr => Q (fst cr) /\ Q (snd cr)) l ->
      incl ((fix go (l : list (expr * expr)) :=
               match l with [] => [] | (c, r) :: l' => sites_of c ++ sites_of r ++ go l' end) l) sl ->
      Forall (fun cr => PP (fst cr) /\ PP (snd cr)) l.
    Proof.
      intros H Hi. rewrite Forall_forall in *. intros x Hx. destruct (H x Hx) as [A B].
      destruct (sites_cases_In l x Hx) as [IA IB].
      split; (apply Q_PP; [assumption|]); eapply incl_tran; eauto.
    Qed.

    (** EVERY run of evaluate / validate / keys — failing or not — of an expression whose cache
        sites are among [sl] goes from its initial to its final store along a [site_run] *)
    Theorem runs_are_site_runs e : incl (sites_of e) sl -> fr3 e.
    Proof.
      induction e using expr_ind'; intros Hi; cbn [sites_of] in Hi.
      - intros o. split; [|split].
        + rewrite eval_value_E. apply fr_wrap, Fret.
        + rewrite validate_value_E. apply Fret.
        + rewrite keys_value_E. apply Fret.
      - apply (frame_EOption S mem_find mem_store cfg ucall rfuel site_ok site_run sr_refl sr_trans (fun _ => true));
          [apply Qopt_PP; [assumption|exact (incl_app_l _ _ _ Hi)]
          |apply Qopt_PP; [assumption|exact (incl_app_r _ _ _ Hi)]
          |apply all_caches_allowed].
      - apply (frame_EApply S mem_find mem_store cfg ucall rfuel site_ok site_run sr_refl sr_trans (fun _ => true));
          [apply Q_PP; [assumption|exact (incl_app_l _ _ _ Hi)]
          |apply Q_PP; [assumption|exact (incl_app_r _ _ _ Hi)]
          |apply all_caches_allowed].
      - apply (frame_EBind S mem_find mem_store cfg ucall rfuel site_ok site_run sr_refl sr_trans (fun _ => true));
          [apply Q_PP; [assumption|exact (incl_app_l _ _ _ Hi)]
          |apply Qsnd_PP; [assumption|exact (incl_app_l _ _ _ (incl_app_r _ _ _ Hi))]
          |apply Qopt_PP; [assumption|exact (incl_app_r _ _ _ (incl_app_r _ _ _ Hi))]
          |apply all_caches_allowed].
      - apply (frame_ESwitch S mem_find mem_store cfg ucall rfuel site_ok site_run sr_refl sr_trans (fun _ => true));
          [apply Q_PP; [assumption|exact (incl_app_l _ _ _ Hi)]
          |apply Qsnd_PP; [assumption|exact (incl_app_l _ _ _ (incl_app_r _ _ _ Hi))]
          |apply Qopt_PP; [assumption|exact (incl_app_r _ _ _ (incl_app_r _ _ _ Hi))]
          |apply all_caches_allowed].
      - apply (frame_ECase S mem_find mem_store cfg ucall rfuel site_ok site_run sr_refl sr_trans (fun _ => true));
          [apply Q_PP; [assumption|exact (incl_app_l _ _ _ Hi)]
          |apply Qcases_PP; [assumption|exact (incl_app_l _ _ _ (incl_app_r _ _ _ Hi))]
          |apply Qopt_PP; [assumption|exact (incl_app_r _ _ _ (incl_app_r _ _ _ Hi))]
          |apply all_caches_allowed].
      - apply (frame_ECoalesce S mem_find mem_store cfg ucall rfuel site_ok site_run sr_refl sr_trans (fun _ => true));
          [apply Qlist_PP; assumption|apply all_caches_allowed].
      - apply (frame_EIter S mem_find mem_store cfg ucall rfuel site_ok site_run sr_refl sr_trans (fun _ => true));
          [apply Qlist_PP; assumption|apply all_caches_allowed].
      - apply (frame_EMap S mem_find mem_store cfg ucall rfuel site_ok site_run sr_refl sr_trans (fun _ => true));
          [apply Q_PP; [assumption|exact (incl_app_l _ _ _ Hi)]
          |apply Qsnd_PP; [assumption|exact (incl_app_r _ _ _ Hi)]
          |apply all_caches_allowed].
      - apply (frame_EWith S mem_find mem_store cfg ucall rfuel site_ok site_run sr_refl sr_trans (fun _ => true));
          [apply Q_PP; assumption|apply all_caches_allowed].
      - apply site_ECached.
        + intros cid ->. apply Hi. now left.
        + apply IHe. exact (incl_app_r _ _ _ Hi).
      - apply (frame_ECall S mem_find mem_store cfg ucall rfuel site_ok site_run sr_refl sr_trans (fun _ => true));
          [apply Q_PP; [assumption|exact (incl_app_l _ _ _ Hi)]
          |apply Qlist_PP; [assumption|exact (incl_app_l _ _ _ (incl_app_r _ _ _ Hi))]
          |apply Qlist_PP; [assumption|exact (incl_app_r _ _ _ (incl_app_r _ _ _ Hi))]
          |apply all_caches_allowed].
      - apply (frame_ETemplate S mem_find mem_store cfg ucall rfuel site_ok site_run sr_refl sr_trans (fun _ => true));
          [apply Qsnd_PP; assumption|apply all_caches_allowed].
      - apply (frame_EComp S mem_find mem_store cfg ucall rfuel site_ok site_run sr_refl sr_trans (fun _ => true));
          [apply Q_PP; [assumption|exact (incl_app_l _ _ _ Hi)]
          |apply Qlist_PP; [assumption|exact (incl_app_r _ _ _ Hi)]
          |apply all_caches_allowed].
      - apply (frame_ELogged S mem_find mem_store cfg ucall rfuel site_ok site_run sr_refl sr_trans (fun _ => true));
          [apply Q_PP; assumption|apply all_caches_allowed].
      - apply (frame_EPipe S mem_find mem_store cfg ucall rfuel site_ok site_run sr_refl sr_trans (fun _ => true));
          [apply Qlist_PP; assumption|apply all_caches_allowed].
      - intros o. split; [|split].
        + rewrite eval_alloptions_E. apply fr_wrap, (fr_all_options_eval S rfuel site_run sr_refl sr_trans).
        + rewrite validate_alloptions_E.
          apply Fbind; [apply fr_wrap, (fr_all_options_eval S rfuel site_run sr_refl sr_trans)|intros; apply Fret].
        + rewrite keys_alloptions_E. apply Fbind; [apply Femit|intros; apply Fret].
    Qed.

    (** ** the fourth interpreter: explain() evaluates and validates sub-expressions too (Bind /
        Switch / CaseWhen dispatch, Coalesce, Map), so its runs can store; they are [site_run]s *)
    Lemma list_incl l :
      incl ((fix go (l : list expr) := match l with [] => [] | x :: l' => sites_of x ++ go l' end) l) sl ->
      forall x, In x l -> incl (sites_of x) sl.
    Proof. intros Hi x Hx. exact (incl_tran (sites_list_In l x Hx) Hi). Qed.
    Lemma snd_incl {K} (l : list (K * expr)) :
      incl ((fix go (l : list (K * expr)) := match l with [] => [] | (_, x) :: l' => sites_of x ++ go l' end) l) sl ->
      forall ke, In ke l -> incl (sites_of (snd ke)) sl.
    Proof. intros Hi x Hx. exact (incl_tran (sites_snd_In l x Hx) Hi). Qed.
    Lemma cases_incl (l : list (expr * expr)) :
      incl ((fix go (l : list (expr * expr)) :=
               match l with [] => [] | (c, r) :: l' => sites_of c ++ sites_of r ++ go l' end) l) sl ->
      forall cr, In cr l -> incl (sites_of (fst cr)) sl /\ incl (sites_of (snd cr)) sl.
    Proof.
      intros Hi x Hx. destruct (sites_cases_In l x Hx) as [A B]. split; eapply incl_tran; eauto.
    Qed.

    Definition QX (e : expr) : Prop := incl (sites_of e) sl -> forall o, fr (explain e o).

    Ltac xs :=
      match goal with
      | |- fr (Eval.bind _ _ _) => apply Fbind; [|intros ?]
      | |- fr (Eval.ret _ _) => apply Fret
      | |- fr (Eval.fail _ _ _) => apply (fr_fail S site_run sr_refl)
      | |- fr (Eval.emit _ _) => apply Femit
      | |- fr (Eval.catch _ _ _) => apply (fr_catch S site_run sr_trans); [|intros ? ?]
      | H : fr ?m |- fr ?m => exact H
      | |- fr (if ?b then _ else _) => destruct b
      | |- fr (match ?x with _ => _ end) => destruct x
      end.

    Theorem explain_runs_are_site_runs e : QX e.
    Proof.
      pose proof runs_are_site_runs as F3.
      induction e using expr_ind'; intros Hi o; cbn [sites_of] in Hi.
      - rewrite explain_EValue. apply Fret.
      - (* EOption *)
        rewrite explain_EOption. apply Fbind; [apply (fr_rd S site_run sr_refl sr_trans)|]. intros r.
        destruct r as [j| |]; [destruct j| |]; repeat xs;
          try (apply (fr_unionM S site_run sr_refl sr_trans); intros; apply (fr_ref_keys S site_run sr_refl sr_trans)).
        apply H. exact (incl_app_l _ _ _ Hi).
      - (* EApply *)
        rewrite explain_EApply. repeat xs.
        + apply IHe1. exact (incl_app_l _ _ _ Hi).
        + apply IHe2. exact (incl_app_r _ _ _ Hi).
      - (* EBind *)
        pose proof (incl_app_l _ _ _ Hi) as I1.
        pose proof (snd_incl _ (incl_app_l _ _ _ (incl_app_r _ _ _ Hi))) as I2.
        pose proof (incl_app_r _ _ _ (incl_app_r _ _ _ Hi)) as I3.
        rewrite explain_EBind. repeat xs.
        + now apply IHe.
        + exact (proj1 (F3 _ I1 o)).
        + apply (fr_pick S site_run).
          * intros ve Hve. rewrite Forall_forall in H. apply (H ve Hve). now apply I2.
          * destruct dflt as [d|]; [now apply H0|apply (fr_fail S site_run sr_refl)].
      - (* ESwitch *)
        pose proof (incl_app_l _ _ _ Hi) as I1.
        pose proof (snd_incl _ (incl_app_l _ _ _ (incl_app_r _ _ _ Hi))) as I2.
        pose proof (incl_app_r _ _ _ (incl_app_r _ _ _ Hi)) as I3.
        rewrite explain_ESwitch. apply Fbind.
        + apply (fr_catch S site_run sr_trans); [|intros c ee; destruct ee; apply (fr_fail S site_run sr_refl)].
          apply (fr_dispatch_value S site_run sr_refl sr_trans). exact (proj1 (F3 _ I1 o)).
        + intros dv. destruct dv as [k|].
          * destruct (negb (hashable k)); [apply (fr_fail S site_run sr_refl)|].
            apply Fbind; [|intros a; apply Fbind; [now apply IHe|intros; apply Fret]].
            apply (fr_pick S site_run).
            -- intros ve Hve. rewrite Forall_forall in H. apply (H ve Hve). now apply I2.
            -- destruct dflt as [d|]; [now apply H0|apply (fr_fail S site_run sr_refl)].
          * destruct dflt as [d|]; [now apply H0|apply (fr_fail S site_run sr_refl)].
      - (* ECase *)
        pose proof (incl_app_l _ _ _ Hi) as I1.
        pose proof (cases_incl _ (incl_app_l _ _ _ (incl_app_r _ _ _ Hi))) as I2.
        pose proof (incl_app_r _ _ _ (incl_app_r _ _ _ Hi)) as I3.
        rewrite explain_ECase.
        apply (fr_catch S site_run sr_trans); [|intros c ee; destruct ee; apply (fr_fail S site_run sr_refl)].
        apply Fbind; [now apply IHe|]. intros a. apply Fbind; [exact (proj1 (F3 _ I1 o))|]. intros x.
        apply Fbind; [|intros; apply Fret].
        apply (fr_case_loop S mem_find mem_store cfg ucall rfuel site_ok site_run sr_refl sr_trans o x
                 (match dflt with Some d => explain d o | None => Eval.fail S CCase true end)
                 (fun r => explain r o) cases).
        + destruct dflt as [d|]; [now apply H0|apply (fr_fail S site_run sr_refl)].
        + intros cr Hcr. rewrite Forall_forall in H. destruct (H cr Hcr) as [_ B]. destruct (I2 cr Hcr) as [Ic Ir].
          split; [exact (proj1 (F3 _ Ic o))|now apply B].
      - (* ECoalesce *)
        pose proof (list_incl _ Hi) as I1. rewrite Forall_forall in H.
        rewrite explain_ECoalesce. apply (fr_catch S site_run sr_trans).
        + apply (fr_coal_loop S mem_find mem_store cfg ucall rfuel site_ok site_run sr_refl sr_trans o
                   (fun m => explain m o) ms).
          intros m Hm. split; [exact (proj1 (proj2 (F3 _ (I1 m Hm) o)))|now apply (H m Hm), I1].
        + intros c ee. destruct ee; [|apply (fr_fail S site_run sr_refl)].
          clear Hi. induction ms as [|m ms IH]; [apply (fr_fail S site_run sr_refl)|].
          destruct ms as [|m2 ms]; [apply (H m); [now left|apply I1; now left]|].
          apply IH; intros x Hx; [apply H|apply I1]; now right.
      - (* EIter *)
        pose proof (list_incl _ Hi) as I1. rewrite Forall_forall in H.
        rewrite explain_EIter. apply (fr_unionM S site_run sr_refl sr_trans). intros x Hx. now apply (H x Hx), I1.
      - (* EMap *)
        pose proof (incl_app_l _ _ _ Hi) as I1. pose proof (snd_incl _ (incl_app_r _ _ _ Hi)) as I2.
        rewrite Forall_forall in H.
        assert (HB : fr (unionM S (fun kv : key * expr => explain (snd kv) o) its)).
        { apply (fr_unionM S site_run sr_refl sr_trans). intros kv Hkv. now apply (H kv Hkv), I2. }
        rewrite explain_EMap. apply (fr_catch S site_run sr_trans).
        + apply Fbind.
          * apply (fr_map_rows S site_run sr_refl sr_trans). intros kv Hkv. exact (proj1 (F3 _ (I2 kv Hkv) o)).
          * intros rows. apply Fbind; [|intros a; apply Fbind; [exact HB|intros; apply Fret]].
            apply (fr_unionM S site_run sr_refl sr_trans). intros row _.
            apply Fbind; [apply (fr_row_options S site_run sr_refl)|]. intros os. cbv zeta.
            apply Fbind; [now apply IHe|]. intros ks. apply (fr_filter_preset S site_run sr_refl sr_trans).
        + intros c ee. destruct ee; [|apply (fr_fail S site_run sr_refl)].
          apply Fbind; [now apply IHe|]. intros a. apply Fbind; [exact HB|intros; apply Fret].
      - (* EWith *)
        rewrite explain_EWith. cbv zeta. apply Fbind; [now apply IHe|]. intros ks.
        apply (fr_filter_preset S site_run sr_refl sr_trans).
      - (* ECached *)
        rewrite explain_ECached. apply IHe. exact (incl_app_r _ _ _ Hi).
      - (* ECall *)
        pose proof (incl_app_l _ _ _ Hi) as I1.
        pose proof (list_incl _ (incl_app_l _ _ _ (incl_app_r _ _ _ Hi))) as I2.
        pose proof (list_incl _ (incl_app_r _ _ _ (incl_app_r _ _ _ Hi))) as I3.
        rewrite Forall_forall in H, H0.
        rewrite explain_ECall. apply Fbind; [now apply IHe|]. intros a.
        apply Fbind; [apply (fr_unionM S site_run sr_refl sr_trans); intros x Hx; now apply (H x Hx), I2|]. intros b.
        apply Fbind; [apply (fr_unionM S site_run sr_refl sr_trans); intros x Hx; now apply (H0 x Hx), I3|].
        intros; apply Fret.
      - (* ETemplate *)
        pose proof (snd_incl _ Hi) as I1. rewrite Forall_forall in H.
        rewrite explain_ETemplate.
        apply Fbind; [apply (fr_unionM S site_run sr_refl sr_trans); intros x Hx; now apply (H x Hx), I1|]. intros a.
        apply Fbind; [|intros; apply Fret].
        apply (fr_unionM S site_run sr_refl sr_trans); intros; apply (fr_ref_keys S site_run sr_refl sr_trans).
      - (* EComp *)
        pose proof (incl_app_l _ _ _ Hi) as I1. pose proof (list_incl _ (incl_app_r _ _ _ Hi)) as I2.
        rewrite Forall_forall in H.
        rewrite explain_EComp. apply Fbind; [now apply IHe|]. intros a.
        destruct (effects_opt_off o); [apply Fret|].
        apply Fbind; [|intros; apply Fret].
        apply (fr_unionM S site_run sr_refl sr_trans); intros x Hx; now apply (H x Hx), I2.
      - (* ELogged *)
        rewrite explain_ELogged. now apply IHe.
      - (* EPipe *)
        pose proof (list_incl _ Hi) as I1. rewrite Forall_forall in H.
        rewrite explain_EPipe. apply (fr_unionM S site_run sr_refl sr_trans). intros x Hx. now apply (H x Hx), I1.
      - rewrite explain_EAllOptions. apply Fbind; [apply Femit|intros; apply Fret].
    Qed.

    (** ** Entry by entry, for every store in which a lookup after a store finds exactly the
        stored entry or what was there before (true of the real store, below) *)
    Section Entries.
      Hypothesis find_after_store : forall c f v s c' f' w,
        mem_find c' f' (mem_store c f v s) = Some w ->
        (c' = c /\ f' = f /\ w = v) \/ mem_find c' f' s = Some w.

      (** the entry [(cid, f, w)] was put there during a run that started in [s]: [cid] is the
          cache of a site [(cid, e)]; from a store [sa] the run reached, the site's OWN expression
          [e] was evaluated under a dictionary [o] and RETURNED [v]; [f] is the fingerprint Cached
          computed next for [e] under that same [o]; and [w] is [v] (as every later reader sees
          it: generators exhausted) *)
      Definition site_success (s : S) (cid : N) (f : fp) (w : value) : Prop :=
        exists e o sa v sb la sc lf,
          In (cid, e) sl /\ site_run s sa /\
          eval e o sa = (Ok v, sb, la) /\ fingerprint e o sb = (Ok f, sc, lf) /\ w = exhaust v.

      Lemma site_success_from a b cid f w : site_run a b -> site_success b cid f w -> site_success a cid f w.
      Proof.
        intros Hab (e & o & sa & v & sb & la & sc & lf & Hin & Hr & Hv & Hf & Hw).
        exists e, o, sa, v, sb, la, sc, lf. repeat split; auto. exact (sr_trans _ _ _ Hab Hr).
      Qed.

      Lemma site_run_entries s s' :
        site_run s s' ->
        forall c f w, mem_find c f s' = Some w -> mem_find c f s = Some w \/ site_success s c f w.
      Proof.
        induction 1 as [s|a b c0 Hab IHab Hbc IHbc|cid e o s1 v s2 l1 f s3 lf Hin Hv H12 IH12 Hf H23 IH23];
          intros c f' w Hw.
        - now left.
        - destruct (IHbc _ _ _ Hw) as [Hb|Hp].
          + now apply IHab.
          + right. exact (site_success_from _ _ _ _ _ Hab Hp).
        - destruct (find_after_store _ _ _ _ _ _ _ Hw) as [(-> & -> & ->)|Hold].
          + right. exists e, o, s1, v, s2, l1, s3, lf. repeat split; auto. apply sr_refl.
          + destruct (IH23 _ _ _ Hold) as [H2|Hp].
            * now apply IH12.
            * right. exact (site_success_from _ _ _ _ _ H12 Hp).
      Qed.
    End Entries.
  End SiteStores.

  (** THE STATEMENT.  Every run — of evaluate, validate, keys or explain; successful or failed — of any
      expression [e_top], under any dictionary, from any store, goes through the store only along
      a [site_run] of [e_top]'s own cache sites *)
  Theorem every_run_is_a_site_run e_top o :
    (forall s r s' l, eval e_top o s = (r, s', l) -> site_run (sites_of e_top) s s') /\
    (forall s r s' l, validate e_top o s = (r, s', l) -> site_run (sites_of e_top) s s') /\
    (forall s r s' l, keys e_top o s = (r, s', l) -> site_run (sites_of e_top) s s') /\
    (forall s r s' l, explain e_top o s = (r, s', l) -> site_run (sites_of e_top) s s').
  Proof.
    destruct (runs_are_site_runs (sites_of e_top) e_top (incl_refl _) o) as (A & B & C).
    repeat split; [exact A|exact B|exact C|].
    exact (explain_runs_are_site_runs (sites_of e_top) e_top (incl_refl _) o).
  Qed.

  (** entry by entry: whatever is in the store after the run and was not there before was put
      there by the success of ITS OWN cache site *)
  Theorem new_entries_are_site_successes :
    (forall c f v s c' f' w,
       mem_find c' f' (mem_store c f v s) = Some w ->
       (c' = c /\ f' = f /\ w = v) \/ mem_find c' f' s = Some w) ->
    forall e_top o,
    (forall s r s' l, eval e_top o s = (r, s', l) ->
       forall cid f w, mem_find cid f s' = Some w ->
         mem_find cid f s = Some w \/ site_success (sites_of e_top) s cid f w) /\
    (forall s r s' l, validate e_top o s = (r, s', l) ->
       forall cid f w, mem_find cid f s' = Some w ->
         mem_find cid f s = Some w \/ site_success (sites_of e_top) s cid f w) /\
    (forall s r s' l, keys e_top o s = (r, s', l) ->
       forall cid f w, mem_find cid f s' = Some w ->
         mem_find cid f s = Some w \/ site_success (sites_of e_top) s cid f w) /\
    (forall s r s' l, explain e_top o s = (r, s', l) ->
       forall cid f w, mem_find cid f s' = Some w ->
         mem_find cid f s = Some w \/ site_success (sites_of e_top) s cid f w).
  Proof.
    intros law e_top o. destruct (every_run_is_a_site_run e_top o) as (A & B & C & D).
    split; [|split; [|split]]; intros s r s' l H; apply (site_run_entries _ law); eauto.
  Qed.

  (** the failing node itself: a Cached node (cache on, miss) whose expression fails to evaluate
      fails with THAT cause, and the whole run (fingerprint computation, then the failed
      evaluation) went through the store along a [site_run] of the sites strictly INSIDE the
      node's expression — the node's own site [(cid, e)] is not one of them: nothing was stored
      for the node *)
  Theorem failed_cached_expr_stores_only_inner_successes cid e o s f s1 l1 c ee s2 l2 :
    cache_off o = false -> fingerprint e o s = (Ok f, s1, l1) -> mem_find cid f s1 = None ->
    eval e o s1 = (Err c ee, s2, l2) ->
    eval (ECached (CMem cid) e) o s =
      (Err c true, s2, (dirty_evs cid e o ++ l1 ++ [EvCacheExists cid false]) ++ l2) /\
    site_run (sites_of e) s s2 /\ ~ In (cid, e) (sites_of e).
  Proof.
    intros Hoff Hf Hm Hx. split; [|split].
    - eapply strict_pos_propagates; [eapply sp_cached_miss; eauto|exact Hx].
    - pose proof (runs_are_site_runs (sites_of e) e (incl_refl _)) as F3.
      eapply sr_trans.
      + exact (fr_fingerprint S mem_find mem_store cfg ucall rfuel site_ok _ (sr_refl _) (sr_trans _) e o F3 _ _ _ _ Hf).
      + exact (proj1 (F3 o) _ _ _ _ Hx).
    - apply own_site_not_inside.
  Qed.

  (** the failing node itself: a Cached node whose expression fails to evaluate fails with that
      cause, and the run performed no store into its cache — [R] is any relation respected by
      stores into OTHER caches ([allowed]); the node's own cache need not be among them *)
  Theorem failing_body_is_not_stored (R : S -> S -> Prop) (allowed : N -> bool) cid e o s f s1 l1 c ee s2 l2 :
    (forall s, R s s) -> (forall a b c, R a b -> R b c -> R a c) ->
    (forall c f v s, allowed c = true -> R s (mem_store c f v s)) ->
    caches_allowed allowed e = true ->
    cache_off o = false -> fingerprint e o s = (Ok f, s1, l1) -> mem_find cid f s1 = None ->
    eval e o s1 = (Err c ee, s2, l2) ->
    eval (ECached (CMem cid) e) o s =
      (Err c true, s2, (dirty_evs cid e o ++ l1 ++ [EvCacheExists cid false]) ++ l2) /\ R s s2.
  Proof.
    intros Rr Rt Rs Hc Hoff Hf Hm Hx. split.
    - eapply strict_pos_propagates; [eapply sp_cached_miss; eauto|exact Hx].
    - pose proof (store_frame S mem_find mem_store cfg ucall rfuel site_ok R Rr Rt allowed Rs e Hc) as F3.
      eapply Rt.
      + exact (fr_fingerprint S mem_find mem_store cfg ucall rfuel site_ok R Rr Rt e o F3 _ _ _ _ Hf).
      + exact (proj1 (F3 o) _ _ _ _ Hx).
  Qed.
End C12.

(** * The real memo store (Model/EvalRun.v) *)
Lemma c12_tok_eqb_eq a b : tok_eqb a b = true <-> a = b.
Proof.
  destruct a, b; cbn; split; intros H; try discriminate; try reflexivity.
  - apply N.eqb_eq in H. now subst.
  - inversion H. apply N.eqb_refl.
  - apply key_eqb_eq in H. now subst.
  - inversion H. apply key_eqb_refl.
  - apply N.eqb_eq in H. now subst.
  - inversion H. apply N.eqb_refl.
Qed.
Lemma c12_str_eqb_eq a : forall b, str_eqb a b = true <-> a = b.
Proof.
  induction a as [|x a IH]; destruct b as [|y b]; cbn; split; intros H; try discriminate; try reflexivity.
  - apply andb_prop in H as [H1 H2]. apply c12_tok_eqb_eq in H1. apply IH in H2. now subst.
  - inversion H; subst. apply andb_true_intro. split; [now apply c12_tok_eqb_eq|now apply IH].
Qed.
Lemma c12_json_eqb_eq a : forall b, json_eqb a b = true <-> a = b.
Proof.
  induction a using json_ind'; intros b0; destruct b0; cbn [json_eqb]; split; intros E;
    try discriminate; try reflexivity.
  - apply Bool.eqb_prop in E. now subst.
  - inversion E. apply Bool.eqb_reflx.
  - apply Z.eqb_eq in E. now subst.
  - inversion E. apply Z.eqb_refl.
  - apply N.eqb_eq in E. now subst.
  - inversion E. apply N.eqb_refl.
  - apply c12_str_eqb_eq in E. now subst.
  - inversion E. now apply c12_str_eqb_eq.
  - f_equal. revert l0 E. induction H as [|x l Hx Hl IH]; intros [|y l0] E; try discriminate; [reflexivity|].
    apply andb_prop in E as [E1 E2]. apply Hx in E1. apply IH in E2. now subst.
  - inversion E; subst l0. clear E. induction H as [|x l Hx Hl IH]; [reflexivity|].
    apply andb_true_intro. split; [now apply Hx|exact IH].
  - f_equal. revert m0 E. induction H as [|[k x] m Hx Hm IH]; intros [|[k' y] m0] E; try discriminate; [reflexivity|].
    apply andb_prop in E as [E1 E3]. apply andb_prop in E1 as [E1 E2].
    apply seg_eqb_eq in E1. cbn [snd] in Hx. apply Hx in E2. apply IH in E3. now subst.
  - inversion E; subst m0. clear E. induction H as [|[k x] m Hx Hm IH]; [reflexivity|].
    apply andb_true_intro. split; [apply andb_true_intro; split|exact IH].
    + apply seg_eqb_refl.
    + cbn [snd] in Hx. now apply Hx.
Qed.
Lemma c12_fp_eqb_eq a : forall b, fp_eqb a b = true <-> a = b.
Proof.
  unfold fp_eqb. induction a as [|[k v] a IH]; destruct b as [|[k' v'] b]; split; intros E;
    try discriminate; try reflexivity.
  - apply andb_prop in E as [E1 E3]. apply andb_prop in E1 as [E1 E2].
    apply key_eqb_eq in E1. apply c12_json_eqb_eq in E2. apply IH in E3. now subst.
  - inversion E; subst. apply andb_true_intro. split; [apply andb_true_intro; split|now apply IH].
    + apply key_eqb_refl.
    + now apply c12_json_eqb_eq.
Qed.

Lemma fp_find_after_put f v l f' w :
  fp_find f' (fp_put f v l) = Some w -> (f' = f /\ w = v) \/ fp_find f' l = Some w.
Proof.
  induction l as [|[g u] l IH]; cbn [fp_put fp_find]; intros H.
  - destruct (fp_eqb f' f) eqn:E'; [|discriminate]. apply c12_fp_eqb_eq in E'. left. split; congruence.
  - destruct (fp_eqb f g) eqn:E; cbn [fp_find] in H.
    + apply c12_fp_eqb_eq in E. subst g. destruct (fp_eqb f' f) eqn:E'; [|now right].
      apply c12_fp_eqb_eq in E'. left. split; congruence.
    + destruct (fp_eqb f' g); [now right|now apply IH].
Qed.
Lemma st_get_after_put c l s c' :
  st_get c' (st_put c l s) = if N.eqb c' c then l else st_get c' s.
Proof.
  induction s as [|[d l'] s IH]; cbn [st_put st_get].
  - reflexivity.
  - destruct (N.eqb c d) eqn:E; cbn [st_get].
    + apply N.eqb_eq in E. subst d. destruct (N.eqb c' c); reflexivity.
    + destruct (N.eqb c' d) eqn:E2.
      * apply N.eqb_eq in E2. subst d.
        destruct (N.eqb c' c) eqn:E3; [|reflexivity].
        apply N.eqb_eq in E3. subst c'. rewrite N.eqb_refl in E. discriminate.
      * exact IH.
Qed.
(** the real store: a lookup after a store finds exactly the stored entry, or what was there *)
Lemma real_find_after_store c f v s c' f' w :
  mem_find c' f' (mem_store c f v s) = Some w ->
  (c' = c /\ f' = f /\ w = v) \/ mem_find c' f' s = Some w.
Proof.
  unfold mem_find, mem_store. rewrite st_get_after_put. destruct (N.eqb c' c) eqn:E; [|now right].
  apply N.eqb_eq in E. subst c'. intros H. destruct (fp_find_after_put _ _ _ _ _ H) as [[-> ->]|H']; auto.
Qed.
Lemma real_store_other_cache c f v s cid :
  negb (N.eqb c cid) = true -> st_get cid (mem_store c f v s) = st_get cid s.
Proof.
  intros H. unfold mem_store. rewrite st_get_after_put. destruct (N.eqb cid c) eqn:E; [|reflexivity].
  apply N.eqb_eq in E. subst c. rewrite N.eqb_refl in H. discriminate.
Qed.

Section RealStore.
  Variable cfg : config.
  Variable ucall : N -> list value -> cres.
  Variable rfuel : nat.
  Variable site_ok : expr -> dict -> bool.
  Notation eval := (Eval.eval store mem_find mem_store cfg ucall rfuel site_ok).
  Notation fingerprint := (fingerprint store mem_find mem_store cfg ucall rfuel site_ok).

  Notation validate := (Eval.validate store mem_find mem_store cfg ucall rfuel site_ok).
  Notation keys := (Eval.keys store mem_find mem_store cfg ucall rfuel site_ok).
  Notation explain := (Eval.explain store mem_find mem_store cfg ucall rfuel site_ok).
  Notation site_run := (site_run store mem_find mem_store cfg ucall rfuel site_ok).
  Notation site_success := (site_success store mem_find mem_store cfg ucall rfuel site_ok).

  (** on the real store: after ANY run (successful or failed) of any expression, every entry
      that was not there before was put there by the success of its own cache site *)
  Theorem real_new_entries_are_site_successes e_top o :
    (forall s r s' l, eval e_top o s = (r, s', l) ->
       forall cid f w, mem_find cid f s' = Some w ->
         mem_find cid f s = Some w \/ site_success (sites_of e_top) s cid f w) /\
    (forall s r s' l, validate e_top o s = (r, s', l) ->
       forall cid f w, mem_find cid f s' = Some w ->
         mem_find cid f s = Some w \/ site_success (sites_of e_top) s cid f w) /\
    (forall s r s' l, keys e_top o s = (r, s', l) ->
       forall cid f w, mem_find cid f s' = Some w ->
         mem_find cid f s = Some w \/ site_success (sites_of e_top) s cid f w) /\
    (forall s r s' l, explain e_top o s = (r, s', l) ->
       forall cid f w, mem_find cid f s' = Some w ->
         mem_find cid f s = Some w \/ site_success (sites_of e_top) s cid f w).
  Proof.
    exact (new_entries_are_site_successes store mem_find mem_store cfg ucall rfuel site_ok
             real_find_after_store e_top o).
  Qed.

  (** evaluate alone, the definition of [site_success] spelled out *)
  Corollary real_stored_entry_is_its_sites_success e_top o s r s' l :
    eval e_top o s = (r, s', l) ->
    forall cid f w, mem_find cid f s' = Some w ->
      mem_find cid f s = Some w \/
      exists e o' sa v sb la sc lf,
        In (cid, e) (sites_of e_top) /\ site_run (sites_of e_top) s sa /\
        eval e o' sa = (Ok v, sb, la) /\ fingerprint e o' sb = (Ok f, sc, lf) /\ w = exhaust v.
  Proof. exact (proj1 (real_new_entries_are_site_successes e_top o) s r s' l). Qed.

  (** on the real store: a Cached node (cache on, miss) whose expression fails: an entry found
      afterwards at the node's own cache and fingerprint can only be the success of a site
      strictly INSIDE the node's expression that shares the node's cache object — never something
      stored for the node; without such a site there is no entry *)
  Theorem real_failed_cached_expr_own_entry cid e o s f s1 l1 c ee s2 l2 :
    cache_off cfg o = false -> fingerprint e o s = (Ok f, s1, l1) -> mem_find cid f s1 = None ->
    eval e o s1 = (Err c ee, s2, l2) ->
    (forall w, mem_find cid f s2 = Some w -> site_success (sites_of e) s1 cid f w) /\
    ((forall x, ~ In (cid, x) (sites_of e)) -> mem_find cid f s2 = None).
  Proof.
    intros Hoff Hf Hm Hx.
    assert (A : forall w, mem_find cid f s2 = Some w -> site_success (sites_of e) s1 cid f w).
    { intros w Hw.
      destruct (proj1 (real_new_entries_are_site_successes e o) _ _ _ _ Hx _ _ _ Hw) as [Hold|Hs]; [|exact Hs].
      rewrite Hm in Hold. discriminate. }
    split; [exact A|]. intros Hno. destruct (mem_find cid f s2) as [w|] eqn:Hw; [|reflexivity].
    destruct (A w eq_refl) as (x & _ & _ & _ & _ & _ & _ & _ & Hin & _). destruct (Hno x Hin).
  Qed.

  (** on the real store: a Cached node (no other node of its expression uses its cache) whose
      expression fails leaves the WHOLE content of its cache as it was *)
  Theorem real_failed_cached_eval_stores_nothing cid e o s f s1 l1 c ee s2 l2 :
    caches_allowed (fun c => negb (N.eqb c cid)) e = true ->
    cache_off cfg o = false -> fingerprint e o s = (Ok f, s1, l1) -> mem_find cid f s1 = None ->
    eval e o s1 = (Err c ee, s2, l2) ->
    eval (ECached (CMem cid) e) o s =
      (Err c true, s2, (dirty_evs site_ok cid e o ++ l1 ++ [EvCacheExists cid false]) ++ l2)
    /\ st_get cid s2 = st_get cid s.
  Proof.
    intros Hc Hoff Hf Hm Hx.
    apply (failing_body_is_not_stored store mem_find mem_store cfg ucall rfuel site_ok
             (fun a b => st_get cid b = st_get cid a) (fun c => negb (N.eqb c cid))
             cid e o s f s1 l1 c ee s2 l2); auto.
    - intros a b d H1 H2. congruence.
    - intros c0 f0 v0 s0 H. now apply real_store_other_cache.
  Qed.
End RealStore.
