(** C12 — failures surface as EvaluationError with the original cause; a failed evaluation of a
    cached node stores nothing.  Lemmas; the statements of the property are in Properties/C12.v.

    What the model carries.  An error is [Err c ee]: the CAUSE [c] (which primitive raise it
    was: a missing option with its key, SwitchError, CaseWhenError, the n-th exception class of
    user code, …) and [ee] (is it an EvaluationError: that alone decides which handlers catch
    it).  The chain of EvaluationError objects that Python builds with `raise … from e` — one
    per nested node, each with its own [.source] — is NOT represented: [wrap_eval] keeps the
    cause and sets [ee].  So the model can state (and we prove) that the cause reaching the top
    is the cause raised at the failing leaf, unchanged by every node on the way; that the
    topmost wrapper is the evaluated object's own ([eval e o = wrap_eval (eval e o)]); and what
    the handlers do.  Identity of [.source] and of the exception object at the end of
    [__cause__] is decided on the implementation by harness/props/c12.py. *)
From Coq Require Import List NArith ZArith Bool Lia.
Import ListNotations.
From LV Require Import Model.Base Model.Template Model.Eval Model.Derived
  Proofs.BaseProofs Proofs.EvalProofs Proofs.EvalInd Proofs.TraceProofs.

Section C12.
  Variable S : Type.
  Variable mem_find : N -> fp -> S -> option value.
  Variable mem_store : N -> fp -> value -> S -> S.
  Variable cfg : config.
  Variable ucall : N -> list value -> cres.
  Variable rfuel : nat.
  Variable site_ok : expr -> dict -> bool.

  Notation eval := (eval S mem_find mem_store cfg ucall rfuel site_ok).
  Notation validate := (validate S mem_find mem_store cfg ucall rfuel site_ok).
  Notation keys := (keys S mem_find mem_store cfg ucall rfuel site_ok).
  Notation M := (M S).
  Notation bind := (bind S).
  Notation ret := (ret S).
  Notation fail := (fail S).
  Notation emit := (emit S).
  Notation catch := (catch S).
  Notation wrap_eval := (wrap_eval S).
  Notation call_value := (call_value S ucall).
  Notation after := (after S).
  Notation wrap_out := (wrap_out S).
  Notation case_loop := (case_loop S mem_find mem_store cfg ucall rfuel site_ok).
  Notation coal_loop := (coal_loop S mem_find mem_store cfg ucall rfuel site_ok).
  Notation fingerprint := (fingerprint S mem_find mem_store cfg ucall rfuel site_ok).
  Notation miss_path := (miss_path S mem_find mem_store cfg ucall rfuel site_ok).
  Notation store_back := (store_back S mem_find mem_store cfg ucall rfuel site_ok).
  Notation cached_on := (cached_on S mem_find mem_store cfg ucall rfuel site_ok).
  Notation effect_run := (effect_run S mem_find mem_store cfg ucall rfuel site_ok).
  Notation cache_off := (cache_off cfg).

  (** rewriting with a known sub-outcome *)
  Ltac bok H := rewrite (bind_okE S _ _ _ _ _ _ H); cbv beta.
  Ltac berr H := rewrite (bind_errE S _ _ _ _ _ _ _ H).

  (** ** The handlers' bookkeeping: case-when conditions that were false, coalesce members
      that were passed over *)
  Inductive conds_false (o : dict) (x : value) : list (expr * expr) -> S -> S -> list event -> Prop :=
  | cf_nil s : conds_false o x [] s s []
  | cf_cons c r rest s p s1 l1 b s2 l2 s3 l3 :
      eval c o s = (Ok p, s1, l1) -> call_value p x s1 = (Ok b, s2, l2) -> truthy b = false ->
      conds_false o x rest s2 s3 l3 ->
      conds_false o x ((c, r) :: rest) s s3 (l1 ++ l2 ++ l3).

  Lemma case_loop_skip {A} o x (fin : M A) sel pre rest s s1 l1 :
    conds_false o x pre s s1 l1 ->
    case_loop o x fin sel (pre ++ rest) s = after l1 (case_loop o x fin sel rest s1).
  Proof.
    induction 1 as [s|c r pre s p s1 l1 b s2 l2 s3 l3 Hc Hp Hb Hrest IH].
    - cbn [app]. now rewrite after_nil.
    - cbn [app TraceProofs.case_loop]. bok Hc. bok Hp. rewrite Hb.
      fold (case_loop o x fin sel (pre ++ rest)). rewrite IH. rewrite !after_after.
      now rewrite <- !app_assoc.
  Qed.

  (** a member is passed over when its validate-then-evaluate attempt raises an
      EvaluationError (only those are caught) *)
  Inductive skipped (o : dict) : list expr -> S -> S -> list event -> Prop :=
  | sk_nil s : skipped o [] s s []
  | sk_cons m rest s c s1 l1 s2 l2 :
      bind (validate m o) (fun _ => eval m o) s = (Err c true, s1, l1) -> c <> CUnmodelled ->
      skipped o rest s1 s2 l2 ->
      skipped o (m :: rest) s s2 (l1 ++ l2).

  Lemma coal_loop_skip o pre rest s s1 l1 :
    skipped o pre s s1 l1 ->
    forall last, exists last',
      coal_loop o (fun m => eval m o) (pre ++ rest) last s =
        after l1 (coal_loop o (fun m => eval m o) rest last' s1).
  Proof.
    induction 1 as [s|m pre s c s1 l1 s2 l2 Hm Hc Hrest IH]; intros last.
    - exists last. cbn [app]. now rewrite after_nil.
    - destruct (IH (Some (c, true))) as [last' E]. exists last'.
      cbn [app TraceProofs.coal_loop]. rewrite (catch_errE S _ _ _ _ _ _ _ Hm Hc). cbv beta iota.
      fold (coal_loop o (fun m => eval m o) (pre ++ rest)). rewrite E. now rewrite after_after.
  Qed.

  Lemma bind_assoc {A B C} (m : M A) (f : A -> M B) (g : B -> M C) s :
    bind (bind m f) g s = bind m (fun a => bind (f a) g) s.
  Proof.
    unfold Eval.bind. destruct (m s) as [[[a|c ee] s1] l1]; [|reflexivity].
    destruct (f a s1) as [[[b|c ee] s2] l2]; [|reflexivity].
    destruct (g b s2) as [[r s3] l3]. now rewrite app_assoc.
  Qed.

  (** the value of an Option before its domain is looked at *)
  Definition option_base (k : key) (dflt : option expr) (o : dict) : M value :=
    bind (rd S k o) (fun r =>
      match r with
      | TypeErr => fail CType false
      | Absent => match dflt with None => fail (CKey k) true | Some d => eval d o end
      | Found raw =>
          bind (emit_reads S (resolve_reads rfuel o raw) o) (fun _ =>
          bind (of_rres S (resolve rfuel o raw)) (fun j => ret (VJ j)))
      end).
  Lemma option_eval_base k dflt dom o s :
    option_eval S ucall rfuel (fun x => eval x o) k dflt dom o s =
      bind (option_base k dflt o) (fun v =>
        match dom with
        | None => ret v
        | Some de => bind (eval de o) (fun d => bind (in_domain S ucall d v) (fun _ => ret v))
        end) s.
  Proof. rewrite option_eval_E. unfold option_base. now rewrite bind_assoc. Qed.

  Definition dirty_evs (cid : N) (e : expr) (o : dict) : list event :=
    if site_ok e o then [] else [EvDirty cid].
  Definition log_evs (o : dict) : list event :=
    EvLogReq :: (if cfg.(log_ctx_off) || logging_opt_off o then [] else [EvLogEmit]).

  (** ** Strict positions.  [strict_pos e o s x o' s' lpre]: while [e] is evaluated under [o]
      from store [s], the sub-expression [x] is evaluated under [o'] from store [s'], after the
      events [lpre], in a position where NO handler of [e] stands between [x] and [e]'s own
      wrapper.  The premises say that everything [e] does before reaching [x] succeeded.
      Every sub-evaluation performed by [eval] is listed, except the handler positions:
      the dispatch of a switch that has a default, coalesce members other than the last,
      the elements of Iter and the body of Map (deferred). *)
  Inductive strict_pos : expr -> dict -> S -> expr -> dict -> S -> list event -> Prop :=
  | sp_option_default k d dom o s :
      lookup k (JObj o) = Absent -> strict_pos (EOption k (Some d) dom) o s d o s [EvRead k false]
  | sp_option_domain k dflt de o s v s1 l1 :
      option_base k dflt o s = (Ok v, s1, l1) -> strict_pos (EOption k dflt (Some de)) o s de o s1 l1
  | sp_apply_src src fn o s : strict_pos (EApply src fn) o s src o s []
  | sp_apply_fn src fn o s x s1 l1 :
      eval src o s = (Ok x, s1, l1) -> strict_pos (EApply src fn) o s fn o s1 l1
  | sp_bind_src src tbl dflt o s : strict_pos (EBind src tbl dflt) o s src o s []
  | sp_bind_branch src tbl dflt o s x s1 l1 b :
      eval src o s = (Ok x, s1, l1) -> assoc_v x tbl = Some b ->
      strict_pos (EBind src tbl dflt) o s b o s1 l1
  | sp_bind_default src tbl d o s x s1 l1 :
      eval src o s = (Ok x, s1, l1) -> assoc_v x tbl = None ->
      strict_pos (EBind src tbl (Some d)) o s d o s1 l1
  | sp_switch_disp disp tbl o s : strict_pos (ESwitch disp tbl None) o s disp o s []
  | sp_switch_branch disp tbl dflt o s k s1 l1 b :
      eval disp o s = (Ok k, s1, l1) -> hashable k = true -> assoc_v k tbl = Some b ->
      strict_pos (ESwitch disp tbl dflt) o s b o s1 l1
  | sp_switch_default disp tbl d o s k s1 l1 :
      eval disp o s = (Ok k, s1, l1) -> hashable k = true -> assoc_v k tbl = None ->
      strict_pos (ESwitch disp tbl (Some d)) o s d o s1 l1
  | sp_switch_fallback disp tbl d o s c s1 l1 :
      eval disp o s = (Err c true, s1, l1) -> c <> CUnmodelled ->
      strict_pos (ESwitch disp tbl (Some d)) o s d o s1 l1
  | sp_case_disp disp cases dflt o s : strict_pos (ECase disp cases dflt) o s disp o s []
  | sp_case_cond disp pre c r post dflt o s x s1 l1 s2 l2 :
      eval disp o s = (Ok x, s1, l1) -> conds_false o x pre s1 s2 l2 ->
      strict_pos (ECase disp (pre ++ (c, r) :: post) dflt) o s c o s2 (l1 ++ l2)
  | sp_case_result disp pre c r post dflt o s x s1 l1 s2 l2 p s3 l3 b s4 l4 :
      eval disp o s = (Ok x, s1, l1) -> conds_false o x pre s1 s2 l2 ->
      eval c o s2 = (Ok p, s3, l3) -> call_value p x s3 = (Ok b, s4, l4) -> truthy b = true ->
      strict_pos (ECase disp (pre ++ (c, r) :: post) dflt) o s r o s4 (l1 ++ l2 ++ l3 ++ l4)
  | sp_case_default disp cases d o s x s1 l1 s2 l2 :
      eval disp o s = (Ok x, s1, l1) -> conds_false o x cases s1 s2 l2 ->
      strict_pos (ECase disp cases (Some d)) o s d o s2 (l1 ++ l2)
  | sp_coalesce_last pre m o s s1 l1 s2 l2 :
      skipped o pre s s1 l1 -> validate m o s1 = (Ok tt, s2, l2) ->
      strict_pos (ECoalesce (pre ++ [m])) o s m o s2 (l1 ++ l2)
  | sp_map_iterable e pre k x post o s vs s1 l1 :
      mapM S (fun kv => bind (eval (snd kv) o) (fun v => force_elems S v)) pre s = (Ok vs, s1, l1) ->
      strict_pos (EMap e (pre ++ (k, x) :: post)) o s x o s1 l1
  | sp_with force p e o s : strict_pos (EWith force p e) o s e (with_opts force p o) s []
  | sp_cached_none e o s : strict_pos (ECached CNone e) o s e o s []
  | sp_cached_off cid e o s :
      cache_off o = true -> strict_pos (ECached (CMem cid) e) o s e o s []
  | sp_cached_miss cid e o s f s1 l1 :
      cache_off o = false -> fingerprint e o s = (Ok f, s1, l1) -> mem_find cid f s1 = None ->
      strict_pos (ECached (CMem cid) e) o s e o s1 (dirty_evs cid e o ++ l1 ++ [EvCacheExists cid false])
  | sp_cached_lost cid e o s f s1 l1 v0 f2 s2 l2 :
      cache_off o = false -> fingerprint e o s = (Ok f, s1, l1) -> mem_find cid f s1 = Some v0 ->
      fingerprint e o s1 = (Ok f2, s2, l2) -> mem_find cid f2 s2 = None ->
      strict_pos (ECached (CMem cid) e) o s e o s2
        (dirty_evs cid e o ++ l1 ++ [EvCacheExists cid true] ++ l2 ++ [EvCacheGet cid false])
  | sp_call_f p f args kwargs o s : strict_pos (ECall p f args kwargs) o s f o s []
  | sp_call_arg p f pre x post kwargs o s fv s1 l1 vs s2 l2 :
      eval f o s = (Ok fv, s1, l1) -> mapM S (fun y => eval y o) pre s1 = (Ok vs, s2, l2) ->
      strict_pos (ECall p f (pre ++ x :: post) kwargs) o s x o s2 (l1 ++ l2)
  | sp_call_kwarg p f args pre x post o s fv s1 l1 av s2 l2 vs s3 l3 :
      eval f o s = (Ok fv, s1, l1) -> mapM S (fun y => eval y o) args s1 = (Ok av, s2, l2) ->
      mapM S (fun y => eval y o) pre s2 = (Ok vs, s3, l3) ->
      strict_pos (ECall p f args (pre ++ x :: post)) o s x o s3 (l1 ++ l2 ++ l3)
  | sp_template_param str pre p x post o s pvs s1 l1 :
      mapM S (fun pe => bind (eval (snd pe) o) (fun v => ret (fst pe, v))) pre s = (Ok pvs, s1, l1) ->
      strict_pos (ETemplate str (pre ++ (p, x) :: post)) o s x o s1 l1
  | sp_comp_body e effects o s : strict_pos (EComp e effects) o s e o s []
  | sp_comp_effect e pre eff post o s v s1 l1 s2 l2 :
      eval e o s = (Ok v, s1, l1) -> effects_opt_off o = false ->
      iterM S (effect_run o v) pre s1 = (Ok tt, s2, l2) ->
      strict_pos (EComp e (pre ++ eff :: post)) o s eff o s2 (l1 ++ l2)
  | sp_logged e o s : strict_pos (ELogged e) o s e o s (log_evs o)
  | sp_pipe_step pre x post o s fs s1 l1 :
      mapM S (fun y => eval y o) pre s = (Ok fs, s1, l1) ->
      strict_pos (EPipe (pre ++ x :: post)) o s x o s1 l1.

  Lemma dispatch_ok (m : M value) b s k s1 l1 :
    m s = (Ok k, s1, l1) -> dispatch_value S m b s = (Ok (Some k), s1, l1).
  Proof.
    intros H. unfold dispatch_value. erewrite catch_okE; [reflexivity|].
    bok H. unfold after. cbn. now rewrite app_nil_r.
  Qed.
  Lemma dispatch_nodefault_err (m : M value) s c ee s1 l1 :
    m s = (Err c ee, s1, l1) -> dispatch_value S m false s = (Err c ee, s1, l1).
  Proof.
    intros H. unfold dispatch_value.
    assert (Hb : bind m (fun k => ret (Some k)) s = (Err c ee, s1, l1)) by (now berr H).
    assert (Hc : c = CUnmodelled \/ c <> CUnmodelled)
      by (destruct c; first [now left|right; discriminate]).
    destruct Hc as [->|Hne].
    - now rewrite (catch_unmodE S _ _ _ _ _ _ Hb).
    - rewrite (catch_errE S _ _ _ _ _ _ _ Hb Hne). rewrite andb_false_r.
      unfold after. cbn. now rewrite app_nil_r.
  Qed.
  Lemma dispatch_fallback (m : M value) s c s1 l1 :
    m s = (Err c true, s1, l1) -> c <> CUnmodelled -> dispatch_value S m true s = (Ok None, s1, l1).
  Proof.
    intros H Hne. unfold dispatch_value.
    assert (Hb : bind m (fun k => ret (Some k)) s = (Err c true, s1, l1)) by (now berr H).
    rewrite (catch_errE S _ _ _ _ _ _ _ Hb Hne). unfold after. cbn. now rewrite app_nil_r.
  Qed.
  Lemma case_loop_all_false {A} o x (fin : M A) sel cases s s1 l1 :
    conds_false o x cases s s1 l1 -> case_loop o x fin sel cases s = after l1 (fin s1).
  Proof. intros H. rewrite <- (app_nil_r cases). now rewrite (case_loop_skip o x fin sel _ [] _ _ _ H). Qed.

  Ltac fin :=
    rewrite ?wrap_after, ?after_after; unfold TraceProofs.after, TraceProofs.wrap_out;
    cbn [fst snd app]; repeat (rewrite <- app_assoc; cbn [app]); rewrite ?app_nil_r; try reflexivity.

  (** PROPAGATION: a failure in strict position reaches the node's caller with the same cause,
      the same store, and the node's events followed by the failing sub-evaluation's *)
  Theorem strict_pos_propagates e o s x o' s' lpre c ee s'' l :
    strict_pos e o s x o' s' lpre -> eval x o' s' = (Err c ee, s'', l) ->
    eval e o s = (Err c true, s'', lpre ++ l).
  Proof.
    intros Hp Hx. assert (ee = true) as -> by (eapply eval_err_true; eauto).
    destruct Hp.
    - (* option default *)
      rewrite eval_option_unfold, wrap_eval_out, option_eval_E. bok (rd_E S k o s). rewrite H. cbv iota.
      berr Hx. fin.
    - (* option domain *)
      rewrite eval_option_unfold, wrap_eval_out, option_eval_base. bok H. berr Hx. fin.
    - rewrite eval_apply_E, wrap_eval_out. berr Hx. fin.
    - rewrite eval_apply_E, wrap_eval_out. bok H. berr Hx. fin.
    - rewrite eval_bind_E, wrap_eval_out. berr Hx. fin.
    - rewrite eval_bind_E, wrap_eval_out. bok H. rewrite pick_assoc, H0, Hx. fin.
    - rewrite eval_bind_E, wrap_eval_out. bok H. rewrite pick_assoc, H0. cbn [dflt_or]. rewrite Hx. fin.
    - (* switch dispatch, no default *)
      rewrite eval_switch_E, wrap_eval_out. cbn [is_some]. berr (dispatch_nodefault_err _ _ _ _ _ _ Hx). fin.
    - rewrite eval_switch_E, wrap_eval_out. bok (dispatch_ok _ (is_some dflt) _ _ _ _ H).
      rewrite H0. cbn [negb]. rewrite pick_assoc, H1, Hx. fin.
    - rewrite eval_switch_E, wrap_eval_out. bok (dispatch_ok _ (is_some (Some d)) _ _ _ _ H).
      rewrite H0. cbn [negb]. rewrite pick_assoc, H1. cbn [dflt_or]. rewrite Hx. fin.
    - (* the default after a failed dispatch *)
      rewrite eval_switch_E, wrap_eval_out. cbn [is_some]. bok (dispatch_fallback _ _ _ _ _ H H0).
      cbn [dflt_or]. rewrite Hx. fin.
    - rewrite eval_case_E, wrap_eval_out. berr Hx. fin.
    - rewrite eval_case_E, wrap_eval_out. bok H. rewrite (case_loop_skip _ _ _ _ _ _ _ _ _ H0).
      cbn [TraceProofs.case_loop]. berr Hx. fin.
    - rewrite eval_case_E, wrap_eval_out. bok H. rewrite (case_loop_skip _ _ _ _ _ _ _ _ _ H0).
      cbn [TraceProofs.case_loop]. bok H1. bok H2. rewrite H3, Hx. fin.
    - rewrite eval_case_E, wrap_eval_out. bok H. rewrite (case_loop_all_false _ _ _ _ _ _ _ _ H0).
      cbn [dflt_or]. rewrite Hx. fin.
    - (* the last coalesce member *)
      rewrite eval_coalesce_E, wrap_eval_out.
      destruct (coal_loop_skip o pre [m] _ _ _ H None) as [last' E]. rewrite E.
      cbn [TraceProofs.coal_loop].
      assert (Hatt : bind (validate m o) (fun _ => eval m o) s1 = (Err c true, s'', l2 ++ l))
        by (bok H0; rewrite Hx; reflexivity).
      assert (Hc : c = CUnmodelled \/ c <> CUnmodelled)
        by (destruct c; first [now left|right; discriminate]).
      destruct Hc as [->|Hne].
      + rewrite (catch_unmodE S _ _ _ _ _ _ Hatt). fin.
      + rewrite (catch_errE S _ _ _ _ _ _ _ Hatt Hne). cbv iota. fin.
    - (* an iterable of Map *)
      rewrite eval_map_E, wrap_eval_out. unfold map_rows. rewrite bind_assoc.
      assert (HF : (fun kv : key * expr => bind (eval (snd kv) o) (fun v => force_elems S v)) (k, x) s1
                   = (Err c true, s'', l)) by (cbn [snd]; now berr Hx).
      berr (mapM_app_err S _ _ _ post _ _ _ _ _ _ _ _ H HF). fin.
    - rewrite eval_with_E, wrap_eval_out, Hx. fin.
    - rewrite eval_cached_none_E, wrap_eval_out, Hx. fin.
    - rewrite eval_cached_mem_E, wrap_eval_out, H, Hx. fin.
    - (* cached node, miss *)
      rewrite eval_cached_mem_E, wrap_eval_out, H. unfold TraceProofs.cached_on, dirty_evs.
      destruct (site_ok e o).
      + bok (ret_E S tt s). bok H0. bok (eq_refl : get_store S s1 = (Ok s1, s1, [])). rewrite H1.
        bok (emit_E S (EvCacheExists cid false) s1). unfold TraceProofs.miss_path. berr Hx. fin.
      + bok (emit_E S (EvDirty cid) s). bok H0. bok (eq_refl : get_store S s1 = (Ok s1, s1, [])). rewrite H1.
        bok (emit_E S (EvCacheExists cid false) s1). unfold TraceProofs.miss_path. berr Hx. fin.
    - (* cached node, entry seen by exists() but not by get() *)
      rewrite eval_cached_mem_E, wrap_eval_out, H. unfold TraceProofs.cached_on, dirty_evs.
      destruct (site_ok e o).
      + bok (ret_E S tt s). bok H0. bok (eq_refl : get_store S s1 = (Ok s1, s1, [])). rewrite H1.
        bok (emit_E S (EvCacheExists cid true) s1). bok H2.
        bok (eq_refl : get_store S s2 = (Ok s2, s2, [])). rewrite H3.
        bok (emit_E S (EvCacheGet cid false) s2). unfold TraceProofs.miss_path. berr Hx. fin.
      + bok (emit_E S (EvDirty cid) s). bok H0. bok (eq_refl : get_store S s1 = (Ok s1, s1, [])). rewrite H1.
        bok (emit_E S (EvCacheExists cid true) s1). bok H2.
        bok (eq_refl : get_store S s2 = (Ok s2, s2, [])). rewrite H3.
        bok (emit_E S (EvCacheGet cid false) s2). unfold TraceProofs.miss_path. berr Hx. fin.
    - rewrite eval_call_E, wrap_eval_out. berr Hx. fin.
    - rewrite eval_call_E, wrap_eval_out. bok H.
      berr (mapM_app_err S _ _ _ post _ _ _ _ _ _ _ _ H0 Hx). fin.
    - rewrite eval_call_E, wrap_eval_out. bok H. bok H0.
      berr (mapM_app_err S _ _ _ post _ _ _ _ _ _ _ _ H1 Hx). fin.
    - (* a Template parameter *)
      rewrite eval_template_E, wrap_eval_out. unfold template_options. rewrite bind_assoc.
      assert (HF : (fun pe : N * expr => bind (eval (snd pe) o) (fun v => ret (fst pe, v))) (p, x) s1
                   = (Err c true, s'', l)) by (cbn [snd]; now berr Hx).
      berr (mapM_app_err S _ _ _ post _ _ _ _ _ _ _ _ H HF). fin.
    - rewrite eval_comp_E, wrap_eval_out. berr Hx. fin.
    - (* an effect's callback expression *)
      rewrite eval_comp_E, wrap_eval_out. bok H. rewrite H0.
      assert (HF : effect_run o v eff s2 = (Err c true, s'', l))
        by (unfold TraceProofs.effect_run; now berr Hx).
      berr (iterM_app_err S _ _ _ post _ _ _ _ _ _ _ H1 HF). fin.
    - rewrite eval_logged_E, wrap_eval_out. bok (emit_E S EvLogReq s). unfold log_evs.
      destruct (log_ctx_off cfg || logging_opt_off o).
      + bok (ret_E S tt s). rewrite Hx. fin.
      + bok (emit_E S EvLogEmit s). rewrite Hx. fin.
    - rewrite eval_pipe_E, wrap_eval_out. berr (mapM_app_err S _ _ _ post _ _ _ _ _ _ _ _ H Hx). fin.
  Qed.

  (** chains of strict positions *)
  Inductive strict_path : expr -> dict -> S -> expr -> dict -> S -> list event -> Prop :=
  | path_here e o s : strict_path e o s e o s []
  | path_step e o s y oy sy l1 x ox sx l2 :
      strict_pos e o s y oy sy l1 -> strict_path y oy sy x ox sx l2 ->
      strict_path e o s x ox sx (l1 ++ l2).

  (** THE CAUSE IS ORIGINAL: whatever fails at the end of a chain of strict positions is what
      the evaluated object reports — same cause, same store, events in order *)
  Theorem cause_is_original e o s x ox sx lpre c ee s'' l :
    strict_path e o s x ox sx lpre -> eval x ox sx = (Err c ee, s'', l) ->
    eval e o s = (Err c true, s'', lpre ++ l).
  Proof.
    induction 1 as [e o s|e o s y oy sy l1 x ox sx l2 Hpos Hpath IH]; intros Hx.
    - pose proof (eval_err_true S _ _ _ _ _ _ _ _ _ _ _ _ _ Hx) as ->. exact Hx.
    - specialize (IH Hx). rewrite <- app_assoc. eapply strict_pos_propagates; eauto.
  Qed.

  (** ** Where causes are raised (the leaves) *)
  Lemma raise_switch disp tbl o s k s1 l1 :
    eval disp o s = (Ok k, s1, l1) -> hashable k = true -> assoc_v k tbl = None ->
    eval (ESwitch disp tbl None) o s = (Err CSwitch true, s1, l1).
  Proof.
    intros H Hh Ha. rewrite eval_switch_E, wrap_eval_out. bok (dispatch_ok _ (is_some (@None expr)) _ _ _ _ H).
    rewrite Hh. cbn [negb]. rewrite pick_assoc, Ha. cbn [dflt_or]. fin.
  Qed.
  Lemma raise_case disp cases o s x s1 l1 s2 l2 :
    eval disp o s = (Ok x, s1, l1) -> conds_false o x cases s1 s2 l2 ->
    eval (ECase disp cases None) o s = (Err CCase true, s2, l1 ++ l2).
  Proof.
    intros H Hc. rewrite eval_case_E, wrap_eval_out. bok H.
    rewrite (case_loop_all_false _ _ _ _ _ _ _ _ Hc). cbn [dflt_or]. fin.
  Qed.

  Definition user_fun (f : N) : bool :=
    negb (N.eqb f B_LIST || N.eqb f B_TUPLE || N.eqb f B_DICT).

  (** user code raising its n-th exception class: the body did run (event), the raw exception
      is not an EvaluationError yet *)
  Lemma raise_user f args n s :
    user_fun f = true -> deep_err_list args = None -> ucall f (map listify args) = CRaise n ->
    call_fun S ucall f args s = (Err (CUser n) false, s, [EvCall f (map listify args)]).
  Proof.
    unfold user_fun. intros Hf Hd Hu. apply negb_true_iff in Hf.
    apply orb_false_elim in Hf as [Hf H3]. apply orb_false_elim in Hf as [H1 H2].
    unfold call_fun. rewrite H1, H2, H3, Hd, Hu. reflexivity.
  Qed.

  (** a FunctionApplication: everything before the call succeeded, then the outcome of the
      call, wrapped (shared with C06: the events of the arguments come first) *)
  Lemma eval_call_decompose fe args kwargs o s fv s1 l1 av s2 l2 kv s3 l3 :
    eval fe o s = (Ok fv, s1, l1) ->
    mapM S (fun y => eval y o) args s1 = (Ok av, s2, l2) ->
    mapM S (fun y => eval y o) kwargs s2 = (Ok kv, s3, l3) ->
    eval (ECall false fe args kwargs) o s =
      wrap_out (after (l1 ++ l2 ++ l3) (call_value_n S ucall fv (av ++ kv) s3)).
  Proof.
    intros H1 H2 H3. rewrite eval_call_E, wrap_eval_out. bok H1. bok H2. bok H3.
    rewrite !after_after. now rewrite <- !app_assoc.
  Qed.

  Lemma raise_user_in_body fe args kwargs o s fid pre post s1 l1 av s2 l2 kv s3 l3 n :
    eval fe o s = (Ok (VF fid pre post), s1, l1) ->
    mapM S (fun y => eval y o) args s1 = (Ok av, s2, l2) ->
    mapM S (fun y => eval y o) kwargs s2 = (Ok kv, s3, l3) ->
    N.eqb fid B_COMPOSE = false -> user_fun fid = true ->
    deep_err_list (pre ++ (av ++ kv) ++ post) = None ->
    ucall fid (map listify (pre ++ (av ++ kv) ++ post)) = CRaise n ->
    eval (ECall false fe args kwargs) o s =
      (Err (CUser n) true, s3, l1 ++ l2 ++ l3 ++ [EvCall fid (map listify (pre ++ (av ++ kv) ++ post))]).
  Proof.
    intros H1 H2 H3 Hc Hu Hd Hr. rewrite (eval_call_decompose _ _ _ _ _ _ _ _ _ _ _ _ _ _ H1 H2 H3).
    unfold call_value_n. rewrite Hc. rewrite (raise_user _ _ _ _ Hu Hd Hr). fin.
  Qed.

  (** ** What the deferring handlers do: the element's cause is kept, and raised by whoever
      consumes the iterable *)
  Notation iter_loop := (iter_loop S mem_find mem_store cfg ucall rfuel site_ok).
  Lemma iter_defers_head o x rest s c ee s1 l1 :
    eval x o s = (Err c ee, s1, l1) -> c <> CUnmodelled ->
    iter_loop o (x :: rest) s = (Ok [VErr c], s1, l1).
  Proof.
    intros H Hc. cbn [TraceProofs.iter_loop].
    assert (Hb : bind (eval x o) (fun v => if is_some (deep_err v) then ret [v]
                   else bind (iter_loop o rest) (fun vs => ret (v :: vs))) s = (Err c ee, s1, l1))
      by (now berr H).
    rewrite (catch_errE S _ _ _ _ _ _ _ Hb Hc). fin.
  Qed.
  Lemma consumer_raises_deferred t vs c s :
    (N.eqb t T_ITER || N.eqb t T_LIST || N.eqb t T_TUPLE) = true -> first_err vs = Some c ->
    force_elems S (VT t vs) s = (Err c true, s, []).
  Proof. intros Ht Hf. unfold force_elems, elements_of. rewrite Ht, Hf. reflexivity. Qed.
End C12.
