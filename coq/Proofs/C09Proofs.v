(** C09 — templates: an independent specification of substitution ([expand]: one level,
    [flatten]: transitive), its agreement with the code-shaped iterate-and-rescan [resolve] of
    Model/Template.v, the missing-reference error, parameters, and "keys()/explain() cover the keys
    the substitution reads" (with the D1 / D13 side conditions). *)
From Coq Require Import List NArith ZArith Bool Lia.
Import ListNotations.
From LV Require Import Model.Base Model.Template Model.Eval Model.Derived Model.EvalRun
  Proofs.BaseProofs Proofs.EvalProofs.

(** * Part A — the specification of substitution (pure; no interpreter involved) *)

(** the option key a token looks up: {KEY} -> KEY, {:p:} -> the slot Template.evaluate stores
    parameter p under; literals and escapes look nothing up *)
Definition tok_key (t : tok) : option key :=
  match t with TRef k => Some k | TPar p => Some (par_key p) | _ => None end.

(** the string consists of exactly one reference ([_single_dotted_key]) *)
Definition single (s : str) : option key :=
  match s with [t] => tok_key t | _ => None end.

(** all keys a string mentions, in the order [resolve_reads] lists them *)
Definition tkeys (s : str) : list key := refs s ++ map par_key (pars s).

(** concatenation of per-token pieces; [None] as soon as one piece is undefined *)
Fixpoint cat_map (f : tok -> option str) (s : str) : option str :=
  match s with
  | [] => Some []
  | t :: s' => match f t, cat_map f s' with Some a, Some b => Some (a ++ b) | _, _ => None end
  end.

(** ONE level: a literal or an escape stays, a reference becomes the string form of its value *)
Definition piece (o : dict) (t : tok) : option str :=
  match tok_key t with
  | Some k => match lookup k (JObj o) with Found v => to_str v | _ => None end
  | None => Some [t]
  end.
Definition expand (o : dict) (s : str) : option str := cat_map (piece o) s.

(** TRANSITIVE, to reference depth [d]: a reference becomes the FULL expansion of the string form
    of its value ("resolve the referenced keys to closed strings first, then concatenate").
    Escapes are kept; [unescape] is applied once, to the final text. *)
Definition deep_piece (rec : str -> option str) (o : dict) (t : tok) : option str :=
  match tok_key t with
  | Some k => match lookup k (JObj o) with
              | Found v => match to_str v with Some sv => rec sv | None => None end
              | _ => None
              end
  | None => Some [t]
  end.
Fixpoint flatten (d : nat) (o : dict) (s : str) : option str :=
  match d with
  | O => if has_templ s then None else Some s
  | S d' => cat_map (deep_piece (flatten d' o) o) s
  end.

(** values a one-level substitution may meet: scalars and template-free strings *)
Definition atomic (v : json) : bool :=
  match v with JStr s => negb (has_templ s) | JList _ | JObj _ => false | _ => true end.
Definition closed (o : dict) (s : str) : bool :=
  forallb (fun t => match tok_key t with
                    | Some k => match lookup k (JObj o) with Found v => atomic v | _ => false end
                    | None => true
                    end) s.
(** what [resolve] returns for an atomic value: itself, strings with their escapes removed *)
Definition final (v : json) : json := match v with JStr s => JStr (unescape s) | _ => v end.

(** ** token / string facts *)
Lemma has_templ_app a b : has_templ (a ++ b) = has_templ a || has_templ b.
Proof. unfold has_templ. apply existsb_app. Qed.

Lemma tok_key_templ t : is_templ t = match tok_key t with Some _ => true | None => false end.
Proof. destruct t; reflexivity. Qed.

Lemma single_inv s k : single s = Some k -> exists t, s = [t] /\ tok_key t = Some k.
Proof.
  destruct s as [|t [|t' s']]; try discriminate. intros H. exists t. split; [reflexivity|exact H].
Qed.

Lemma single_has_templ s k : single s = Some k -> has_templ s = true.
Proof.
  intros H. destruct (single_inv _ _ H) as [t [-> Ht]]. unfold has_templ. cbn.
  rewrite tok_key_templ, Ht. reflexivity.
Qed.

Lemma plain_not_single s : has_templ s = false -> single s = None.
Proof.
  intros H. destruct (single s) as [k|] eqn:E; [|reflexivity].
  apply single_has_templ in E. congruence.
Qed.

Lemma lit_app a b : lit a ++ lit b = lit (a ++ b).
Proof. unfold lit. now rewrite map_app. Qed.
Lemma has_templ_lit cs : has_templ (lit cs) = false.
Proof. induction cs as [|c cs IH]; [reflexivity|exact IH]. Qed.
Lemma unescape_lit cs : unescape (lit cs) = lit cs.
Proof.
  induction cs as [|c cs IH]; [reflexivity|].
  change (unescape (lit (c :: cs))) with (TLit c :: unescape (lit cs)). now rewrite IH.
Qed.
Lemma unescape_app a b : unescape (a ++ b) = unescape a ++ unescape b.
Proof. unfold unescape. apply map_app. Qed.

Lemma tkeys_In s k : In k (tkeys s) <-> exists t, In t s /\ tok_key t = Some k.
Proof.
  unfold tkeys, refs, pars. rewrite in_app_iff, in_map_iff. split.
  - intros [H|[p [<- H]]].
    + apply in_flat_map in H as [t [Ht H]]. exists t. split; [exact Ht|].
      destruct t; cbn in H; try contradiction. destruct H as [->|[]]. reflexivity.
    + apply in_flat_map in H as [t [Ht H]]. exists t. split; [exact Ht|].
      destruct t; cbn in H; try contradiction. destruct H as [->|[]]. reflexivity.
  - intros [t [Ht H]]. destruct t; try discriminate; cbn in H; inversion H; subst.
    + left. apply in_flat_map. exists (TRef k). split; [exact Ht|now left].
    + right. exists p. split; [reflexivity|]. apply in_flat_map. exists (TPar p). split; [exact Ht|now left].
Qed.

Lemma tkeys_has_templ s k : In k (tkeys s) -> has_templ s = true.
Proof.
  intros H. apply tkeys_In in H as [t [Ht H]]. unfold has_templ. apply existsb_exists.
  exists t. split; [exact Ht|]. rewrite tok_key_templ, H. reflexivity.
Qed.

(** ** [cat_map], [expand], [flatten] distribute over concatenation *)
Lemma cat_map_app f a b :
  cat_map f (a ++ b) =
    match cat_map f a, cat_map f b with Some x, Some y => Some (x ++ y) | _, _ => None end.
Proof.
  induction a as [|t a IH]; cbn [cat_map app].
  - destruct (cat_map f b); reflexivity.
  - rewrite IH. destruct (f t) as [p|]; [|reflexivity].
    destruct (cat_map f a) as [x|]; [|reflexivity].
    destruct (cat_map f b) as [y|]; [|reflexivity]. now rewrite app_assoc.
Qed.

Lemma cat_map_plain f s :
  (forall t, In t s -> f t = Some [t]) -> cat_map f s = Some s.
Proof.
  induction s as [|t s IH]; intros H; [reflexivity|]. cbn [cat_map].
  rewrite (H t (or_introl eq_refl)), IH; [reflexivity|]. intros t' Ht'. apply H. now right.
Qed.

Lemma plain_tok_key s t : has_templ s = false -> In t s -> tok_key t = None.
Proof.
  intros H Ht. destruct (tok_key t) as [k|] eqn:E; [|reflexivity].
  assert (has_templ s = true); [|congruence].
  unfold has_templ. apply existsb_exists. exists t. split; [exact Ht|].
  rewrite tok_key_templ, E. reflexivity.
Qed.

Lemma expand_plain o s : has_templ s = false -> expand o s = Some s.
Proof.
  intros H. apply cat_map_plain. intros t Ht. unfold piece. now rewrite (plain_tok_key s t H Ht).
Qed.

Lemma flatten_plain d o s : has_templ s = false -> flatten d o s = Some s.
Proof.
  intros H. destruct d as [|d]; cbn [flatten]; [now rewrite H|].
  apply cat_map_plain. intros t Ht. unfold deep_piece. now rewrite (plain_tok_key s t H Ht).
Qed.

Lemma flatten_app d o a b :
  flatten d o (a ++ b) =
    match flatten d o a, flatten d o b with Some x, Some y => Some (x ++ y) | _, _ => None end.
Proof.
  destruct d as [|d]; cbn [flatten]; [|apply cat_map_app].
  rewrite has_templ_app. destruct (has_templ a); [reflexivity|].
  destruct (has_templ b); reflexivity.
Qed.

(** the code's one substitution pass computes [expand] *)
Lemma expand_subst o s e : expand o s = Some e -> subst o s = ROk (JStr e).
Proof.
  revert e. induction s as [|t s IH]; intros e H.
  - inversion H. reflexivity.
  - unfold expand in H. cbn [cat_map] in H. unfold piece in H at 1.
    destruct t as [c|k|p| |]; cbn [tok_key] in H; cbn [subst].
    + destruct (cat_map (piece o) s) as [b|] eqn:E; [|discriminate]. inversion H; subst.
      now rewrite (IH b E).
    + destruct (lookup k (JObj o)) as [v| |]; try discriminate.
      destruct (to_str v) as [sv|]; [|discriminate].
      destruct (cat_map (piece o) s) as [b|] eqn:E; [|discriminate]. inversion H; subst.
      now rewrite (IH b E).
    + destruct (lookup (par_key p) (JObj o)) as [v| |]; try discriminate.
      destruct (to_str v) as [sv|]; [|discriminate].
      destruct (cat_map (piece o) s) as [b|] eqn:E; [|discriminate]. inversion H; subst.
      now rewrite (IH b E).
    + destruct (cat_map (piece o) s) as [b|] eqn:E; [|discriminate]. inversion H; subst.
      now rewrite (IH b E).
    + destruct (cat_map (piece o) s) as [b|] eqn:E; [|discriminate]. inversion H; subst.
      now rewrite (IH b E).
Qed.

Lemma subst_expand o s v : subst o s = ROk v -> exists e, v = JStr e /\ expand o s = Some e.
Proof.
  revert v. induction s as [|t s IH]; intros v H.
  - inversion H. exists []. split; reflexivity.
  - unfold expand. cbn [cat_map]. unfold piece at 1.
    destruct t as [c|k|p| |]; cbn [tok_key]; cbn [subst] in H.
    + destruct (subst o s) as [v'| | | |] eqn:E; try discriminate.
      destruct (IH v' eq_refl) as [b [-> Hb]]. inversion H; subst.
      unfold expand in Hb. rewrite Hb. eexists. split; reflexivity.
    + destruct (lookup k (JObj o)) as [w| |]; try discriminate.
      destruct (to_str w) as [sv|]; [|discriminate].
      destruct (subst o s) as [v'| | | |] eqn:E; try discriminate.
      destruct (IH v' eq_refl) as [b [-> Hb]]. inversion H; subst.
      unfold expand in Hb. rewrite Hb. eexists. split; reflexivity.
    + destruct (lookup (par_key p) (JObj o)) as [w| |]; try discriminate.
      destruct (to_str w) as [sv|]; [|discriminate].
      destruct (subst o s) as [v'| | | |] eqn:E; try discriminate.
      destruct (IH v' eq_refl) as [b [-> Hb]]. inversion H; subst.
      unfold expand in Hb. rewrite Hb. eexists. split; reflexivity.
    + destruct (subst o s) as [v'| | | |] eqn:E; try discriminate.
      destruct (IH v' eq_refl) as [b [-> Hb]]. inversion H; subst.
      unfold expand in Hb. rewrite Hb. eexists. split; reflexivity.
    + destruct (subst o s) as [v'| | | |] eqn:E; try discriminate.
      destruct (IH v' eq_refl) as [b [-> Hb]]. inversion H; subst.
      unfold expand in Hb. rewrite Hb. eexists. split; reflexivity.
Qed.
