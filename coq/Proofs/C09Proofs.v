(** C09 — templates: an independent specification of substitution ([expand]: one level,
    [flatten]: transitive), its agreement with the code-shaped iterate-and-rescan [resolve] of
    Model/Template.v, the missing-reference error, parameters, and "keys()/explain() cover the keys
    the substitution reads" (with the D1 / D13 side conditions). *)
From Coq Require Import List NArith ZArith Bool Lia.
Import ListNotations.
From LV Require Import Model.Base Model.Template Model.Eval Model.Derived Model.EvalRun
  Proofs.BaseProofs Proofs.FrameProofs Proofs.EvalProofs.

(** * Part A — the specification of substitution (pure; no interpreter involved) *)

(** the option key a token looks up: {KEY} -> KEY, {:p:} -> the slot Template.evaluate stores
    parameter p under; literals and escapes look nothing up *)
Definition tok_key (t : tok) : option key :=
  match t with TRef k => Some k | TPar p => Some (par_key p) | _ => None end.

(** the string consists of exactly one reference ([_single_dotted_key]) *)
Definition single (s : str) : option key :=
  match s with [t] => tok_key t | _ => None end.

(** all keys a string mentions, in the order [resolve_reads] lists them *)
Definition tkeys (s : str) : list key := refs s ++ map par_key (pars s).

(** concatenation of per-token pieces; [None] as soon as one piece is undefined *)
Fixpoint cat_map (f : tok -> option str) (s : str) : option str :=
  match s with
  | [] => Some []
  | t :: s' => match f t, cat_map f s' with Some a, Some b => Some (a ++ b) | _, _ => None end
  end.

(** ONE level: a literal or an escape stays, a reference becomes the string form of its value *)
Definition piece (o : dict) (t : tok) : option str :=
  match tok_key t with
  | Some k => match lookup k (JObj o) with Found v => to_str v | _ => None end
  | None => Some [t]
  end.
Definition expand (o : dict) (s : str) : option str := cat_map (piece o) s.

(** TRANSITIVE, to reference depth [d]: a reference becomes the FULL expansion of the string form
    of its value ("resolve the referenced keys to closed strings first, then concatenate").
    Escapes are kept; [unescape] is applied once, to the final text. *)
Definition deep_piece (rec : str -> option str) (o : dict) (t : tok) : option str :=
  match tok_key t with
  | Some k => match lookup k (JObj o) with
              | Found v => match to_str v with Some sv => rec sv | None => None end
              | _ => None
              end
  | None => Some [t]
  end.
Fixpoint flatten (d : nat) (o : dict) (s : str) : option str :=
  match d with
  | O => if has_templ s then None else Some s
  | S d' => cat_map (deep_piece (flatten d' o) o) s
  end.

(** values a one-level substitution may meet: scalars and template-free strings *)
Definition atomic (v : json) : bool :=
  match v with JStr s => negb (has_templ s) | JList _ | JObj _ => false | _ => true end.
Definition closed (o : dict) (s : str) : bool :=
  forallb (fun t => match tok_key t with
                    | Some k => match lookup k (JObj o) with Found v => atomic v | _ => false end
                    | None => true
                    end) s.
(** what [resolve] returns for an atomic value: itself, strings with their escapes removed *)
Definition final (v : json) : json := match v with JStr s => JStr (unescape s) | _ => v end.

(** ** token / string facts *)
Lemma has_templ_app a b : has_templ (a ++ b) = has_templ a || has_templ b.
Proof. unfold has_templ. apply existsb_app. Qed.

Lemma tok_key_templ t : is_templ t = match tok_key t with Some _ => true | None => false end.
Proof. destruct t; reflexivity. Qed.

Lemma single_inv s k : single s = Some k -> exists t, s = [t] /\ tok_key t = Some k.
Proof.
  destruct s as [|t [|t' s']]; try discriminate. intros H. exists t. split; [reflexivity|exact H].
Qed.

Lemma single_has_templ s k : single s = Some k -> has_templ s = true.
Proof.
  intros H. destruct (single_inv _ _ H) as [t [-> Ht]]. unfold has_templ. cbn.
  rewrite tok_key_templ, Ht. reflexivity.
Qed.

Lemma plain_not_single s : has_templ s = false -> single s = None.
Proof.
  intros H. destruct (single s) as [k|] eqn:E; [|reflexivity].
  apply single_has_templ in E. congruence.
Qed.

Lemma lit_app a b : lit a ++ lit b = lit (a ++ b).
Proof. unfold lit. now rewrite map_app. Qed.
Lemma has_templ_lit cs : has_templ (lit cs) = false.
Proof. induction cs as [|c cs IH]; [reflexivity|exact IH]. Qed.
Lemma unescape_lit cs : unescape (lit cs) = lit cs.
Proof.
  induction cs as [|c cs IH]; [reflexivity|].
  change (unescape (lit (c :: cs))) with (TLit c :: unescape (lit cs)). now rewrite IH.
Qed.
Lemma unescape_app a b : unescape (a ++ b) = unescape a ++ unescape b.
Proof. unfold unescape. apply map_app. Qed.

Lemma tkeys_In s k : In k (tkeys s) <-> exists t, In t s /\ tok_key t = Some k.
Proof.
  unfold tkeys, refs, pars. rewrite in_app_iff, in_map_iff. split.
  - intros [H|[p [<- H]]].
    + apply in_flat_map in H as [t [Ht H]]. exists t. split; [exact Ht|].
      destruct t; cbn in H; try contradiction. destruct H as [->|[]]. reflexivity.
    + apply in_flat_map in H as [t [Ht H]]. exists t. split; [exact Ht|].
      destruct t; cbn in H; try contradiction. destruct H as [->|[]]. reflexivity.
  - intros [t [Ht H]]. destruct t; try discriminate; cbn in H; inversion H; subst.
    + left. apply in_flat_map. exists (TRef k). split; [exact Ht|now left].
    + right. exists p. split; [reflexivity|]. apply in_flat_map. exists (TPar p). split; [exact Ht|now left].
Qed.

Lemma tkeys_has_templ s k : In k (tkeys s) -> has_templ s = true.
Proof.
  intros H. apply tkeys_In in H as [t [Ht H]]. unfold has_templ. apply existsb_exists.
  exists t. split; [exact Ht|]. rewrite tok_key_templ, H. reflexivity.
Qed.

(** ** [cat_map], [expand], [flatten] distribute over concatenation *)
Lemma cat_map_app f a b :
  cat_map f (a ++ b) =
    match cat_map f a, cat_map f b with Some x, Some y => Some (x ++ y) | _, _ => None end.
Proof.
  induction a as [|t a IH]; cbn [cat_map app].
  - destruct (cat_map f b); reflexivity.
  - rewrite IH. destruct (f t) as [p|]; [|reflexivity].
    destruct (cat_map f a) as [x|]; [|reflexivity].
    destruct (cat_map f b) as [y|]; [|reflexivity]. now rewrite app_assoc.
Qed.

Lemma cat_map_plain f s :
  (forall t, In t s -> f t = Some [t]) -> cat_map f s = Some s.
Proof.
  induction s as [|t s IH]; intros H; [reflexivity|]. cbn [cat_map].
  rewrite (H t (or_introl eq_refl)), IH; [reflexivity|]. intros t' Ht'. apply H. now right.
Qed.

Lemma plain_tok_key s t : has_templ s = false -> In t s -> tok_key t = None.
Proof.
  intros H Ht. destruct (tok_key t) as [k|] eqn:E; [|reflexivity].
  assert (has_templ s = true); [|congruence].
  unfold has_templ. apply existsb_exists. exists t. split; [exact Ht|].
  rewrite tok_key_templ, E. reflexivity.
Qed.

Lemma expand_plain o s : has_templ s = false -> expand o s = Some s.
Proof.
  intros H. apply cat_map_plain. intros t Ht. unfold piece. now rewrite (plain_tok_key s t H Ht).
Qed.

Lemma flatten_plain d o s : has_templ s = false -> flatten d o s = Some s.
Proof.
  intros H. destruct d as [|d]; cbn [flatten]; [now rewrite H|].
  apply cat_map_plain. intros t Ht. unfold deep_piece. now rewrite (plain_tok_key s t H Ht).
Qed.

Lemma flatten_app d o a b :
  flatten d o (a ++ b) =
    match flatten d o a, flatten d o b with Some x, Some y => Some (x ++ y) | _, _ => None end.
Proof.
  destruct d as [|d]; cbn [flatten]; [|apply cat_map_app].
  rewrite has_templ_app. destruct (has_templ a); [reflexivity|].
  destruct (has_templ b); reflexivity.
Qed.

(** the code's one substitution pass computes [expand] *)
Lemma expand_subst o s e : expand o s = Some e -> subst o s = ROk (JStr e).
Proof.
  revert e. induction s as [|t s IH]; intros e H.
  - inversion H. reflexivity.
  - unfold expand in H. cbn [cat_map] in H. unfold piece in H at 1.
    destruct t as [c|k|p| |]; cbn [tok_key] in H; cbn [subst].
    + destruct (cat_map (piece o) s) as [b|] eqn:E; [|discriminate]. inversion H; subst.
      now rewrite (IH b E).
    + destruct (lookup k (JObj o)) as [v| |]; try discriminate.
      destruct (to_str v) as [sv|]; [|discriminate].
      destruct (cat_map (piece o) s) as [b|] eqn:E; [|discriminate]. inversion H; subst.
      now rewrite (IH b E).
    + destruct (lookup (par_key p) (JObj o)) as [v| |]; try discriminate.
      destruct (to_str v) as [sv|]; [|discriminate].
      destruct (cat_map (piece o) s) as [b|] eqn:E; [|discriminate]. inversion H; subst.
      now rewrite (IH b E).
    + destruct (cat_map (piece o) s) as [b|] eqn:E; [|discriminate]. inversion H; subst.
      now rewrite (IH b E).
    + destruct (cat_map (piece o) s) as [b|] eqn:E; [|discriminate]. inversion H; subst.
      now rewrite (IH b E).
Qed.

Lemma subst_expand o s v : subst o s = ROk v -> exists e, v = JStr e /\ expand o s = Some e.
Proof.
  revert v. induction s as [|t s IH]; intros v H.
  - inversion H. exists []. split; reflexivity.
  - unfold expand. cbn [cat_map]. unfold piece at 1.
    destruct t as [c|k|p| |]; cbn [tok_key]; cbn [subst] in H.
    + destruct (subst o s) as [v'| | | |] eqn:E; try discriminate.
      destruct (IH v' eq_refl) as [b [-> Hb]]. inversion H; subst.
      unfold expand in Hb. rewrite Hb. eexists. split; reflexivity.
    + destruct (lookup k (JObj o)) as [w| |]; try discriminate.
      destruct (to_str w) as [sv|]; [|discriminate].
      destruct (subst o s) as [v'| | | |] eqn:E; try discriminate.
      destruct (IH v' eq_refl) as [b [-> Hb]]. inversion H; subst.
      unfold expand in Hb. rewrite Hb. eexists. split; reflexivity.
    + destruct (lookup (par_key p) (JObj o)) as [w| |]; try discriminate.
      destruct (to_str w) as [sv|]; [|discriminate].
      destruct (subst o s) as [v'| | | |] eqn:E; try discriminate.
      destruct (IH v' eq_refl) as [b [-> Hb]]. inversion H; subst.
      unfold expand in Hb. rewrite Hb. eexists. split; reflexivity.
    + destruct (subst o s) as [v'| | | |] eqn:E; try discriminate.
      destruct (IH v' eq_refl) as [b [-> Hb]]. inversion H; subst.
      unfold expand in Hb. rewrite Hb. eexists. split; reflexivity.
    + destruct (subst o s) as [v'| | | |] eqn:E; try discriminate.
      destruct (IH v' eq_refl) as [b [-> Hb]]. inversion H; subst.
      unfold expand in Hb. rewrite Hb. eexists. split; reflexivity.
Qed.

(** ** one unfolding step of [resolve] on a string *)
Lemma resolve_str_single f o s k :
  single s = Some k ->
  resolve (S f) o (JStr s) =
    match lookup k (JObj o) with
    | Found v' => resolve f o v' | Absent => RMissing k | TypeErr => RTypeErr
    end.
Proof.
  intros H. destruct (single_inv _ _ H) as [t [-> Ht]].
  destruct t; try discriminate; cbn in Ht; inversion Ht; subst; reflexivity.
Qed.

Lemma resolve_str_multi f o s :
  single s = None ->
  resolve (S f) o (JStr s) =
    if has_templ s then match subst o s with ROk v' => resolve f o v' | e => e end
    else ROk (JStr (unescape s)).
Proof.
  intros H. destruct s as [|t [|t' s']]; [reflexivity| |destruct t; reflexivity].
  destruct t; try discriminate; reflexivity.
Qed.

Lemma resolve_plain f o s : has_templ s = false -> resolve (S f) o (JStr s) = ROk (JStr (unescape s)).
Proof. intros H. rewrite resolve_str_multi by now apply plain_not_single. now rewrite H. Qed.

(** ** string forms of non-string values are literal text, and such values resolve to themselves *)
Lemma some_inj {A} (a b : A) : Some a = Some b -> a = b.
Proof. intros E. now inversion E. Qed.

Lemma scalar_str_lit v r : scalar_str v = Some r -> exists cs, r = lit cs.
Proof.
  pose proof (@some_inj str) as inj.
  destruct v as [|b|z| | | |]; try discriminate; cbn [scalar_str].
  - intros H. apply inj in H. subst r. eexists. reflexivity.
  - destruct b; intros H; apply inj in H; subst r; eexists; reflexivity.
  - destruct z; intros H; apply inj in H; subst r; eexists; reflexivity.
Qed.

Lemma scalar_str_resolve f o v r : scalar_str v = Some r -> resolve (S f) o v = ROk v.
Proof. destruct v; try discriminate; reflexivity. Qed.

Lemma list_str_lit l : forall r, list_str l = Some r -> exists cs, r = lit cs.
Proof.
  induction l as [|v l IH]; intros r H.
  - inversion H. exists []. reflexivity.
  - destruct l as [|v' l'].
    + cbn [list_str] in H. now apply scalar_str_lit in H.
    + change (list_str (v :: v' :: l')) with
        (match scalar_str v, list_str (v' :: l') with
         | Some a, Some b => Some (a ++ lit [44; 32]%N ++ b) | _, _ => None end) in H.
      destruct (scalar_str v) as [a|] eqn:Ea; [|discriminate].
      destruct (list_str (v' :: l')) as [b|] eqn:Eb; [|discriminate].
      apply scalar_str_lit in Ea as [ca ->]. destruct (IH b eq_refl) as [cb ->].
      apply some_inj in H. subst r. rewrite !lit_app. eexists. reflexivity.
Qed.

Lemma resolve_list_cons f o v l :
  resolve (S f) o (JList (v :: l)) =
    match resolve (S f) o v with
    | ROk v' => match resolve (S f) o (JList l) with ROk (JList r) => ROk (JList (v' :: r)) | e => e end
    | e => e
    end.
Proof. reflexivity. Qed.

Lemma list_str_resolve f o l : forall r, list_str l = Some r -> resolve (S f) o (JList l) = ROk (JList l).
Proof.
  induction l as [|v l IH]; intros r H; [reflexivity|].
  rewrite resolve_list_cons. destruct l as [|v' l'].
  - cbn [list_str] in H. rewrite (scalar_str_resolve f o v r H). reflexivity.
  - change (list_str (v :: v' :: l')) with
      (match scalar_str v, list_str (v' :: l') with
       | Some a, Some b => Some (a ++ lit [44; 32]%N ++ b) | _, _ => None end) in H.
    destruct (scalar_str v) as [a|] eqn:Ea; [|discriminate].
    destruct (list_str (v' :: l')) as [b|] eqn:Eb; [|discriminate].
    rewrite (scalar_str_resolve f o v a Ea), (IH b eq_refl). reflexivity.
Qed.

Lemma to_str_nonstr f o v sv :
  (forall s, v <> JStr s) -> to_str v = Some sv ->
  (exists cs, sv = lit cs) /\ resolve (S f) o v = ROk v.
Proof.
  intros Hn H. destruct v as [|b|z|i|s|l|m].
  - split; [now apply (scalar_str_lit JNull)|reflexivity].
  - split; [now apply (scalar_str_lit (JBool b))|reflexivity].
  - split; [now apply (scalar_str_lit (JInt z))|reflexivity].
  - discriminate.
  - exfalso. now apply (Hn s).
  - cbn [to_str] in H. destruct (list_str l) as [r|] eqn:E; [|discriminate].
    split; [|now apply (list_str_resolve f o l r)].
    destruct (list_str_lit l r E) as [cs ->]. apply some_inj in H. subst sv.
    rewrite !lit_app. eexists. reflexivity.
  - discriminate.
Qed.

(** ** the transitive specification against the iterate-and-rescan resolver *)

(** one round of the code (substitute the raw string forms, rescan) lowers the depth by one *)
Lemma flatten_round d o s : forall e,
  flatten (S d) o s = Some e -> exists s1, expand o s = Some s1 /\ flatten d o s1 = Some e.
Proof.
  induction s as [|t s IH]; intros e H.
  - inversion H. exists []. split; [reflexivity|]. now apply flatten_plain.
  - cbn [flatten cat_map] in H.
    destruct (deep_piece (flatten d o) o t) as [a|] eqn:Ea; [|discriminate].
    destruct (cat_map (deep_piece (flatten d o) o) s) as [b|] eqn:Eb; [|discriminate].
    apply some_inj in H. subst e.
    destruct (IH b Eb) as [s1 [Hs1 Hb]].
    unfold expand. cbn [cat_map]. unfold expand in Hs1. rewrite Hs1.
    unfold deep_piece in Ea. unfold piece.
    destruct (tok_key t) as [k|] eqn:Ek.
    + destruct (lookup k (JObj o)) as [v| |]; try discriminate.
      destruct (to_str v) as [sv|]; [|discriminate].
      exists (sv ++ s1). split; [reflexivity|]. now rewrite flatten_app, Ea, Hb.
    + apply some_inj in Ea. subst a. exists ([t] ++ s1). split; [reflexivity|].
      rewrite flatten_app, Hb, flatten_plain; [reflexivity|].
      unfold has_templ. cbn. rewrite tok_key_templ, Ek. reflexivity.
Qed.

(** the full expansion contains no unresolved reference *)
Lemma flatten_is_plain d o : forall s e, flatten d o s = Some e -> has_templ e = false.
Proof.
  induction d as [|d IH]; intros s e H.
  - cbn [flatten] in H. destruct (has_templ s) eqn:E; [discriminate|]. apply some_inj in H. now subst.
  - revert e H. induction s as [|t s IHs]; intros e H.
    + apply some_inj in H. now subst.
    + cbn [flatten cat_map] in H.
      destruct (deep_piece (flatten d o) o t) as [a|] eqn:Ea; [|discriminate].
      destruct (cat_map (deep_piece (flatten d o) o) s) as [b|] eqn:Eb; [|discriminate].
      apply some_inj in H. subst e. rewrite has_templ_app, (IHs b Eb), orb_false_r.
      unfold deep_piece in Ea. destruct (tok_key t) as [k|] eqn:Ek.
      * destruct (lookup k (JObj o)) as [v| |]; try discriminate.
        destruct (to_str v) as [sv|]; [|discriminate]. exact (IH sv a Ea).
      * apply some_inj in Ea. subst a. unfold has_templ. cbn. rewrite tok_key_templ, Ek. reflexivity.
Qed.

(** MAIN: whenever the independent transitive expansion (depth d) is defined, [resolve] with any
    budget above d succeeds with a value whose string form is that expansion, escapes removed *)
Theorem flatten_resolve d o : forall s e,
  flatten d o s = Some e ->
  forall f, f > d -> exists r, resolve f o (JStr s) = ROk r /\ to_str r = Some (unescape e).
Proof.
  induction d as [|d IH]; intros s e H f Hf.
  - cbn [flatten] in H. destruct (has_templ s) eqn:E; [discriminate|]. apply some_inj in H. subst e.
    destruct f as [|f]; [lia|]. rewrite resolve_plain by exact E. eexists. split; reflexivity.
  - destruct f as [|f]; [lia|]. assert (Hf' : f > d) by lia.
    destruct (single s) as [k|] eqn:Es.
    + rewrite (resolve_str_single f o s k Es).
      destruct (single_inv _ _ Es) as [t [-> Ht]].
      cbn [flatten cat_map] in H. unfold deep_piece in H. rewrite Ht in H.
      destruct (lookup k (JObj o)) as [v| |]; try discriminate.
      destruct (to_str v) as [sv|] eqn:Ev; [|discriminate].
      destruct (flatten d o sv) as [a|] eqn:Ea; [|discriminate].
      apply some_inj in H. rewrite app_nil_r in H. subst e.
      destruct v as [| | | |s'| |].
      5: { cbn [to_str] in Ev. apply some_inj in Ev. subst sv. exact (IH s' a Ea f Hf'). }
      all: destruct f as [|f]; [lia|];
        match type of Ev with to_str ?v = _ =>
          destruct (to_str_nonstr f o v sv ltac:(intros s0 E0; discriminate E0) Ev) as [[cs ->] Hr] end;
        rewrite flatten_plain in Ea by apply has_templ_lit; apply some_inj in Ea; subst a;
        eexists; (split; [exact Hr|]); rewrite unescape_lit; exact Ev.
    + rewrite (resolve_str_multi f o s Es). destruct (has_templ s) eqn:Et.
      * destruct (flatten_round d o s e H) as [s1 [Hs1 He]].
        rewrite (expand_subst o s s1 Hs1). exact (IH s1 e He f Hf').
      * rewrite flatten_plain in H by exact Et. apply some_inj in H. subst e.
        eexists. split; reflexivity.
Qed.

(** ** the one-level specification (every referenced value is atomic) *)
Lemma closed_expand_plain o s : forall e,
  closed o s = true -> expand o s = Some e -> has_templ e = false.
Proof.
  induction s as [|t s IH]; intros e Hc H.
  - apply some_inj in H. now subst.
  - unfold expand in H. cbn [cat_map] in H. cbn [closed forallb] in Hc.
    apply andb_prop in Hc as [Ht Hc].
    destruct (piece o t) as [a|] eqn:Ea; [|discriminate].
    destruct (cat_map (piece o) s) as [b|] eqn:Eb; [|discriminate].
    apply some_inj in H. subst e. rewrite has_templ_app, (IH b Hc Eb), orb_false_r.
    unfold piece in Ea. destruct (tok_key t) as [k|] eqn:Ek.
    + destruct (lookup k (JObj o)) as [v| |]; try discriminate.
      destruct v as [| | | |s'| |]; try discriminate.
      4: { cbn in Ea. apply some_inj in Ea. subst a. now apply negb_true_iff in Ht. }
      all: match type of Ea with to_str ?v = _ =>
             destruct (to_str_nonstr 0 o v a ltac:(intros s0 E0; discriminate E0) Ea) as [[cs ->] _] end;
           apply has_templ_lit.
    + apply some_inj in Ea. subst a. unfold has_templ. cbn. rewrite tok_key_templ, Ek. reflexivity.
Qed.

Theorem resolve_one_level_multi o s e n :
  closed o s = true -> single s = None -> expand o s = Some e ->
  resolve (S (S n)) o (JStr s) = ROk (JStr (unescape e)).
Proof.
  intros Hc Hs He. rewrite resolve_str_multi by exact Hs. destruct (has_templ s) eqn:Et.
  - rewrite (expand_subst o s e He). apply resolve_plain. exact (closed_expand_plain o s e Hc He).
  - rewrite expand_plain in He by exact Et. apply some_inj in He. now subst.
Qed.

Theorem resolve_one_level_single o s k n :
  closed o s = true -> single s = Some k ->
  exists v, lookup k (JObj o) = Found v /\ resolve (S (S n)) o (JStr s) = ROk (final v).
Proof.
  intros Hc Hs. rewrite (resolve_str_single _ o s k Hs).
  destruct (single_inv _ _ Hs) as [t [-> Ht]]. cbn [closed forallb] in Hc. rewrite Ht in Hc.
  destruct (lookup k (JObj o)) as [v| |]; try discriminate. exists v. split; [reflexivity|].
  rewrite andb_true_r in Hc. destruct v as [| | | |s'| |]; try discriminate; try reflexivity.
  apply resolve_plain. now apply negb_true_iff in Hc.
Qed.

(** ** a missing reference is reported by name *)
Definition lres_found (r : lres) : bool := match r with Found _ => true | _ => false end.

Lemma subst_missing o a t k b ea :
  expand o a = Some ea -> tok_key t = Some k -> lookup k (JObj o) = Absent ->
  subst o (a ++ t :: b) = RMissing k.
Proof.
  revert ea. induction a as [|t' a IH]; intros ea Ha Ht Hl.
  - cbn [app subst]. destruct t; try discriminate; cbn in Ht; inversion Ht; subst; now rewrite Hl.
  - unfold expand in Ha. cbn [cat_map] in Ha.
    destruct (piece o t') as [p|] eqn:Ep; [|discriminate].
    destruct (cat_map (piece o) a) as [ea'|] eqn:Ea; [|discriminate].
    specialize (IH ea' Ea Ht Hl). cbn [app subst]. unfold piece in Ep.
    destruct t' as [c|k'|p'| |]; cbn [tok_key] in Ep; rewrite IH; try reflexivity.
    + destruct (lookup k' (JObj o)) as [v| |]; try discriminate. now rewrite Ep.
    + destruct (lookup (par_key p') (JObj o)) as [v| |]; try discriminate. now rewrite Ep.
Qed.

(** [misses o n s k]: resolving [s] meets the absent key [k] — at the top level of the string
    (every reference to its left being substitutable), behind a single reference, or in the
    string obtained after a substitution round — within [n] rounds. *)
Inductive misses (o : dict) : nat -> str -> key -> Prop :=
| M_here n a t b k ea :
    expand o a = Some ea -> tok_key t = Some k -> lookup k (JObj o) = Absent ->
    misses o n (a ++ t :: b) k
| M_single n s k0 s' k :
    single s = Some k0 -> lookup k0 (JObj o) = Found (JStr s') -> misses o n s' k ->
    misses o (S n) s k
| M_round n s s1 k :
    single s = None -> has_templ s = true -> expand o s = Some s1 -> misses o n s1 k ->
    misses o (S n) s k.

Theorem misses_resolve o n s k :
  misses o n s k -> forall f, f > n -> resolve f o (JStr s) = RMissing k.
Proof.
  induction 1 as [n a t b k ea Ha Ht Hl|n s k0 s' k Hs Hl _ IH|n s s1 k Hs Ht He _ IH]; intros f Hf.
  - destruct f as [|f]; [lia|]. destruct (single (a ++ t :: b)) as [k1|] eqn:Es.
    + rewrite (resolve_str_single f o _ k1 Es). destruct (single_inv _ _ Es) as [t1 [E1 Ht1]].
      destruct a as [|t' [|t'' a']]; cbn [app] in E1; try discriminate.
      inversion E1; subst. rewrite Ht in Ht1. inversion Ht1; subst. now rewrite Hl.
    + rewrite (resolve_str_multi f o _ Es).
      assert (has_templ (a ++ t :: b) = true) as ->.
      { rewrite has_templ_app. unfold has_templ at 2. cbn [existsb]. rewrite tok_key_templ, Ht.
        cbn. apply orb_true_r. }
      now rewrite (subst_missing o a t k b ea Ha Ht Hl).
  - destruct f as [|f]; [lia|]. rewrite (resolve_str_single f o s k0 Hs), Hl. apply IH. lia.
  - destruct f as [|f]; [lia|]. rewrite (resolve_str_multi f o s Hs), Ht, (expand_subst o s s1 He).
    apply IH. lia.
Qed.

(** * Part B — the keys [resolve] looks up ([resolve_reads]) *)

Lemma reads_single g o s k :
  single s = Some k ->
  resolve_reads (S g) o (JStr s) =
    k :: match lookup k (JObj o) with Found v' => resolve_reads g o v' | _ => [] end.
Proof.
  intros H. destruct (single_inv _ _ H) as [t [-> Ht]].
  destruct t; try discriminate; cbn in Ht; inversion Ht; subst; reflexivity.
Qed.

Lemma reads_multi_raw g o s :
  single s = None ->
  resolve_reads (S g) o (JStr s) =
    if has_templ s then tkeys s ++ match subst o s with ROk v' => resolve_reads g o v' | _ => [] end
    else [].
Proof.
  intros H. destruct s as [|t [|t' s']]; [reflexivity| |destruct t; reflexivity].
  destruct t; try discriminate; reflexivity.
Qed.

Lemma reads_multi g o s :
  single s = None ->
  resolve_reads (S g) o (JStr s) =
    if has_templ s
    then tkeys s ++ match expand o s with Some s1 => resolve_reads g o (JStr s1) | None => [] end
    else [].
Proof.
  intros H. rewrite reads_multi_raw by exact H. destruct (has_templ s); [|reflexivity]. f_equal.
  destruct (expand o s) as [s1|] eqn:E.
  - now rewrite (expand_subst o s s1 E).
  - destruct (subst o s) as [v'| | | |] eqn:Es; try reflexivity.
    destruct (subst_expand o s v' Es) as [e [_ He]]. congruence.
Qed.

Lemma reads_plain g o s : has_templ s = false -> resolve_reads g o (JStr s) = [].
Proof.
  intros H. destruct g as [|g]; [reflexivity|].
  rewrite reads_multi by now apply plain_not_single. now rewrite H.
Qed.

(** the keys a string mentions are among its reads *)
Lemma tkeys_in_reads g o s k : In k (tkeys s) -> In k (resolve_reads (S g) o (JStr s)).
Proof.
  intros H. destruct (single s) as [k0|] eqn:Es.
  - rewrite (reads_single g o s k0 Es). destruct (single_inv _ _ Es) as [t [-> Ht]].
    apply tkeys_In in H as [t' [[<-|[]] Ht']]. left. congruence.
  - rewrite (reads_multi g o s Es), (tkeys_has_templ s k H). apply in_or_app. now left.
Qed.

(** the string form of a value reads at most what the value reads *)
Lemma reads_to_str g o v sv :
  to_str v = Some sv -> incl (resolve_reads g o (JStr sv)) (resolve_reads g o v).
Proof.
  intros H. destruct v as [| | | |s| |].
  5: { cbn in H. apply some_inj in H. subst sv. apply incl_refl. }
  all: match type of H with to_str ?v = _ =>
         destruct (to_str_nonstr 0 o v sv ltac:(intros s0 E0; discriminate E0) H) as [[cs ->] _] end;
       rewrite reads_plain by apply has_templ_lit; intros x [].
Qed.

(** after a round, what the substituted string reads was already readable from the parts *)
Lemma reads_after_round g o a sa k :
  expand o a = Some sa -> In k (resolve_reads g o (JStr sa)) -> In k (resolve_reads (S g) o (JStr a)).
Proof.
  intros Ha Hk. destruct (single a) as [k0|] eqn:Es.
  - rewrite (reads_single g o a k0 Es). destruct (single_inv _ _ Es) as [t [-> Ht]].
    unfold expand in Ha. cbn [cat_map] in Ha. unfold piece in Ha. rewrite Ht in Ha.
    destruct (lookup k0 (JObj o)) as [v| |]; try discriminate.
    destruct (to_str v) as [sv|] eqn:Ev; [|discriminate]. apply some_inj in Ha.
    rewrite app_nil_r in Ha. subst sa. right. exact (reads_to_str g o v sv Ev k Hk).
  - rewrite (reads_multi g o a Es). destruct (has_templ a) eqn:Et.
    + rewrite Ha. apply in_or_app. now right.
    + rewrite expand_plain in Ha by exact Et. apply some_inj in Ha. subst sa.
      now rewrite reads_plain in Hk by exact Et.
Qed.

(** reads of a concatenation are reads of a part *)
Lemma reads_app o : forall g a b k,
  In k (resolve_reads g o (JStr (a ++ b))) ->
  In k (resolve_reads g o (JStr a)) \/ In k (resolve_reads g o (JStr b)).
Proof.
  induction g as [|g IH]; intros a b k H; [destruct H|].
  destruct a as [|ta a']; [now right|]. destruct b as [|tb b']; [rewrite app_nil_r in H; now left|].
  assert (Es : single ((ta :: a') ++ tb :: b') = None) by (destruct a'; reflexivity).
  rewrite (reads_multi g o _ Es) in H. rewrite has_templ_app in H.
  destruct (has_templ (ta :: a') || has_templ (tb :: b')) eqn:Et; [|destruct H].
  apply in_app_or in H as [H|H].
  - apply tkeys_In in H as [t [Ht Hk]]. apply in_app_or in Ht as [Ht|Ht].
    + left. apply tkeys_in_reads. apply tkeys_In. now exists t.
    + right. apply tkeys_in_reads. apply tkeys_In. now exists t.
  - unfold expand in H. rewrite cat_map_app in H.
    destruct (cat_map (piece o) (ta :: a')) as [sa|] eqn:Ea; [|destruct H].
    destruct (cat_map (piece o) (tb :: b')) as [sb|] eqn:Eb; [|destruct H].
    apply IH in H as [H|H].
    + left. exact (reads_after_round g o _ sa k Ea H).
    + right. exact (reads_after_round g o _ sb k Eb H).
Qed.

(** … hence every key read from a substituted string is read from one referenced value *)
Lemma reads_expand o g : forall s s1 k,
  expand o s = Some s1 -> In k (resolve_reads g o (JStr s1)) ->
  exists t k1 v1, In t s /\ tok_key t = Some k1 /\ lookup k1 (JObj o) = Found v1 /\
                  In k (resolve_reads g o v1).
Proof.
  induction s as [|t s IH]; intros s1 k H Hk.
  - apply some_inj in H. subst s1. now rewrite reads_plain in Hk.
  - unfold expand in H. cbn [cat_map] in H.
    destruct (piece o t) as [pt|] eqn:Ep; [|discriminate].
    destruct (cat_map (piece o) s) as [s1'|] eqn:Es; [|discriminate].
    apply some_inj in H. subst s1. apply reads_app in Hk as [Hk|Hk].
    + unfold piece in Ep. destruct (tok_key t) as [k1|] eqn:Ek.
      * destruct (lookup k1 (JObj o)) as [v1| |] eqn:El; try discriminate.
        exists t, k1, v1. repeat split; [now left|exact Ek|exact El|].
        exact (reads_to_str g o v1 pt Ep k Hk).
      * apply some_inj in Ep. subst pt. rewrite reads_plain in Hk; [destruct Hk|].
        unfold has_templ. cbn. rewrite tok_key_templ, Ek. reflexivity.
    + destruct (IH s1' k Es Hk) as (t' & k1 & v1 & Ht' & R). exists t', k1, v1. split; [now right|exact R].
Qed.

(** ** containers without templated strings read nothing *)
Section JsonInd.
  Variable P : json -> Prop.
  Hypothesis Hnull : P JNull.
  Hypothesis Hbool : forall b, P (JBool b).
  Hypothesis Hint : forall z, P (JInt z).
  Hypothesis Hflt : forall i, P (JFlt i).
  Hypothesis Hstr : forall s, P (JStr s).
  Hypothesis Hlist : forall l, Forall P l -> P (JList l).
  Hypothesis Hobj : forall m, Forall (fun kv : seg * json => P (snd kv)) m -> P (JObj m).
  Fixpoint json_ind' (v : json) : P v :=
    match v with
    | JNull => Hnull | JBool b => Hbool b | JInt z => Hint z | JFlt i => Hflt i | JStr s => Hstr s
    | JList l =>
        Hlist l ((fix go (l : list json) : Forall P l :=
                    match l with
                    | [] => Forall_nil _
                    | x :: l' => Forall_cons x (json_ind' x) (go l')
                    end) l)
    | JObj m =>
        Hobj m ((fix go (m : list (seg * json)) : Forall (fun kv => P (snd kv)) m :=
                   match m with
                   | [] => Forall_nil _
                   | kv :: m' => Forall_cons kv (json_ind' (snd kv)) (go m')
                   end) m)
    end.
End JsonInd.

(** no templated string anywhere inside the value *)
Fixpoint plain_json (v : json) : bool :=
  match v with
  | JStr s => negb (has_templ s)
  | JList l => (fix go (l : list json) : bool :=
                  match l with [] => true | x :: l' => plain_json x && go l' end) l
  | JObj m => (fix go (m : dict) : bool :=
                 match m with [] => true | (_, x) :: m' => plain_json x && go m' end) m
  | _ => true
  end.

Lemma reads_list_cons g o x l :
  resolve_reads (S g) o (JList (x :: l)) = resolve_reads (S g) o x ++ resolve_reads (S g) o (JList l).
Proof. reflexivity. Qed.
Lemma reads_obj_cons g o k x m :
  resolve_reads (S g) o (JObj ((k, x) :: m)) = resolve_reads (S g) o x ++ resolve_reads (S g) o (JObj m).
Proof. reflexivity. Qed.

Lemma reads_plain_json o g : forall v, plain_json v = true -> resolve_reads g o v = [].
Proof.
  destruct g as [|g]; [reflexivity|].
  induction v as [| | | |s|l IH|m IH] using json_ind'; intros H; try reflexivity.
  - apply reads_plain. now apply negb_true_iff in H.
  - induction l as [|x l IHl]; [reflexivity|]. rewrite reads_list_cons.
    change (plain_json (JList (x :: l))) with (plain_json x && plain_json (JList l)) in H.
    apply andb_prop in H as [Hx Hl]. inversion IH as [|? ? Px Pl]; subst.
    now rewrite (Px Hx), (IHl Pl Hl).
  - induction m as [|[k x] m IHm]; [reflexivity|]. rewrite reads_obj_cons.
    change (plain_json (JObj ((k, x) :: m))) with (plain_json x && plain_json (JObj m)) in H.
    apply andb_prop in H as [Hx Hm]. inversion IH as [|? ? Px Pm]; subst. cbn [snd] in Px.
    now rewrite (Px Hx), (IHm Pm Hm).
Qed.

(** the D1 side condition on a list of (reported) keys: none of them holds a container with a
    templated string inside; and the D13 side condition on the dictionary Template.evaluate
    resolves against: no parameter value holds a templated string *)
Definition shallow (v : json) : bool :=
  match v with JObj _ | JList _ => plain_json v | _ => true end.
Definition flat_at (o : dict) (ks : list key) : bool :=
  forallb (fun k => match lookup k (JObj o) with Found v => shallow v | _ => true end) ks.
Definition params_plain (o' : dict) (s : str) : bool :=
  forallb (fun p => match lookup (par_key p) (JObj o') with Found v => plain_json v | _ => true end) (pars s).
(** a key that cannot collide with a parameter slot: non-empty, first segment outside the range *)
Definition opt_key (k : key) : bool :=
  match k with SName n :: _ => N.ltb n par_base | SIdx _ :: _ => true | [] => false end.

Lemma flat_at_incl o ks ks' : incl ks' ks -> flat_at o ks = true -> flat_at o ks' = true.
Proof.
  unfold flat_at. intros Hi H. apply forallb_forall. intros k Hk.
  exact (proj1 (forallb_forall _ _) H k (Hi k Hk)).
Qed.

Lemma no_par_ref s t k :
  existsb (fun t => match t with TPar _ => true | _ => false end) s = false ->
  In t s -> tok_key t = Some k -> In k (refs s).
Proof.
  intros Hp Ht Hk. destruct t as [c|k'|p| |]; try discriminate.
  - cbn in Hk. inversion Hk; subst. unfold refs. apply in_flat_map. exists (TRef k). split; [exact Ht|now left].
  - exfalso. assert (E : existsb (fun t => match t with TPar _ => true | _ => false end) s = true).
    { apply existsb_exists. exists (TPar p). split; [exact Ht|reflexivity]. }
    congruence.
Qed.

(** * Part C — the interpreters *)
Section Cover.
  Variable S : Type.
  Variable mem_find : N -> fp -> S -> option value.
  Variable mem_store : N -> fp -> value -> S -> S.
  Variable cfg : config.
  Variable ucall : N -> list value -> cres.
  Variable rfuel : nat.
  Variable site_ok : expr -> dict -> bool.

  Notation eval := (eval S mem_find mem_store cfg ucall rfuel site_ok).
  Notation keys := (keys S mem_find mem_store cfg ucall rfuel site_ok).
  Notation explain := (explain S mem_find mem_store cfg ucall rfuel site_ok).
  Notation M := (M S).

  Lemma unionM_ok {A} (f : A -> M (list key)) : forall l st ks st' lg,
    unionM S f l st = (Ok ks, st', lg) ->
    forall a, In a l -> exists s1 ks1 s2 l1, f a s1 = (Ok ks1, s2, l1) /\ incl ks1 ks.
  Proof.
    induction l as [|a0 l IH]; intros st ks st' lg H a Ha; [destruct Ha|].
    rewrite unionM_cons in H.
    apply bind_ok in H as (ks1 & s1 & l1 & l2 & Hf & H & _).
    apply bind_ok in H as (ks2 & s2 & l3 & l4 & Hr & H & _).
    unfold ret in H. inversion H; subst. destruct Ha as [<-|Ha].
    - exists st, ks1, s1, l1. split; [exact Hf|]. apply incl_appl, incl_refl.
    - destruct (IH _ _ _ _ Hr a Ha) as (sa & ksa & sb & la & Hfa & Hi).
      exists sa, ksa, sb, la. split; [exact Hfa|]. now apply incl_appr.
  Qed.

  Lemma rd_eq k o st : rd S k o st = (Ok (lookup k (JObj o)), st, [EvRead k (lres_found (lookup k (JObj o)))]).
  Proof. unfold rd, bind, emit, ret, lres_found. cbn. reflexivity. Qed.

  (** [Option(k).keys / .explain] (the monadic [ref_keys], run under [o]) cover everything
      [resolve] reads behind [k] under any dictionary [o'] that agrees with [o] on the reported
      keys — provided no reported key holds a container with a templated string (D1). *)
  Lemma ref_keys_cover o o' : forall fuel strict k st ks st' lg,
    ref_keys S fuel strict o k st = (Ok ks, st', lg) ->
    (forall k', In k' ks -> lookup k' (JObj o') = lookup k' (JObj o)) ->
    flat_at o ks = true ->
    In k ks /\ forall g v, lookup k (JObj o') = Found v -> incl (resolve_reads g o' v) ks.
  Proof.
    induction fuel as [|fuel IH]; intros strict k st ks st' lg H Hag Hfl; [discriminate|].
    cbn [ref_keys] in H. apply bind_ok in H as (r & s1 & l1 & l2 & Hrd & H & _).
    rewrite rd_eq in Hrd. inversion Hrd; subst r s1 l1. clear Hrd.
    destruct (lookup k (JObj o)) as [v0| |] eqn:El; [| |discriminate].
    2: { destruct strict; [discriminate|]. unfold ret in H. inversion H; subst.
         split; [now left|]. intros g v Hv. rewrite (Hag k (or_introl eq_refl)), El in Hv. discriminate. }
    assert (Hscal : forall ks0, ks0 = [k] -> shallow v0 = true -> (forall s, v0 <> JStr s) ->
              In k ks0 /\ forall g v, lookup k (JObj o') = Found v -> incl (resolve_reads g o' v) ks0).
    { intros ks0 -> Hsh Hns. split; [now left|]. intros g v Hv.
      rewrite (Hag k) in Hv. 2:{ destruct v0; unfold ret in H; inversion H; try now left.
                                  exfalso. now apply (Hns s). }
      rewrite El in Hv. inversion Hv; subst v.
      destruct v0; try (destruct g; intros x []); try (exfalso; now apply (Hns s)).
      - rewrite reads_plain_json by exact Hsh. intros x [].
      - rewrite reads_plain_json by exact Hsh. intros x []. }
    assert (Hsh0 : forall ks0, ks0 = [k] -> ks = ks0 -> shallow v0 = true).
    { intros ks0 -> ->. unfold flat_at in Hfl. cbn [forallb] in Hfl. rewrite El in Hfl.
      now apply andb_prop in Hfl as [Hfl _]. }
    destruct v0 as [| | | |s| |];
      try (unfold ret in H; inversion H; subst ks; apply Hscal;
           [reflexivity|now apply (Hsh0 [k])|intros s0 E0; discriminate E0]).
    clear Hscal Hsh0.
    destruct (existsb (fun t => match t with TPar _ => true | _ => false end) s) eqn:Ep; [discriminate|].
    apply bind_ok in H as (ks0 & s2 & l3 & l4 & Hu & H & _). unfold ret in H. inversion H; subst ks. clear H.
    assert (Hsub : forall k1, In k1 (refs s) ->
              In k1 ks0 /\ forall g v1, lookup k1 (JObj o') = Found v1 -> incl (resolve_reads g o' v1) ks0).
    { intros k1 Hk1. destruct (unionM_ok _ _ _ _ _ _ Hu k1 Hk1) as (sa & ks1 & sb & la & Hr & Hi).
      destruct (IH strict k1 sa ks1 sb la Hr) as [Hin Hcov].
      - intros k' Hk'. apply Hag. right. now apply Hi.
      - apply (flat_at_incl o (k :: ks0)); [|exact Hfl]. intros x Hx. right. now apply Hi.
      - split; [now apply Hi|]. intros g v1 Hv1 x Hx. apply Hi. exact (Hcov g v1 Hv1 x Hx). }
    split; [now left|]. intros g v Hv. rewrite (Hag k (or_introl eq_refl)), El in Hv.
    inversion Hv; subst v. clear Hv. destruct g as [|g]; [intros x []|].
    destruct (single s) as [k1|] eqn:Es.
    - rewrite (reads_single g o' s k1 Es). destruct (single_inv _ _ Es) as [t [-> Ht]].
      destruct (Hsub k1 (no_par_ref [t] t k1 Ep (or_introl eq_refl) Ht)) as [Hin Hcov].
      intros x [<-|Hx]; [now right|]. right.
      destruct (lookup k1 (JObj o')) as [v1| |] eqn:E1; try destruct Hx. exact (Hcov g v1 eq_refl x Hx).
    - rewrite (reads_multi g o' s Es). destruct (has_templ s); [|intros x []].
      intros x Hx. right. apply in_app_or in Hx as [Hx|Hx].
      + apply tkeys_In in Hx as [t [Ht Hk]]. exact (proj1 (Hsub x (no_par_ref s t x Ep Ht Hk))).
      + destruct (expand o' s) as [s1|] eqn:Ee; [|destruct Hx].
        destruct (reads_expand o' g s s1 x Ee Hx) as (t & k1 & v1 & Ht & Hk & Hl & Hr).
        exact (proj2 (Hsub k1 (no_par_ref s t k1 Ep Ht Hk)) g v1 Hl x Hr).
  Qed.

  (** Option.keys / Option.explain of a present key ARE [ref_keys] (strict / not strict) *)
  Lemma keys_option_found k dflt dom o raw st :
    lookup k (JObj o) = Found raw ->
    keys (EOption k dflt dom) o st = ref_keys S (Datatypes.S rfuel) true o k st.
  Proof.
    intros Hl.
    change (keys (EOption k dflt dom) o st) with
      (bind S (rd S k o) (fun r => match r with
         | TypeErr => fail S CType false
         | Found (JStr s) =>
             if existsb (fun t => match t with TPar _ => true | _ => false end) s then fail S CUnmodelled false
             else bind S (unionM S (fun k' => ref_keys S rfuel true o k') (refs s)) (fun ks => ret S (k :: ks))
         | Found _ => ret S [k]
         | Absent => match dflt with Some d => keys d o | None => fail S (CKey k) true end
         end) st).
    cbn [ref_keys]. unfold bind at 1 3. rewrite rd_eq, Hl. destruct raw; reflexivity.
  Qed.

  Lemma explain_option_found k dflt dom o raw st :
    lookup k (JObj o) = Found raw ->
    explain (EOption k dflt dom) o st = ref_keys S (Datatypes.S rfuel) false o k st.
  Proof.
    intros Hl.
    change (explain (EOption k dflt dom) o st) with
      (bind S (rd S k o) (fun r => match r with
         | TypeErr => fail S CType false
         | Found (JStr s) =>
             if existsb (fun t => match t with TPar _ => true | _ => false end) s then fail S CUnmodelled false
             else bind S (unionM S (fun k' => ref_keys S rfuel false o k') (refs s)) (fun ks => ret S (k :: ks))
         | Found _ => ret S [k]
         | Absent => match dflt with Some d => explain d o | None => ret S [k] end
         end) st).
    cbn [ref_keys]. unfold bind at 1 3. rewrite rd_eq, Hl. destruct raw; reflexivity.
  Qed.

  (** an absent key with a default: the keys / explanation of the default (a Template when the
      default is a string) *)
  Lemma keys_option_absent k d dom o st :
    lookup k (JObj o) = Absent ->
    keys (EOption k (Some d) dom) o st = (let '(r, s', l) := keys d o st in (r, s', EvRead k false :: l)).
  Proof.
    intros Hl.
    change (keys (EOption k (Some d) dom) o st) with
      (bind S (rd S k o) (fun r => match r with
         | TypeErr => fail S CType false
         | Found (JStr s) =>
             if existsb (fun t => match t with TPar _ => true | _ => false end) s then fail S CUnmodelled false
             else bind S (unionM S (fun k' => ref_keys S rfuel true o k') (refs s)) (fun ks => ret S (k :: ks))
         | Found _ => ret S [k]
         | Absent => keys d o
         end) st).
    unfold bind. rewrite rd_eq, Hl. cbn. destruct (keys d o st) as [[r s'] l]. reflexivity.
  Qed.

  Lemma explain_option_absent k d dom o st :
    lookup k (JObj o) = Absent ->
    explain (EOption k (Some d) dom) o st = (let '(r, s', l) := explain d o st in (r, s', EvRead k false :: l)).
  Proof.
    intros Hl.
    change (explain (EOption k (Some d) dom) o st) with
      (bind S (rd S k o) (fun r => match r with
         | TypeErr => fail S CType false
         | Found (JStr s) =>
             if existsb (fun t => match t with TPar _ => true | _ => false end) s then fail S CUnmodelled false
             else bind S (unionM S (fun k' => ref_keys S rfuel false o k') (refs s)) (fun ks => ret S (k :: ks))
         | Found _ => ret S [k]
         | Absent => explain d o
         end) st).
    unfold bind. rewrite rd_eq, Hl. cbn. destruct (explain d o st) as [[r s'] l]. reflexivity.
  Qed.

  Theorem option_keys_cover_reads k dflt dom o raw st ks st' lg :
    lookup k (JObj o) = Found raw ->
    keys (EOption k dflt dom) o st = (Ok ks, st', lg) ->
    flat_at o ks = true ->
    In k ks /\ forall g, incl (resolve_reads g o raw) ks.
  Proof.
    intros Hl H Hfl. rewrite (keys_option_found k dflt dom o raw st Hl) in H.
    destruct (ref_keys_cover o o _ _ _ _ _ _ _ H (fun _ _ => eq_refl) Hfl) as [Hin Hcov].
    split; [exact Hin|]. intros g. exact (Hcov g raw Hl).
  Qed.

  Theorem option_explain_cover_reads k dflt dom o raw st ks st' lg :
    lookup k (JObj o) = Found raw ->
    explain (EOption k dflt dom) o st = (Ok ks, st', lg) ->
    flat_at o ks = true ->
    In k ks /\ forall g, incl (resolve_reads g o raw) ks.
  Proof.
    intros Hl H Hfl. rewrite (explain_option_found k dflt dom o raw st Hl) in H.
    destruct (ref_keys_cover o o _ _ _ _ _ _ _ H (fun _ _ => eq_refl) Hfl) as [Hin Hcov].
    split; [exact Hin|]. intros g. exact (Hcov g raw Hl).
  Qed.

  Lemma is_par_key_par p : is_par_key (par_key p) = true.
  Proof. unfold is_par_key, par_key. apply N.leb_le. lia. Qed.

  Lemma tok_key_cases s t k :
    In t s -> tok_key t = Some k -> In k (refs s) \/ exists p, In p (pars s) /\ k = par_key p.
  Proof.
    intros Ht Hk. destruct t as [c|k'|p| |]; try discriminate; cbn in Hk; inversion Hk; subst.
    - left. unfold refs. apply in_flat_map. exists (TRef k). split; [exact Ht|now left].
    - right. exists p. split; [|reflexivity]. unfold pars. apply in_flat_map.
      exists (TPar p). split; [exact Ht|now left].
  Qed.

  (** the reference part of Template.keys / Template.explain covers every OPTION key that
      resolving the template string under [o'] (= options mixed with the parameter values) reads *)
  Lemma template_refs_cover o o' s strict st b st' lg :
    unionM S (fun k => ref_keys S rfuel strict o k) (refs s) st = (Ok b, st', lg) ->
    (forall k', In k' b -> lookup k' (JObj o') = lookup k' (JObj o)) ->
    flat_at o b = true -> params_plain o' s = true ->
    forall g k, In k (resolve_reads g o' (JStr s)) -> is_par_key k = false -> In k b.
  Proof.
    intros Hu Hag Hfl Hpp.
    assert (Hsub : forall k1, In k1 (refs s) ->
              In k1 b /\ forall g v1, lookup k1 (JObj o') = Found v1 -> incl (resolve_reads g o' v1) b).
    { intros k1 Hk1. destruct (unionM_ok _ _ _ _ _ _ Hu k1 Hk1) as (sa & ks1 & sb & la & Hr & Hi).
      destruct (ref_keys_cover o o' rfuel strict k1 sa ks1 sb la Hr) as [Hin Hcov].
      - intros k' Hk'. apply Hag. now apply Hi.
      - now apply (flat_at_incl o b).
      - split; [now apply Hi|]. intros g v1 Hv1 x Hx. apply Hi. exact (Hcov g v1 Hv1 x Hx). }
    assert (Hpar : forall p v1 g, In p (pars s) -> lookup (par_key p) (JObj o') = Found v1 ->
              resolve_reads g o' v1 = []).
    { intros p v1 g Hp Hl. apply reads_plain_json. unfold params_plain in Hpp.
      pose proof (proj1 (forallb_forall _ _) Hpp p Hp) as Hq. cbv beta in Hq. now rewrite Hl in Hq. }
    intros g k Hk Hnp. destruct g as [|g]; [destruct Hk|].
    destruct (single s) as [k1|] eqn:Es.
    - rewrite (reads_single g o' s k1 Es) in Hk. destruct (single_inv _ _ Es) as [t [E Ht]].
      assert (Hin : In t s) by (rewrite E; now left).
      destruct (tok_key_cases s t k1 Hin Ht) as [Hr|[p [Hp ->]]].
      + destruct (Hsub k1 Hr) as [Hi Hcov]. destruct Hk as [<-|Hk]; [exact Hi|].
        destruct (lookup k1 (JObj o')) as [v1| |] eqn:E1; try destruct Hk. exact (Hcov g v1 eq_refl k Hk).
      + destruct Hk as [<-|Hk]; [rewrite is_par_key_par in Hnp; discriminate|].
        destruct (lookup (par_key p) (JObj o')) as [v1| |] eqn:E1; try destruct Hk.
        rewrite (Hpar p v1 g Hp E1) in Hk. destruct Hk.
    - rewrite (reads_multi g o' s Es) in Hk. destruct (has_templ s); [|destruct Hk].
      apply in_app_or in Hk as [Hk|Hk].
      + apply tkeys_In in Hk as [t [Ht Hkt]].
        destruct (tok_key_cases s t k Ht Hkt) as [Hr|[p [Hp ->]]]; [exact (proj1 (Hsub k Hr))|].
        rewrite is_par_key_par in Hnp. discriminate.
      + destruct (expand o' s) as [s1|] eqn:Ee; [|destruct Hk].
        destruct (reads_expand o' g s s1 k Ee Hk) as (t & k1 & v1 & Ht & Hkt & Hl & Hr).
        destruct (tok_key_cases s t k1 Ht Hkt) as [Hr1|[p [Hp ->]]].
        * exact (proj2 (Hsub k1 Hr1) g v1 Hl k Hr).
        * rewrite (Hpar p v1 g Hp Hl) in Hr. destruct Hr.
  Qed.

  Lemma forallb_app_r {A} (f : A -> bool) a b : forallb f (a ++ b) = true -> forallb f b = true.
  Proof. rewrite forallb_app. intros H. now apply andb_prop in H as [_ H]. Qed.

  Theorem template_keys_cover_reads s ps o o' st ks st' lg :
    keys (ETemplate s ps) o st = (Ok ks, st', lg) ->
    (forall k', In k' ks -> lookup k' (JObj o') = lookup k' (JObj o)) ->
    flat_at o ks = true -> params_plain o' s = true ->
    forall g k, In k (resolve_reads g o' (JStr s)) -> is_par_key k = false -> In k ks.
  Proof.
    intros H Hag Hfl Hpp g k Hk Hnp.
    change (keys (ETemplate s ps) o st) with
      (bind S (unionM S (fun pe => keys (snd pe) o) ps)
         (fun a => bind S (unionM S (fun k => ref_keys S rfuel true o k) (refs s))
                     (fun b => ret S (a ++ b))) st) in H.
    apply bind_ok in H as (a & s1 & l1 & l2 & _ & H & _).
    apply bind_ok in H as (b & s2 & l3 & l4 & Hu & H & _). unfold ret in H. inversion H; subst ks.
    apply in_or_app. right.
    refine (template_refs_cover o o' s true s1 b s2 l3 Hu _ _ Hpp g k Hk Hnp).
    - intros k' Hk'. apply Hag. apply in_or_app. now right.
    - unfold flat_at in *. now apply forallb_app_r in Hfl.
  Qed.

  Theorem template_explain_cover_reads s ps o o' st ks st' lg :
    explain (ETemplate s ps) o st = (Ok ks, st', lg) ->
    (forall k', In k' ks -> lookup k' (JObj o') = lookup k' (JObj o)) ->
    flat_at o ks = true -> params_plain o' s = true ->
    forall g k, In k (resolve_reads g o' (JStr s)) -> is_par_key k = false -> In k ks.
  Proof.
    intros H Hag Hfl Hpp g k Hk Hnp.
    change (explain (ETemplate s ps) o st) with
      (bind S (unionM S (fun pe => explain (snd pe) o) ps)
         (fun a => bind S (unionM S (fun k => ref_keys S rfuel false o k) (refs s))
                     (fun b => ret S (a ++ b))) st) in H.
    apply bind_ok in H as (a & s1 & l1 & l2 & _ & H & _).
    apply bind_ok in H as (b & s2 & l3 & l4 & Hu & H & _). unfold ret in H. inversion H; subst ks.
    apply in_or_app. right.
    refine (template_refs_cover o o' s false s1 b s2 l3 Hu _ _ Hpp g k Hk Hnp).
    - intros k' Hk'. apply Hag. apply in_or_app. now right.
    - unfold flat_at in *. now apply forallb_app_r in Hfl.
  Qed.

  (** ** Template.evaluate *)
  Lemma eval_template_unfold s ps o :
    eval (ETemplate s ps) o =
      wrap_eval S
        (bind S (template_options S (fun x => eval x o) ps o) (fun o' =>
         bind S (emit_reads S (filter (fun k => negb (is_par_key k)) (resolve_reads rfuel o' (JStr s))) o) (fun _ =>
         bind S (of_rres S (resolve rfuel o' (JStr s))) (fun j =>
         match to_str j with Some r => ret S (VJ (JStr r)) | None => fail S CUnmodelled false end)))).
  Proof. reflexivity. Qed.

  Lemma template_options_nil ev o st : template_options S ev [] o st = (Ok o, st, []).
  Proof. reflexivity. Qed.

  (** the substitution succeeded with a value whose string form is [t]: that text is the result;
      the substitution itself only reads options *)
  Lemma eval_template_ok s ps o st o' st1 l1 r t :
    template_options S (fun x => eval x o) ps o st = (Ok o', st1, l1) ->
    resolve rfuel o' (JStr s) = ROk r -> to_str r = Some t ->
    exists l2, eval (ETemplate s ps) o st = (Ok (VJ (JStr t)), st1, l1 ++ l2) /\ forallb is_read l2 = true.
  Proof.
    intros Ho Hr Ht. rewrite eval_template_unfold. unfold wrap_eval, bind. rewrite Ho.
    destruct (emit_reads_spec S (filter (fun k => negb (is_par_key k)) (resolve_reads rfuel o' (JStr s))) o st1)
      as [l [E Hl]].
    rewrite E, Hr. cbn [of_rres]. unfold ret at 1. rewrite Ht. unfold ret.
    eexists. split; [reflexivity|]. rewrite !app_nil_r. exact Hl.
  Qed.

  (** a reference that cannot be found: an EvaluationError that is a KeyNotFoundError naming it *)
  Lemma eval_template_missing s ps o st o' st1 l1 k :
    template_options S (fun x => eval x o) ps o st = (Ok o', st1, l1) ->
    resolve rfuel o' (JStr s) = RMissing k ->
    exists l2, eval (ETemplate s ps) o st = (Err (CKey k) true, st1, l1 ++ l2) /\ forallb is_read l2 = true.
  Proof.
    intros Ho Hr. rewrite eval_template_unfold. unfold wrap_eval, bind. rewrite Ho.
    destruct (emit_reads_spec S (filter (fun k => negb (is_par_key k)) (resolve_reads rfuel o' (JStr s))) o st1)
      as [l [E Hl]].
    rewrite E, Hr. cbn [of_rres]. unfold fail.
    eexists. split; [reflexivity|]. rewrite !app_nil_r. exact Hl.
  Qed.

  (** the text of a Template (with its parameters already placed in [o']) is the unescaped full
      expansion, for every budget above the reference depth *)
  Theorem eval_template_spec s ps o st o' st1 l1 d e :
    template_options S (fun x => eval x o) ps o st = (Ok o', st1, l1) ->
    flatten d o' s = Some e -> rfuel > d ->
    exists l2, eval (ETemplate s ps) o st = (Ok (VJ (JStr (unescape e))), st1, l1 ++ l2)
               /\ forallb is_read l2 = true.
  Proof.
    intros Ho Hf Hd. destruct (flatten_resolve d o' s e Hf rfuel Hd) as [r [Hr Ht]].
    exact (eval_template_ok s ps o st o' st1 l1 r (unescape e) Ho Hr Ht).
  Qed.

  Theorem eval_template_missing_reference s ps o st o' st1 l1 n k :
    template_options S (fun x => eval x o) ps o st = (Ok o', st1, l1) ->
    misses o' n s k -> rfuel > n ->
    exists l2, eval (ETemplate s ps) o st = (Err (CKey k) true, st1, l1 ++ l2) /\ forallb is_read l2 = true.
  Proof.
    intros Ho Hm Hn. exact (eval_template_missing s ps o st o' st1 l1 k Ho (misses_resolve o' n s k Hm rfuel Hn)).
  Qed.

  (** ** parameters: [template_options] *)
  Definition pname (p : N) : seg := SName (par_base + p).
  Definition par_dict (d : dict) : Prop :=
    nodup_keys d = true /\ forall s v, In (s, v) d -> exists p, s = pname p.

  Lemma existsb_dget k m :
    existsb (fun kv : seg * json => seg_eqb k (fst kv)) m = match dget k m with Some _ => true | None => false end.
  Proof.
    induction m as [|[k' v'] m IH]; [reflexivity|]. cbn [existsb dget fst].
    destruct (seg_eqb k k'); [reflexivity|exact IH].
  Qed.

  Lemma In_dset s v' k v m : In (s, v') (dset k v m) -> s = k \/ In (s, v') m.
  Proof.
    induction m as [|[k0 v0] m IH]; cbn [dset].
    - intros [E|[]]. inversion E. now left.
    - destruct (seg_eqb k k0).
      + intros [E|H]; [inversion E; now left|right; now right].
      + intros [E|H]; [right; now left|]. destruct (IH H) as [->|H']; [now left|right; now right].
  Qed.

  Lemma nodup_dset k v m : nodup_keys m = true -> nodup_keys (dset k v m) = true.
  Proof.
    induction m as [|[k0 v0] m IH]; intros H; [reflexivity|]. cbn [dset].
    destruct (seg_eqb k k0) eqn:E.
    - apply seg_eqb_eq in E. subst k0. exact H.
    - cbn [nodup_keys] in *. apply andb_prop in H as [H1 H2]. rewrite (IH H2), andb_true_r.
      rewrite existsb_dget in *. rewrite dget_dset_other; [exact H1|]. now rewrite seg_eqb_sym.
  Qed.

  Lemma option_set_par : forall l acc pd,
    (forall kv, In kv l -> exists p, fst kv = par_key p) -> par_dict acc ->
    option_set l acc = Some pd -> par_dict pd.
  Proof.
    induction l as [|[k v] l IH]; intros acc pd Hl Hacc H.
    - cbn in H. inversion H; subst. exact Hacc.
    - destruct (Hl (k, v) (or_introl eq_refl)) as [p Hp]. cbn [fst] in Hp. subst k.
      cbn [option_set par_key set_dotted] in H.
      apply (IH (dset (SName (par_base + p)) v acc) pd); [intros kv Hkv; apply Hl; now right| |exact H].
      destruct Hacc as [Hn Hi]. split; [now apply nodup_dset|].
      intros s v' Hin. apply In_dset in Hin as [->|Hin]; [now exists p|exact (Hi s v' Hin)].
  Qed.

  Lemma mix_par_agree o pd k :
    par_dict pd -> opt_key k = true -> lookup k (JObj (mix o pd)) = lookup k (JObj o).
  Proof.
    intros [Hn Hi] Hk. destruct k as [|s k']; [discriminate|].
    apply lookup_mix_untouched; [exact Hn|].
    destruct (dget s pd) as [v|] eqn:E; [|reflexivity]. exfalso.
    apply dget_In in E. destruct (Hi s v E) as [p ->]. unfold opt_key, pname in Hk.
    apply N.ltb_lt in Hk. lia.
  Qed.

  Definition par_entries (pvs : list (N * value)) : list (key * json) :=
    flat_map (fun pv => match json_of_value (snd pv) with
                        | Some j => [(par_key (fst pv), j)] | None => [] end) pvs.

  Lemma template_options_inv ev ps o st o' st' l :
    template_options S ev ps o st = (Ok o', st', l) ->
    exists pvs pd,
      mapM S (fun pe => bind S (ev (snd pe)) (fun v => ret S (fst pe, v))) ps st = (Ok pvs, st', l) /\
      option_set (par_entries pvs) [] = Some pd /\ par_dict pd /\ o' = mix o pd.
  Proof.
    unfold template_options. intros H.
    apply bind_ok in H as (pvs & s1 & l1 & l2 & Hm & H & ->).
    fold (par_entries pvs) in H.
    destruct (option_set (par_entries pvs) []) as [pd|] eqn:E; [|discriminate].
    destruct (negb (Nat.eqb (length pd) (length ps))); [discriminate|].
    unfold ret in H. inversion H; subst. rewrite app_nil_r.
    assert (Hpd : par_dict pd).
    { apply (option_set_par (par_entries pvs) [] pd); [|split; [reflexivity|intros s v []]|exact E].
      intros kv Hkv. unfold par_entries in Hkv. apply in_flat_map in Hkv as [[p v] [_ Hkv]].
      cbn [snd fst] in Hkv. destruct (json_of_value v); [|destruct Hkv].
      destruct Hkv as [<-|[]]. now exists p. }
    exists pvs, pd. split; [exact Hm|]. split; [exact E|]. split; [exact Hpd|reflexivity].
  Qed.

  (** every option key (one that cannot collide with a parameter slot) has the SAME value in
      the dictionary the template is resolved against as in the caller's options *)
  Theorem template_options_agree ev ps o st o' st' l :
    template_options S ev ps o st = (Ok o', st', l) ->
    forall k, opt_key k = true -> lookup k (JObj o') = lookup k (JObj o).
  Proof.
    intros H k Hk. destruct (template_options_inv ev ps o st o' st' l H) as (pvs & pd & _ & _ & Hpd & ->).
    now apply mix_par_agree.
  Qed.

  Lemma mapM_inv {A B} (f : A -> M B) : forall l st bs st' lg,
    mapM S f l st = (Ok bs, st', lg) ->
    Forall2 (fun a b => exists s1 s2 l', f a s1 = (Ok b, s2, l')) l bs.
  Proof.
    induction l as [|a l IH]; intros st bs st' lg H.
    - cbn in H. unfold ret in H. inversion H. constructor.
    - rewrite mapM_cons in H. apply bind_ok in H as (b & s1 & l1 & l2 & Hf & H & _).
      apply bind_ok in H as (bs' & s2 & l3 & l4 & Hr & H & _). unfold ret in H. inversion H; subst.
      constructor; [exists st, s1, l1; exact Hf|exact (IH _ _ _ _ Hr)].
  Qed.

  Lemma pname_neq p p0 : p <> p0 -> seg_eqb (pname p) (pname p0) = false.
  Proof. intros H. unfold pname, seg_eqb. apply N.eqb_neq. lia. Qed.

  Lemma option_set_other : forall pvs acc pd p,
    option_set (par_entries pvs) acc = Some pd -> ~ In p (map fst pvs) ->
    dget (pname p) pd = dget (pname p) acc.
  Proof.
    induction pvs as [|[p0 v0] pvs IH]; intros acc pd p H Hn.
    - cbn in H. inversion H. reflexivity.
    - unfold par_entries in H. cbn [flat_map snd fst] in H. fold (par_entries pvs) in H.
      destruct (json_of_value v0) as [j0|]; cbn [app] in H.
      + cbn [option_set par_key set_dotted] in H. rewrite (IH _ _ p H).
        * apply dget_dset_other. apply pname_neq. intros ->. apply Hn. now left.
        * intros Hin. apply Hn. now right.
      + apply (IH _ _ p H). intros Hin. apply Hn. now right.
  Qed.

  Lemma option_set_value : forall pvs acc pd p j,
    option_set (par_entries pvs) acc = Some pd -> NoDup (map fst pvs) -> In (p, VJ j) pvs ->
    dget (pname p) pd = Some j.
  Proof.
    induction pvs as [|[p0 v0] pvs IH]; intros acc pd p j H Hnd Hin; [destruct Hin|].
    cbn [map fst] in Hnd. inversion Hnd as [|? ? Hnotin Hnd']; subst.
    unfold par_entries in H. cbn [flat_map snd fst] in H. fold (par_entries pvs) in H.
    destruct Hin as [E|Hin].
    - inversion E; subst. cbn [json_of_value app] in H. cbn [option_set par_key set_dotted] in H.
      rewrite (option_set_other pvs _ pd p H Hnotin). apply dget_dset_same.
    - destruct (json_of_value v0); cbn [app] in H; [cbn [option_set par_key set_dotted] in H|];
        exact (IH _ pd p j H Hnd' Hin).
  Qed.

  (** each parameter slot holds the value of ITS expression, evaluated under the caller's options
      (the SAME dictionary [o] the {KEY} references are looked up in) *)
  Theorem template_options_param ps o st o' st' l :
    template_options S (fun x => eval x o) ps o st = (Ok o', st', l) -> NoDup (map fst ps) ->
    forall p pe, In (p, pe) ps ->
    exists v s1 s2 l', eval pe o s1 = (Ok v, s2, l') /\
      forall j, v = VJ j -> (forall m, j <> JObj m) -> lookup (par_key p) (JObj o') = Found j.
  Proof.
    intros H Hnd p pe Hin.
    destruct (template_options_inv _ ps o st o' st' l H) as (pvs & pd & Hm & E & Hpd & ->).
    apply mapM_inv in Hm.
    assert (Hfst : map fst pvs = map fst ps).
    { clear -Hm. induction Hm as [|pe' pv ps' pvs' (s1 & s2 & l' & Hb) _ IH]; [reflexivity|].
      apply bind_ok in Hb as (v & s3 & l1 & l2 & _ & Hb & _). unfold ret in Hb. inversion Hb; subst.
      cbn [map fst]. now rewrite IH. }
    assert (Hex : exists v, In (p, v) pvs /\ exists s1 s2 l', eval pe o s1 = (Ok v, s2, l')).
    { clear -Hm Hin. induction Hm as [|pe' pv ps' pvs' (s1 & s2 & l' & Hb) _ IH]; [destruct Hin|].
      destruct Hin as [->|Hin].
      - apply bind_ok in Hb as (v & s3 & l1 & l2 & Hv & Hb & _). unfold ret in Hb. inversion Hb; subst.
        cbn [snd fst] in *. exists v. split; [now left|]. do 3 eexists. exact Hv.
      - destruct (IH Hin) as (v & Hv & R). exists v. split; [now right|exact R]. }
    destruct Hex as (v & Hv & s1 & s2 & l' & He). exists v, s1, s2, l'. split; [exact He|].
    intros j -> Hj. rewrite <- Hfst in Hnd.
    pose proof (option_set_value pvs [] pd p j E Hnd Hv) as Hd.
    unfold par_key. fold (pname p). rewrite (lookup_mix_step (pname p) [] o pd (proj1 Hpd)).
    unfold pname in *. rewrite Hd. destruct j; try reflexivity. exfalso. now apply (Hj m).
  Qed.

  (** keys() covers what evaluate reads: the statement about the very list evaluate emits *)
  Theorem template_keys_cover_emitted s ps o st0 o' st0' l0 st ks st' lg :
    template_options S (fun x => eval x o) ps o st0 = (Ok o', st0', l0) ->
    keys (ETemplate s ps) o st = (Ok ks, st', lg) ->
    flat_at o ks = true -> forallb opt_key ks = true -> params_plain o' s = true ->
    incl (filter (fun k => negb (is_par_key k)) (resolve_reads rfuel o' (JStr s))) ks.
  Proof.
    intros Ho Hk Hfl Hop Hpp k Hin. apply filter_In in Hin as [Hin Hnp]. apply negb_true_iff in Hnp.
    refine (template_keys_cover_reads s ps o o' st ks st' lg Hk _ Hfl Hpp rfuel k Hin Hnp).
    intros k' Hk'. apply (template_options_agree _ ps o st0 o' st0' l0 Ho).
    exact (proj1 (forallb_forall _ _) Hop k' Hk').
  Qed.

  Theorem template_explain_cover_emitted s ps o st0 o' st0' l0 st ks st' lg :
    template_options S (fun x => eval x o) ps o st0 = (Ok o', st0', l0) ->
    explain (ETemplate s ps) o st = (Ok ks, st', lg) ->
    flat_at o ks = true -> forallb opt_key ks = true -> params_plain o' s = true ->
    incl (filter (fun k => negb (is_par_key k)) (resolve_reads rfuel o' (JStr s))) ks.
  Proof.
    intros Ho Hk Hfl Hop Hpp k Hin. apply filter_In in Hin as [Hin Hnp]. apply negb_true_iff in Hnp.
    refine (template_explain_cover_reads s ps o o' st ks st' lg Hk _ Hfl Hpp rfuel k Hin Hnp).
    intros k' Hk'. apply (template_options_agree _ ps o st0 o' st0' l0 Ho).
    exact (proj1 (forallb_forall _ _) Hop k' Hk').
  Qed.

  (** one parameter, forwards: it is evaluated under the caller's options, its value is stored in
      its slot, and no option key changes value *)
  Theorem template_one_param p pe o st j st1 l1 :
    eval pe o st = (Ok (VJ j), st1, l1) -> (forall m, j <> JObj m) ->
    template_options S (fun x => eval x o) [(p, pe)] o st = (Ok (mix o [(pname p, j)]), st1, l1) /\
    lookup (par_key p) (JObj (mix o [(pname p, j)])) = Found j /\
    (forall k, opt_key k = true -> lookup k (JObj (mix o [(pname p, j)])) = lookup k (JObj o)).
  Proof.
    intros He Hj.
    assert (Ht : template_options S (fun x => eval x o) [(p, pe)] o st = (Ok (mix o [(pname p, j)]), st1, l1)).
    { unfold template_options, mapM, bind, ret. cbv beta. cbn [snd fst]. rewrite He.
      cbn [json_of_value flat_map app option_set par_key set_dotted dset length Nat.eqb negb snd fst].
      rewrite !app_nil_r. reflexivity. }
    split; [exact Ht|]. split.
    - unfold par_key. fold (pname p). rewrite (lookup_mix_step (pname p) [] o [(pname p, j)] eq_refl).
      unfold pname. cbn [dget]. rewrite seg_eqb_refl. destruct j; try reflexivity. exfalso. now apply (Hj m).
    - exact (template_options_agree _ _ o st _ st1 l1 Ht).
  Qed.
End Cover.

(** * escaped braces *)
Theorem escapes_literal d o a b ea eb :
  flatten d o a = Some ea -> flatten d o b = Some eb ->
  flatten d o (a ++ TEscL :: b) = Some (ea ++ TEscL :: eb) /\
  flatten d o (a ++ TEscR :: b) = Some (ea ++ TEscR :: eb) /\
  unescape (ea ++ TEscL :: eb) = unescape ea ++ TLit 123 :: unescape eb /\
  unescape (ea ++ TEscR :: eb) = unescape ea ++ TLit 125 :: unescape eb /\
  refs (a ++ TEscL :: b) = refs a ++ refs b /\ refs (a ++ TEscR :: b) = refs a ++ refs b.
Proof.
  intros Ha Hb. repeat split.
  - change (TEscL :: b) with ([TEscL] ++ b). rewrite !flatten_app, Ha, Hb.
    now rewrite (flatten_plain d o [TEscL] eq_refl).
  - change (TEscR :: b) with ([TEscR] ++ b). rewrite !flatten_app, Ha, Hb.
    now rewrite (flatten_plain d o [TEscR] eq_refl).
  - now rewrite unescape_app.
  - now rewrite unescape_app.
  - unfold refs. now rewrite flat_map_app.
  - unfold refs. now rewrite flat_map_app.
Qed.

(** the parameter token of the specification: the string form of the slot's value, expanded *)
Lemma deep_piece_par d o p j :
  lookup (par_key p) (JObj o) = Found j ->
  deep_piece (flatten d o) o (TPar p) = match to_str j with Some sv => flatten d o sv | None => None end.
Proof. intros H. unfold deep_piece. cbn [tok_key]. now rewrite H. Qed.

(** * the coarse form of the D1 side condition: a condition on the dictionary alone *)
(** [flat o]: no templated string sits inside a container value of [o] *)
Definition flat (o : dict) : bool := forallb (fun kv : seg * json => shallow (snd kv)) o.

Lemma plain_obj_dget s : forall m v, plain_json (JObj m) = true -> dget s m = Some v -> plain_json v = true.
Proof.
  induction m as [|[k x] m IH]; intros v H Hd; [discriminate|].
  change (plain_json (JObj ((k, x) :: m))) with (plain_json x && plain_json (JObj m)) in H.
  apply andb_prop in H as [Hx Hm]. cbn [dget] in Hd. destruct (seg_eqb s k).
  - inversion Hd. now subst.
  - exact (IH v Hm Hd).
Qed.

Lemma plain_list_nth : forall l n v, plain_json (JList l) = true -> nth_error l n = Some v -> plain_json v = true.
Proof.
  induction l as [|x l IH]; intros n v H Hn; [destruct n; discriminate|].
  change (plain_json (JList (x :: l))) with (plain_json x && plain_json (JList l)) in H.
  apply andb_prop in H as [Hx Hl]. destruct n as [|n]; cbn [nth_error] in Hn.
  - inversion Hn. now subst.
  - exact (IH n v Hl Hn).
Qed.

Lemma plain_lookup : forall k v v', plain_json v = true -> lookup k v = Found v' -> plain_json v' = true.
Proof.
  induction k as [|s k IH]; intros v v' H Hl.
  - cbn in Hl. inversion Hl. now subst.
  - cbn [lookup] in Hl. destruct v as [| | | |s0|l|m]; try discriminate.
    + destruct s as [n|i]; [discriminate|].
      destruct (nth_error l (N.to_nat i)) as [x|] eqn:E; [|discriminate].
      exact (IH x v' (plain_list_nth l _ x H E) Hl).
    + destruct s as [n|i]; [|discriminate].
      destruct (dget (SName n) m) as [x|] eqn:E; [|discriminate].
      exact (IH x v' (plain_obj_dget _ m x H E) Hl).
Qed.

Lemma plain_shallow v : plain_json v = true -> shallow v = true.
Proof. destruct v; intros H; try reflexivity; exact H. Qed.

Lemma flat_lookup o k v : flat o = true -> k <> [] -> lookup k (JObj o) = Found v -> shallow v = true.
Proof.
  intros Hf Hk Hl. destruct k as [|s k]; [congruence|]. cbn [lookup] in Hl.
  destruct s as [n|i]; [|discriminate].
  destruct (dget (SName n) o) as [x|] eqn:E; [|discriminate].
  pose proof (proj1 (forallb_forall _ _) Hf _ (dget_In _ _ _ E)) as Hx. cbn [snd] in Hx.
  destruct k as [|s' k'].
  - cbn in Hl. inversion Hl. now subst.
  - apply plain_shallow. apply (plain_lookup (s' :: k') x v); [|exact Hl].
    destruct x; try exact Hx; cbn [lookup] in Hl; discriminate.
Qed.

Theorem flat_flat_at o ks : flat o = true -> ~ In [] ks -> flat_at o ks = true.
Proof.
  intros Hf Hn. unfold flat_at. apply forallb_forall. intros k Hk.
  destruct (lookup k (JObj o)) as [v| |] eqn:E; try reflexivity.
  apply (flat_lookup o k v Hf); [|exact E]. intros ->. now apply Hn.
Qed.

(** * Part D — what evaluate's own event log records, and "the reported keys determine the text" *)

(** the result of Template.evaluate as a function of what [resolve] returned *)
Definition template_result (r : rres) : res value :=
  match r with
  | ROk j => match to_str j with Some t => Ok (VJ (JStr t)) | None => Err CUnmodelled true end
  | RMissing k => Err (CKey k) true
  | RTypeErr => Err CType true
  | RFuel => Err CFuel true
  | RUnmodelled => Err CUnmodelled true
  end.

(** … and of Option.evaluate (present key, no domain): the resolved value ITSELF *)
Definition option_result (r : rres) : res value :=
  match r with
  | ROk j => Ok (VJ j)
  | RMissing k => Err (CKey k) true
  | RTypeErr => Err CType true
  | RFuel => Err CFuel true
  | RUnmodelled => Err CUnmodelled true
  end.

Definition present (o : dict) (k : key) : bool :=
  match lookup k (JObj o) with Found _ => true | _ => false end.

Definition not_par (k : key) : bool := negb (is_par_key k).

Section Determine.
  Variable S : Type.
  Variable mem_find : N -> fp -> S -> option value.
  Variable mem_store : N -> fp -> value -> S -> S.
  Variable cfg : config.
  Variable ucall : N -> list value -> cres.
  Variable rfuel : nat.
  Variable site_ok : expr -> dict -> bool.

  Notation eval := (eval S mem_find mem_store cfg ucall rfuel site_ok).
  Notation keys := (keys S mem_find mem_store cfg ucall rfuel site_ok).
  Notation explain := (explain S mem_find mem_store cfg ucall rfuel site_ok).
  Notation M := (M S).

  Lemma emit_reads_log ks o st :
    emit_reads S ks o st = (Ok tt, st, map (fun k => EvRead k (present o k)) ks).
  Proof.
    unfold emit_reads. induction ks as [|k ks IH]; [reflexivity|].
    rewrite iterM_cons. unfold bind. unfold emit at 1. cbv beta iota. rewrite IH. reflexivity.
  Qed.

  Lemma In_read_map o ks k p : In (EvRead k p) (map (fun k => EvRead k (present o k)) ks) -> In k ks.
  Proof. intros H. apply in_map_iff in H as [k0 [E H]]. inversion E; subst. exact H. Qed.

  (** Template.evaluate, whole observation: the result is [template_result] of the resolution
      against the options mixed with the parameter values, and AFTER the parameters' own events
      the log holds exactly one read per option key the resolution consulted *)
  Lemma eval_template_log s ps o st o' st1 l1 :
    template_options S (fun x => eval x o) ps o st = (Ok o', st1, l1) ->
    eval (ETemplate s ps) o st =
      (template_result (resolve rfuel o' (JStr s)), st1,
       l1 ++ map (fun k => EvRead k (present o k)) (filter not_par (resolve_reads rfuel o' (JStr s)))).
  Proof.
    intros Ho. rewrite eval_template_unfold. unfold wrap_eval, bind. rewrite Ho.
    fold not_par. rewrite emit_reads_log.
    destruct (resolve rfuel o' (JStr s)) as [j|k| | |]; cbn [of_rres template_result];
      unfold ret, fail; rewrite ?app_nil_r; try reflexivity.
    destruct (to_str j); unfold ret, fail; rewrite ?app_nil_r; reflexivity.
  Qed.

  Lemma eval_template_nil_log s o st :
    eval (ETemplate s []) o st =
      (template_result (resolve rfuel o (JStr s)), st,
       map (fun k => EvRead k (present o k)) (filter not_par (resolve_reads rfuel o (JStr s)))).
  Proof. exact (eval_template_log s [] o st o st [] (template_options_nil S _ o st)). Qed.

  (** SENTENCE 3 on evaluate's own log: every option key Template.evaluate records as read while
      substituting is reported by keys() / by explain() *)
  Theorem template_keys_cover_log s ps o st o' st1 l1 st2 ks st3 lg :
    template_options S (fun x => eval x o) ps o st = (Ok o', st1, l1) ->
    keys (ETemplate s ps) o st2 = (Ok ks, st3, lg) ->
    flat_at o ks = true -> forallb opt_key ks = true -> params_plain o' s = true ->
    exists r l2, eval (ETemplate s ps) o st = (r, st1, l1 ++ l2) /\
                 forall k p, In (EvRead k p) l2 -> In k ks.
  Proof.
    intros Ho Hk Hfl Hop Hpp. rewrite (eval_template_log s ps o st o' st1 l1 Ho).
    do 2 eexists. split; [reflexivity|]. intros k p Hin. apply In_read_map in Hin.
    exact (template_keys_cover_emitted S mem_find mem_store cfg ucall rfuel site_ok
             s ps o st o' st1 l1 st2 ks st3 lg Ho Hk Hfl Hop Hpp k Hin).
  Qed.

  Theorem template_explain_cover_log s ps o st o' st1 l1 st2 ks st3 lg :
    template_options S (fun x => eval x o) ps o st = (Ok o', st1, l1) ->
    explain (ETemplate s ps) o st2 = (Ok ks, st3, lg) ->
    flat_at o ks = true -> forallb opt_key ks = true -> params_plain o' s = true ->
    exists r l2, eval (ETemplate s ps) o st = (r, st1, l1 ++ l2) /\
                 forall k p, In (EvRead k p) l2 -> In k ks.
  Proof.
    intros Ho Hk Hfl Hop Hpp. rewrite (eval_template_log s ps o st o' st1 l1 Ho).
    do 2 eexists. split; [reflexivity|]. intros k p Hin. apply In_read_map in Hin.
    exact (template_explain_cover_emitted S mem_find mem_store cfg ucall rfuel site_ok
             s ps o st o' st1 l1 st2 ks st3 lg Ho Hk Hfl Hop Hpp k Hin).
  Qed.

  (** a template without parameter tokens: EVERY key its resolution consults is reported *)
  Lemma template_refs_cover_all o o' s strict st b st' lg :
    pars s = [] ->
    unionM S (fun k => ref_keys S rfuel strict o k) (refs s) st = (Ok b, st', lg) ->
    (forall k', In k' b -> lookup k' (JObj o') = lookup k' (JObj o)) ->
    flat_at o b = true ->
    forall g k, In k (resolve_reads g o' (JStr s)) -> In k b.
  Proof.
    intros Hnp Hu Hag Hfl.
    assert (Hsub : forall k1, In k1 (refs s) ->
              In k1 b /\ forall g v1, lookup k1 (JObj o') = Found v1 -> incl (resolve_reads g o' v1) b).
    { intros k1 Hk1. destruct (unionM_ok S _ _ _ _ _ _ Hu k1 Hk1) as (sa & ks1 & sb & la & Hr & Hi).
      destruct (ref_keys_cover S o o' rfuel strict k1 sa ks1 sb la Hr) as [Hin Hcov].
      - intros k' Hk'. apply Hag. now apply Hi.
      - now apply (flat_at_incl o b).
      - split; [now apply Hi|]. intros g v1 Hv1 x Hx. apply Hi. exact (Hcov g v1 Hv1 x Hx). }
    assert (Hcase : forall t k1, In t s -> tok_key t = Some k1 -> In k1 (refs s)).
    { intros t k1 Ht Hk1. destruct (tok_key_cases s t k1 Ht Hk1) as [Hr|[p [Hp _]]]; [exact Hr|].
      rewrite Hnp in Hp. destruct Hp. }
    intros g k Hk. destruct g as [|g]; [destruct Hk|].
    destruct (single s) as [k1|] eqn:Es.
    - rewrite (reads_single g o' s k1 Es) in Hk. destruct (single_inv _ _ Es) as [t [E Ht]].
      assert (Hin : In t s) by (rewrite E; now left).
      destruct (Hsub k1 (Hcase t k1 Hin Ht)) as [Hi Hcov]. destruct Hk as [<-|Hk]; [exact Hi|].
      destruct (lookup k1 (JObj o')) as [v1| |] eqn:E1; try destruct Hk. exact (Hcov g v1 eq_refl k Hk).
    - rewrite (reads_multi g o' s Es) in Hk. destruct (has_templ s); [|destruct Hk].
      apply in_app_or in Hk as [Hk|Hk].
      + apply tkeys_In in Hk as [t [Ht Hkt]]. exact (proj1 (Hsub k (Hcase t k Ht Hkt))).
      + destruct (expand o' s) as [s1|] eqn:Ee; [|destruct Hk].
        destruct (reads_expand o' g s s1 k Ee Hk) as (t & k1 & v1 & Ht & Hkt & Hl & Hr).
        exact (proj2 (Hsub k1 (Hcase t k1 Ht Hkt)) g v1 Hl k Hr).
  Qed.

  Lemma keys_template_nil s o st :
    keys (ETemplate s []) o st =
      bind S (unionM S (fun k => ref_keys S rfuel true o k) (refs s)) (fun b => ret S b) st.
  Proof.
    change (keys (ETemplate s []) o st) with
      (bind S (ret S []) (fun a => bind S (unionM S (fun k => ref_keys S rfuel true o k) (refs s))
                                     (fun b => ret S (a ++ b))) st).
    unfold bind at 1. unfold ret at 1. cbn [app].
    destruct (bind S _ _ st) as [[r s'] l]. reflexivity.
  Qed.
  Lemma explain_template_nil s o st :
    explain (ETemplate s []) o st =
      bind S (unionM S (fun k => ref_keys S rfuel false o k) (refs s)) (fun b => ret S b) st.
  Proof.
    change (explain (ETemplate s []) o st) with
      (bind S (ret S []) (fun a => bind S (unionM S (fun k => ref_keys S rfuel false o k) (refs s))
                                     (fun b => ret S (a ++ b))) st).
    unfold bind at 1. unfold ret at 1. cbn [app].
    destruct (bind S _ _ st) as [[r s'] l]. reflexivity.
  Qed.

  Lemma template_nil_reads_in strict s o st ks st' lg :
    pars s = [] ->
    bind S (unionM S (fun k => ref_keys S rfuel strict o k) (refs s)) (fun b => ret S b) st = (Ok ks, st', lg) ->
    flat_at o ks = true ->
    forall g, incl (resolve_reads g o (JStr s)) ks.
  Proof.
    intros Hnp H Hfl g k Hk.
    apply bind_ok in H as (b & s2 & l3 & l4 & Hu & H & _). unfold ret in H. inversion H; subst b.
    exact (template_refs_cover_all o o s strict st ks s2 l3 Hnp Hu (fun _ _ => eq_refl) Hfl g k Hk).
  Qed.

  (** SENTENCE 3, semantically: a dictionary that agrees with [o] on the keys keys() (explain())
      reports gives the template the SAME text (or the same failure), whatever else differs —
      so no key outside the reported set is read by the substitution *)
  Theorem template_keys_determine_text s o o' st ks st' lg :
    pars s = [] ->
    keys (ETemplate s []) o st = (Ok ks, st', lg) -> flat_at o ks = true ->
    (forall k, In k ks -> lookup k (JObj o') = lookup k (JObj o)) ->
    forall st2, fst (fst (eval (ETemplate s []) o' st2)) = fst (fst (eval (ETemplate s []) o st2)).
  Proof.
    intros Hnp H Hfl Hag st2. rewrite keys_template_nil in H.
    pose proof (template_nil_reads_in true s o st ks st' lg Hnp H Hfl rfuel) as Hin.
    destruct (resolve_frame o o' rfuel (JStr s)) as [_ E]; [intros k Hk; apply Hag, Hin, Hk|].
    rewrite !eval_template_nil_log. cbn [fst]. now rewrite E.
  Qed.

  Theorem template_explain_determine_text s o o' st ks st' lg :
    pars s = [] ->
    explain (ETemplate s []) o st = (Ok ks, st', lg) -> flat_at o ks = true ->
    (forall k, In k ks -> lookup k (JObj o') = lookup k (JObj o)) ->
    forall st2, fst (fst (eval (ETemplate s []) o' st2)) = fst (fst (eval (ETemplate s []) o st2)).
  Proof.
    intros Hnp H Hfl Hag st2. rewrite explain_template_nil in H.
    pose proof (template_nil_reads_in false s o st ks st' lg Hnp H Hfl rfuel) as Hin.
    destruct (resolve_frame o o' rfuel (JStr s)) as [_ E]; [intros k Hk; apply Hag, Hin, Hk|].
    rewrite !eval_template_nil_log. cbn [fst]. now rewrite E.
  Qed.

  (** Option.evaluate of a present key without a domain *)
  Lemma eval_option_found_log k dflt o raw st :
    lookup k (JObj o) = Found raw ->
    eval (EOption k dflt None) o st =
      (option_result (resolve rfuel o raw), st,
       EvRead k true :: map (fun k => EvRead k (present o k)) (resolve_reads rfuel o raw)).
  Proof.
    intros Hl. rewrite eval_option_unfold. unfold wrap_eval, option_eval. unfold bind at 1 2.
    rewrite (rd_eq S), Hl. unfold bind. rewrite emit_reads_log. cbn [lres_found].
    destruct (resolve rfuel o raw) as [j|k'| | |]; cbn [of_rres option_result]; unfold ret, fail;
      cbn [app]; rewrite ?app_nil_r; reflexivity.
  Qed.

  (** an Option whose VALUE is templated (to any depth of the reference chain): the keys keys()
      / explain() report determine its value *)
  Theorem option_keys_determine_value k dflt o o' raw st ks st' lg :
    lookup k (JObj o) = Found raw ->
    keys (EOption k dflt None) o st = (Ok ks, st', lg) -> flat_at o ks = true ->
    (forall k', In k' ks -> lookup k' (JObj o') = lookup k' (JObj o)) ->
    forall st2, fst (fst (eval (EOption k dflt None) o' st2)) = fst (fst (eval (EOption k dflt None) o st2)).
  Proof.
    intros Hl H Hfl Hag st2.
    destruct (option_keys_cover_reads S mem_find mem_store cfg ucall rfuel site_ok
                k dflt None o raw st ks st' lg Hl H Hfl) as [Hin Hcov].
    assert (Hl' : lookup k (JObj o') = Found raw) by (rewrite (Hag k Hin); exact Hl).
    destruct (resolve_frame o o' rfuel raw) as [_ E]; [intros k' Hk'; apply Hag, (Hcov rfuel), Hk'|].
    rewrite (eval_option_found_log k dflt o raw st2 Hl), (eval_option_found_log k dflt o' raw st2 Hl').
    cbn [fst]. now rewrite E.
  Qed.

  Theorem option_explain_determine_value k dflt o o' raw st ks st' lg :
    lookup k (JObj o) = Found raw ->
    explain (EOption k dflt None) o st = (Ok ks, st', lg) -> flat_at o ks = true ->
    (forall k', In k' ks -> lookup k' (JObj o') = lookup k' (JObj o)) ->
    forall st2, fst (fst (eval (EOption k dflt None) o' st2)) = fst (fst (eval (EOption k dflt None) o st2)).
  Proof.
    intros Hl H Hfl Hag st2.
    destruct (option_explain_cover_reads S mem_find mem_store cfg ucall rfuel site_ok
                k dflt None o raw st ks st' lg Hl H Hfl) as [Hin Hcov].
    assert (Hl' : lookup k (JObj o') = Found raw) by (rewrite (Hag k Hin); exact Hl).
    destruct (resolve_frame o o' rfuel raw) as [_ E]; [intros k' Hk'; apply Hag, (Hcov rfuel), Hk'|].
    rewrite (eval_option_found_log k dflt o raw st2 Hl), (eval_option_found_log k dflt o' raw st2 Hl').
    cbn [fst]. now rewrite E.
  Qed.

  (** … and every read evaluate records for such an Option is a reported key *)
  Theorem option_keys_cover_log k dflt o raw st ks st' lg st2 :
    lookup k (JObj o) = Found raw ->
    keys (EOption k dflt None) o st = (Ok ks, st', lg) -> flat_at o ks = true ->
    exists r l, eval (EOption k dflt None) o st2 = (r, st2, l) /\ forall k' p, In (EvRead k' p) l -> In k' ks.
  Proof.
    intros Hl H Hfl.
    destruct (option_keys_cover_reads S mem_find mem_store cfg ucall rfuel site_ok
                k dflt None o raw st ks st' lg Hl H Hfl) as [Hin Hcov].
    rewrite (eval_option_found_log k dflt o raw st2 Hl). do 2 eexists. split; [reflexivity|].
    intros k' p [E|Hk']; [inversion E; subst; exact Hin|].
    apply In_read_map in Hk'. exact (Hcov rfuel k' Hk').
  Qed.

  (** an Option whose DEFAULT is templated, key absent: its keys() are the default's, and they
      determine the value among the dictionaries in which the key stays absent *)
  Theorem option_default_keys_determine_value k s o o' st ks st' lg :
    pars s = [] ->
    lookup k (JObj o) = Absent -> lookup k (JObj o') = Absent ->
    keys (EOption k (Some (ETemplate s [])) None) o st = (Ok ks, st', lg) -> flat_at o ks = true ->
    (forall k', In k' ks -> lookup k' (JObj o') = lookup k' (JObj o)) ->
    forall st2, fst (fst (eval (EOption k (Some (ETemplate s [])) None) o' st2)) =
                fst (fst (eval (EOption k (Some (ETemplate s [])) None) o st2)).
  Proof.
    intros Hnp Hl Hl' H Hfl Hag st2.
    rewrite (keys_option_absent S mem_find mem_store cfg ucall rfuel site_ok k _ None o st Hl) in H.
    destruct (keys (ETemplate s []) o st) as [[rk sk] lk] eqn:Ek. inversion H; subst rk sk lg.
    pose proof (template_keys_determine_text s o o' st ks st' lk Hnp Ek Hfl Hag st2) as E.
    rewrite (eval_option_absent_default S mem_find mem_store cfg ucall rfuel site_ok k _ o st2 Hl).
    rewrite (eval_option_absent_default S mem_find mem_store cfg ucall rfuel site_ok k _ o' st2 Hl').
    destruct (eval (ETemplate s []) o st2) as [[r1 s1] l1]. destruct (eval (ETemplate s []) o' st2) as [[r2 s2] l2].
    exact E.
  Qed.

  Theorem option_default_explain_determine_value k s o o' st ks st' lg :
    pars s = [] ->
    lookup k (JObj o) = Absent -> lookup k (JObj o') = Absent ->
    explain (EOption k (Some (ETemplate s [])) None) o st = (Ok ks, st', lg) -> flat_at o ks = true ->
    (forall k', In k' ks -> lookup k' (JObj o') = lookup k' (JObj o)) ->
    forall st2, fst (fst (eval (EOption k (Some (ETemplate s [])) None) o' st2)) =
                fst (fst (eval (EOption k (Some (ETemplate s [])) None) o st2)).
  Proof.
    intros Hnp Hl Hl' H Hfl Hag st2.
    rewrite (explain_option_absent S mem_find mem_store cfg ucall rfuel site_ok k _ None o st Hl) in H.
    destruct (explain (ETemplate s []) o st) as [[rk sk] lk] eqn:Ek. inversion H; subst rk sk lg.
    pose proof (template_explain_determine_text s o o' st ks st' lk Hnp Ek Hfl Hag st2) as E.
    rewrite (eval_option_absent_default S mem_find mem_store cfg ucall rfuel site_ok k _ o st2 Hl).
    rewrite (eval_option_absent_default S mem_find mem_store cfg ucall rfuel site_ok k _ o' st2 Hl').
    destruct (eval (ETemplate s []) o st2) as [[r1 s1] l1]. destruct (eval (ETemplate s []) o' st2) as [[r2 s2] l2].
    exact E.
  Qed.

  (** SENTENCE 1 without parameters, in one statement *)
  Theorem eval_template_nil_spec s o st d e :
    flatten d o s = Some e -> rfuel > d ->
    exists l, eval (ETemplate s []) o st = (Ok (VJ (JStr (unescape e))), st, l) /\
              forall k p, In (EvRead k p) l -> In k (resolve_reads rfuel o (JStr s)).
  Proof.
    intros Hf Hd. destruct (flatten_resolve d o s e Hf rfuel Hd) as [r [Hr Ht]].
    rewrite eval_template_nil_log, Hr. cbn [template_result]. rewrite Ht.
    eexists. split; [reflexivity|]. intros k p Hin. apply In_read_map in Hin.
    now apply filter_In in Hin as [Hin _].
  Qed.
End Determine.

(** ** one level: when every referenced value is atomic, the text is the one-pass substitution *)
Lemma atomic_to_str v sv : atomic v = true -> to_str v = Some sv -> has_templ sv = false.
Proof.
  intros Ha H. destruct v as [| | | |s| |]; try discriminate.
  4: { cbn in H. apply some_inj in H. subst sv. now apply negb_true_iff in Ha. }
  all: match type of H with to_str ?v = _ =>
         destruct (to_str_nonstr 0 [] v sv ltac:(intros s0 E0; discriminate E0) H) as [[cs ->] _] end;
       apply has_templ_lit.
Qed.

Lemma closed_flatten o s : forall e,
  closed o s = true -> expand o s = Some e -> flatten 1 o s = Some e.
Proof.
  induction s as [|t s IH]; intros e Hc H.
  - exact H.
  - unfold expand in H. cbn [cat_map] in H. cbn [closed forallb] in Hc. apply andb_prop in Hc as [Ht Hc].
    destruct (piece o t) as [a|] eqn:Ea; [|discriminate].
    destruct (cat_map (piece o) s) as [b|] eqn:Eb; [|discriminate].
    apply some_inj in H. subst e.
    change (flatten 1 o (t :: s)) with
      (match deep_piece (flatten 0 o) o t, flatten 1 o s with
       | Some x, Some y => Some (x ++ y) | _, _ => None end).
    rewrite (IH b Hc Eb).
    unfold piece in Ea. unfold deep_piece. destruct (tok_key t) as [k|].
    + destruct (lookup k (JObj o)) as [v| |]; try discriminate. rewrite Ea.
      cbn [flatten]. now rewrite (atomic_to_str v a Ht Ea).
    + apply some_inj in Ea. subst a. reflexivity.
Qed.

(** * the two recorded defects, as refutations of the unconditional statements *)
Definition u_none : N -> list value -> cres := fun _ _ => CRaise 0.
Definition kA : key := [SName 10].
Definition kB : key := [SName 11].

(** D1: a templated string inside a container value.  keys() of Option('A') is {A} under both
    dictionaries, they agree on A, and the values differ: [1] against [2]. *)
Definition d1_opts (b : Z) : dict := [(SName 10, JList [JStr [TRef kB]]); (SName 11, JInt b)].

Theorem D1_option_keys_do_not_determine_value :
  exists k o o' ks,
    fst (keys_nc u_none 40 (EOption k None None) o) = Ok ks /\
    (forall k', In k' ks -> lookup k' (JObj o') = lookup k' (JObj o)) /\
    fst (eval_nc u_none 40 (EOption k None None) o') <> fst (eval_nc u_none 40 (EOption k None None) o).
Proof.
  exists kA, (d1_opts 1), (d1_opts 2), [kA]. split; [reflexivity|]. split.
  - intros k' [<-|[]]. reflexivity.
  - vm_compute. discriminate.
Qed.

(** … and the same dictionaries make evaluate record a read of B that keys() does not list *)
Theorem D1_option_reads_unreported :
  exists k o ks,
    fst (keys_nc u_none 40 (EOption k None None) o) = Ok ks /\
    In (EvRead kB true) (snd (eval_nc u_none 40 (EOption k None None) o)) /\ ~ In kB ks.
Proof.
  exists kA, (d1_opts 1), [kA]. split; [reflexivity|]. split.
  - vm_compute. right. now left.
  - intros [E|[]]. discriminate E.
Qed.

(** D13: a parameter whose string form contains braces is re-scanned.  Template('{:p1:}',
    p1='{B}'): keys() and explain() are empty, validate passes under the empty dictionary,
    evaluate reads B (text "1" / "2", KeyNotFoundError(B) under {}). *)
Definition d13_t : expr := ETemplate [TPar 1] [(1%N, EValue (VJ (JStr [TRef kB])))].

Theorem D13_template_keys_do_not_determine_text :
  fst (keys_nc u_none 40 d13_t [(SName 11, JInt 1)]) = Ok [] /\
  fst (explain_nc u_none 40 d13_t []) = Ok [] /\
  fst (validate_nc u_none 40 d13_t []) = Ok tt /\
  fst (eval_nc u_none 40 d13_t []) = Err (CKey kB) true /\
  fst (eval_nc u_none 40 d13_t [(SName 11, JInt 1)]) = Ok (VJ (JStr (lit [49%N]))) /\
  fst (eval_nc u_none 40 d13_t [(SName 11, JInt 2)]) = Ok (VJ (JStr (lit [50%N]))).
Proof. repeat split; reflexivity. Qed.

Lemma eval_template_one_level S mf ms cfg u rfuel so s o st e :
  closed o s = true -> expand o s = Some e -> rfuel > 1 ->
  exists l, eval S mf ms cfg u rfuel so (ETemplate s []) o st = (Ok (VJ (JStr (unescape e))), st, l) /\
            forall k p, In (EvRead k p) l -> In k (resolve_reads rfuel o (JStr s)).
Proof.
  intros Hc He Hf.
  exact (eval_template_nil_spec S mf ms cfg u rfuel so s o st 1 e (closed_flatten o s e Hc He) Hf).
Qed.

(** * concrete instances (non-vacuity of the hypotheses used above) *)
Definition kC : key := [SName 12].
Definition kSX : key := [SName 20; SName 21].
(** {'A': '{B}/{S.X}', 'B': 'x{C}', 'C': '{S.X}', 'S': {'X': 5}, 'P': 7} *)
Definition ex_o : dict :=
  [(SName 10, JStr [TRef kB; TLit 47; TRef kSX]); (SName 11, JStr [TLit 120; TRef kC]);
   (SName 12, JStr [TRef kSX]); (SName 20, JObj [(SName 21, JInt 5)]); (SName 13, JInt 7)].
(** '{A}-\{x\}' *)
Definition ex_s : str := [TRef kA; TLit 45; TEscL; TLit 120; TEscR].
(** Template('v={:p1:}/{C}', p1=Option('P')) *)
Definition ex_p : expr :=
  ETemplate [TLit 118; TLit 61; TPar 1; TLit 47; TRef kC] [(1%N, EOption [SName 13] None None)].
(** the same dictionary with B := 1 and without C, S *)
Definition ex_o_missing : dict := [(SName 10, JStr [TRef kB; TLit 47; TRef kSX]); (SName 11, JInt 1)].

Lemma ex_misses : misses ex_o_missing 1 ex_s kSX.
Proof.
  apply (M_round ex_o_missing 0 ex_s [TRef kB; TLit 47; TRef kSX; TLit 45; TEscL; TLit 120; TEscR] kSX);
    try reflexivity.
  exact (M_here ex_o_missing 0 [TRef kB; TLit 47] (TRef kSX) [TLit 45; TEscL; TLit 120; TEscR] kSX
           [TLit 49; TLit 47] eq_refl eq_refl eq_refl).
Qed.
