(** C08 at the level of EVALUATIONS: the model clause of WithOptions
    ([eval (EWith force p e) o = eval e (with_opts force p o)], a definitional unfolding) combined
    with the lookup theory of [mix] (Proofs/BaseProofs.v, Proofs/C08Overlay.v) — what an Option, a
    whole section, a dataset with options=/default_options=, keys() and an arbitrary expression of
    the frame fragment yield under a wrapper, in terms of the pre-set dictionary and the caller's
    dictionary SEPARATELY (no [mix] in the conclusions). *)
From Coq Require Import List NArith ZArith Bool Lia.
Import ListNotations.
From LV Require Import Model.Base Model.Template Model.Eval Model.Derived Model.EvalRun Model.Spec
  Proofs.BaseProofs Proofs.EvalProofs Proofs.EvalInd Proofs.EvalUnfold Proofs.FrameProofs
  Proofs.TemplateFrame Proofs.FrameTheorem Proofs.SpecProofs Proofs.C08Overlay.

(** ** atoms: option values that are neither containers nor strings (no template resolution, no
    section merge): None, booleans, integers, floats *)
Definition is_atom (v : json) : bool :=
  match v with JNull | JBool _ | JInt _ | JFlt _ => true | _ => false end.

Lemma resolve_atom f d v : is_atom v = true -> resolve (S f) d v = ROk v.
Proof. destruct v; try discriminate; reflexivity. Qed.

Lemma resolve_reads_atom f d v : is_atom v = true -> resolve_reads f d v = [].
Proof. destruct f; destruct v; try discriminate; reflexivity. Qed.

Lemma atom_not_obj v : is_atom v = true -> forall m, v <> JObj m.
Proof. destruct v; try discriminate; intros _ m0 H; discriminate. Qed.

Lemma atom_not_str v : is_atom v = true -> forall s, v <> JStr s.
Proof. destruct v; try discriminate; intros _ m0 H; discriminate. Qed.

Lemma json_eq_atom v : is_atom v = true -> json_eq v v = true.
Proof.
  destruct v; try discriminate; intros _; cbn [json_eq];
    [reflexivity|destruct b; reflexivity|apply Z.eqb_refl|apply N.eqb_refl].
Qed.

Lemma wf_atom v : is_atom v = true -> wf_json v = true.
Proof. destruct v; try discriminate; reflexivity. Qed.

(** a value found in a well-formed value is well-formed *)
Lemma wf_list_nth l : forall n v,
  wf_json (JList l) = true -> nth_error l n = Some v -> wf_json v = true.
Proof.
  induction l as [|x l IH]; intros n v Hw Hn; [destruct n; discriminate|].
  cbn [wf_json] in Hw. apply andb_prop in Hw as [Hx Hl].
  destruct n as [|n]; cbn [nth_error] in Hn; [now inversion Hn; subst|].
  apply (IH n v); [exact Hl|exact Hn].
Qed.

Lemma lookup_wf k : forall j v, wf_json j = true -> lookup k j = Found v -> wf_json v = true.
Proof.
  induction k as [|s k IH]; intros j v Hw Hl; [cbn in Hl; now inversion Hl; subst|].
  cbn [lookup] in Hl. destruct j; try discriminate.
  - destruct s; [discriminate|]. destruct (nth_error l (N.to_nat i)) as [x|] eqn:E; [|discriminate].
    apply (IH x v); [exact (wf_list_nth _ _ _ Hw E)|exact Hl].
  - destruct s; [|discriminate]. destruct (dget (SName n) m) as [x|] eqn:E; [|discriminate].
    apply (IH x v); [exact (dget_wf _ _ _ Hw E)|exact Hl].
Qed.

(** ** members of a section present on both sides: under the overlay the section is the merge,
    so a member is looked up in the merge of the two sections *)
Lemma lookup_mix_section_member k k2 a b sa sb :
  wf_json (JObj b) = true -> forallb is_name k = true ->
  lookup k (JObj a) = Found (JObj sa) -> lookup k (JObj b) = Found (JObj sb) ->
  lookup (k ++ k2) (JObj (mix a b)) = lookup k2 (JObj (mix sa sb)).
Proof.
  intros Hw Hn Ha Hb. rewrite lookup_app.
  now rewrite (lookup_mix_sections_merge k a b sa sb Hw Hn Ha Hb).
Qed.

(** … a member only the ingredient's section has / only the dish's section has *)
Lemma lookup_member_of_ingredient k x a b sa sb v :
  wf_json (JObj b) = true -> forallb is_name k = true ->
  lookup k (JObj a) = Found (JObj sa) -> lookup k (JObj b) = Found (JObj sb) ->
  dget (SName x) sb = Some v -> (forall m, v <> JObj m) ->
  lookup (k ++ [SName x]) (JObj (mix a b)) = Found v.
Proof.
  intros Hw Hn Ha Hb Hx Hns.
  rewrite (lookup_mix_section_member k [SName x] a b sa sb Hw Hn Ha Hb).
  assert (Hwb : wf_json (JObj sb) = true) by exact (lookup_wf _ _ _ Hw Hb).
  destruct (wf_json_obj _ Hwb) as [Hnd _].
  rewrite lookup_mix_step by exact Hnd. rewrite Hx.
  destruct v; try reflexivity. exfalso. now apply (Hns m).
Qed.

Lemma lookup_member_of_dish k x a b sa sb v :
  wf_json (JObj b) = true -> forallb is_name k = true ->
  lookup k (JObj a) = Found (JObj sa) -> lookup k (JObj b) = Found (JObj sb) ->
  dget (SName x) sa = Some v -> dget (SName x) sb = None ->
  lookup (k ++ [SName x]) (JObj (mix a b)) = Found v.
Proof.
  intros Hw Hn Ha Hb Hx Hnone.
  rewrite (lookup_mix_section_member k [SName x] a b sa sb Hw Hn Ha Hb).
  assert (Hwb : wf_json (JObj sb) = true) by exact (lookup_wf _ _ _ Hw Hb).
  destruct (wf_json_obj _ Hwb) as [Hnd _].
  rewrite lookup_mix_step by exact Hnd. rewrite Hnone. cbn [lookup]. now rewrite Hx.
Qed.

(** ** the three layers of a dataset: defaults [D] yield to the caller [o], which yields to the
    pre-set options [P] — what a lookup in [mix (mix D o) P] (the dictionary of
    [C08_dataset_options]) returns *)
Theorem dataset_layers_lookup k D o P :
  wf_dict P = true -> wf_dict o = true -> k <> [] ->
  (forall v, lookup k (JObj P) = Found v -> (forall m, v <> JObj m) ->
     lookup k (JObj (mix (mix D o) P)) = Found v) /\
  (forall v, forallb is_name k = true -> untouched k P = true ->
     lookup k (JObj o) = Found v -> (forall m, v <> JObj m) ->
     lookup k (JObj (mix (mix D o) P)) = Found v) /\
  (forall r, forallb is_name k = true -> untouched k P = true -> untouched k o = true ->
     lookup k (JObj D) = r -> r <> TypeErr ->
     lookup k (JObj (mix (mix D o) P)) = r).
Proof.
  intros HP Ho Hne. split; [|split].
  - intros v Hl Hns. now apply lookup_mix_preset_wins.
  - intros v Hn Hu Hl Hns.
    assert (E : lookup k (JObj (mix D o)) = Found v) by now apply lookup_mix_preset_wins.
    rewrite lookup_mix_untouched_deep; try assumption. rewrite E. discriminate.
  - intros r Hn HuP Huo Hl Hr.
    assert (E : lookup k (JObj (mix D o)) = r).
    { rewrite lookup_mix_untouched_deep; try assumption. now rewrite Hl. }
    rewrite lookup_mix_untouched_deep; try assumption. now rewrite E.
Qed.

(** ** [no_par] (no top-level name in the range reserved for template parameters) is kept by [mix] *)
Lemma no_par_dset k v m :
  no_par m = true -> match k with SName n => N.ltb n par_base | SIdx _ => true end = true ->
  no_par (dset k v m) = true.
Proof.
  intros Hm Hk. induction m as [|[k' v'] m IH]; cbn [dset no_par forallb fst].
  - now rewrite Hk.
  - cbn [no_par forallb fst] in Hm. apply andb_prop in Hm as [H1 H2].
    destruct (seg_eqb k k'); cbn [no_par forallb fst].
    + rewrite Hk. exact H2.
    + rewrite H1. now apply IH.
Qed.

Lemma no_par_mix o p : no_par o = true -> no_par p = true -> no_par (mix o p) = true.
Proof.
  unfold mix. revert o. induction p as [|[k v] p IH]; intros o Ho Hp; [exact Ho|].
  cbn [no_par forallb fst] in Hp. apply andb_prop in Hp as [Hk Hp].
  rewrite mix_loop_cons. apply IH; [|exact Hp]. now apply no_par_dset.
Qed.

Lemma wf_with_opts f p o : wf_dict p = true -> wf_dict o = true -> wf_dict (with_opts f p o) = true.
Proof. intros Hp Ho. destruct f; cbn [with_opts]; now apply wf_mix. Qed.

Lemma no_par_with_opts f p o : no_par p = true -> no_par o = true -> no_par (with_opts f p o) = true.
Proof. intros Hp Ho. destruct f; cbn [with_opts]; now apply no_par_mix. Qed.

(** ** Evaluation, for every store, store operations, switch configuration, user code, budget
    and ghost oracle *)
Section Generic.
  Variable St : Type.
  Variable mem_find : N -> fp -> St -> option value.
  Variable mem_store : N -> fp -> value -> St -> St.
  Variable cfg : config.
  Variable ucall : N -> list value -> cres.
  Variable rfuel : nat.
  Variable site_ok : expr -> dict -> bool.

  Notation eval := (eval St mem_find mem_store cfg ucall rfuel site_ok).
  Notation keys := (keys St mem_find mem_store cfg ucall rfuel site_ok).

  Local Notation is_read := EvalProofs.is_read.

  (** an Option whose key holds an atom: the atom, one read, nothing else *)
  Lemma eval_option_atom k dflt d v s f :
    rfuel = S f -> lookup k (JObj d) = Found v -> is_atom v = true ->
    eval (EOption k dflt None) d s = (Ok (VJ v), s, [EvRead k true]).
  Proof.
    intros Hf Hl Ha.
    rewrite (eval_EOption St mem_find mem_store cfg ucall rfuel site_ok).
    unfold wrap_eval, option_eval, rd, bind, emit, ret. rewrite Hl. cbv beta iota.
    rewrite Hf, (resolve_reads_atom _ _ _ Ha), (resolve_atom _ _ _ Ha). reflexivity.
  Qed.

  (** the wrapped Option finds [raw] in the overlaid dictionary *)
  Lemma eval_with_option_found force p k dflt raw j o s :
    lookup k (JObj (with_opts force p o)) = Found raw -> resolve rfuel (with_opts force p o) raw = ROk j ->
    exists l, eval (EWith force p (EOption k dflt None)) o s = (Ok (VJ j), s, l) /\ forallb is_read l = true.
  Proof.
    intros Hl Hr. rewrite (eval_with St mem_find mem_store cfg ucall rfuel site_ok force p _ o s).
    now apply eval_option_present with (raw := raw).
  Qed.

  Lemma eval_with_option_atom force p k dflt v o s f :
    rfuel = S f -> lookup k (JObj (with_opts force p o)) = Found v -> is_atom v = true ->
    eval (EWith force p (EOption k dflt None)) o s = (Ok (VJ v), s, [EvRead k true]).
  Proof.
    intros Hf Hl Ha. rewrite (eval_with St mem_find mem_store cfg ucall rfuel site_ok force p _ o s).
    now apply eval_option_atom with (f := f).
  Qed.

  (** *** (1) forced pre-set options.  A key to which [p] gives a (non-section) value: that
      value, resolved, WHATEVER the caller's dictionary says about the key … *)
  Theorem with_forced_option_preset p k dflt v j o s :
    wf_dict p = true -> k <> [] -> lookup k (JObj p) = Found v -> (forall m, v <> JObj m) ->
    resolve rfuel (mix o p) v = ROk j ->
    exists l, eval (EWith true p (EOption k dflt None)) o s = (Ok (VJ j), s, l) /\ forallb is_read l = true.
  Proof.
    intros Hw Hne Hl Hns Hr. apply eval_with_option_found with (raw := v); [|exact Hr].
    cbn [with_opts]. now apply lookup_mix_preset_wins.
  Qed.

  Theorem with_forced_option_preset_atom p k dflt v o s f :
    rfuel = S f -> wf_dict p = true -> k <> [] -> lookup k (JObj p) = Found v -> is_atom v = true ->
    eval (EWith true p (EOption k dflt None)) o s = (Ok (VJ v), s, [EvRead k true]).
  Proof.
    intros Hf Hw Hne Hl Ha. apply eval_with_option_atom with (f := f); [exact Hf| |exact Ha].
    cbn [with_opts]. apply lookup_mix_preset_wins; try assumption. now apply atom_not_obj.
  Qed.

  (** … and a key of which [p] touches no prefix and no extension: the caller's value *)
  Theorem with_forced_option_untouched p k dflt raw j o s :
    wf_dict p = true -> forallb is_name k = true -> untouched k p = true ->
    lookup k (JObj o) = Found raw -> resolve rfuel (mix o p) raw = ROk j ->
    exists l, eval (EWith true p (EOption k dflt None)) o s = (Ok (VJ j), s, l) /\ forallb is_read l = true.
  Proof.
    intros Hw Hn Hu Hl Hr. apply eval_with_option_found with (raw := raw); [|exact Hr].
    cbn [with_opts]. rewrite lookup_mix_untouched_deep; try assumption. rewrite Hl. discriminate.
  Qed.

  Theorem with_forced_option_untouched_atom p k dflt v o s f :
    rfuel = S f -> wf_dict p = true -> forallb is_name k = true -> untouched k p = true ->
    lookup k (JObj o) = Found v -> is_atom v = true ->
    eval (EWith true p (EOption k dflt None)) o s = eval (EOption k dflt None) o s.
  Proof.
    intros Hf Hw Hn Hu Hl Ha. rewrite (eval_option_atom k dflt o v s f Hf Hl Ha).
    apply eval_with_option_atom with (f := f); [exact Hf| |exact Ha].
    cbn [with_opts]. rewrite lookup_mix_untouched_deep; try assumption. rewrite Hl. discriminate.
  Qed.

  Theorem with_forced_option_untouched_missing p k dom o s :
    wf_dict p = true -> forallb is_name k = true -> untouched k p = true ->
    lookup k (JObj o) = Absent ->
    eval (EWith true p (EOption k None dom)) o s = (Err (CKey k) true, s, [EvRead k false]).
  Proof.
    intros Hw Hn Hu Hl. rewrite (eval_with St mem_find mem_store cfg ucall rfuel site_ok true p _ o s).
    apply eval_option_absent_nodefault. cbn [with_opts].
    rewrite lookup_mix_untouched_deep; try assumption. rewrite Hl. discriminate.
  Qed.

  (** *** (2) default options ([force = false]): the caller wins where it has the key … *)
  Theorem with_default_option_caller_wins p k dflt v j o s :
    wf_dict o = true -> k <> [] -> lookup k (JObj o) = Found v -> (forall m, v <> JObj m) ->
    resolve rfuel (mix p o) v = ROk j ->
    exists l, eval (EWith false p (EOption k dflt None)) o s = (Ok (VJ j), s, l) /\ forallb is_read l = true.
  Proof.
    intros Hw Hne Hl Hns Hr. apply eval_with_option_found with (raw := v); [|exact Hr].
    cbn [with_opts]. now apply lookup_mix_preset_wins.
  Qed.

  Theorem with_default_option_caller_wins_atom p k dflt v o s f :
    rfuel = S f -> wf_dict o = true -> k <> [] -> lookup k (JObj o) = Found v -> is_atom v = true ->
    eval (EWith false p (EOption k dflt None)) o s = (Ok (VJ v), s, [EvRead k true]).
  Proof.
    intros Hf Hw Hne Hl Ha. apply eval_with_option_atom with (f := f); [exact Hf| |exact Ha].
    cbn [with_opts]. apply lookup_mix_preset_wins; try assumption. now apply atom_not_obj.
  Qed.

  (** … [p] supplies the key where the caller lacks it (touches no prefix or extension of it) … *)
  Theorem with_default_option_supplied p k dflt raw j o s :
    wf_dict o = true -> forallb is_name k = true -> untouched k o = true ->
    lookup k (JObj p) = Found raw -> resolve rfuel (mix p o) raw = ROk j ->
    exists l, eval (EWith false p (EOption k dflt None)) o s = (Ok (VJ j), s, l) /\ forallb is_read l = true.
  Proof.
    intros Hw Hn Hu Hl Hr. apply eval_with_option_found with (raw := raw); [|exact Hr].
    cbn [with_opts]. rewrite lookup_mix_untouched_deep; try assumption. rewrite Hl. discriminate.
  Qed.

  Theorem with_default_option_supplied_atom p k dflt v o s f :
    rfuel = S f -> wf_dict o = true -> forallb is_name k = true -> untouched k o = true ->
    lookup k (JObj p) = Found v -> is_atom v = true ->
    eval (EWith false p (EOption k dflt None)) o s = (Ok (VJ v), s, [EvRead k true]).
  Proof.
    intros Hf Hw Hn Hu Hl Ha. apply eval_with_option_atom with (f := f); [exact Hf| |exact Ha].
    cbn [with_opts]. rewrite lookup_mix_untouched_deep; try assumption. rewrite Hl. discriminate.
  Qed.

  (** … and when neither has it the Option is missing *)
  Theorem with_default_option_neither p k dom o s :
    wf_dict o = true -> forallb is_name k = true -> untouched k o = true ->
    lookup k (JObj p) = Absent ->
    eval (EWith false p (EOption k None dom)) o s = (Err (CKey k) true, s, [EvRead k false]).
  Proof.
    intros Hw Hn Hu Hl. rewrite (eval_with St mem_find mem_store cfg ucall rfuel site_ok false p _ o s).
    apply eval_option_absent_nodefault. cbn [with_opts].
    rewrite lookup_mix_untouched_deep; try assumption. rewrite Hl. discriminate.
  Qed.

  (** *** (3) sections merge: a section both sides have evaluates, as a whole, to the merged
      dictionary (pre-set entries win when forced, the caller's otherwise) … *)
  Theorem with_option_section_merged force p k dflt so sp j o s :
    wf_dict p = true -> wf_dict o = true -> forallb is_name k = true ->
    lookup k (JObj o) = Found (JObj so) -> lookup k (JObj p) = Found (JObj sp) ->
    resolve rfuel (with_opts force p o) (JObj (if force then mix so sp else mix sp so)) = ROk j ->
    exists l, eval (EWith force p (EOption k dflt None)) o s = (Ok (VJ j), s, l) /\ forallb is_read l = true.
  Proof.
    intros Hp Ho Hn Hlo Hlp Hr.
    apply eval_with_option_found with (raw := JObj (if force then mix so sp else mix sp so)); [|exact Hr].
    destruct force; cbn [with_opts]; now apply lookup_mix_sections_merge.
  Qed.

  (** … and under EITHER wrapper a member only the pre-set section has and a member only the
      caller's section has are both visible *)
  Theorem with_section_members_visible force p k dflt so sp x y vx vy o s f :
    rfuel = S f -> wf_dict p = true -> wf_dict o = true -> forallb is_name k = true ->
    lookup k (JObj o) = Found (JObj so) -> lookup k (JObj p) = Found (JObj sp) ->
    dget (SName x) sp = Some vx -> dget (SName x) so = None -> is_atom vx = true ->
    dget (SName y) so = Some vy -> dget (SName y) sp = None -> is_atom vy = true ->
    eval (EWith force p (EOption (k ++ [SName x]) dflt None)) o s = (Ok (VJ vx), s, [EvRead (k ++ [SName x]) true]) /\
    eval (EWith force p (EOption (k ++ [SName y]) dflt None)) o s = (Ok (VJ vy), s, [EvRead (k ++ [SName y]) true]).
  Proof.
    intros Hf Hp Ho Hn Hlo Hlp Hx Hxo Hax Hy Hyp Hay.
    split; (apply eval_with_option_atom with (f := f); [exact Hf| |assumption]);
      destruct force; cbn [with_opts].
    - eapply lookup_member_of_ingredient; eauto. now apply atom_not_obj.
    - eapply lookup_member_of_dish; eauto.
    - eapply lookup_member_of_dish; eauto.
    - eapply lookup_member_of_ingredient; eauto. now apply atom_not_obj.
  Qed.

  (** *** (5) keys() of a wrapped Option ([filter_preset] / [preset_drops], after fix f469561) *)
  Lemma keys_option_found_plain k dflt dom d v s :
    lookup k (JObj d) = Found v -> (forall str, v <> JStr str) ->
    keys (EOption k dflt dom) d s = (Ok [k], s, [EvRead k true]).
  Proof.
    intros Hl Hs. rewrite (keys_EOption St mem_find mem_store cfg ucall rfuel site_ok).
    unfold bind, rd, emit, ret. rewrite Hl. cbv beta iota.
    destruct v; try reflexivity. exfalso. now apply (Hs s0).
  Qed.

  Lemma keys_with_option_found force p k dflt dom v b o s :
    lookup k (JObj (with_opts force p o)) = Found v -> (forall str, v <> JStr str) ->
    preset_drops force p o (with_opts force p o) k = Some b ->
    keys (EWith force p (EOption k dflt dom)) o s = (Ok (if b then [] else [k]), s, [EvRead k true]).
  Proof.
    intros Hl Hs Hd. rewrite (keys_with St mem_find mem_store cfg ucall rfuel site_ok force p _ o s).
    unfold bind at 1. rewrite (keys_option_found_plain k dflt dom _ v s Hl Hs).
    cbn [filter_preset]. rewrite Hd. unfold bind, ret. destruct b; reflexivity.
  Qed.

  (** a key fully determined by a forced pre-set is NOT reported, whether or not the caller
      supplies it too *)
  Theorem keys_forced_preset_not_reported p k dflt dom v o s :
    wf_dict p = true -> k <> [] -> lookup k (JObj p) = Found v -> is_atom v = true ->
    lookup k (JObj o) <> TypeErr ->
    keys (EWith true p (EOption k dflt dom)) o s = (Ok [], s, [EvRead k true]).
  Proof.
    intros Hw Hne Hl Ha Ht.
    assert (Hm : lookup k (JObj (mix o p)) = Found v)
      by (apply lookup_mix_preset_wins; try assumption; now apply atom_not_obj).
    apply (keys_with_option_found true p k dflt dom v true o s); [exact Hm|now apply atom_not_str|].
    unfold preset_drops. destruct k as [|s0 k0]; [congruence|]. rewrite Hl.
    cbn [with_opts]. rewrite Hm.
    destruct (lookup (s0 :: k0) (JObj o)); [|reflexivity|congruence].
    now rewrite json_eq_atom.
  Qed.

  (** a pre-set SECTION the caller partly supplies (the merged section differs from the pre-set
      one) IS reported: the value depends on the caller *)
  Theorem keys_forced_section_partly_supplied_reported p k dflt dom so sp o s :
    wf_dict p = true -> k <> [] -> forallb is_name k = true ->
    lookup k (JObj p) = Found (JObj sp) -> lookup k (JObj o) = Found (JObj so) ->
    json_eq (JObj (mix so sp)) (JObj sp) = false ->
    keys (EWith true p (EOption k dflt dom)) o s = (Ok [k], s, [EvRead k true]).
  Proof.
    intros Hw Hne Hn Hlp Hlo Hneq.
    assert (Hm : lookup k (JObj (mix o p)) = Found (JObj (mix so sp))) by now apply lookup_mix_sections_merge.
    apply (keys_with_option_found true p k dflt dom (JObj (mix so sp)) false o s); [exact Hm|discriminate|].
    unfold preset_drops. destruct k as [|s0 k0]; [congruence|]. rewrite Hlp.
    cbn [with_opts]. rewrite Hm, Hlo. now rewrite Hneq.
  Qed.

  (** a key the forced pre-set does not touch is reported as without the wrapper *)
  Theorem keys_forced_untouched_reported p k dflt dom v o s :
    wf_dict p = true -> forallb is_name k = true -> untouched k p = true ->
    lookup k (JObj o) = Found v -> (forall str, v <> JStr str) ->
    keys (EWith true p (EOption k dflt dom)) o s = (Ok [k], s, [EvRead k true]).
  Proof.
    intros Hw Hn Hu Hl Hs.
    assert (Hm : lookup k (JObj (mix o p)) = Found v)
      by (rewrite lookup_mix_untouched_deep; try assumption; rewrite Hl; discriminate).
    apply (keys_with_option_found true p k dflt dom v false o s); [exact Hm|exact Hs|].
    unfold preset_drops. pose proof (untouched_nonempty _ _ Hu) as Hne.
    destruct k as [|s0 k0]; [congruence|]. now rewrite (untouched_absent _ _ Hn Hu).
  Qed.

  (** defaults: a key the caller supplies is reported (the default yields to it) … *)
  Theorem keys_default_caller_supplied_reported p k dflt dom v o s :
    wf_dict o = true -> k <> [] -> lookup k (JObj o) = Found v -> is_atom v = true ->
    lookup k (JObj p) <> TypeErr ->
    keys (EWith false p (EOption k dflt dom)) o s = (Ok [k], s, [EvRead k true]).
  Proof.
    intros Hw Hne Hl Ha Ht.
    assert (Hm : lookup k (JObj (mix p o)) = Found v)
      by (apply lookup_mix_preset_wins; try assumption; now apply atom_not_obj).
    apply (keys_with_option_found false p k dflt dom v false o s); [exact Hm|now apply atom_not_str|].
    unfold preset_drops. destruct k as [|s0 k0]; [congruence|].
    cbn [with_opts]. rewrite Hm, Hl.
    destruct (lookup (s0 :: k0) (JObj p)); [reflexivity|reflexivity|congruence].
  Qed.

  (** … a key only the default options supply is not *)
  Theorem keys_default_supplied_not_reported p k dflt dom v o s :
    wf_dict o = true -> forallb is_name k = true -> untouched k o = true ->
    lookup k (JObj p) = Found v -> (forall str, v <> JStr str) ->
    keys (EWith false p (EOption k dflt dom)) o s = (Ok [], s, [EvRead k true]).
  Proof.
    intros Hw Hn Hu Hl Hs.
    assert (Hm : lookup k (JObj (mix p o)) = Found v)
      by (rewrite lookup_mix_untouched_deep; try assumption; rewrite Hl; discriminate).
    apply (keys_with_option_found false p k dflt dom v true o s); [exact Hm|exact Hs|].
    unfold preset_drops. pose proof (untouched_nonempty _ _ Hu) as Hne.
    destruct k as [|s0 k0]; [congruence|]. rewrite Hl. cbn [with_opts]. rewrite Hm.
    now rewrite (untouched_absent _ _ Hn Hu).
  Qed.
End Generic.

(** ** On the cache-free reference instance: datasets, and arbitrary expressions of the frame
    fragment *)
Section Reference.
  Variable u : N -> list value -> cres.
  Variable fuel : nat.

  Notation evalN := (eval unit nc_find nc_store cfg_nc u fuel (fun _ _ => true)).
  Notation validateN := (validate unit nc_find nc_store cfg_nc u fuel (fun _ _ => true)).
  Notation sem := (Spec.sem u fuel).

  (** *** (4) the dataset decorator: a dataset without overloads, callback or effects, with body
      [body], cache [c], options=[P], default_options=[D] *)
  Definition plain_dataset (body : expr) (c : cache_ref) (P D : dict) : dsrec :=
    {| ds_dispatch := no_dispatch; ds_table := []; ds_default := Some body;
       ds_callback := empty_callback; ds_effects := []; ds_effects_disabled := false;
       ds_cache := c; ds_options := P; ds_default_options := D |}.

  (** its value is the body's under (defaults overlaid by the caller) overlaid by the options,
      whatever the body and the cache *)
  Theorem plain_dataset_value body c P D o :
    fst (fst (evalN (dataset_expr (plain_dataset body c P D)) o tt)) = sem body (mix (mix D o) P).
  Proof.
    rewrite C05_refinement, dataset_spec. cbn [plain_dataset ds_effects_disabled ds_dispatch ds_table
      ds_default ds_callback ds_effects ds_default_options ds_options].
    set (dd := mix (mix D o) P).
    assert (Hsw : sem (ESwitch no_dispatch [] (Some body)) dd = sem body dd).
    { rewrite switch_spec. reflexivity. }
    assert (Hap : sem (EApply (ESwitch no_dispatch [] (Some body)) empty_callback) dd = sem body dd).
    { rewrite apply_spec, Hsw. destruct (sem body dd) as [v|c0 ee] eqn:E; [reflexivity|].
      apply sem_err_ee in E. now subst ee. }
    change (sem (EComp (EApply (ESwitch no_dispatch [] (Some body)) empty_callback) []) dd)
      with (as_ee (rbind (sem (EApply (ESwitch no_dispatch [] (Some body)) empty_callback) dd)
                         (fun v => rbind (if effects_opt_off dd then Ok tt else Ok tt) (fun _ => Ok v)))).
    rewrite Hap. destruct (sem body dd) as [v|c0 ee] eqn:E.
    - cbn [rbind]. destruct (effects_opt_off dd); reflexivity.
    - apply sem_err_ee in E. now subst ee.
  Qed.

  Lemma sem_option_atom k d v f :
    fuel = S f -> lookup k (JObj d) = Found v -> is_atom v = true ->
    sem (EOption k None None) d = Ok (VJ v).
  Proof.
    intros Hf Hl Ha. cbn [Spec.sem]. unfold soption. rewrite Hl, Hf, (resolve_atom _ _ _ Ha). reflexivity.
  Qed.

  (** default_options yield to the caller, which yields to options: the dataset whose body reads
      the Option [k] returns the options' value if they have one; else the caller's; else the
      default options'; else the key is missing *)
  Theorem dataset_option_layers k c P D o f :
    fuel = S f -> wf_dict P = true -> wf_dict o = true -> k <> [] ->
    let run := fst (fst (evalN (dataset_expr (plain_dataset (EOption k None None) c P D)) o tt)) in
    (forall v, lookup k (JObj P) = Found v -> is_atom v = true -> run = Ok (VJ v)) /\
    (forall v, forallb is_name k = true -> untouched k P = true ->
       lookup k (JObj o) = Found v -> is_atom v = true -> run = Ok (VJ v)) /\
    (forall v, forallb is_name k = true -> untouched k P = true -> untouched k o = true ->
       lookup k (JObj D) = Found v -> is_atom v = true -> run = Ok (VJ v)) /\
    (forallb is_name k = true -> untouched k P = true -> untouched k o = true ->
       lookup k (JObj D) = Absent -> run = Err (CKey k) true).
  Proof.
    intros Hf HP Ho Hne run. subst run. rewrite plain_dataset_value.
    destruct (dataset_layers_lookup k D o P HP Ho Hne) as (L1 & L2 & L3).
    split; [|split; [|split]].
    - intros v Hl Ha. apply sem_option_atom with (f := f); [exact Hf| |exact Ha].
      apply L1; [exact Hl|now apply atom_not_obj].
    - intros v Hn Hu Hl Ha. apply sem_option_atom with (f := f); [exact Hf| |exact Ha].
      apply L2; try assumption. now apply atom_not_obj.
    - intros v Hn HuP Huo Hl Ha. apply sem_option_atom with (f := f); [exact Hf| |exact Ha].
      apply (L3 (Found v)); try assumption. discriminate.
    - intros Hn HuP Huo Hl. cbn [Spec.sem]. unfold soption.
      rewrite (L3 Absent); try assumption; [reflexivity|discriminate].
  Qed.

  (** *** arbitrary expressions of the frame fragment.  Evaluation under a wrapper depends on
      the caller's dictionary only through the keys the inner evaluation looks up in the OVERLAID
      dictionary: two callers whose overlays agree on those keys get the same result and the same
      reads. *)
  Theorem with_frame force p e o o' :
    frag e = true -> wf_dict p = true -> wf_dict o = true -> wf_dict o' = true ->
    no_par p = true -> no_par o = true -> no_par o' = true ->
    effects_opt_off (with_opts force p o') = effects_opt_off (with_opts force p o) ->
    (agree_keys (with_opts force p o) (with_opts force p o')
                (reads_of (snd (evalN e (with_opts force p o) tt))) ->
       obs (evalN (EWith force p e) o' tt) = obs (evalN (EWith force p e) o tt)) /\
    (agree_keys (with_opts force p o) (with_opts force p o')
                (reads_of (snd (validateN e (with_opts force p o) tt))) ->
       obs (validateN (EWith force p e) o' tt) = obs (validateN (EWith force p e) o tt)).
  Proof.
    intros Hf Hp Ho Ho' Np No No' Hsw.
    rewrite !(eval_with unit nc_find nc_store cfg_nc u fuel (fun _ _ => true) force p e).
    destruct (frame_all u fuel e Hf (with_opts force p o) (with_opts force p o')
                (wf_with_opts _ _ _ Hp Ho) (wf_with_opts _ _ _ Hp Ho')
                (no_par_with_opts _ _ _ Np No) (no_par_with_opts _ _ _ Np No') Hsw) as (E & V & _).
    split; [exact E|exact V].
  Qed.

  (** a forced pre-set that gives a (non-section) value to every key the inner evaluation reads
      hides the caller completely: every caller gets the same outcome *)
  Theorem with_forced_hides_caller p e o o' :
    frag e = true -> wf_dict p = true -> wf_dict o = true -> wf_dict o' = true ->
    no_par p = true -> no_par o = true -> no_par o' = true ->
    effects_opt_off (mix o' p) = effects_opt_off (mix o p) ->
    (forall k, In k (reads_of (snd (evalN e (mix o p) tt))) ->
       k <> [] /\ exists v, lookup k (JObj p) = Found v /\ forall m, v <> JObj m) ->
    obs (evalN (EWith true p e) o' tt) = obs (evalN (EWith true p e) o tt).
  Proof.
    intros Hf Hp Ho Ho' Np No No' Hsw Hk.
    apply (proj1 (with_frame true p e o o' Hf Hp Ho Ho' Np No No' Hsw)).
    intros k Hin. destruct (Hk k Hin) as (Hne & v & Hl & Hns). unfold same_at. cbn [with_opts].
    now rewrite !(lookup_mix_preset_wins k _ p v Hp Hl Hns Hne).
  Qed.

  (** a forced pre-set that touches none of the keys the expression reads is invisible *)
  Theorem with_forced_untouched_invisible p e o :
    frag e = true -> wf_dict p = true -> wf_dict o = true -> no_par p = true -> no_par o = true ->
    effects_opt_off (mix o p) = effects_opt_off o ->
    (forall k, In k (reads_of (snd (evalN e o tt))) ->
       forallb is_name k = true /\ untouched k p = true /\ lookup k (JObj o) <> TypeErr) ->
    obs (evalN (EWith true p e) o tt) = obs (evalN e o tt).
  Proof.
    intros Hf Hp Ho Np No Hsw Hk.
    rewrite (eval_with unit nc_find nc_store cfg_nc u fuel (fun _ _ => true) true p e). cbn [with_opts].
    destruct (frame_all u fuel e Hf o (mix o p) Ho (wf_mix _ _ Ho Hp) No (no_par_mix _ _ No Np) Hsw)
      as (E & _ & _).
    apply E. intros k Hin. destruct (Hk k Hin) as (Hn & Hu & Ht). unfold same_at.
    now apply lookup_mix_untouched_deep.
  Qed.

  (** default options yield: where the caller gives a (non-section) value to every key the inner
      evaluation reads, the default options are irrelevant — any two give the same outcome *)
  Theorem with_default_yields_to_caller p p' e o :
    frag e = true -> wf_dict p = true -> wf_dict p' = true -> wf_dict o = true ->
    no_par p = true -> no_par p' = true -> no_par o = true ->
    effects_opt_off (mix p' o) = effects_opt_off (mix p o) ->
    (forall k, In k (reads_of (snd (evalN e (mix p o) tt))) ->
       k <> [] /\ exists v, lookup k (JObj o) = Found v /\ forall m, v <> JObj m) ->
    obs (evalN (EWith false p' e) o tt) = obs (evalN (EWith false p e) o tt).
  Proof.
    intros Hf Hp Hp' Ho Np Np' No Hsw Hk.
    rewrite !(eval_with unit nc_find nc_store cfg_nc u fuel (fun _ _ => true) false _ e). cbn [with_opts].
    destruct (frame_all u fuel e Hf (mix p o) (mix p' o) (wf_mix _ _ Hp Ho) (wf_mix _ _ Hp' Ho)
                (no_par_mix _ _ Np No) (no_par_mix _ _ Np' No) Hsw) as (E & _ & _).
    apply E. intros k Hin. destruct (Hk k Hin) as (Hne & v & Hl & Hns). unfold same_at.
    now rewrite !(lookup_mix_preset_wins k _ o v Ho Hl Hns Hne).
  Qed.
End Reference.
