(** Frame lemmas for Template nodes: the dictionary a template string is resolved against is the
    caller's dictionary overlaid by the parameter values (under reserved names [par_key p]);
    lookups of ordinary keys go to the caller's dictionary, lookups of parameter names to the
    parameter values, provided the caller's dictionary uses no reserved name ([no_par]). *)
From Coq Require Import List NArith ZArith Bool Lia.
Import ListNotations.
From LV Require Import Model.Base Model.Template Model.Eval Model.Derived Model.EvalRun Proofs.BaseProofs Proofs.EvalProofs Proofs.EvalInd.
From LV Require Import Proofs.FrameProofs.

(** no top-level option name lies in the range reserved for template parameters *)
Definition no_par (o : dict) : bool :=
  forallb (fun kv => match fst kv with SName n => N.ltb n par_base | SIdx _ => true end) o.

Lemma no_par_dget o n : no_par o = true -> (par_base <= n)%N -> dget (SName n) o = None.
Proof.
  intros H Hn. induction o as [|[k v] o IH]; [reflexivity|].
  cbn [no_par forallb fst] in H. apply andb_prop in H as [Hk Ho].
  cbn [dget]. destruct (seg_eqb (SName n) k) eqn:E.
  - apply seg_eqb_eq in E. subst k. apply N.ltb_lt in Hk. lia.
  - apply IH. exact Ho.
Qed.

Lemma N_aux (b p n : N) : n = (b + p)%N -> (n < b)%N -> False.
Proof. lia. Qed.

Lemma SName_inj a b : SName a = SName b -> a = b.
Proof. intros H. now inversion H. Qed.

Lemma no_par_nil : no_par [] = true. Proof. reflexivity. Qed.

Lemma dget_mix_loop_cong rec s ing : forall acc acc',
  dget s acc = dget s acc' -> dget s (mix_loop rec ing acc) = dget s (mix_loop rec ing acc').
Proof.
  induction ing as [|[k v] ing IH]; intros acc acc' H; [exact H|].
  rewrite !mix_loop_cons. apply IH. rewrite !dget_dset.
  destruct (seg_eqb s k) eqn:E; [|exact H].
  apply seg_eqb_eq in E. subst k. unfold mix_entry. now rewrite H.
Qed.

Lemma dget_mix_loop_none rec s ing : forall acc,
  dget s ing = None -> dget s (mix_loop rec ing acc) = dget s acc.
Proof.
  induction ing as [|[k v] ing IH]; intros acc H; [reflexivity|].
  cbn [dget] in H. destruct (seg_eqb s k) eqn:E; [discriminate|].
  rewrite mix_loop_cons. rewrite (IH _ H). now apply dget_dset_other.
Qed.

(** the parameter dictionary only has reserved names *)
Definition only_par (pd : dict) : Prop := forall n, (n < par_base)%N -> dget (SName n) pd = None.

Lemma option_set_only_par kvs : forall acc pd,
  (forall k v, In (k, v) kvs -> exists p, k = par_key p) ->
  option_set kvs acc = Some pd -> only_par acc -> only_par pd.
Proof.
  induction kvs as [|[k v] kvs IH]; intros acc pd Hk H Ha.
  - cbn [option_set] in H. now inversion H; subst.
  - cbn [option_set] in H.
    destruct (Hk k v (or_introl eq_refl)) as [p ->].
    unfold par_key in H. cbn [set_dotted] in H.
    apply (IH _ _ (fun k0 v0 Hin => Hk k0 v0 (or_intror Hin)) H).
    intros n Hn. rewrite dget_dset_other; [now apply Ha|].
    destruct (seg_eqb (SName n) (SName (par_base + p))) eqn:E; [|reflexivity].
    apply seg_eqb_eq in E. apply SName_inj in E. destruct (N_aux _ _ _ E Hn).
Qed.

Lemma only_par_nil : only_par []. Proof. intros n _. reflexivity. Qed.

Section MixParams.
  Variables o o' pd : dict.
  Hypothesis Ho : no_par o = true.
  Hypothesis Ho' : no_par o' = true.
  Hypothesis Hpd : only_par pd.

  Lemma same_at_mix k :
    is_par_key k = true \/ same_at o o' k -> same_at (mix o pd) (mix o' pd) k.
  Proof.
    unfold same_at. intros H. destruct k as [|s k'].
    - destruct H as [H|H]; [discriminate|]. cbn [lookup] in H. inversion H. reflexivity.
    - destruct s as [n|i]; [|reflexivity].
      cbn [lookup]. destruct (N.ltb n par_base) eqn:En.
      + apply N.ltb_lt in En. unfold mix.
        rewrite !(dget_mix_loop_none _ _ _ _ (Hpd n En)).
        destruct H as [H|H].
        * destruct k'; [|discriminate]. cbn [is_par_key] in H. apply N.leb_le in H. lia.
        * cbn [lookup] in H. exact H.
      + apply N.ltb_ge in En. unfold mix.
        rewrite (dget_mix_loop_cong (fun d v => mixj d v) (SName n) pd o' o); [reflexivity|].
        now rewrite !no_par_dget.
  Qed.

  Lemma agree_mix ks :
    agree_keys o o' (filter (fun k => negb (is_par_key k)) ks) -> agree_keys (mix o pd) (mix o' pd) ks.
  Proof.
    intros H k Hk. apply same_at_mix.
    destruct (is_par_key k) eqn:E; [now left|right].
    apply H. apply filter_In. split; [exact Hk|]. now rewrite E.
  Qed.
End MixParams.

Lemma no_par_restrict o ks : no_par o = true -> no_par (restrict o ks) = true.
Proof.
  unfold restrict. induction o as [|[s v] o IH]; intros H; [reflexivity|].
  cbn [no_par forallb fst] in H. apply andb_prop in H as [Hs Ho].
  cbn [restrict_loop]. destruct (tails s ks); [now apply IH|].
  cbn [no_par forallb fst]. rewrite Hs. cbn [andb]. now apply IH.
Qed.
