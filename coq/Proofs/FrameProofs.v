(** The frame property of the cache-free reference semantics: an evaluation (validation, key
    inspection) depends on the options dictionary only through the keys it looks up.  If [o']
    answers every lookup the run on [o] performs as [o] does, the run on [o'] has the same
    result and performs the same lookups.  This is the lemma behind C01 (no stale hits) and C03
    (keys() is sufficient). *)
From Coq Require Import List NArith ZArith Bool Lia.
Import ListNotations.
From LV Require Import Model.Base Model.Template Model.Eval Model.Derived Model.EvalRun Proofs.BaseProofs Proofs.EvalProofs Proofs.EvalInd.


(** ** induction on JSON values (nested through lists and association lists) *)
Section JsonInd.
  Variable P : json -> Prop.
  Hypothesis HNull : P JNull.
  Hypothesis HBool : forall b, P (JBool b).
  Hypothesis HInt : forall z, P (JInt z).
  Hypothesis HFlt : forall i, P (JFlt i).
  Hypothesis HStr : forall s, P (JStr s).
  Hypothesis HList : forall l, Forall P l -> P (JList l).
  Hypothesis HObj : forall m, Forall (fun kv => P (snd kv)) m -> P (JObj m).

  Fixpoint json_ind' (j : json) : P j :=
    match j with
    | JNull => HNull
    | JBool b => HBool b
    | JInt z => HInt z
    | JFlt i => HFlt i
    | JStr s => HStr s
    | JList l =>
        HList l ((fix go (l : list json) : Forall P l :=
                    match l with [] => Forall_nil _ | x :: l' => Forall_cons x (json_ind' x) (go l') end) l)
    | JObj m =>
        HObj m ((fix go (m : dict) : Forall (fun kv => P (snd kv)) m :=
                   match m with [] => Forall_nil _ | (k, x) :: m' => Forall_cons (k, x) (json_ind' x) (go m') end) m)
    end.
End JsonInd.

(** ** two dictionaries that answer a set of lookups alike *)
Section Frame.
  Variable u : N -> list value -> cres.
  Variable fuel : nat.
  Variables o o' : dict.

  Definition same_at (k : key) : Prop := lookup k (JObj o') = lookup k (JObj o).
  Definition agree_keys (ks : list key) : Prop := forall k, In k ks -> same_at k.

  Lemma agree_keys_app a b : agree_keys (a ++ b) <-> agree_keys a /\ agree_keys b.
  Proof.
    unfold agree_keys. split.
    - intros H. split; intros k Hk; apply H; apply in_or_app; auto.
    - intros [Ha Hb] k Hk. apply in_app_or in Hk as [Hk|Hk]; auto.
  Qed.

  (** *** template resolution *)
  Lemma subst_frame s : agree_keys (refs s) -> (forall p, In p (pars s) -> same_at (par_key p)) ->
    subst o' s = subst o s.
  Proof.
    induction s as [|t s IH]; intros Hr Hp; [reflexivity|].
    destruct t as [c|k|p| |]; cbn [subst].
    - rewrite IH; auto.
    - cbn [refs flat_map] in Hr. apply agree_keys_app in Hr as [Hk Hr].
      rewrite (Hk k (or_introl eq_refl)). rewrite IH; auto.
    - cbn [pars flat_map] in Hp.
      rewrite (Hp p (or_introl eq_refl)). rewrite IH; auto.
      intros q Hq. apply Hp. now right.
    - rewrite IH; auto.
    - rewrite IH; auto.
  Qed.

  (** unfolding [resolve] / [resolve_reads] one level *)
  Lemma resolve_obj_unfold f d m :
    resolve (S f) d (JObj m) = resolve_obj (fun x => resolve (S f) d x) m.
  Proof. reflexivity. Qed.
  Lemma resolve_list_unfold f d l :
    resolve (S f) d (JList l) = resolve_list (fun x => resolve (S f) d x) l.
  Proof. reflexivity. Qed.
  Lemma resolve_str_unfold f d s :
    resolve (S f) d (JStr s) =
      match s with
      | [TRef k] => match lookup k (JObj d) with
                    | Found v' => resolve f d v' | Absent => RMissing k | TypeErr => RTypeErr end
      | [TPar p] => match lookup (par_key p) (JObj d) with
                    | Found v' => resolve f d v' | Absent => RMissing (par_key p) | TypeErr => RTypeErr end
      | _ => if has_templ s then match subst d s with ROk v' => resolve f d v' | e => e end
             else ROk (JStr (unescape s))
      end.
  Proof. reflexivity. Qed.

  Fixpoint rr_obj (rec : json -> list key) (m : dict) : list key :=
    match m with [] => [] | (_, x) :: m' => rec x ++ rr_obj rec m' end.
  Fixpoint rr_list (rec : json -> list key) (l : list json) : list key :=
    match l with [] => [] | x :: l' => rec x ++ rr_list rec l' end.

  Lemma rr_obj_unfold f d m :
    resolve_reads (S f) d (JObj m) = rr_obj (fun x => resolve_reads (S f) d x) m.
  Proof. cbn [resolve_reads]. induction m as [|[k x] m IH]; [reflexivity|]. cbn [rr_obj]. now rewrite <- IH. Qed.
  Lemma rr_list_unfold f d l :
    resolve_reads (S f) d (JList l) = rr_list (fun x => resolve_reads (S f) d x) l.
  Proof. cbn [resolve_reads]. induction l as [|x l IH]; [reflexivity|]. cbn [rr_list]. now rewrite <- IH. Qed.
  Lemma rr_str_unfold f d s :
    resolve_reads (S f) d (JStr s) =
      match s with
      | [TRef k] => k :: match lookup k (JObj d) with Found v' => resolve_reads f d v' | _ => [] end
      | [TPar p] => par_key p :: match lookup (par_key p) (JObj d) with
                                 | Found v' => resolve_reads f d v' | _ => [] end
      | _ => if has_templ s then
               (refs s ++ map par_key (pars s)) ++
               match subst d s with ROk v' => resolve_reads f d v' | _ => [] end
             else []
      end.
  Proof. reflexivity. Qed.

  (** the frame property of template resolution *)
  Lemma resolve_frame f : forall v,
    agree_keys (resolve_reads f o v) ->
    resolve_reads f o' v = resolve_reads f o v /\ resolve f o' v = resolve f o v.
  Proof.
    induction f as [|f IHf]; intros v; [split; reflexivity|].
    induction v using json_ind'; intros Hag; try (split; reflexivity).
    - (* JStr *)
      rewrite !rr_str_unfold in *. rewrite !resolve_str_unfold.
      assert (Hmulti :
        has_templ s = true ->
        agree_keys ((refs s ++ map par_key (pars s)) ++
                    match subst o s with ROk v' => resolve_reads f o v' | _ => [] end) ->
        (refs s ++ map par_key (pars s)) ++ match subst o' s with ROk v' => resolve_reads f o' v' | _ => [] end =
        (refs s ++ map par_key (pars s)) ++ match subst o s with ROk v' => resolve_reads f o v' | _ => [] end
        /\ match subst o' s with ROk v' => resolve f o' v' | e => e end =
           match subst o s with ROk v' => resolve f o v' | e => e end).
      { intros _ H. apply agree_keys_app in H as [Hks Hrest].
        apply agree_keys_app in Hks as [Hrefs Hpars].
        assert (Hsubst : subst o' s = subst o s).
        { apply subst_frame; [exact Hrefs|]. intros p Hp. apply Hpars. now apply in_map. }
        rewrite Hsubst. destruct (subst o s) as [v'| | | |]; try (split; reflexivity).
        destruct (IHf v' Hrest) as [E1 E2]. now rewrite E1, E2. }
      assert (Hone : forall k,
        agree_keys (k :: match lookup k (JObj o) with Found v' => resolve_reads f o v' | _ => [] end) ->
        k :: match lookup k (JObj o') with Found v' => resolve_reads f o' v' | _ => [] end =
        k :: match lookup k (JObj o) with Found v' => resolve_reads f o v' | _ => [] end
        /\ match lookup k (JObj o') with Found v' => resolve f o' v' | Absent => RMissing k | TypeErr => RTypeErr end =
           match lookup k (JObj o) with Found v' => resolve f o v' | Absent => RMissing k | TypeErr => RTypeErr end).
      { intros k H.
        assert (Hk : same_at k) by (apply H; now left). unfold same_at in Hk. rewrite Hk.
        destruct (lookup k (JObj o)) as [v'| |]; try (split; reflexivity).
        destruct (IHf v') as [E1 E2]; [intros k0 H0; apply H; now right|]. now rewrite E1, E2. }
      destruct s as [|t s1]; [split; reflexivity|].
      destruct t as [c|k|p| |]; destruct s1 as [|t2 s2];
        try (match goal with |- context [has_templ ?x] => destruct (has_templ x) eqn:Eh end;
             [apply Hmulti; [reflexivity|exact Hag] | split; reflexivity]).
      + apply Hone. exact Hag.
      + apply (Hone (par_key p)). exact Hag.
    - (* JList *)
      rewrite !rr_list_unfold in *. rewrite !resolve_list_unfold.
      induction H as [|x l Hx Hl IH]; [split; reflexivity|].
      cbn [rr_list] in Hag. apply agree_keys_app in Hag as [Ha Hb].
      destruct (Hx Ha) as [E1 E2]. destruct (IH Hb) as [E3 E4].
      cbn [rr_list resolve_list]. rewrite E1, E2, E3. split; [reflexivity|].
      destruct (resolve (S f) o x); try reflexivity. now rewrite E4.
    - (* JObj *)
      rewrite !rr_obj_unfold in *. rewrite !resolve_obj_unfold.
      induction H as [|[k x] m Hx Hm IH]; [split; reflexivity|].
      cbn [rr_obj] in Hag. apply agree_keys_app in Hag as [Ha Hb].
      destruct (Hx Ha) as [E1 E2]. destruct (IH Hb) as [E3 E4].
      cbn [rr_obj resolve_obj]. cbn [snd] in *. rewrite E1, E2, E3. split; [reflexivity|].
      destruct (resolve (S f) o x); try reflexivity. now rewrite E4.
  Qed.
End Frame.

(** ** the frame relation between two runs of the reference interpreter *)
Definition is_read (e : event) : bool := match e with EvRead _ _ => true | _ => false end.
Definition reads_of (l : list event) : list key :=
  flat_map (fun e => match e with EvRead k _ => [k] | _ => [] end) l.

Lemma reads_of_app a b : reads_of (a ++ b) = reads_of a ++ reads_of b.
Proof. unfold reads_of. apply flat_map_app. Qed.

Section FrameEval.
  Variable u : N -> list value -> cres.
  Variable fuel : nat.
  Variables o o' : dict.

  Notation M := (M unit).
  Notation agree := (agree_keys o o').

  (** what is compared: the result and the option reads (other events — log emission, user
      calls — depend on the switch options, which are not part of the reads) *)
  Definition obs {A} (x : res A * unit * list event) : res A * list event :=
    (fst (fst x), filter is_read (snd x)).

  Definition Fr {A} (m m' : M A) : Prop :=
    agree (reads_of (snd (m tt))) -> obs (m' tt) = obs (m tt).

  Lemma Fr_refl {A} (m : M A) : Fr m m.
  Proof. intros _. reflexivity. Qed.

  Lemma Fr_bind {A B} (m m' : M A) (f f' : A -> M B) :
    Fr m m' -> (forall a, Fr (f a) (f' a)) -> Fr (bind unit m f) (bind unit m' f').
  Proof.
    unfold Fr, obs, bind. intros Hm Hf Hag.
    destruct (m tt) as [[[a|c ee] []] l1] eqn:E1; cbn [fst snd] in *.
    - destruct (f a tt) as [[r []] l2] eqn:E2. cbn [fst snd] in *.
      rewrite reads_of_app in Hag. apply agree_keys_app in Hag as [H1 H2].
      specialize (Hm H1). destruct (m' tt) as [[[a'|c' ee'] []] l1'] eqn:E1'; cbn [fst snd] in Hm;
        inversion Hm; subst.
      specialize (Hf a). rewrite E2 in Hf. cbn [fst snd] in Hf. specialize (Hf H2).
      destruct (f' a tt) as [[r' []] l2'] eqn:E2'. cbn [fst snd] in *. inversion Hf; subst.
      rewrite !filter_app. congruence.
    - specialize (Hm Hag). destruct (m' tt) as [[[a'|c' ee'] []] l1'] eqn:E1'; cbn [fst snd] in Hm;
        inversion Hm; subst. cbn [fst snd]. congruence.
  Qed.

  Definition is_unmod (c : cause) : bool := match c with CUnmodelled => true | _ => false end.

  Lemma catch_unfold {A} (m : M A) (h : cause -> bool -> M A) :
    catch unit m h tt =
      match m tt with
      | (Ok a, s', l) => (Ok a, s', l)
      | (Err c ee, s', l) =>
          if is_unmod c then (Err c ee, s', l)
          else match h c ee s' with (r, s'', l') => (r, s'', l ++ l') end
      end.
  Proof. unfold catch. destruct (m tt) as [[[a|c ee] s'] l]; [reflexivity|]. destruct c; reflexivity. Qed.

  Lemma Fr_catch {A} (m m' : M A) (h h' : cause -> bool -> M A) :
    Fr m m' -> (forall c ee, Fr (h c ee) (h' c ee)) -> Fr (catch unit m h) (catch unit m' h').
  Proof.
    unfold Fr, obs. rewrite !catch_unfold. intros Hm Hh Hag.
    destruct (m tt) as [[[a|c ee] []] l1] eqn:E1; cbn [fst snd] in *.
    - specialize (Hm Hag). destruct (m' tt) as [[[a'|c' ee'] []] l1'] eqn:E1'; cbn [fst snd] in Hm;
        inversion Hm; subst. cbn [fst snd]. congruence.
    - destruct (is_unmod c) eqn:Eu.
      + specialize (Hm Hag). destruct (m' tt) as [[[a'|c' ee'] []] l1'] eqn:E1'; cbn [fst snd] in Hm;
          inversion Hm; subst. rewrite Eu. cbn [fst snd]. congruence.
      + destruct (h c ee tt) as [[r []] l2] eqn:E2. cbn [fst snd] in *.
        rewrite reads_of_app in Hag. apply agree_keys_app in Hag as [H1 H2].
        specialize (Hm H1).
        pose proof (Hh c ee) as Hh0. rewrite E2 in Hh0. cbn [fst snd] in Hh0. specialize (Hh0 H2).
        destruct (m' tt) as [[[a'|c' ee'] []] l1'] eqn:E1'; cbn [fst snd] in Hm; inversion Hm; subst c' ee'.
        rewrite Eu.
        destruct (h' c ee tt) as [[r' []] l2'] eqn:E2'. cbn [fst snd] in *. inversion Hh0; subst.
        rewrite !filter_app. congruence.
  Qed.

  Lemma Fr_wrap {A} (m m' : M A) : Fr m m' -> Fr (wrap_eval unit m) (wrap_eval unit m').
  Proof.
    unfold Fr, obs, wrap_eval. intros Hm Hag.
    destruct (m tt) as [[[a|c ee] []] l1] eqn:E1; cbn [fst snd] in *;
      specialize (Hm Hag); destruct (m' tt) as [[[a'|c' ee'] []] l1'] eqn:E1'; cbn [fst snd] in Hm;
      inversion Hm; subst; cbn [fst snd]; congruence.
  Qed.

  Lemma Fr_rd k : Fr (rd unit k o) (rd unit k o').
  Proof.
    unfold Fr, obs, rd, bind, emit, ret. cbn. intros Hag.
    assert (H : same_at o o' k) by (apply Hag; now left). unfold same_at in H. now rewrite H.
  Qed.

  Lemma Fr_mapM {A B} (f f' : A -> M B) l :
    (forall a, In a l -> Fr (f a) (f' a)) -> Fr (mapM unit f l) (mapM unit f' l).
  Proof.
    induction l as [|a l IH]; intros H; [apply Fr_refl|].
    rewrite !mapM_cons. apply Fr_bind; [apply H; now left|].
    intros b. apply Fr_bind; [apply IH; intros; apply H; now right|]. intros; apply Fr_refl.
  Qed.

  Lemma Fr_iterM {A} (f f' : A -> M unit) l :
    (forall a, In a l -> Fr (f a) (f' a)) -> Fr (iterM unit f l) (iterM unit f' l).
  Proof.
    induction l as [|a l IH]; intros H; [apply Fr_refl|].
    rewrite !iterM_cons. apply Fr_bind; [apply H; now left|].
    intros _. apply IH. intros; apply H; now right.
  Qed.

  Lemma Fr_unionM {A} (f f' : A -> M (list key)) l :
    (forall a, In a l -> Fr (f a) (f' a)) -> Fr (unionM unit f l) (unionM unit f' l).
  Proof.
    induction l as [|a l IH]; intros H; [apply Fr_refl|].
    rewrite !unionM_cons. apply Fr_bind; [apply H; now left|].
    intros b. apply Fr_bind; [apply IH; intros; apply H; now right|]. intros; apply Fr_refl.
  Qed.
End FrameEval.

(** ** the empty default dictionary: [mix {} o = o] for well-formed [o] *)
Lemma mixj_nil_l : forall j, wf_json j = true -> mixj (JObj []) j = j.
Proof.
  induction j using json_ind'; intros Hwf; try reflexivity.
  rewrite mixj_obj. cbn [as_dict]. f_equal.
  destruct (wf_json_obj _ Hwf) as [Hnd Hsub].
  unfold mix. rewrite mix_loop_nil_acc; [reflexivity| |exact Hnd|intros; reflexivity].
  intros k v Hin. unfold mix_entry. cbn [dget].
  destruct v; try reflexivity.
  rewrite Forall_forall in H. apply (H (k, JObj m0) Hin). cbn [snd]. apply (Hsub k _ Hin).
Qed.

Lemma mix_nil_l o : wf_dict o = true -> mix [] o = o.
Proof.
  intros Hwf. pose proof (mixj_nil_l (JObj o) Hwf) as H. rewrite mixj_obj in H. cbn [as_dict] in H.
  injection H as H. exact H.
Qed.

Lemma with_opts_nil force o : wf_dict o = true -> with_opts force [] o = o.
Proof. intros Hwf. destruct force; cbn [with_opts]; [apply mix_nil_r|now apply mix_nil_l]. Qed.

(** ** the fragment for which the frame theorem is proved *)
Fixpoint frag (e : expr) : bool :=
  match e with
  | EValue _ => true
  | EOption _ dflt dom =>
      match dflt with Some d => frag d | None => true end &&
      match dom with None => true | Some d => frag d end
  | EApply a b => frag a && frag b
  | EBind src tbl dflt =>
      frag src &&
      (fix go (l : list (value * expr)) : bool :=
         match l with [] => true | (_, x) :: l' => frag x && go l' end) tbl &&
      match dflt with Some d => frag d | None => true end
  | ESwitch disp tbl dflt =>
      frag disp &&
      (fix go (l : list (value * expr)) : bool :=
         match l with [] => true | (_, x) :: l' => frag x && go l' end) tbl &&
      match dflt with Some d => frag d | None => true end
  | ECase disp cases dflt =>
      frag disp &&
      (fix go (l : list (expr * expr)) : bool :=
         match l with [] => true | (c, r) :: l' => frag c && frag r && go l' end) cases &&
      match dflt with Some d => frag d | None => true end
  | ECoalesce ms => (fix go (l : list expr) : bool := match l with [] => true | x :: l' => frag x && go l' end) ms
  | EIter es => (fix go (l : list expr) : bool := match l with [] => true | x :: l' => frag x && go l' end) es
  | EMap _ _ => false
  | EWith _ p e => match p with [] => frag e | _ => false end
  | ECached _ e => frag e
  | ECall _ f args kwargs =>
      frag f &&
      (fix go (l : list expr) : bool := match l with [] => true | x :: l' => frag x && go l' end) args &&
      (fix go (l : list expr) : bool := match l with [] => true | x :: l' => frag x && go l' end) kwargs
  | ETemplate _ ps =>
      (fix go (l : list (N * expr)) : bool :=
         match l with [] => true | (_, x) :: l' => frag x && go l' end) ps
  | EComp e effs => frag e && (fix go (l : list expr) : bool := match l with [] => true | x :: l' => frag x && go l' end) effs
  | ELogged e => frag e
  | EPipe steps => (fix go (l : list expr) : bool := match l with [] => true | x :: l' => frag x && go l' end) steps
  | EAllOptions => false
  end.

Definition frag_all (l : list expr) : bool :=
  (fix go (l : list expr) : bool := match l with [] => true | x :: l' => frag x && go l' end) l.

Lemma frag_all_In l : frag_all l = true -> forall x, In x l -> frag x = true.
Proof.
  induction l as [|a l IH]; intros H x Hx; [destruct Hx|].
  cbn in H. apply andb_prop in H as [Ha Hl]. destruct Hx as [<-|Hx]; auto.
Qed.
