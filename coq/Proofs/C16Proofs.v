(** C16 — feature switches change side behaviour only, never values.

    One relational ("lock-step") theorem about two instances of the interpreters of
    Model/Eval.v, possibly with different store types, store operations, context switches
    ([config]), ghost oracles and — related by an invariant [Ro] — option dictionaries:
    [sim_main].  Its instances are the sentences of the property:

      - caching switched off (by [labrea.cache.disabled()] or by either option spelling) makes
        the run the cache-free reference run: store untouched, no cache traffic;
      - logging switched off (by [labrea.logging.disabled()] or by the option) only erases the
        emission events; everything else — results, store, user calls, cache traffic, log
        REQUESTS — is identical;
      - the two option dictionaries may differ in the LABREA section as long as the run on the
        first one reads no LABREA key (computed on its log).

    plus clause-level facts about Computation (effects) and Logged inside Cached.
    Generic in user code [ucall], the resolution budget, the store. *)
From Coq Require Import List NArith ZArith Bool Lia.
Import ListNotations.
From LV Require Import Model.Base Model.Template Model.Eval Model.Derived Model.EvalRun
  Proofs.BaseProofs Proofs.EvalProofs Proofs.EvalInd Proofs.TraceProofs Proofs.FrameProofs.

(** * 1. Related outcomes and the monad combinators *)
Section Sim.
  Variables S1 S2 : Type.
  Variable Rs : S1 -> S2 -> Prop.          (* the relation kept between the two stores *)
  Variables phi1 phi2 : event -> bool.     (* which events of each side are compared *)
  Variable g : event -> bool.              (* guard: the claim is made for runs whose FIRST log
                                              consists of events satisfying [g] *)

  Definition out (S A : Type) : Type := (res A * S * list event)%type.

  Definition simo {A} (x1 : out S1 A) (x2 : out S2 A) : Prop :=
    forallb g (snd x1) = true ->
    fst (fst x1) = fst (fst x2) /\ Rs (snd (fst x1)) (snd (fst x2)) /\
    filter phi1 (snd x1) = filter phi2 (snd x2).

  Definition sim {A} (m1 : M S1 A) (m2 : M S2 A) : Prop :=
    forall s1 s2, Rs s1 s2 -> simo (m1 s1) (m2 s2).

  Lemma sim_ret {A} (a : A) : sim (ret S1 a) (ret S2 a).
  Proof. intros s1 s2 H _. cbn. auto. Qed.
  Lemma sim_fail {A} c ee : sim (@fail S1 A c ee) (@fail S2 A c ee).
  Proof. intros s1 s2 H _. cbn. auto. Qed.
  Lemma sim_emit ev : (g ev = true -> phi1 ev = phi2 ev) -> sim (emit S1 ev) (emit S2 ev).
  Proof.
    intros Hp s1 s2 H Hg. cbn in *. rewrite andb_true_r in Hg. rewrite (Hp Hg). auto.
  Qed.
  (** events emitted on one side only must be invisible *)
  Lemma sim_emit_lists (l1 l2 : list event) (m1 : M S1 unit) (m2 : M S2 unit) :
    (forall s, m1 s = (Ok tt, s, l1)) -> (forall s, m2 s = (Ok tt, s, l2)) ->
    (forallb g l1 = true -> filter phi1 l1 = filter phi2 l2) -> sim m1 m2.
  Proof. intros E1 E2 Hf s1 s2 H Hg. rewrite E1, E2 in *. cbn in *. auto. Qed.

  Lemma sim_bind_post {A B} (Post : A -> Prop) (m1 : M S1 A) (m2 : M S2 A) (f1 : A -> M S1 B) (f2 : A -> M S2 B) :
    (forall s a s' l, m1 s = (Ok a, s', l) -> Post a) ->
    sim m1 m2 -> (forall a, Post a -> sim (f1 a) (f2 a)) -> sim (bind S1 m1 f1) (bind S2 m2 f2).
  Proof.
    intros HP Hm Hf s1 s2 HR. specialize (Hm s1 s2 HR). unfold simo, bind in *.
    destruct (m1 s1) as [[[a|c ee] t1] l1] eqn:E1; cbn [fst snd] in *.
    - destruct (f1 a t1) as [[r1 u1] k1] eqn:F1. cbn [fst snd]. intros Hg.
      rewrite forallb_app in Hg. apply andb_prop in Hg as [G1 G2].
      destruct (Hm G1) as (Hr & HR' & Hl).
      destruct (m2 s2) as [[[a2|c2 ee2] t2] l2] eqn:E2; cbn [fst snd] in *; [|discriminate].
      inversion Hr; subst a2.
      specialize (Hf a (HP _ _ _ _ E1) t1 t2 HR'). unfold simo in Hf. rewrite F1 in Hf. cbn [fst snd] in Hf.
      destruct (Hf G2) as (Hr2 & HR2 & Hl2).
      destruct (f2 a t2) as [[r2 u2] k2]. cbn [fst snd] in *.
      repeat split; auto. rewrite !filter_app. congruence.
    - intros Hg. destruct (Hm Hg) as (Hr & HR' & Hl).
      destruct (m2 s2) as [[[a2|c2 ee2] t2] l2] eqn:E2; cbn [fst snd] in *; [discriminate|].
      inversion Hr; subst. auto.
  Qed.

  Lemma sim_bind {A B} (m1 : M S1 A) (m2 : M S2 A) (f1 : A -> M S1 B) (f2 : A -> M S2 B) :
    sim m1 m2 -> (forall a, sim (f1 a) (f2 a)) -> sim (bind S1 m1 f1) (bind S2 m2 f2).
  Proof. intros Hm Hf. apply (sim_bind_post (fun _ => True)); auto. Qed.

  Lemma sim_catch {A} (m1 : M S1 A) (m2 : M S2 A) h1 h2 :
    sim m1 m2 -> (forall c ee, sim (h1 c ee) (h2 c ee)) -> sim (catch S1 m1 h1) (catch S2 m2 h2).
  Proof.
    intros Hm Hh s1 s2 HR. specialize (Hm s1 s2 HR). unfold simo, catch in *.
    destruct (m1 s1) as [[[a|c ee] t1] l1] eqn:E1; cbn [fst snd] in *.
    - intros Hg. destruct (Hm Hg) as (Hr & HR' & Hl).
      destruct (m2 s2) as [[[a2|c2 ee2] t2] l2] eqn:E2; cbn [fst snd] in *; [|discriminate]. auto.
    - assert (Hc : c = CUnmodelled \/ c <> CUnmodelled)
        by (destruct c; first [now left|right; discriminate]).
      destruct Hc as [->|Hne].
      + intros Hg. destruct (Hm Hg) as (Hr & HR' & Hl).
        destruct (m2 s2) as [[[a2|c2 ee2] t2] l2] eqn:E2; cbn [fst snd] in *; [discriminate|].
        inversion Hr; subst. auto.
      + assert (Hgoal :
          forallb g (l1 ++ snd (h1 c ee t1)) = true ->
          match m2 s2 with
          | (Ok a, s', l) => False
          | (Err c2 ee2, s', l) =>
              c2 = c /\ ee2 = ee /\
              fst (fst (h1 c ee t1)) = fst (fst (h2 c ee s')) /\
              Rs (snd (fst (h1 c ee t1))) (snd (fst (h2 c ee s'))) /\
              filter phi1 (l1 ++ snd (h1 c ee t1)) = filter phi2 (l ++ snd (h2 c ee s'))
          end).
        { intros Hg. rewrite forallb_app in Hg. apply andb_prop in Hg as [G1 G2].
          destruct (Hm G1) as (Hr & HR' & Hl).
          destruct (m2 s2) as [[[a2|c2 ee2] t2] l2] eqn:E2; cbn [fst snd] in *; [discriminate|].
          inversion Hr; subst c2 ee2. specialize (Hh c ee t1 t2 HR' G2).
          destruct Hh as (Hr2 & HR2 & Hl2). repeat split; auto. rewrite !filter_app. congruence. }
        destruct (h1 c ee t1) as [[r1 u1] k1] eqn:F1.
        assert (Hsame : (match c with
                         | CUnmodelled => (Err CUnmodelled ee, t1, l1)
                         | _ => (r1, u1, l1 ++ k1)
                         end) = (r1, u1, l1 ++ k1)) by (destruct c; congruence).
        destruct c; try (now elim Hne); cbn [fst snd] in *; intros Hg; specialize (Hgoal Hg);
          destruct (m2 s2) as [[[a2|c2 ee2] t2] l2]; try contradiction;
          destruct Hgoal as (-> & -> & Hr2 & HR2 & Hl2);
          destruct (h2 _ _ t2) as [[r2 u2] k2]; cbn [fst snd] in *; auto.
  Qed.

  Lemma sim_wrap {A} (m1 : M S1 A) (m2 : M S2 A) : sim m1 m2 -> sim (wrap_eval S1 m1) (wrap_eval S2 m2).
  Proof.
    intros Hm s1 s2 HR. specialize (Hm s1 s2 HR). unfold simo, wrap_eval in *.
    destruct (m1 s1) as [[[a|c ee] t1] l1]; destruct (m2 s2) as [[[a2|c2 ee2] t2] l2]; cbn [fst snd] in *;
      intros Hg; destruct (Hm Hg) as (Hr & HR' & Hl); try discriminate; repeat split; auto.
    inversion Hr; subst; reflexivity.
  Qed.

  Lemma sim_mapM {A B} (f1 : A -> M S1 B) (f2 : A -> M S2 B) l :
    (forall a, In a l -> sim (f1 a) (f2 a)) -> sim (mapM S1 f1 l) (mapM S2 f2 l).
  Proof.
    induction l as [|a l IH]; intros H; [apply sim_ret|]. rewrite !mapM_cons.
    apply sim_bind; [apply H; now left|]. intros b. apply sim_bind; [|intros; apply sim_ret].
    apply IH. intros x Hx. apply H. now right.
  Qed.
  Lemma sim_iterM {A} (f1 : A -> M S1 unit) (f2 : A -> M S2 unit) l :
    (forall a, In a l -> sim (f1 a) (f2 a)) -> sim (iterM S1 f1 l) (iterM S2 f2 l).
  Proof.
    induction l as [|a l IH]; intros H; [apply sim_ret|]. rewrite !iterM_cons.
    apply sim_bind; [apply H; now left|]. intros _. apply IH. intros x Hx. apply H. now right.
  Qed.
  Lemma sim_unionM {A} (f1 : A -> M S1 (list key)) (f2 : A -> M S2 (list key)) l :
    (forall a, In a l -> sim (f1 a) (f2 a)) -> sim (unionM S1 f1 l) (unionM S2 f2 l).
  Proof.
    induction l as [|a l IH]; intros H; [apply sim_ret|]. rewrite !unionM_cons.
    apply sim_bind; [apply H; now left|]. intros b. apply sim_bind; [|intros; apply sim_ret].
    apply IH. intros x Hx. apply H. now right.
  Qed.
  Lemma sim_pick {A} k (h1 : expr -> M S1 A) (h2 : expr -> M S2 A) m1 m2 tbl :
    (forall ve, In ve tbl -> sim (h1 (snd ve)) (h2 (snd ve))) -> sim m1 m2 ->
    sim (pick k h1 m1 tbl) (pick k h2 m2 tbl).
  Proof.
    intros Hh Hm. induction tbl as [|[v b] tbl IH]; [exact Hm|]. cbn [pick].
    destruct (value_eq k v).
    - apply (Hh (v, b)). now left.
    - apply IH. intros ve Hve. apply Hh. now right.
  Qed.
  Lemma sim_dflt_or {A} dflt (f1 : expr -> M S1 A) (f2 : expr -> M S2 A) n1 n2 :
    (forall d, dflt = Some d -> sim (f1 d) (f2 d)) -> sim n1 n2 ->
    sim (match dflt with Some d => f1 d | None => n1 end) (match dflt with Some d => f2 d | None => n2 end).
  Proof. intros Hf Hn. destruct dflt as [d|]; [now apply Hf|exact Hn]. Qed.
End Sim.

(** * 2. Event classes, monad laws, the store lookup as a computation *)
Definition uncond (ev : event) : bool :=
  match ev with EvRead _ _ | EvReadAll | EvCall _ _ | EvLogReq => true | _ => false end.
Definition cacheev (ev : event) : bool :=
  match ev with
  | EvCacheExists _ _ | EvCacheGet _ _ | EvCacheSet _ | EvLazyStored _ | EvDirty _ => true
  | _ => false
  end.

Definition find_m (S : Type) (mf : N -> fp -> S -> option value) (cid : N) (f : fp) : M S (option value) :=
  fun s => (Ok (mf cid f s), s, []).

Section Primed.
  Variable S : Type.
  Variable mem_find : N -> fp -> S -> option value.
  Variable mem_store : N -> fp -> value -> S -> S.
  Variable cfg : config.
  Variable ucall : N -> list value -> cres.
  Variable rfuel : nat.
  Variable site_ok : expr -> dict -> bool.
  Notation eval := (eval S mem_find mem_store cfg ucall rfuel site_ok).
  Notation fingerprint := (fingerprint S mem_find mem_store cfg ucall rfuel site_ok).
  Notation bind := (bind S).
  Notation ret := (ret S).
  Notation emit := (emit S).

  (** [store_back] / [cached_on] of TraceProofs with the store lookups as [find_m] *)
  Definition store_back' (cid : N) (e : expr) (o : dict) (v : value) : M S value :=
    bind (fingerprint e o) (fun f =>
    bind (put_store S (mem_store cid f (exhaust v))) (fun _ =>
    bind (emit (EvCacheSet cid)) (fun _ =>
    bind (if has_lazy v then emit (EvLazyStored cid) else ret tt) (fun _ =>
    bind (fingerprint e o) (fun f' =>
    bind (find_m S mem_find cid f') (fun r =>
      match r with
      | Some _ => bind (emit (EvCacheGet cid true)) (fun _ => ret v)
      | None => bind (emit (EvCacheGet cid false)) (fun _ => ret v)
      end)))))).
  Definition miss_path' (cid : N) (e : expr) (o : dict) : M S value :=
    bind (eval e o) (fun v => store_back' cid e o v).
  Definition cached_on' (cid : N) (e : expr) (o : dict) : M S value :=
    bind (if site_ok e o then ret tt else emit (EvDirty cid)) (fun _ =>
    bind (fingerprint e o) (fun f =>
    bind (find_m S mem_find cid f) (fun r =>
      match r with
      | Some _ =>
          bind (emit (EvCacheExists cid true)) (fun _ =>
          bind (fingerprint e o) (fun f2 =>
          bind (find_m S mem_find cid f2) (fun r2 =>
            match r2 with
            | Some v => bind (emit (EvCacheGet cid true)) (fun _ => ret v)
            | None => bind (emit (EvCacheGet cid false)) (fun _ => miss_path' cid e o)
            end)))
      | None => bind (emit (EvCacheExists cid false)) (fun _ => miss_path' cid e o)
      end))).

  Lemma cached_on_primed cid e o :
    cached_on S mem_find mem_store cfg ucall rfuel site_ok cid e o = cached_on' cid e o.
  Proof. reflexivity. Qed.

  Definition validate_cached_on' (cid : N) (e : expr) (o : dict) : M S unit :=
    bind (keys S mem_find mem_store cfg ucall rfuel site_ok e o) (fun ks =>
    bind (fingerprint_of S ks o) (fun f =>
    bind (find_m S mem_find cid f) (fun r =>
      match r with
      | Some _ => bind (emit (EvCacheExists cid true)) (fun _ => ret tt)
      | None => bind (emit (EvCacheExists cid false)) (fun _ =>
                  validate S mem_find mem_store cfg ucall rfuel site_ok e o)
      end))).
  Lemma validate_cached_primed cid e o :
    validate S mem_find mem_store cfg ucall rfuel site_ok (ECached (CMem cid) e) o =
      if cache_off cfg o then validate S mem_find mem_store cfg ucall rfuel site_ok e o
      else validate_cached_on' cid e o.
  Proof. reflexivity. Qed.

  (** the Template clause with the parameter dictionary inlined *)
  Definition template_tail (s : str) (o' o : dict) : M S value :=
    bind (emit_reads S (filter (fun k => negb (is_par_key k)) (resolve_reads rfuel o' (JStr s))) o) (fun _ =>
    bind (of_rres S (resolve rfuel o' (JStr s))) (fun j =>
      match to_str j with
      | Some r => ret (VJ (JStr r))
      | None => Eval.fail S CUnmodelled false
      end)).
  Definition template_pd (ps : list (N * expr)) (pvs : list (N * value)) : option dict :=
    match option_set (flat_map (fun pv => match json_of_value (snd pv) with
                                          | Some j => [(par_key (fst pv), j)] | None => [] end) pvs) [] with
    | None => None
    | Some pd => if negb (Nat.eqb (length pd) (length ps)) then None else Some pd
    end.
  Definition template' (s : str) (ps : list (N * expr)) (o : dict) : M S value :=
    bind (mapM S (fun pe => bind (eval (snd pe) o) (fun v => ret (fst pe, v))) ps) (fun pvs =>
      match template_pd ps pvs with
      | None => Eval.fail S CUnmodelled false
      | Some pd => template_tail s (mix o pd) o
      end).
  Lemma eval_template_primed s ps o st :
    eval (ETemplate s ps) o st = wrap_eval S (template' s ps o) st.
  Proof.
    rewrite eval_template_E. unfold wrap_eval. f_equal.
    unfold template', template_options, template_pd, template_tail, Eval.bind.
    destruct (mapM S _ ps st) as [[[pvs|c ee] s1] l1]; [|reflexivity].
    destruct (option_set _ []) as [pd|]; [|reflexivity].
    destruct (negb (Nat.eqb (length pd) (length ps))); [reflexivity|].
    unfold Eval.ret. cbv beta iota. rewrite app_nil_r. reflexivity.
  Qed.
End Primed.

(** * 3. The lock-step theorem *)
Lemma forallb_fst_combine {A B} (P : A -> bool) (ks : list A) : forall (l : list B),
  forallb P ks = true -> forallb P (map fst (combine ks l)) = true.
Proof.
  induction ks as [|k ks IH]; intros [|b l] H; try reflexivity.
  cbn in *. apply andb_prop in H as [H1 H2]. now rewrite H1, IH.
Qed.

Lemma mapM_ok_Forall S {A B} (f : A -> M S B) (Q : B -> Prop) l : forall s out s' lg,
  (forall a, In a l -> forall s b s' lg, f a s = (Ok b, s', lg) -> Q b) ->
  mapM S f l s = (Ok out, s', lg) -> Forall Q out.
Proof.
  induction l as [|a l IH]; intros s out s' lg H E.
  - cbn in E. inversion E; subst. constructor.
  - rewrite mapM_cons in E.
    apply bind_ok in E as (b & s1 & l1 & l2 & Ea & E & _).
    apply bind_ok in E as (bs & s2 & l3 & l4 & Eb & E & _).
    cbn in E. inversion E; subst. constructor.
    + eapply H; [now left|exact Ea].
    + eapply IH; [|exact Eb]. intros x Hx. apply H. now right.
Qed.

Section Main.
  Variables S1 S2 : Type.
  Variable mf1 : N -> fp -> S1 -> option value.
  Variable ms1 : N -> fp -> value -> S1 -> S1.
  Variable mf2 : N -> fp -> S2 -> option value.
  Variable ms2 : N -> fp -> value -> S2 -> S2.
  Variables cfg1 cfg2 : config.
  Variable ucall : N -> list value -> cres.
  Variable rfuel : nat.
  Variables site1 site2 : expr -> dict -> bool.
  Variable Rs : S1 -> S2 -> Prop.
  Variables phi1 phi2 g : event -> bool.
  Variable Ro : dict -> dict -> Prop.        (* invariant between the two current dictionaries *)
  Variable pres_ok : dict -> bool.           (* admissible pre-set / default dictionaries *)
  Variable key_ok : key -> bool.             (* admissible Map keys *)
  Variable eff_ok : list expr -> bool.       (* admissible effect lists *)
  Variable lock : bool.                      (* true: caches run in lock step; false: both off *)

  Notation eval1 := (eval S1 mf1 ms1 cfg1 ucall rfuel site1).
  Notation eval2 := (eval S2 mf2 ms2 cfg2 ucall rfuel site2).
  Notation validate1 := (validate S1 mf1 ms1 cfg1 ucall rfuel site1).
  Notation validate2 := (validate S2 mf2 ms2 cfg2 ucall rfuel site2).
  Notation keys1 := (keys S1 mf1 ms1 cfg1 ucall rfuel site1).
  Notation keys2 := (keys S2 mf2 ms2 cfg2 ucall rfuel site2).
  Notation sim := (sim S1 S2 Rs phi1 phi2 g).

  Definition log_off (cfg : config) (o : dict) : bool := cfg.(log_ctx_off) || logging_opt_off o.
  Definition osgood (os : dict) : Prop :=
    forall o1 o2, Ro o1 o2 -> Ro (with_opts true os o1) (with_opts true os o2).
  Definition rowok (row : list (key * value)) : Prop := forallb key_ok (map fst row) = true.

  Hypothesis Hphi_unc : forall ev, uncond ev = true -> g ev = true -> phi1 ev = phi2 ev.
  Hypothesis Ro_with : forall force p o1 o2,
    pres_ok p = true -> Ro o1 o2 -> Ro (with_opts force p o1) (with_opts force p o2).
  Hypothesis Ro_map : forall row os s s' l,
    rowok row -> row_options S1 row s = (Ok os, s', l) -> osgood os.
  (* the clauses that look at the dictionary *)
  Hypothesis L_rd : forall k o1 o2, Ro o1 o2 -> sim (rd S1 k o1) (rd S2 k o2).
  Hypothesis L_resolved : forall raw o1 o2, Ro o1 o2 ->
    sim (bind S1 (emit_reads S1 (resolve_reads rfuel o1 raw) o1)
           (fun _ => bind S1 (of_rres S1 (resolve rfuel o1 raw)) (fun j => ret S1 (VJ j))))
        (bind S2 (emit_reads S2 (resolve_reads rfuel o2 raw) o2)
           (fun _ => bind S2 (of_rres S2 (resolve rfuel o2 raw)) (fun j => ret S2 (VJ j)))).
  Hypothesis L_allopt : forall o1 o2, Ro o1 o2 ->
    sim (all_options_eval S1 rfuel o1) (all_options_eval S2 rfuel o2).
  Hypothesis L_template : forall s ps pvs pd o1 o2, template_pd ps pvs = Some pd -> Ro o1 o2 ->
    sim (template_tail S1 rfuel s (mix o1 pd) o1) (template_tail S2 rfuel s (mix o2 pd) o2).
  Hypothesis L_validate_ref : forall k o1 o2, Ro o1 o2 ->
    sim (validate_ref S1 rfuel o1 k) (validate_ref S2 rfuel o2 k).
  Hypothesis L_log : forall o1 o2, Ro o1 o2 ->
    forallb g (if log_off cfg1 o1 then [] else [EvLogEmit]) = true ->
    filter phi1 (if log_off cfg1 o1 then [] else [EvLogEmit]) =
    filter phi2 (if log_off cfg2 o2 then [] else [EvLogEmit]).
  Hypothesis L_eff : forall effs o1 o2, eff_ok effs = true -> Ro o1 o2 ->
    effs = [] \/ effects_opt_off o1 = effects_opt_off o2.
  (* caches: both off ... *)
  Hypothesis C_off : lock = false -> forall o1 o2, Ro o1 o2 ->
    cache_off cfg1 o1 = true /\ cache_off cfg2 o2 = true.
  (* ... or in lock step *)
  Hypothesis C_same : lock = true -> forall o1 o2, Ro o1 o2 -> cache_off cfg1 o1 = cache_off cfg2 o2.
  Hypothesis C_find : lock = true -> forall c f s1 s2, Rs s1 s2 -> mf1 c f s1 = mf2 c f s2.
  Hypothesis C_put : lock = true -> forall c f v s1 s2, Rs s1 s2 -> Rs (ms1 c f v s1) (ms2 c f v s2).
  Hypothesis C_site : lock = true -> forall e o1 o2, Ro o1 o2 -> site1 e o1 = site2 e o2.
  Hypothesis C_phi : lock = true -> forall ev, cacheev ev = true -> g ev = true -> phi1 ev = phi2 ev.
  Hypothesis K_ref_keys : lock = true -> forall k o1 o2, Ro o1 o2 ->
    sim (ref_keys S1 rfuel true o1 k) (ref_keys S2 rfuel true o2 k).
  Hypothesis K_filter : lock = true -> forall force p ks o1 o2, Ro o1 o2 ->
    sim (filter_preset S1 force p o1 (with_opts force p o1) ks)
        (filter_preset S2 force p o2 (with_opts force p o2) ks).
  Hypothesis K_fp : lock = true -> forall ks o1 o2, Ro o1 o2 ->
    sim (fingerprint_of S1 ks o1) (fingerprint_of S2 ks o2).
  Hypothesis K_all : lock = true -> forall o1 o2, Ro o1 o2 ->
    g EvReadAll = true -> map (fun kv : seg * json => [fst kv]) o1 = map (fun kv : seg * json => [fst kv]) o2.

  Fixpoint okexpr (e : expr) : bool :=
    match e with
    | EValue _ | EAllOptions => true
    | EOption _ dflt dom => optb okexpr dflt && optb okexpr dom
    | EApply src fn => okexpr src && okexpr fn
    | EBind src tbl dflt | ESwitch src tbl dflt =>
        okexpr src && forallb (fun ve => okexpr (snd ve)) tbl && optb okexpr dflt
    | ECase disp cases dflt =>
        okexpr disp && forallb (fun cr => okexpr (fst cr) && okexpr (snd cr)) cases && optb okexpr dflt
    | ECoalesce ms | EIter ms | EPipe ms => forallb okexpr ms
    | EMap e its => forallb key_ok (map fst its) && okexpr e && forallb (fun ke => okexpr (snd ke)) its
    | EWith _ p e => pres_ok p && okexpr e
    | ELogged e | ECached _ e => okexpr e
    | ECall _ f args kwargs => okexpr f && forallb okexpr args && forallb okexpr kwargs
    | ETemplate _ ps => forallb (fun pe => okexpr (snd pe)) ps
    | EComp e effects => eff_ok effects && okexpr e && forallb okexpr effects
    end.

  Ltac sim_step :=
    match goal with
    | |- C16Proofs.sim _ _ _ _ _ _ (Eval.bind _ _ _) (Eval.bind _ _ _) => apply sim_bind; [|intros ?]
    | |- C16Proofs.sim _ _ _ _ _ _ (Eval.ret _ _) (Eval.ret _ _) => apply sim_ret
    | |- C16Proofs.sim _ _ _ _ _ _ (Eval.fail _ _ _) (Eval.fail _ _ _) => apply sim_fail
    | |- C16Proofs.sim _ _ _ _ _ _ (Eval.emit _ _) (Eval.emit _ _) =>
        apply sim_emit; intros ?; apply Hphi_unc; [reflexivity|assumption]
    | |- C16Proofs.sim _ _ _ _ _ _ (Eval.catch _ _ _) (Eval.catch _ _ _) => apply sim_catch; [|intros ? ?]
    | |- C16Proofs.sim _ _ _ _ _ _ (Eval.wrap_eval _ _) (Eval.wrap_eval _ _) => apply sim_wrap
    | H : C16Proofs.sim _ _ _ _ _ _ ?a ?b |- C16Proofs.sim _ _ _ _ _ _ ?a ?b => exact H
    | |- C16Proofs.sim _ _ _ _ _ _ (if ?b then _ else _) (if ?b then _ else _) => destruct b
    | |- C16Proofs.sim _ _ _ _ _ _ (match ?x with _ => _ end) (match ?x with _ => _ end) => destruct x
    end.
  Ltac sim_tac := repeat sim_step.

  (** ** primitives that do not look at the dictionary *)
  Lemma sim_force_elems v : sim (force_elems S1 v) (force_elems S2 v).
  Proof. unfold force_elems. sim_tac. Qed.
  Lemma sim_call_fun f args : sim (call_fun S1 ucall f args) (call_fun S2 ucall f args).
  Proof. unfold call_fun. sim_tac; try apply sim_force_elems. Qed.
  Lemma sim_call_value f : forall x, sim (call_value S1 ucall f x) (call_value S2 ucall f x).
  Proof.
    induction f using value_ind'; intros x; try (cbn; apply sim_fail).
    rewrite !call_value_VF. destruct (N.eqb f B_COMPOSE); [|apply sim_call_fun].
    clear H0. revert x. induction H as [|g0 pre Hg Hpre IH]; intros x; cbn [compose_loop].
    - apply sim_ret.
    - apply sim_bind; [apply Hg|]. intros y. apply IH.
  Qed.
  Lemma sim_call_value_n f args : sim (call_value_n S1 ucall f args) (call_value_n S2 ucall f args).
  Proof. unfold call_value_n. sim_tac. apply sim_call_fun. Qed.
  Lemma sim_of_rres r : sim (of_rres S1 r) (of_rres S2 r).
  Proof. unfold of_rres. sim_tac. Qed.
  Lemma sim_in_domain d v : sim (in_domain S1 ucall d v) (in_domain S2 ucall d v).
  Proof. unfold in_domain. destruct d; sim_tac; apply sim_call_value. Qed.
  Lemma sim_row_options row : sim (row_options S1 row) (row_options S2 row).
  Proof. unfold row_options. sim_tac. Qed.

  (** ** the combinators that take the evaluators of sub-expressions *)
  Lemma sim_dflt dflt {A} (f1 : expr -> M S1 A) (f2 : expr -> M S2 A) n1 n2 :
    (forall d, dflt = Some d -> sim (f1 d) (f2 d)) -> sim n1 n2 ->
    sim (dflt_or S1 dflt f1 n1) (dflt_or S2 dflt f2 n2).
  Proof. intros Hf Hn. unfold dflt_or. destruct dflt as [d|]; [now apply Hf|exact Hn]. Qed.

  Lemma sim_option_eval ev1 ev2 k dflt dom o1 o2 :
    Ro o1 o2 ->
    (forall d, dflt = Some d -> sim (ev1 d) (ev2 d)) -> (forall d, dom = Some d -> sim (ev1 d) (ev2 d)) ->
    sim (option_eval S1 ucall rfuel ev1 k dflt dom o1) (option_eval S2 ucall rfuel ev2 k dflt dom o2).
  Proof.
    intros R Hd Hm. rewrite !option_eval_E. apply sim_bind; [now apply L_rd|]. intros r.
    apply sim_bind.
    - destruct r as [raw| |]; [| |apply sim_fail].
      + now apply L_resolved.
      + destruct dflt as [d|]; [now apply Hd|apply sim_fail].
    - intros v. destruct dom as [de|]; [|apply sim_ret].
      apply sim_bind; [now apply Hm|]. intros d. apply sim_bind; [apply sim_in_domain|]. intros; apply sim_ret.
  Qed.
  Lemma sim_dispatch_value ev1 ev2 b : sim ev1 ev2 -> sim (dispatch_value S1 ev1 b) (dispatch_value S2 ev2 b).
  Proof. intros H. unfold dispatch_value. sim_tac. Qed.
  Lemma sim_map_rows ev1 ev2 its :
    (forall kv, In kv its -> sim (ev1 (snd kv)) (ev2 (snd kv))) -> sim (map_rows S1 ev1 its) (map_rows S2 ev2 its).
  Proof.
    intros H. unfold map_rows. apply sim_bind; [|intros; apply sim_ret].
    apply sim_mapM. intros kv Hkv. apply sim_bind; [now apply H|]. intros; apply sim_force_elems.
  Qed.
  Lemma map_rows_post ev its s rows s' l :
    forallb key_ok (map fst its) = true -> map_rows S1 ev its s = (Ok rows, s', l) -> Forall rowok rows.
  Proof.
    intros Hk E. unfold map_rows in E.
    apply bind_ok in E as (vals & s1 & l1 & l2 & _ & E & _). cbn in E. inversion E; subst.
    apply Forall_forall. intros row Hrow. apply in_map_iff in Hrow as (combo & <- & _).
    unfold rowok. now apply forallb_fst_combine.
  Qed.
  Lemma sim_case_loop {A} o1 o2 x (fin1 : M S1 A) (fin2 : M S2 A) sel1 sel2 cases :
    sim fin1 fin2 ->
    (forall cr, In cr cases -> sim (eval1 (fst cr) o1) (eval2 (fst cr) o2) /\ sim (sel1 (snd cr)) (sel2 (snd cr))) ->
    sim (case_loop S1 mf1 ms1 cfg1 ucall rfuel site1 o1 x fin1 sel1 cases)
        (case_loop S2 mf2 ms2 cfg2 ucall rfuel site2 o2 x fin2 sel2 cases).
  Proof.
    intros Hf H. induction cases as [|[c r] cases IH]; [exact Hf|]. cbn [case_loop].
    destruct (H (c, r) (or_introl eq_refl)) as [Hc Hr]. cbn [fst snd] in *.
    apply sim_bind; [exact Hc|]. intros p. apply sim_bind; [apply sim_call_value|]. intros b.
    destruct (truthy b); [exact Hr|]. apply IH. intros cr Hcr. apply H. now right.
  Qed.
  Lemma sim_coal_loop {A} o1 o2 (act1 : expr -> M S1 A) (act2 : expr -> M S2 A) ms :
    (forall m, In m ms -> sim (validate1 m o1) (validate2 m o2) /\ sim (act1 m) (act2 m)) ->
    forall last, sim (coal_loop S1 mf1 ms1 cfg1 ucall rfuel site1 o1 act1 ms last)
                     (coal_loop S2 mf2 ms2 cfg2 ucall rfuel site2 o2 act2 ms last).
  Proof.
    induction ms as [|m ms IH]; intros H last; cbn [coal_loop].
    - destruct last as [[c ee]|]; apply sim_fail.
    - destruct (H m (or_introl eq_refl)) as [Hv Ha].
      apply sim_catch; [apply sim_bind; [exact Hv|intros; exact Ha]|].
      intros c ee. destruct ee; [|apply sim_fail]. apply IH. intros x Hx. apply H. now right.
  Qed.
  Lemma sim_iter_loop o1 o2 es :
    (forall x, In x es -> sim (eval1 x o1) (eval2 x o2)) ->
    sim (iter_loop S1 mf1 ms1 cfg1 ucall rfuel site1 o1 es) (iter_loop S2 mf2 ms2 cfg2 ucall rfuel site2 o2 es).
  Proof.
    induction es as [|x es IH]; intros H; cbn [iter_loop]; [apply sim_ret|].
    apply sim_catch; [|intros; apply sim_ret].
    apply sim_bind; [apply H; now left|]. intros v. destruct (is_some (deep_err v)); [apply sim_ret|].
    apply sim_bind; [|intros; apply sim_ret]. apply IH. intros y Hy. apply H. now right.
  Qed.
  Lemma sim_map_loop o1 o2 e rows :
    Ro o1 o2 -> Forall (fun ros : list (key * value) * dict => osgood (snd ros)) rows ->
    (forall o1' o2', Ro o1' o2' -> sim (eval1 e o1') (eval2 e o2')) ->
    sim (map_loop S1 mf1 ms1 cfg1 ucall rfuel site1 o1 e rows) (map_loop S2 mf2 ms2 cfg2 ucall rfuel site2 o2 e rows).
  Proof.
    intros R Hrows H. induction Hrows as [|[row os] rows Hos Hrows IH]; cbn [map_loop]; [apply sim_ret|].
    apply sim_catch; [|intros; apply sim_ret].
    apply sim_bind; [apply H; now apply Hos|]. intros v. destruct (is_some (deep_err v)); [apply sim_ret|].
    apply sim_bind; [exact IH|intros; apply sim_ret].
  Qed.

  (** ** the induction *)
  Definition sim3 (e : expr) : Prop :=
    forall o1 o2, Ro o1 o2 ->
      sim (eval1 e o1) (eval2 e o2) /\ sim (validate1 e o1) (validate2 e o2) /\
      (lock = true -> sim (keys1 e o1) (keys2 e o2)).
  Definition PP (e : expr) : Prop := okexpr e = true -> sim3 e.

  Lemma opt_use dflt : Popt PP dflt -> optb okexpr dflt = true -> forall d, dflt = Some d -> sim3 d.
  Proof. intros H1 H2 d ->. cbn in *. auto. Qed.
  Lemma list_use l : Forall PP l -> forallb okexpr l = true -> forall x, In x l -> sim3 x.
  Proof.
    intros H1 H2 x Hx. rewrite Forall_forall in H1. rewrite forallb_forall in H2. apply H1; auto.
  Qed.
  Lemma snd_use {K} (l : list (K * expr)) :
    Forall (fun ve => PP (snd ve)) l -> forallb (fun ve => okexpr (snd ve)) l = true ->
    forall ve, In ve l -> sim3 (snd ve).
  Proof.
    intros H1 H2 x Hx. rewrite Forall_forall in H1. rewrite forallb_forall in H2. apply H1; auto.
  Qed.
  Lemma cases_use cases :
    Forall (fun cr => PP (fst cr) /\ PP (snd cr)) cases ->
    forallb (fun cr => okexpr (fst cr) && okexpr (snd cr)) cases = true ->
    forall cr, In cr cases -> sim3 (fst cr) /\ sim3 (snd cr).
  Proof.
    intros H1 H2 x Hx. rewrite Forall_forall in H1. rewrite forallb_forall in H2.
    specialize (H1 x Hx). specialize (H2 x Hx). apply andb_prop in H2 as [Ha Hb].
    destruct H1 as [P1 P2]. split; auto.
  Qed.

  Ltac sim_ih :=
    match goal with
    | H : sim3 ?x, R : Ro ?o1 ?o2 |- C16Proofs.sim _ _ _ _ _ _ (Eval.eval _ _ _ _ _ _ _ ?x ?o1) (Eval.eval _ _ _ _ _ _ _ ?x ?o2) =>
        exact (proj1 (H o1 o2 R))
    | H : sim3 ?x, R : Ro ?o1 ?o2 |- C16Proofs.sim _ _ _ _ _ _ (Eval.validate _ _ _ _ _ _ _ ?x ?o1) (Eval.validate _ _ _ _ _ _ _ ?x ?o2) =>
        exact (proj1 (proj2 (H o1 o2 R)))
    | H : sim3 ?x, R : Ro ?o1 ?o2, L : lock = true |- C16Proofs.sim _ _ _ _ _ _ (Eval.keys _ _ _ _ _ _ _ ?x ?o1) (Eval.keys _ _ _ _ _ _ _ ?x ?o2) =>
        exact (proj2 (proj2 (H o1 o2 R)) L)
    end.
  Ltac sim_child :=
    match goal with
    | H : forall x, In x ?l -> sim3 x, Hx : In ?y ?l |- _ => pose proof (H y Hx); clear Hx; sim_ih
    | H : forall ve, In ve ?l -> sim3 (snd ve), Hx : In ?y ?l |- _ => pose proof (H y Hx); clear Hx; sim_ih
    | H : forall d, ?dflt = Some d -> sim3 d, Hx : ?dflt = Some ?y |- _ => pose proof (H y Hx); clear Hx; sim_ih
    end.
  Ltac sim_go := repeat first [sim_ih | sim_child | sim_step].

  Lemma main_EOption k dflt dom : Popt PP dflt -> Popt PP dom -> PP (EOption k dflt dom).
  Proof.
    intros Hd Hm Hc. cbn [okexpr] in Hc. apply andb_prop in Hc as [C1 C2].
    pose proof (opt_use _ Hd C1) as Ud. pose proof (opt_use _ Hm C2) as Um.
    assert (Hev : forall o1 o2, Ro o1 o2 ->
              sim (option_eval S1 ucall rfuel (fun x => eval1 x o1) k dflt dom o1)
                  (option_eval S2 ucall rfuel (fun x => eval2 x o2) k dflt dom o2)).
    { intros o1 o2 R. apply sim_option_eval; [exact R| |]; intros d Ed; sim_go. }
    intros o1 o2 R. split; [|split; [|intros Hlk]].
    - rewrite !eval_option_unfold. apply sim_wrap. now apply Hev.
    - rewrite !validate_option_E. apply sim_bind; [now apply L_rd|]. intros r.
      destruct r as [raw| |]; [| |apply sim_fail].
      + apply sim_bind; [apply sim_wrap; now apply Hev|intros; apply sim_ret].
      + apply sim_dflt; [|apply sim_fail]. intros d Ed. sim_go.
    - rewrite !keys_option_E. apply sim_bind; [now apply L_rd|]. intros r.
      destruct r as [[]| |]; try apply sim_ret; try apply sim_fail.
      + destruct (has_par s); [apply sim_fail|]. apply sim_bind; [|intros; apply sim_ret].
        apply sim_unionM. intros; now apply K_ref_keys.
      + apply sim_dflt; [|apply sim_fail]. intros d Ed. sim_go.
  Qed.

  Lemma main_EApply src fn : PP src -> PP fn -> PP (EApply src fn).
  Proof.
    intros H1 H2 Hc. cbn [okexpr] in Hc. apply andb_prop in Hc as [C1 C2].
    specialize (H1 C1). specialize (H2 C2). intros o1 o2 R. split; [|split; [|intros Hlk]].
    - rewrite !eval_apply_E. sim_go. apply sim_call_value.
    - rewrite !validate_apply_E. sim_go.
    - rewrite !keys_apply_E. sim_go.
  Qed.

  Lemma main_EBind src tbl dflt :
    PP src -> Forall (fun ve => PP (snd ve)) tbl -> Popt PP dflt -> PP (EBind src tbl dflt).
  Proof.
    intros H1 H2 H3 Hc. cbn [okexpr] in Hc.
    apply andb_prop in Hc as [Hc C3]. apply andb_prop in Hc as [C1 C2].
    specialize (H1 C1). pose proof (snd_use _ H2 C2) as Ut. pose proof (opt_use _ H3 C3) as Ud.
    intros o1 o2 R. split; [|split; [|intros Hlk]].
    - rewrite !eval_bind_E. sim_go. apply sim_pick; [intros ve Hve; sim_go|].
      apply sim_dflt; [intros d Ed; sim_go|apply sim_fail].
    - rewrite !validate_bind_E. sim_go. apply sim_pick; [intros ve Hve; sim_go|].
      apply sim_dflt; [intros d Ed; sim_go|apply sim_fail].
    - rewrite !keys_bind_E. sim_go. apply sim_pick; [intros ve Hve; sim_go|].
      apply sim_dflt; [intros d Ed; sim_go|apply sim_fail].
  Qed.

  Lemma main_ESwitch disp tbl dflt :
    PP disp -> Forall (fun ve => PP (snd ve)) tbl -> Popt PP dflt -> PP (ESwitch disp tbl dflt).
  Proof.
    intros H1 H2 H3 Hc. cbn [okexpr] in Hc.
    apply andb_prop in Hc as [Hc C3]. apply andb_prop in Hc as [C1 C2].
    specialize (H1 C1). pose proof (snd_use _ H2 C2) as Ut. pose proof (opt_use _ H3 C3) as Ud.
    intros o1 o2 R. split; [|split; [|intros Hlk]].
    - rewrite !eval_switch_E. apply sim_wrap. apply sim_bind; [apply sim_dispatch_value; sim_go|].
      intros [k|]; [|apply sim_dflt; [intros d Ed; sim_go|apply sim_fail]].
      destruct (negb (hashable k)); [apply sim_fail|].
      apply sim_pick; [intros ve Hve; sim_go|]. apply sim_dflt; [intros d Ed; sim_go|apply sim_fail].
    - rewrite !validate_switch_E. apply sim_bind; [apply sim_dispatch_value; sim_go|].
      intros [k|]; [|apply sim_dflt; [intros d Ed; sim_go|apply sim_fail]].
      destruct (negb (hashable k)); [apply sim_fail|].
      apply sim_pick; [intros ve Hve; sim_go|]. apply sim_dflt; [intros d Ed; sim_go|apply sim_fail].
    - rewrite !keys_switch_E. apply sim_bind; [apply sim_dispatch_value; sim_go|].
      intros [k|]; [|apply sim_dflt; [intros d Ed; sim_go|apply sim_fail]].
      destruct (negb (hashable k)); [apply sim_fail|].
      apply sim_bind; [|intros; sim_go].
      apply sim_pick; [intros ve Hve; sim_go|]. apply sim_dflt; [intros d Ed; sim_go|apply sim_fail].
  Qed.

  Lemma main_ECase disp cases dflt :
    PP disp -> Forall (fun cr => PP (fst cr) /\ PP (snd cr)) cases -> Popt PP dflt ->
    PP (ECase disp cases dflt).
  Proof.
    intros H1 H2 H3 Hc. cbn [okexpr] in Hc.
    apply andb_prop in Hc as [Hc C3]. apply andb_prop in Hc as [C1 C2].
    specialize (H1 C1). pose proof (cases_use _ H2 C2) as Uc. pose proof (opt_use _ H3 C3) as Ud.
    intros o1 o2 R. split; [|split; [|intros Hlk]].
    - rewrite !eval_case_E. apply sim_wrap. apply sim_bind; [sim_go|]. intros x.
      apply sim_case_loop; [apply sim_dflt; [intros d Ed; sim_go|apply sim_fail]|].
      intros cr Hcr. destruct (Uc cr Hcr) as [Ua Ub]. split; sim_go.
    - rewrite !validate_case_E. apply sim_bind; [sim_go|]. intros _. apply sim_bind; [sim_go|]. intros x.
      apply sim_case_loop; [apply sim_dflt; [intros d Ed; sim_go|apply sim_fail]|].
      intros cr Hcr. destruct (Uc cr Hcr) as [Ua Ub]. split; sim_go.
    - rewrite !keys_case_E. apply sim_bind; [sim_go|]. intros a. apply sim_bind; [sim_go|]. intros x.
      apply sim_bind; [|intros; apply sim_ret].
      apply sim_case_loop; [apply sim_dflt; [intros d Ed; sim_go|apply sim_fail]|].
      intros cr Hcr. destruct (Uc cr Hcr) as [Ua Ub]. split; sim_go.
  Qed.

  Lemma main_ECoalesce ms : Forall PP ms -> PP (ECoalesce ms).
  Proof.
    intros H1 Hc. cbn [okexpr] in Hc. pose proof (list_use _ H1 Hc) as U.
    intros o1 o2 R. split; [|split; [|intros Hlk]].
    - rewrite !eval_coalesce_E. apply sim_wrap. apply sim_coal_loop. intros m Hm.
      pose proof (U m Hm). split; sim_go.
    - rewrite !validate_coalesce_E. apply sim_coal_loop. intros m Hm. pose proof (U m Hm). split; sim_go.
    - rewrite !keys_coalesce_E. apply sim_coal_loop. intros m Hm. pose proof (U m Hm). split; sim_go.
  Qed.

  Lemma main_EIter es : Forall PP es -> PP (EIter es).
  Proof.
    intros H1 Hc. cbn [okexpr] in Hc. pose proof (list_use _ H1 Hc) as U.
    intros o1 o2 R. split; [|split; [|intros Hlk]].
    - rewrite !eval_iter_E. apply sim_wrap. apply sim_bind; [|intros; apply sim_ret].
      apply sim_iter_loop. intros x Hx. sim_go.
    - rewrite !validate_iter_E. apply sim_iterM. intros x Hx. sim_go.
    - rewrite !keys_iter_E. apply sim_unionM. intros x Hx. sim_go.
  Qed.

  Lemma main_EPipe steps : Forall PP steps -> PP (EPipe steps).
  Proof.
    intros H1 Hc. cbn [okexpr] in Hc. pose proof (list_use _ H1 Hc) as U.
    intros o1 o2 R. split; [|split; [|intros Hlk]].
    - rewrite !eval_pipe_E. apply sim_wrap. apply sim_bind; [|intros; apply sim_ret].
      apply sim_mapM. intros x Hx. sim_go.
    - rewrite !validate_pipe_E. apply sim_iterM. intros x Hx. sim_go.
    - rewrite !keys_pipe_E. apply sim_unionM. intros x Hx. sim_go.
  Qed.

  Lemma main_EWith force p e : PP e -> PP (EWith force p e).
  Proof.
    intros H1 Hc. cbn [okexpr] in Hc. apply andb_prop in Hc as [Cp Ce]. specialize (H1 Ce).
    intros o1 o2 R. pose proof (Ro_with force p o1 o2 Cp R) as R'. split; [|split; [|intros Hlk]].
    - rewrite !eval_with_E. sim_go.
    - rewrite !validate_with_E. sim_go.
    - rewrite !keys_with_E. apply sim_bind; [sim_go|]. intros ks. now apply K_filter.
  Qed.

  Lemma main_ECall partial f args kwargs :
    PP f -> Forall PP args -> Forall PP kwargs -> PP (ECall partial f args kwargs).
  Proof.
    intros H1 H2 H3 Hc. cbn [okexpr] in Hc.
    apply andb_prop in Hc as [Hc C3]. apply andb_prop in Hc as [C1 C2].
    specialize (H1 C1). pose proof (list_use _ H2 C2) as Ua. pose proof (list_use _ H3 C3) as Uk.
    intros o1 o2 R. split; [|split; [|intros Hlk]].
    - rewrite !eval_call_E. apply sim_wrap. apply sim_bind; [sim_go|]. intros fv.
      apply sim_bind; [apply sim_mapM; intros x Hx; sim_go|]. intros av.
      apply sim_bind; [apply sim_mapM; intros x Hx; sim_go|]. intros kv.
      destruct partial; [destruct fv; sim_go|apply sim_call_value_n].
    - rewrite !validate_call_E. apply sim_bind; [sim_go|]. intros _.
      apply sim_bind; [apply sim_iterM; intros x Hx; sim_go|]. intros _.
      apply sim_iterM; intros x Hx; sim_go.
    - rewrite !keys_call_E. apply sim_bind; [sim_go|]. intros a.
      apply sim_bind; [apply sim_unionM; intros x Hx; sim_go|]. intros b.
      apply sim_bind; [apply sim_unionM; intros x Hx; sim_go|]. intros; apply sim_ret.
  Qed.

  Lemma sim_ext {A} (m1 m1' : M S1 A) (m2 m2' : M S2 A) :
    (forall s, m1 s = m1' s) -> (forall s, m2 s = m2' s) -> sim m1' m2' -> sim m1 m2.
  Proof. intros E1 E2 H s1 s2 R. rewrite E1, E2. now apply H. Qed.

  Lemma main_EMap e its : PP e -> Forall (fun ke => PP (snd ke)) its -> PP (EMap e its).
  Proof.
    intros H1 H2 Hc. cbn [okexpr] in Hc.
    apply andb_prop in Hc as [Hc C2]. apply andb_prop in Hc as [Ck C1].
    specialize (H1 C1). pose proof (snd_use _ H2 C2) as Ui.
    assert (Hrows : forall o1 o2, Ro o1 o2 ->
              sim (map_rows S1 (fun x => eval1 x o1) its) (map_rows S2 (fun x => eval2 x o2) its)).
    { intros o1 o2 R. apply sim_map_rows. intros kv Hkv. sim_go. }
    assert (Hpost : forall o1 s rows s' l,
              map_rows S1 (fun x => eval1 x o1) its s = (Ok rows, s', l) -> Forall rowok rows).
    { intros o1 s rows s' l E. eapply map_rows_post; eauto. }
    intros o1 o2 R. split; [|split; [|intros Hlk]].
    - rewrite !eval_map_E. apply sim_wrap.
      apply (sim_bind_post _ _ _ _ _ _ (Forall rowok)); [apply Hpost|now apply Hrows|].
      intros rows Hr.
      apply (sim_bind_post _ _ _ _ _ _ (Forall (fun ros : list (key * value) * dict => osgood (snd ros)))).
      + intros s out s' l E. eapply mapM_ok_Forall; [|exact E].
        intros row Hrow s0 b s0' l0 Eb.
        apply bind_ok in Eb as (os & s1 & l1 & l2 & Eo & Eb & _). cbn in Eb. inversion Eb; subst. cbn [snd].
        eapply Ro_map; [|exact Eo]. rewrite Forall_forall in Hr. now apply Hr.
      + apply sim_mapM. intros row _. apply sim_bind; [apply sim_row_options|intros; apply sim_ret].
      + intros rowsos Hgood. apply sim_bind; [|intros; apply sim_ret].
        apply sim_map_loop; auto. intros o1' o2' R'. sim_go.
    - rewrite !validate_map_E.
      apply (sim_bind_post _ _ _ _ _ _ (Forall rowok)); [apply Hpost|now apply Hrows|].
      intros rows Hr. apply sim_iterM. intros row Hrow.
      apply (sim_bind_post _ _ _ _ _ _ osgood).
      + intros s os s' l Eo. eapply Ro_map; [|exact Eo]. rewrite Forall_forall in Hr. now apply Hr.
      + apply sim_row_options.
      + intros os Hos. pose proof (Hos o1 o2 R) as R'. sim_go.
    - rewrite !keys_map_E.
      apply (sim_bind_post _ _ _ _ _ _ (Forall rowok)); [apply Hpost|now apply Hrows|].
      intros rows Hr. apply sim_bind.
      + apply sim_unionM. intros row Hrow.
        apply (sim_bind_post _ _ _ _ _ _ osgood).
        * intros s os s' l Eo. eapply Ro_map; [|exact Eo]. rewrite Forall_forall in Hr. now apply Hr.
        * apply sim_row_options.
        * intros os Hos. pose proof (Hos o1 o2 R) as R'.
          apply sim_bind; [sim_go|]. intros ks. now apply K_filter.
      + intros a. apply sim_bind; [|intros; apply sim_ret]. apply sim_unionM. intros kv Hkv. sim_go.
  Qed.

  Lemma main_ETemplate s ps : Forall (fun pe => PP (snd pe)) ps -> PP (ETemplate s ps).
  Proof.
    intros H1 Hc. cbn [okexpr] in Hc. pose proof (snd_use _ H1 Hc) as U.
    intros o1 o2 R. split; [|split; [|intros Hlk]].
    - eapply sim_ext; [intros st; apply eval_template_primed|intros st; apply eval_template_primed|].
      apply sim_wrap. unfold template'. apply sim_bind.
      + apply sim_mapM. intros pe Hpe. apply sim_bind; [sim_go|intros; apply sim_ret].
      + intros pvs. destruct (template_pd ps pvs) as [pd|] eqn:Epd; [now apply (L_template s ps pvs pd)|apply sim_fail].
    - rewrite !validate_template_E. apply sim_bind; [apply sim_iterM; intros pe Hpe; sim_go|]. intros _.
      apply sim_iterM. intros k _. now apply L_validate_ref.
    - rewrite !keys_template_E. apply sim_bind; [apply sim_unionM; intros pe Hpe; sim_go|]. intros a.
      apply sim_bind; [apply sim_unionM; intros; now apply K_ref_keys|intros; apply sim_ret].
  Qed.

  Lemma main_EComp e effects : PP e -> Forall PP effects -> PP (EComp e effects).
  Proof.
    intros H1 H2 Hc. cbn [okexpr] in Hc.
    apply andb_prop in Hc as [Hc C2]. apply andb_prop in Hc as [Ce C1].
    specialize (H1 C1). pose proof (list_use _ H2 C2) as U.
    intros o1 o2 R. split; [|split; [|intros Hlk]].
    - rewrite !eval_comp_E. apply sim_wrap. apply sim_bind; [sim_go|]. intros v.
      apply sim_bind; [|intros; apply sim_ret].
      destruct (L_eff effects o1 o2 Ce R) as [->|E].
      + destruct (effects_opt_off o1), (effects_opt_off o2); apply sim_ret.
      + rewrite E. destruct (effects_opt_off o2); [apply sim_ret|].
        apply sim_iterM. intros x Hx. unfold effect_run. apply sim_bind; [sim_go|]. intros f.
        apply sim_bind; [apply sim_call_value|intros; apply sim_ret].
    - rewrite !validate_comp_E. apply sim_bind; [sim_go|]. intros _.
      destruct (L_eff effects o1 o2 Ce R) as [->|E].
      + destruct (effects_opt_off o1), (effects_opt_off o2); apply sim_ret.
      + rewrite E. destruct (effects_opt_off o2); [apply sim_ret|]. apply sim_iterM. intros x Hx. sim_go.
    - rewrite !keys_comp_E. sim_go.
  Qed.

  Lemma main_ELogged e : PP e -> PP (ELogged e).
  Proof.
    intros H1 Hc. cbn [okexpr] in Hc. specialize (H1 Hc).
    intros o1 o2 R. split; [|split; [|intros Hlk]].
    - rewrite !eval_logged_E. apply sim_wrap. apply sim_bind; [sim_go|]. intros _.
      apply sim_bind; [|intros; sim_go].
      apply (sim_emit_lists _ _ _ _ _ _ (if log_off cfg1 o1 then [] else [EvLogEmit])
                                        (if log_off cfg2 o2 then [] else [EvLogEmit])).
      + intros s. unfold log_off. destruct (log_ctx_off cfg1 || logging_opt_off o1); reflexivity.
      + intros s. unfold log_off. destruct (log_ctx_off cfg2 || logging_opt_off o2); reflexivity.
      + now apply L_log.
    - rewrite !validate_logged_E. sim_go.
    - rewrite !keys_logged_E. sim_go.
  Qed.

  Lemma main_leaves : PP EAllOptions /\ forall v, PP (EValue v).
  Proof.
    split.
    - intros _ o1 o2 R. split; [|split; [|intros Hlk]].
      + rewrite !eval_alloptions_E. apply sim_wrap. now apply L_allopt.
      + rewrite !validate_alloptions_E. apply sim_bind; [apply sim_wrap; now apply L_allopt|intros; apply sim_ret].
      + rewrite !keys_alloptions_E. intros s1 s2 HR Hg. cbn in *. rewrite andb_true_r in Hg.
        rewrite (K_all Hlk o1 o2 R Hg). rewrite (Hphi_unc EvReadAll eq_refl Hg). auto.
    - intros v _ o1 o2 R. split; [|split; [|intros Hlk]].
      + rewrite !eval_value_E. sim_go.
      + rewrite !validate_value_E. sim_go.
      + rewrite !keys_value_E. sim_go.
  Qed.

  (** ** the cache site *)
  Lemma sim_find cid f : lock = true -> sim (find_m S1 mf1 cid f) (find_m S2 mf2 cid f).
  Proof.
    intros Hlk s1 s2 HR _. unfold find_m. cbn. rewrite (C_find Hlk cid f s1 s2 HR). auto.
  Qed.
  Lemma sim_put cid f v :
    lock = true -> sim (put_store S1 (ms1 cid f v)) (put_store S2 (ms2 cid f v)).
  Proof. intros Hlk s1 s2 HR _. unfold put_store. cbn. repeat split; auto. Qed.
  Lemma sim_cache_emit ev : lock = true -> cacheev ev = true -> sim (emit S1 ev) (emit S2 ev).
  Proof. intros Hlk Hc. apply sim_emit. intros Hg. now apply C_phi. Qed.

  Lemma sim_fingerprint e o1 o2 :
    lock = true -> sim3 e -> Ro o1 o2 ->
    sim (fingerprint S1 mf1 ms1 cfg1 ucall rfuel site1 e o1) (fingerprint S2 mf2 ms2 cfg2 ucall rfuel site2 e o2).
  Proof.
    intros Hlk H R. unfold fingerprint. apply sim_bind; [sim_ih|]. intros ks. now apply K_fp.
  Qed.

  Lemma main_ECached c e : PP e -> PP (ECached c e).
  Proof.
    intros H1 Hc. cbn [okexpr] in Hc. specialize (H1 Hc). destruct c as [cid|].
    - assert (Hsb : lock = true -> forall o1 o2 v, Ro o1 o2 ->
                sim (store_back' S1 mf1 ms1 cfg1 ucall rfuel site1 cid e o1 v)
                    (store_back' S2 mf2 ms2 cfg2 ucall rfuel site2 cid e o2 v)).
      { intros Hlk o1 o2 v R. unfold store_back'.
        apply sim_bind; [now apply sim_fingerprint|]. intros f.
        apply sim_bind; [now apply sim_put|]. intros _.
        apply sim_bind; [now apply sim_cache_emit|]. intros _.
        apply sim_bind; [destruct (has_lazy v); [now apply sim_cache_emit|apply sim_ret]|]. intros _.
        apply sim_bind; [now apply sim_fingerprint|]. intros f'.
        apply sim_bind; [now apply sim_find|]. intros r.
        destruct r; (apply sim_bind; [now apply sim_cache_emit|intros; apply sim_ret]). }
      assert (Hmiss : lock = true -> forall o1 o2, Ro o1 o2 ->
                sim (miss_path' S1 mf1 ms1 cfg1 ucall rfuel site1 cid e o1)
                    (miss_path' S2 mf2 ms2 cfg2 ucall rfuel site2 cid e o2)).
      { intros Hlk o1 o2 R. unfold miss_path'. apply sim_bind; [sim_ih|]. intros v. now apply Hsb. }
      intros o1 o2 R. split; [|split; [|intros Hlk]].
      + rewrite !eval_cached_mem_E. apply sim_wrap.
        destruct (Bool.bool_dec lock true) as [Hlk|Hlk]; [|apply not_true_is_false in Hlk].
        * rewrite (C_same Hlk o1 o2 R). destruct (cache_off cfg2 o2); [sim_ih|].
          rewrite (cached_on_primed S1), (cached_on_primed S2). unfold cached_on'.
          apply sim_bind.
          { rewrite (C_site Hlk e o1 o2 R). destruct (site2 e o2); [apply sim_ret|now apply sim_cache_emit]. }
          intros _. apply sim_bind; [now apply sim_fingerprint|]. intros f.
          apply sim_bind; [now apply sim_find|]. intros r. destruct r as [v0|].
          { apply sim_bind; [now apply sim_cache_emit|]. intros _.
            apply sim_bind; [now apply sim_fingerprint|]. intros f2.
            apply sim_bind; [now apply sim_find|]. intros r2.
            destruct r2; (apply sim_bind; [now apply sim_cache_emit|]); intros _;
              [apply sim_ret|now apply Hmiss]. }
          { apply sim_bind; [now apply sim_cache_emit|]. intros _. now apply Hmiss. }
        * destruct (C_off Hlk o1 o2 R) as [E1 E2]. rewrite E1, E2. sim_ih.
      + rewrite (validate_cached_primed S1), (validate_cached_primed S2).
        destruct (Bool.bool_dec lock true) as [Hlk|Hlk]; [|apply not_true_is_false in Hlk].
        * rewrite (C_same Hlk o1 o2 R). destruct (cache_off cfg2 o2); [sim_ih|].
          unfold validate_cached_on'.
          apply sim_bind; [sim_ih|]. intros ks. apply sim_bind; [now apply K_fp|]. intros f.
          apply sim_bind; [now apply sim_find|]. intros r.
          destruct r; (apply sim_bind; [now apply sim_cache_emit|]); intros _; [apply sim_ret|sim_ih].
        * destruct (C_off Hlk o1 o2 R) as [E1 E2]. rewrite E1, E2. sim_ih.
      + rewrite !keys_cached_E. sim_ih.
    - intros o1 o2 R. split; [|split; [|intros Hlk]].
      + rewrite !eval_cached_none_E. sim_go.
      + rewrite !validate_cached_none_E. sim_go.
      + rewrite !keys_cached_E. sim_go.
  Qed.

  (** THE LOCK-STEP THEOREM *)
  Theorem sim_main e : okexpr e = true -> sim3 e.
  Proof.
    induction e using expr_ind'.
    - apply (proj2 main_leaves).
    - now apply main_EOption.
    - now apply main_EApply.
    - now apply main_EBind.
    - now apply main_ESwitch.
    - now apply main_ECase.
    - now apply main_ECoalesce.
    - now apply main_EIter.
    - now apply main_EMap.
    - now apply main_EWith.
    - now apply main_ECached.
    - now apply main_ECall.
    - now apply main_ETemplate.
    - now apply main_EComp.
    - now apply main_ELogged.
    - now apply main_EPipe.
    - apply (proj1 main_leaves).
  Qed.
End Main.

(** * 4. Both runs under the SAME dictionaries (an invariant [Inv] of the dictionaries reached) *)
Section SameDict.
  Variables S1 S2 : Type.
  Variable mf1 : N -> fp -> S1 -> option value.
  Variable ms1 : N -> fp -> value -> S1 -> S1.
  Variable mf2 : N -> fp -> S2 -> option value.
  Variable ms2 : N -> fp -> value -> S2 -> S2.
  Variables cfg1 cfg2 : config.
  Variable ucall : N -> list value -> cres.
  Variable rfuel : nat.
  Variables site1 site2 : expr -> dict -> bool.
  Variable Rs : S1 -> S2 -> Prop.
  Variables phi1 phi2 g : event -> bool.
  Variable Inv : dict -> Prop.
  Variable pres_ok : dict -> bool.
  Variable key_ok : key -> bool.
  Variable lock : bool.

  Notation sim := (sim S1 S2 Rs phi1 phi2 g).
  Hypothesis Hphi_unc : forall ev, uncond ev = true -> g ev = true -> phi1 ev = phi2 ev.

  Ltac sstep :=
    match goal with
    | |- C16Proofs.sim _ _ _ _ _ _ (Eval.bind _ _ _) (Eval.bind _ _ _) => apply sim_bind; [|intros ?]
    | |- C16Proofs.sim _ _ _ _ _ _ (Eval.ret _ _) (Eval.ret _ _) => apply sim_ret
    | |- C16Proofs.sim _ _ _ _ _ _ (Eval.fail _ _ _) (Eval.fail _ _ _) => apply sim_fail
    | |- C16Proofs.sim _ _ _ _ _ _ (Eval.emit _ _) (Eval.emit _ _) =>
        apply sim_emit; intros ?; apply Hphi_unc; [reflexivity|assumption]
    | |- C16Proofs.sim _ _ _ _ _ _ (Eval.wrap_eval _ _) (Eval.wrap_eval _ _) => apply sim_wrap
    | |- C16Proofs.sim _ _ _ _ _ _ (if ?b then _ else _) (if ?b then _ else _) => destruct b
    | |- C16Proofs.sim _ _ _ _ _ _ (match ?x with _ => _ end) (match ?x with _ => _ end) => destruct x
    end.

  Lemma same_rd k o : sim (rd S1 k o) (rd S2 k o).
  Proof. unfold rd. repeat sstep. Qed.
  Lemma same_emit_reads ks o : sim (emit_reads S1 ks o) (emit_reads S2 ks o).
  Proof. unfold emit_reads. apply sim_iterM. intros. sstep. Qed.
  Lemma same_of_rres r : sim (of_rres S1 r) (of_rres S2 r).
  Proof. unfold of_rres. repeat sstep. Qed.
  Lemma same_resolved raw o :
    sim (bind S1 (emit_reads S1 (resolve_reads rfuel o raw) o)
           (fun _ => bind S1 (of_rres S1 (resolve rfuel o raw)) (fun j => ret S1 (VJ j))))
        (bind S2 (emit_reads S2 (resolve_reads rfuel o raw) o)
           (fun _ => bind S2 (of_rres S2 (resolve rfuel o raw)) (fun j => ret S2 (VJ j)))).
  Proof. apply sim_bind; [apply same_emit_reads|]. intros _. apply sim_bind; [apply same_of_rres|]. intros; apply sim_ret. Qed.
  Lemma same_allopt o : sim (all_options_eval S1 rfuel o) (all_options_eval S2 rfuel o).
  Proof. unfold all_options_eval. repeat sstep. apply same_of_rres. Qed.
  Lemma same_template s o' o : sim (template_tail S1 rfuel s o' o) (template_tail S2 rfuel s o' o).
  Proof.
    unfold template_tail. apply sim_bind; [apply same_emit_reads|]. intros _.
    apply sim_bind; [apply same_of_rres|]. intros j. repeat sstep.
  Qed.
  Lemma same_validate_ref k o : sim (validate_ref S1 rfuel o k) (validate_ref S2 rfuel o k).
  Proof.
    unfold validate_ref. apply sim_bind; [apply same_rd|]. intros r. destruct r as [raw| |]; try apply sim_fail.
    apply sim_bind; [apply same_emit_reads|]. intros _.
    apply sim_bind; [apply sim_wrap, same_of_rres|intros; apply sim_ret].
  Qed.
  Lemma same_ref_keys fuel strict o : forall k, sim (ref_keys S1 fuel strict o k) (ref_keys S2 fuel strict o k).
  Proof.
    induction fuel as [|fuel IH]; intros k; [apply sim_fail|].
    rewrite !ref_keys_S. apply sim_bind; [apply same_rd|]. intros r.
    destruct r as [[]| |]; try apply sim_ret; try apply sim_fail.
    - destruct (has_par s); [apply sim_fail|]. apply sim_bind; [|intros; apply sim_ret].
      apply sim_unionM. intros; apply IH.
    - destruct strict; [apply sim_fail|apply sim_ret].
  Qed.
  Lemma same_filter_preset force p o mixed ks :
    sim (filter_preset S1 force p o mixed ks) (filter_preset S2 force p o mixed ks).
  Proof.
    induction ks as [|k ks IH]; cbn [filter_preset]; [apply sim_ret|].
    destruct (preset_drops force p o mixed k); [|apply sim_fail].
    apply sim_bind; [exact IH|intros; apply sim_ret].
  Qed.
  Lemma same_fp ks o : sim (fingerprint_of S1 ks o) (fingerprint_of S2 ks o).
  Proof.
    unfold fingerprint_of. apply sim_mapM. intros k _.
    destruct (lookup k (JObj o)); first [apply sim_ret|apply sim_fail].
  Qed.

  Definition RoI (o1 o2 : dict) : Prop := o1 = o2 /\ Inv o1.

  Hypothesis Inv_with : forall force p o, pres_ok p = true -> Inv o -> Inv (with_opts force p o).
  Hypothesis Inv_map : forall row os s s' l,
    forallb key_ok (map fst row) = true -> row_options S1 row s = (Ok os, s', l) ->
    forall o, Inv o -> Inv (with_opts true os o).
  Hypothesis L_log : forall o, Inv o ->
    forallb g (if log_off cfg1 o then [] else [EvLogEmit]) = true ->
    filter phi1 (if log_off cfg1 o then [] else [EvLogEmit]) =
    filter phi2 (if log_off cfg2 o then [] else [EvLogEmit]).
  Hypothesis C_off : lock = false -> forall o, Inv o -> cache_off cfg1 o = true /\ cache_off cfg2 o = true.
  Hypothesis C_same : lock = true -> forall o, Inv o -> cache_off cfg1 o = cache_off cfg2 o.
  Hypothesis C_find : lock = true -> forall c f s1 s2, Rs s1 s2 -> mf1 c f s1 = mf2 c f s2.
  Hypothesis C_put : lock = true -> forall c f v s1 s2, Rs s1 s2 -> Rs (ms1 c f v s1) (ms2 c f v s2).
  Hypothesis C_site : lock = true -> forall e o, Inv o -> site1 e o = site2 e o.
  Hypothesis C_phi : lock = true -> forall ev, cacheev ev = true -> g ev = true -> phi1 ev = phi2 ev.

  Definition stable : expr -> bool := okexpr pres_ok key_ok (fun _ => true).

  Theorem sim_same e : stable e = true -> forall o, Inv o ->
    sim (eval S1 mf1 ms1 cfg1 ucall rfuel site1 e o) (eval S2 mf2 ms2 cfg2 ucall rfuel site2 e o) /\
    sim (validate S1 mf1 ms1 cfg1 ucall rfuel site1 e o) (validate S2 mf2 ms2 cfg2 ucall rfuel site2 e o) /\
    (lock = true -> sim (keys S1 mf1 ms1 cfg1 ucall rfuel site1 e o) (keys S2 mf2 ms2 cfg2 ucall rfuel site2 e o)).
  Proof.
    intros Hs o Hi.
    refine (sim_main S1 S2 mf1 ms1 mf2 ms2 cfg1 cfg2 ucall rfuel site1 site2 Rs phi1 phi2 g RoI
              pres_ok key_ok (fun _ => true) lock Hphi_unc _ _ _ _ _ _ _ _ _ _ _ _ _ _ _ _ _ _ _ e Hs o o (conj eq_refl Hi)).
    - intros force p o1 o2 Hp [<- I]. split; [reflexivity|now apply Inv_with].
    - intros row os s s' l Hr E o1 o2 [<- I]. split; [reflexivity|]. eapply Inv_map; eauto.
    - intros k o1 o2 [<- _]. apply same_rd.
    - intros raw o1 o2 [<- _]. apply same_resolved.
    - intros o1 o2 [<- _]. apply same_allopt.
    - intros s ps pvs pd o1 o2 _ [<- _]. apply same_template.
    - intros k o1 o2 [<- _]. apply same_validate_ref.
    - intros o1 o2 [<- I]. now apply L_log.
    - intros effs o1 o2 _ [<- _]. now right.
    - intros Hl o1 o2 [<- I]. now apply C_off.
    - intros Hl o1 o2 [<- I]. now apply C_same.
    - exact C_find.
    - exact C_put.
    - intros Hl e0 o1 o2 [<- I]. now apply C_site.
    - exact C_phi.
    - intros _ k o1 o2 [<- _]. apply same_ref_keys.
    - intros _ force p ks o1 o2 [<- _]. apply same_filter_preset.
    - intros _ ks o1 o2 [<- _]. apply same_fp.
    - intros _ o1 o2 [<- _] _. reflexivity.
  Qed.
End SameDict.

(** * 5. The LABREA section of the dictionary is carried unchanged through pre-set / default
      options and Map option sets that do not mention it *)
Definition LAB : seg := SName A_LABREA.
Definition lab (o : dict) : option json := dget LAB o.

Lemma switch_flags_lab o o' :
  lab o = lab o' ->
  cache_opt_off o = cache_opt_off o' /\ effects_opt_off o = effects_opt_off o' /\
  logging_opt_off o = logging_opt_off o'.
Proof.
  unfold lab, LAB. intros H.
  unfold cache_opt_off, effects_opt_off, logging_opt_off, flag_at,
    k_cache_disabled, k_cache_disable, k_effects_disabled, k_logging_disabled.
  cbn [lookup]. rewrite H. auto.
Qed.

Definition pres_nolab (p : dict) : bool :=
  nodup_keys p && match dget LAB p with None => true | Some _ => false end.
Definition key_nolab (k : key) : bool :=
  match k with SName n :: _ => negb (N.eqb n A_LABREA) | _ => true end.
Definition labinv (lab0 : option json) (o : dict) : Prop :=
  nodup_keys o = true /\ (forall v, lab0 = Some v -> wf_json v = true) /\ lab o = lab0.

Lemma existsb_dset a k v m :
  existsb (fun kv : seg * json => seg_eqb a (fst kv)) (dset k v m) =
  seg_eqb a k || existsb (fun kv : seg * json => seg_eqb a (fst kv)) m.
Proof.
  induction m as [|[k' v'] m IH]; cbn [dset existsb fst].
  - reflexivity.
  - destruct (seg_eqb k k') eqn:E; cbn [existsb fst].
    + apply seg_eqb_eq in E. subst k'. destruct (seg_eqb a k); reflexivity.
    + rewrite IH. destruct (seg_eqb a k'), (seg_eqb a k); reflexivity.
Qed.

Lemma nodup_dset k v m : nodup_keys m = true -> nodup_keys (dset k v m) = true.
Proof.
  induction m as [|[k' v'] m IH]; intros H; [reflexivity|].
  cbn [dset]. destruct (seg_eqb k k') eqn:E.
  - apply seg_eqb_eq in E. subst k'. exact H.
  - cbn [nodup_keys] in *. apply andb_prop in H as [H1 H2]. rewrite (IH H2), andb_true_r.
    rewrite existsb_dset. apply negb_true_iff in H1. rewrite H1, orb_false_r.
    rewrite seg_eqb_sym, E. reflexivity.
Qed.

Lemma nodup_mix_loop rec ing : forall acc, nodup_keys acc = true -> nodup_keys (mix_loop rec ing acc) = true.
Proof.
  induction ing as [|[k v] ing IH]; intros acc H; [exact H|].
  rewrite mix_loop_cons. apply IH. now apply nodup_dset.
Qed.

Lemma pres_nolab_spec p : pres_nolab p = true -> nodup_keys p = true /\ dget LAB p = None.
Proof.
  unfold pres_nolab. intros H. apply andb_prop in H as [H1 H2]. split; [exact H1|].
  destruct (dget LAB p); [discriminate|reflexivity].
Qed.

Lemma labinv_with lab0 force p o :
  pres_nolab p = true -> labinv lab0 o -> labinv lab0 (with_opts force p o).
Proof.
  intros Hp (Hnd & Hwf & Hl). destruct (pres_nolab_spec _ Hp) as [Pnd Pl].
  unfold labinv, lab in *. destruct force; cbn [with_opts]; unfold mix.
  - split; [now apply nodup_mix_loop|]. split; [exact Hwf|].
    rewrite dget_mix_loop by exact Pnd. now rewrite Pl.
  - split; [now apply nodup_mix_loop|]. split; [exact Hwf|].
    rewrite dget_mix_loop by exact Hnd. rewrite Hl. destruct lab0 as [v|]; [|exact Pl].
    f_equal. unfold mix_entry. rewrite Pl. destruct v; try reflexivity.
    apply mixj_nil_l. now apply Hwf.
Qed.

Lemma set_dotted_cons2 s s' k v m :
  set_dotted (s :: s' :: k) v m =
    match dget s m with
    | None => match set_dotted (s' :: k) v [] with Some sub => Some (dset s (JObj sub) m) | None => None end
    | Some (JObj sub0) =>
        match set_dotted (s' :: k) v sub0 with Some sub => Some (dset s (JObj sub) m) | None => None end
    | Some _ => None
    end.
Proof. reflexivity. Qed.

Lemma set_dotted_nolab k : forall v m m',
  set_dotted k v m = Some m' -> key_nolab k = true -> pres_nolab m = true -> pres_nolab m' = true.
Proof.
  destruct k as [|s k']; intros v m m' E Hk Hm; [cbn in E; inversion E; now subst|].
  assert (Hs : seg_eqb LAB s = false).
  { destruct s as [n|i]; [|reflexivity]. unfold key_nolab in Hk. apply negb_true_iff in Hk.
    unfold LAB, seg_eqb. rewrite N.eqb_sym. exact Hk. }
  destruct (pres_nolab_spec _ Hm) as [Mnd Ml].
  assert (Hd : forall x, pres_nolab (dset s x m) = true).
  { intros x. unfold pres_nolab. rewrite (nodup_dset _ _ _ Mnd).
    rewrite dget_dset_other by exact Hs. now rewrite Ml. }
  destruct k' as [|s' k''].
  - cbn in E. inversion E; subst. apply Hd.
  - rewrite set_dotted_cons2 in E. destruct (dget s m) as [[]|]; try discriminate;
      match type of E with match ?x with _ => _ end = _ => destruct x as [sub|]; [|discriminate] end;
      inversion E; subst; apply Hd.
Qed.

Lemma option_set_nolab kvs : forall acc os,
  option_set kvs acc = Some os -> forallb key_nolab (map fst kvs) = true ->
  pres_nolab acc = true -> pres_nolab os = true.
Proof.
  induction kvs as [|[k v] kvs IH]; intros acc os E Hk Ha.
  - cbn in E. inversion E; now subst.
  - cbn [option_set] in E. cbn [map fst forallb] in Hk. apply andb_prop in Hk as [K1 K2].
    destruct (set_dotted k v acc) as [acc'|] eqn:Es; [|discriminate].
    eapply IH; [exact E|exact K2|]. eapply set_dotted_nolab; eauto.
Qed.

Lemma row_options_nolab S row s os s' l :
  forallb key_nolab (map fst row) = true -> row_options S row s = (Ok os, s', l) -> pres_nolab os = true.
Proof.
  intros Hk E. unfold row_options in E.
  destruct (option_set _ []) as [os0|] eqn:Eo; [|discriminate].
  destruct (Nat.eqb (length os0) 0 && negb (Nat.eqb (length row) 0)); [discriminate|].
  cbn in E. inversion E; subst os0. eapply option_set_nolab; [exact Eo| |reflexivity].
  clear -Hk. induction row as [|[k v] row IH]; [reflexivity|].
  cbn [map fst forallb] in Hk. apply andb_prop in Hk as [K1 K2].
  cbn [flat_map fst snd]. destruct (json_of_value v); cbn [app map fst forallb]; [rewrite K1|]; now apply IH.
Qed.

Lemma labinv_map lab0 S row os s s' l :
  forallb key_nolab (map fst row) = true -> row_options S row s = (Ok os, s', l) ->
  forall o, labinv lab0 o -> labinv lab0 (with_opts true os o).
Proof. intros Hk E o Hi. apply labinv_with; [|exact Hi]. eapply row_options_nolab; eauto. Qed.

Lemma labinv_init o : wf_dict o = true -> labinv (lab o) o.
Proof.
  intros Hw. destruct (wf_json_obj _ Hw) as [Hnd Hsub]. split; [exact Hnd|]. split; [|reflexivity].
  intros v Hv. apply (Hsub LAB). now apply dget_In.
Qed.

(** no pre-set / default dictionary and no Map key of the expression mentions LABREA *)
Definition switch_stable : expr -> bool := stable pres_nolab key_nolab.

(** * 6. The sentences of the property about ONE dictionary *)
Lemma forallb_ttrue {A} (l : list A) : forallb (fun _ => true) l = true.
Proof. induction l; cbn; auto. Qed.
Lemma filter_ttrue {A} (l : list A) : filter (fun _ => true) l = l.
Proof. induction l as [|a l IH]; cbn; [reflexivity|now rewrite IH]. Qed.
Lemma filter_ffalse {A} (l : list A) : filter (fun _ => false) l = [].
Proof. induction l as [|a l IH]; cbn; auto. Qed.

Lemma stable_all e : stable (fun _ => true) (fun _ => true) e = true.
Proof.
  unfold stable. set (ok := okexpr (fun _ => true) (fun _ => true) (fun _ => true)).
  assert (Hl : forall l, Forall (fun x => ok x = true) l -> forallb ok l = true).
  { intros l H. apply forallb_forall. now apply Forall_forall. }
  assert (Hs : forall K (l : list (K * expr)),
             Forall (fun ve => ok (snd ve) = true) l -> forallb (fun ve => ok (snd ve)) l = true).
  { intros K l H. apply forallb_forall. now apply Forall_forall. }
  assert (Ho : forall d, Popt (fun x => ok x = true) d -> optb ok d = true).
  { intros [d|] H; [exact H|reflexivity]. }
  induction e using expr_ind'; subst ok; cbn [okexpr];
    set (ok := okexpr (fun _ => true) (fun _ => true) (fun _ => true)) in *.
  - reflexivity.
  - now rewrite (Ho _ H), (Ho _ H0).
  - now rewrite IHe1, IHe2.
  - now rewrite IHe, (Hs _ _ H), (Ho _ H0).
  - now rewrite IHe, (Hs _ _ H), (Ho _ H0).
  - rewrite IHe, (Ho _ H0), andb_true_r. cbn [andb]. apply forallb_forall. intros cr Hcr.
    rewrite Forall_forall in H. destruct (H cr Hcr) as [A B]. now rewrite A, B.
  - now apply Hl.
  - now apply Hl.
  - rewrite IHe, (Hs _ _ H), !andb_true_r. clear. induction its as [|[k x] its IH]; cbn; auto.
  - exact IHe.
  - exact IHe.
  - now rewrite IHe, (Hl _ H), (Hl _ H0).
  - now apply Hs.
  - now rewrite IHe, (Hl _ H).
  - exact IHe.
  - now apply Hl.
  - reflexivity.
Qed.

Definition is_emit (ev : event) : bool := match ev with EvLogEmit => true | _ => false end.
Definition not_emit (ev : event) : bool := negb (is_emit ev).
Definition set_log (b : bool) (cfg : config) : config :=
  {| cache_ctx_off := cfg.(cache_ctx_off); log_ctx_off := b |}.
Definition cfg_ref (cfg : config) : config := {| cache_ctx_off := true; log_ctx_off := cfg.(log_ctx_off) |}.

Section Sentences.
  Variable S : Type.
  Variable mf : N -> fp -> S -> option value.
  Variable ms : N -> fp -> value -> S -> S.
  Variable ucall : N -> list value -> cres.
  Variable rfuel : nat.
  Variable site : expr -> dict -> bool.

  Notation evalS cfg := (eval S mf ms cfg ucall rfuel site).
  Notation validateS cfg := (validate S mf ms cfg ucall rfuel site).
  Notation evalR cfg := (eval unit nc_find nc_store (cfg_ref cfg) ucall rfuel (fun _ _ => true)).
  Notation validateR cfg := (validate unit nc_find nc_store (cfg_ref cfg) ucall rfuel (fun _ _ => true)).

  (** how the caching switch can be off for an evaluation of [e] under [o] *)
  Definition caching_off_for (cfg : config) (e : expr) (o : dict) : Prop :=
    cfg.(cache_ctx_off) = true \/
    (cache_opt_off o = true /\ wf_dict o = true /\ switch_stable e = true).
  Definition logging_off_for (cfg : config) (e : expr) (o : dict) : Prop :=
    cfg.(log_ctx_off) = true \/
    (logging_opt_off o = true /\ wf_dict o = true /\ switch_stable e = true).

  Definition lift {A} (s : S) (x : res A * unit * list event) : res A * S * list event :=
    (fst (fst x), s, snd x).

  (** (1) caching off: the run IS the cache-free reference run, the store is not touched *)
  Lemma cache_off_sim cfg e o s0 :
    caching_off_for cfg e o ->
    sim S unit (fun s1 _ => s1 = s0) (fun _ => true) (fun _ => true) (fun _ => true)
        (evalS cfg e o) (evalR cfg e o) /\
    sim S unit (fun s1 _ => s1 = s0) (fun _ => true) (fun _ => true) (fun _ => true)
        (validateS cfg e o) (validateR cfg e o).
  Proof.
    intros [Hctx|(Hopt & Hwf & Hst)].
    - destruct (sim_same S unit mf ms nc_find nc_store cfg (cfg_ref cfg) ucall rfuel site (fun _ _ => true)
                  (fun s1 _ => s1 = s0) (fun _ => true) (fun _ => true) (fun _ => true)
                  (fun _ => True) (fun _ => true) (fun _ => true) false) with (e := e) (o := o) as (A & B & _);
        try (intros; discriminate); auto using stable_all.
      intros _ o' _. unfold cache_off. cbn. now rewrite Hctx.
    - destruct (sim_same S unit mf ms nc_find nc_store cfg (cfg_ref cfg) ucall rfuel site (fun _ _ => true)
                  (fun s1 _ => s1 = s0) (fun _ => true) (fun _ => true) (fun _ => true)
                  (labinv (lab o)) pres_nolab key_nolab false) with (e := e) (o := o) as (A & B & _);
        try (intros; discriminate); auto using labinv_init.
      + intros force p o' Hp Hi. now apply labinv_with.
      + intros row os s s' l Hk E o' Hi. eapply labinv_map; eauto.
      + intros _ o' (_ & _ & Hl). unfold cache_off. cbn.
        destruct (switch_flags_lab o' o Hl) as (E & _ & _). rewrite E, Hopt. now rewrite orb_true_r.
  Qed.

  Theorem cache_off_is_reference_eval cfg e o s :
    caching_off_for cfg e o -> evalS cfg e o s = lift s (evalR cfg e o tt).
  Proof.
    intros H. destruct (cache_off_sim cfg e o s H) as [A _]. specialize (A s tt eq_refl).
    unfold simo, lift in *. rewrite forallb_ttrue, !filter_ttrue in A. destruct (A eq_refl) as (Hr & Hs & Hl).
    destruct (evalS cfg e o s) as [[r1 s1] l1]. cbn [fst snd] in *. now subst.
  Qed.
  Theorem cache_off_is_reference_validate cfg e o s :
    caching_off_for cfg e o -> validateS cfg e o s = lift s (validateR cfg e o tt).
  Proof.
    intros H. destruct (cache_off_sim cfg e o s H) as [_ A]. specialize (A s tt eq_refl).
    unfold simo, lift in *. rewrite forallb_ttrue, !filter_ttrue in A. destruct (A eq_refl) as (Hr & Hs & Hl).
    destruct (validateS cfg e o s) as [[r1 s1] l1]. cbn [fst snd] in *. now subst.
  Qed.

  (** ... and there is no cache traffic (nor ghost cache events) in its log *)
  Theorem cache_off_no_cache_events cfg e o s :
    caching_off_for cfg e o ->
    filter cacheev (snd (evalS cfg e o s)) = [] /\ filter cacheev (snd (validateS cfg e o s)) = [].
  Proof.
    intros H.
    assert (G : sim S S (fun _ _ => True) cacheev (fun _ => false) (fun _ => true) (evalS cfg e o) (evalS cfg e o) /\
                sim S S (fun _ _ => True) cacheev (fun _ => false) (fun _ => true) (validateS cfg e o) (validateS cfg e o)).
    { destruct H as [Hctx|(Hopt & Hwf & Hst)].
      - destruct (sim_same S S mf ms mf ms cfg cfg ucall rfuel site site
                    (fun _ _ => True) cacheev (fun _ => false) (fun _ => true)
                    (fun _ => True) (fun _ => true) (fun _ => true) false) with (e := e) (o := o) as (A & B & _);
          try (intros; discriminate); auto using stable_all.
        + intros ev Hu _. destruct ev; try discriminate; reflexivity.
        + intros o' _ _. destruct (log_off cfg o'); reflexivity.
        + intros _ o' _. unfold cache_off. now rewrite Hctx.
      - destruct (sim_same S S mf ms mf ms cfg cfg ucall rfuel site site
                    (fun _ _ => True) cacheev (fun _ => false) (fun _ => true)
                    (labinv (lab o)) pres_nolab key_nolab false) with (e := e) (o := o) as (A & B & _);
          try (intros; discriminate); auto using labinv_init.
        + intros ev Hu _. destruct ev; try discriminate; reflexivity.
        + intros force p o' Hp Hi. now apply labinv_with.
        + intros row os s1 s' l Hk E o' Hi. eapply labinv_map; eauto.
        + intros o' _ _. destruct (log_off cfg o'); reflexivity.
        + intros _ o' (_ & _ & Hl). unfold cache_off.
          destruct (switch_flags_lab o' o Hl) as (E & _ & _). rewrite E, Hopt. now rewrite orb_true_r. }
    destruct G as [A B]. specialize (A s s I). specialize (B s s I). unfold simo in *.
    rewrite forallb_ttrue, filter_ffalse in A, B. split; [apply A|apply B]; reflexivity.
  Qed.

  (** (2) logging off: nothing is emitted ... *)
  Theorem logging_off_silent cfg e o s :
    logging_off_for cfg e o -> filter is_emit (snd (evalS cfg e o s)) = [].
  Proof.
    intros H.
    assert (G : sim S S eq is_emit (fun _ => false) (fun _ => true) (evalS cfg e o) (evalS cfg e o)).
    { destruct H as [Hctx|(Hopt & Hwf & Hst)].
      - destruct (sim_same S S mf ms mf ms cfg cfg ucall rfuel site site
                    eq is_emit (fun _ => false) (fun _ => true)
                    (fun _ => True) (fun _ => true) (fun _ => true) true) with (e := e) (o := o) as (A & _);
          try (intros; discriminate); auto using stable_all.
        + intros ev Hu _. destruct ev; try discriminate; reflexivity.
        + intros o' _ _. unfold log_off. rewrite Hctx. reflexivity.
        + intros _ c f s1 s2 ->. reflexivity.
        + intros _ c f v s1 s2 ->. reflexivity.
        + intros _ ev Hc _. destruct ev; try discriminate; reflexivity.
      - destruct (sim_same S S mf ms mf ms cfg cfg ucall rfuel site site
                    eq is_emit (fun _ => false) (fun _ => true)
                    (labinv (lab o)) pres_nolab key_nolab true) with (e := e) (o := o) as (A & _);
          try (intros; discriminate); auto using labinv_init.
        + intros ev Hu _. destruct ev; try discriminate; reflexivity.
        + intros force p o' Hp Hi. now apply labinv_with.
        + intros row os s1 s' l Hk E o' Hi. eapply labinv_map; eauto.
        + intros o' (_ & _ & Hl) _. unfold log_off.
          destruct (switch_flags_lab o' o Hl) as (_ & _ & E). rewrite E, Hopt, orb_true_r. reflexivity.
        + intros _ c f s1 s2 ->. reflexivity.
        + intros _ c f v s1 s2 ->. reflexivity.
        + intros _ ev Hc _. destruct ev; try discriminate; reflexivity. }
    specialize (G s s eq_refl). unfold simo in G. rewrite forallb_ttrue, filter_ffalse in G. now apply G.
  Qed.

  (** ... and inside [labrea.logging.disabled()] everything else is exactly what the run with
      logging on does: same result, same final store, same log once the emission events of the
      latter are erased — for every expression, dictionary, store and cache setting *)
  Lemma filter_not_emit_id l : filter is_emit l = [] -> filter not_emit l = l.
  Proof.
    induction l as [|ev l IH]; intros H; [reflexivity|]. cbn [filter] in *. unfold not_emit at 1.
    destruct (is_emit ev); [discriminate|]. cbn [negb]. now rewrite (IH H).
  Qed.

  Theorem logging_ctx_only_erases_emissions cfg e o s :
    let off := evalS (set_log true cfg) e o s in
    let on := evalS (set_log false cfg) e o s in
    fst (fst off) = fst (fst on) /\ snd (fst off) = snd (fst on) /\ snd off = filter not_emit (snd on).
  Proof.
    intros off on.
    destruct (sim_same S S mf ms mf ms (set_log true cfg) (set_log false cfg) ucall rfuel site site
                eq not_emit not_emit (fun _ => true)
                (fun _ => True) (fun _ => true) (fun _ => true) true) with (e := e) (o := o) as (A & _);
      try (intros; discriminate); auto using stable_all.
    - intros o' _ _. unfold log_off. cbn. destruct (logging_opt_off o'); reflexivity.
    - intros _ c f s1 s2 ->. reflexivity.
    - intros _ c f v s1 s2 ->. reflexivity.
    - specialize (A s s eq_refl). unfold simo in A. rewrite forallb_ttrue in A.
      destruct (A eq_refl) as (Hr & Hs & Hl). repeat split; auto.
      fold off on in Hl. rewrite <- Hl. symmetry. apply filter_not_emit_id.
      apply (logging_off_silent (set_log true cfg) e o s). now left.
  Qed.

  (** the log REQUESTS are not affected by the logging switch (corollary) *)
  Definition is_logreq (ev : event) : bool := match ev with EvLogReq => true | _ => false end.
  Lemma filter_filter {A} (p q : A -> bool) l : filter p (filter q l) = filter (fun x => p x && q x) l.
  Proof.
    induction l as [|a l IH]; [reflexivity|]. cbn. destruct (q a); cbn; [destruct (p a); cbn; now rewrite IH|].
    rewrite IH. now rewrite andb_false_r.
  Qed.
  Corollary logging_ctx_keeps_requests cfg e o s :
    filter is_logreq (snd (evalS (set_log true cfg) e o s)) =
    filter is_logreq (snd (evalS (set_log false cfg) e o s)).
  Proof.
    destruct (logging_ctx_only_erases_emissions cfg e o s) as (_ & _ & H). rewrite H, filter_filter.
    apply filter_ext. intros ev. destruct ev; reflexivity.
  Qed.
End Sentences.

(** * 7. Clause-level sentences: Computation (effects), Logged, Logged inside Cached *)
Definition is_call (ev : event) : bool := match ev with EvCall _ _ => true | _ => false end.

Lemma quiet_filter (p : event -> bool) l :
  (forall ev, quiet_ev ev = true -> p ev = false) -> quiet l = true -> filter p l = [].
Proof.
  intros Hp. induction l as [|ev l IH]; intros H; [reflexivity|].
  cbn in H. apply andb_prop in H as [H1 H2]. cbn. now rewrite (Hp ev H1), (IH H2).
Qed.

Section Clauses.
  Variable S : Type.
  Variable mem_find : N -> fp -> S -> option value.
  Variable mem_store : N -> fp -> value -> S -> S.
  Variable cfg : config.
  Variable ucall : N -> list value -> cres.
  Variable rfuel : nat.
  Variable site_ok : expr -> dict -> bool.

  Notation eval := (eval S mem_find mem_store cfg ucall rfuel site_ok).
  Notation validate := (validate S mem_find mem_store cfg ucall rfuel site_ok).
  Notation fingerprint := (fingerprint S mem_find mem_store cfg ucall rfuel site_ok).
  Notation after := (after S).

  (** (3) effects disabled by the option: the Computation is its body — no effect expression is
      evaluated, no effect callback is called *)
  Theorem effects_off_no_effect e effs o s :
    effects_opt_off o = true -> eval (EComp e effs) o s = eval e o s.
  Proof.
    intros H. rewrite eval_comp_E, H, wrap_eval_out.
    destruct (eval e o s) as [[[v|c ee] s1] l1] eqn:E.
    - rewrite (bind_okE _ _ _ _ _ _ _ E). unfold Eval.bind, Eval.ret. cbn. now rewrite app_nil_r.
    - rewrite (bind_errE _ _ _ _ _ _ _ _ E). cbn. now rewrite (eval_err_true _ _ _ _ _ _ _ _ _ _ _ _ _ _ E).
  Qed.
  Theorem effects_off_no_effect_validate e effs o s :
    effects_opt_off o = true -> validate (EComp e effs) o s = validate e o s.
  Proof.
    intros H. rewrite validate_comp_E, H. unfold Eval.bind, Eval.ret.
    destruct (validate e o s) as [[[[]|c ee] s1] l1]; [|reflexivity]. now rewrite app_nil_r.
  Qed.

  (** the effects' results are discarded: whenever the Computation succeeds, its value is the
      body's value (the body ran first, from the same store), whatever the switches; and a
      failing body fails the Computation in the same way *)
  Theorem computation_returns_body_value e effs o s v s' l :
    eval (EComp e effs) o s = (Ok v, s', l) ->
    exists s1 l1 l2, eval e o s = (Ok v, s1, l1) /\ l = l1 ++ l2.
  Proof.
    rewrite eval_comp_E, wrap_eval_out. intros H.
    destruct (eval e o s) as [[[v0|c ee] s1] l1] eqn:E.
    - rewrite (bind_okE _ _ _ _ _ _ _ E) in H.
      destruct (Eval.bind S (if effects_opt_off o then Eval.ret S tt
                             else iterM S (effect_run S mem_find mem_store cfg ucall rfuel site_ok o v0) effs)
                  (fun _ => Eval.ret S v0) s1) as [[[v1|c ee] s2] l2] eqn:E2; cbn in H; [|discriminate].
      inversion H; subst. apply bind_ok in E2 as (u & s3 & l3 & l4 & _ & E2 & _).
      cbn in E2. inversion E2; subst. eauto.
    - rewrite (bind_errE _ _ _ _ _ _ _ _ E) in H. discriminate.
  Qed.
  Theorem computation_body_failure e effs o s c ee s1 l1 :
    eval e o s = (Err c ee, s1, l1) -> eval (EComp e effs) o s = (Err c ee, s1, l1).
  Proof.
    intros E. rewrite eval_comp_E, wrap_eval_out, (bind_errE _ _ _ _ _ _ _ _ E). cbn.
    now rewrite (eval_err_true _ _ _ _ _ _ _ _ _ _ _ _ _ _ E).
  Qed.

  (** (4) a Logged node issues exactly one request per evaluation, first; the emission follows
      unless logging is off *)
  Theorem logged_one_request e o s :
    eval (ELogged e) o s =
      after (EvLogReq :: (if log_off cfg o then [] else [EvLogEmit])) (eval e o s).
  Proof.
    rewrite eval_logged_E, wrap_eval_out. unfold log_off.
    rewrite (bind_okE _ _ _ _ _ _ _ (emit_E S EvLogReq s)).
    destruct (log_ctx_off cfg || logging_opt_off o).
    - rewrite (bind_okE _ _ _ _ _ _ _ (ret_E S tt s)). rewrite !wrap_after, wrap_out_eval.
      rewrite after_after. reflexivity.
    - rewrite (bind_okE _ _ _ _ _ _ _ (emit_E S EvLogEmit s)). rewrite !wrap_after, wrap_out_eval.
      rewrite after_after. reflexivity.
  Qed.

  (** Logged sits INSIDE Cached: on a hit the logged node is not evaluated — no request, no user
      code, the store is unchanged — and on a miss the site adds nothing to the requests of the
      logged node's own evaluation.  [kstatic]: the fingerprint is computed without evaluating
      sub-expressions (constant / plain-Option dispatch; TraceProofs). *)
  Definition dirty_ev (cid : N) (e : expr) (o : dict) : list event :=
    if site_ok e o then [] else [EvDirty cid].

  Lemma cached_site_trace cid e o f lf s :
    cache_off cfg o = false -> (forall s, fingerprint e o s = (Ok f, s, lf)) ->
    eval (ECached (CMem cid) e) o s =
      match mem_find cid f s with
      | Some v => (Ok v, s, dirty_ev cid e o ++ lf ++ [EvCacheExists cid true] ++ lf ++ [EvCacheGet cid true])
      | None =>
          after (dirty_ev cid e o ++ lf ++ [EvCacheExists cid false])
            (match eval e o s with
             | (Ok v, s1, l1) =>
                 (Ok v, mem_store cid f (exhaust v) s1,
                  l1 ++ lf ++ [EvCacheSet cid] ++ (if has_lazy v then [EvLazyStored cid] else []) ++ lf ++
                  [EvCacheGet cid (match mem_find cid f (mem_store cid f (exhaust v) s1) with
                                   | Some _ => true | None => false end)])
             | (Err c ee, s1, l1) => (Err c ee, s1, l1)
             end)
      end.
  Proof.
    intros Hon Hfp. rewrite eval_cached_mem_E, Hon, wrap_eval_out. unfold cached_on, dirty_ev.
    assert (Hd : (if site_ok e o then Eval.ret S tt else Eval.emit S (EvDirty cid)) s =
                 (Ok tt, s, if site_ok e o then [] else [EvDirty cid])) by (destruct (site_ok e o); reflexivity).
    rewrite (bind_okE _ _ _ _ _ _ _ Hd), (bind_okE _ _ _ _ _ _ _ (Hfp s)).
    unfold Eval.bind at 1, get_store at 1. cbv beta iota.
    destruct (mem_find cid f s) as [v|] eqn:Ef.
    - rewrite (bind_okE _ _ _ _ _ _ _ (emit_E S _ s)), (bind_okE _ _ _ _ _ _ _ (Hfp s)).
      unfold Eval.bind at 1, get_store at 1. cbv beta iota. rewrite Ef.
      rewrite (bind_okE _ _ _ _ _ _ _ (emit_E S _ s)). unfold Eval.ret, TraceProofs.after, wrap_out. cbn.
      rewrite ?app_nil_r. repeat rewrite <- app_assoc. reflexivity.
    - rewrite (bind_okE _ _ _ _ _ _ _ (emit_E S _ s)). unfold miss_path.
      destruct (eval e o s) as [[[v|c ee] s1] l1] eqn:E.
      + rewrite (bind_okE _ _ _ _ _ _ _ E). unfold store_back.
        rewrite (bind_okE _ _ _ _ _ _ _ (Hfp s1)).
        unfold Eval.bind at 1, put_store at 1. cbv beta iota.
        rewrite (bind_okE _ _ _ _ _ _ _ (emit_E S _ _)).
        assert (Hl : forall st, (if has_lazy v then Eval.emit S (EvLazyStored cid) else Eval.ret S tt) st =
                                (Ok tt, st, if has_lazy v then [EvLazyStored cid] else []))
          by (intros; destruct (has_lazy v); reflexivity).
        rewrite (bind_okE _ _ _ _ _ _ _ (Hl _)), (bind_okE _ _ _ _ _ _ _ (Hfp _)).
        unfold Eval.bind at 1, get_store at 1. cbv beta iota.
        destruct (mem_find cid f (mem_store cid f (exhaust v) s1));
          rewrite (bind_okE _ _ _ _ _ _ _ (emit_E S _ _)); unfold Eval.ret, TraceProofs.after, wrap_out; cbn;
          rewrite ?app_nil_r; repeat rewrite <- app_assoc; reflexivity.
      + rewrite (bind_errE _ _ _ _ _ _ _ _ E). unfold TraceProofs.after, wrap_out. cbn.
        rewrite (eval_err_true _ _ _ _ _ _ _ _ _ _ _ _ _ _ E). repeat rewrite <- app_assoc. reflexivity.
  Qed.

  Lemma fingerprint_static_run e o :
    kstatic e = true ->
    exists r lf, quiet lf = true /\ forall s, fingerprint e o s = (r, s, lf).
  Proof.
    intros Hk. destruct (fingerprint_static S mem_find mem_store cfg ucall rfuel site_ok e Hk o) as (r & l & Hq & H).
    now exists r, l.
  Qed.

  Lemma filter_dirty (p : event -> bool) cid e o :
    (forall c, p (EvDirty c) = false) -> filter p (dirty_ev cid e o) = [].
  Proof. intros H. unfold dirty_ev. destruct (site_ok e o); cbn; [reflexivity|now rewrite H]. Qed.

  (** events that only user code, a log request or a log emission can be *)
  Definition observable (p : event -> bool) : Prop :=
    (forall ev, quiet_ev ev = true -> p ev = false) /\ (forall ev, cacheev ev = true -> p ev = false).

  Theorem cached_hit_not_evaluated cid e o s f v :
    cache_off cfg o = false -> kstatic e = true ->
    fst (fst (fingerprint e o s)) = Ok f -> mem_find cid f s = Some v ->
    let x := eval (ECached (CMem cid) e) o s in
    fst (fst x) = Ok v /\ snd (fst x) = s /\
    forall p, observable p -> filter p (snd x) = [].
  Proof.
    intros Hon Hk Hf Hm. destruct (fingerprint_static_run e o Hk) as (r & lf & Hq & Hfp).
    rewrite Hfp in Hf. cbn in Hf. subst r.
    cbv zeta. rewrite (cached_site_trace cid e o f lf s Hon Hfp), Hm. cbn [fst snd].
    repeat split. intros p [Pq Pc]. rewrite !filter_app.
    rewrite (filter_dirty p) by (intros; now apply Pc).
    rewrite (quiet_filter p lf Pq Hq). cbn. now rewrite !Pc.
  Qed.

  Theorem cached_miss_adds_nothing cid e o s f :
    cache_off cfg o = false -> kstatic e = true ->
    fst (fst (fingerprint e o s)) = Ok f -> mem_find cid f s = None ->
    fst (fst (eval (ECached (CMem cid) e) o s)) = fst (fst (eval e o s)) /\
    forall p, observable p ->
      filter p (snd (eval (ECached (CMem cid) e) o s)) = filter p (snd (eval e o s)).
  Proof.
    intros Hon Hk Hf Hm. destruct (fingerprint_static_run e o Hk) as (r & lf & Hq & Hfp).
    rewrite Hfp in Hf. cbn in Hf. subst r.
    rewrite (cached_site_trace cid e o f lf s Hon Hfp), Hm.
    destruct (eval e o s) as [[[v|c ee] s1] l1]; unfold TraceProofs.after; cbn [fst snd]; (split; [reflexivity|]);
      intros p [Pq Pc]; rewrite !filter_app;
      rewrite (filter_dirty p) by (intros; now apply Pc); rewrite ?(quiet_filter p lf Pq Hq); cbn [filter app];
      rewrite ?Pc by reflexivity; rewrite ?app_nil_r; try reflexivity.
    destruct (has_lazy v); cbn [filter]; rewrite ?Pc by reflexivity; now rewrite ?app_nil_r.
  Qed.

  (** the dataset: [Dataset._composed] puts Logged inside Cached (Derived.dataset_expr) *)
  Definition ds_base (d : dsrec) : expr :=
    let calc := EApply (ESwitch d.(ds_dispatch) d.(ds_table) d.(ds_default)) d.(ds_callback) in
    if d.(ds_effects_disabled) then calc else EComp calc d.(ds_effects).
  Definition ds_site_options (d : dsrec) (o : dict) : dict :=
    mix (mix d.(ds_default_options) o) d.(ds_options).

  Lemma eval_dataset_site d o s :
    eval (dataset_expr d) o s = eval (ECached d.(ds_cache) (ELogged (ds_base d))) (ds_site_options d o) s.
  Proof. apply (eval_dataset S mem_find mem_store cfg ucall rfuel site_ok d o s). Qed.

  Definition is_logreq' (ev : event) : bool := match ev with EvLogReq => true | _ => false end.
  Lemma observable_logreq : observable is_logreq'.
  Proof. split; intros ev H; destruct ev; try discriminate; reflexivity. Qed.
  Lemma observable_emit : observable is_emit.
  Proof. split; intros ev H; destruct ev; try discriminate; reflexivity. Qed.
  Lemma observable_call : observable is_call.
  Proof. split; intros ev H; destruct ev; try discriminate; reflexivity. Qed.

  (** served from its cache: no log request, no emission, no user code (body, callback, effect) *)
  Theorem dataset_hit_no_request d cid o s f v :
    d.(ds_cache) = CMem cid -> cache_off cfg (ds_site_options d o) = false -> kstatic (ds_base d) = true ->
    fst (fst (fingerprint (ELogged (ds_base d)) (ds_site_options d o) s)) = Ok f ->
    mem_find cid f s = Some v ->
    let x := eval (dataset_expr d) o s in
    fst (fst x) = Ok v /\ snd (fst x) = s /\
    filter is_logreq' (snd x) = [] /\ filter is_emit (snd x) = [] /\ filter is_call (snd x) = [].
  Proof.
    intros Hc Hon Hk Hf Hm. cbv zeta. rewrite eval_dataset_site, Hc.
    destruct (cached_hit_not_evaluated cid (ELogged (ds_base d)) (ds_site_options d o) s f v Hon Hk Hf Hm)
      as (A & B & C).
    repeat split; auto using observable_logreq, observable_emit, observable_call.
  Qed.

  (** not served from its cache: exactly one request is issued for this dataset — the first
      event of the logged node; all further requests are those of the evaluation of its body
      (nested datasets) *)
  Theorem dataset_miss_one_request d cid o s f :
    d.(ds_cache) = CMem cid -> cache_off cfg (ds_site_options d o) = false -> kstatic (ds_base d) = true ->
    fst (fst (fingerprint (ELogged (ds_base d)) (ds_site_options d o) s)) = Ok f ->
    mem_find cid f s = None ->
    filter is_logreq' (snd (eval (dataset_expr d) o s)) =
      EvLogReq :: filter is_logreq' (snd (eval (ds_base d) (ds_site_options d o) s)) /\
    filter is_emit (snd (eval (dataset_expr d) o s)) =
      (if log_off cfg (ds_site_options d o) then [] else [EvLogEmit]) ++
      filter is_emit (snd (eval (ds_base d) (ds_site_options d o) s)).
  Proof.
    intros Hc Hon Hk Hf Hm. rewrite eval_dataset_site, Hc.
    destruct (cached_miss_adds_nothing cid (ELogged (ds_base d)) (ds_site_options d o) s f Hon Hk Hf Hm) as (_ & C).
    rewrite (C _ observable_logreq), (C _ observable_emit), logged_one_request.
    unfold TraceProofs.after. cbn [fst snd]. split.
    - cbn [filter is_logreq']. rewrite filter_app. destruct (log_off cfg (ds_site_options d o)); reflexivity.
    - cbn [filter is_emit]. rewrite filter_app. destruct (log_off cfg (ds_site_options d o)); reflexivity.
  Qed.

  (** with the cache off (any of the ways) or no cache at all ([nocache]): every evaluation of the
      dataset evaluates the logged node — one request each time *)
  Theorem dataset_uncached_one_request d o s :
    (d.(ds_cache) = CNone \/ cache_off cfg (ds_site_options d o) = true) ->
    eval (dataset_expr d) o s =
      after (EvLogReq :: (if log_off cfg (ds_site_options d o) then [] else [EvLogEmit]))
            (eval (ds_base d) (ds_site_options d o) s).
  Proof.
    intros H. rewrite eval_dataset_site. rewrite <- logged_one_request.
    destruct (ds_cache d) as [cid|] eqn:Ec.
    - destruct H as [H|H]; [discriminate|].
      rewrite eval_cached_mem_E, H, wrap_eval_out. apply wrap_out_eval.
    - rewrite eval_cached_none_E, wrap_eval_out. apply wrap_out_eval.
  Qed.

  (** the per-dataset toggle [disable_effects()]: the composed expression has no Computation *)
  Theorem dataset_toggle_no_computation d :
    d.(ds_effects_disabled) = true ->
    ds_base d = EApply (ESwitch d.(ds_dispatch) d.(ds_table) d.(ds_default)) d.(ds_callback).
  Proof. intros H. unfold ds_base. now rewrite H. Qed.

  (** the per-dataset toggle and the effects option agree: under a dictionary that switches the
      effects off, the dataset evaluates exactly like its [disable_effects()] twin — same result,
      same store, same events (the ghost oracle is asked about the same site) *)
  Definition ds_toggle (d : dsrec) : dsrec :=
    {| ds_dispatch := d.(ds_dispatch); ds_table := d.(ds_table); ds_default := d.(ds_default);
       ds_callback := d.(ds_callback); ds_effects := d.(ds_effects); ds_effects_disabled := true;
       ds_cache := d.(ds_cache); ds_options := d.(ds_options); ds_default_options := d.(ds_default_options) |}.

  Lemma bind_cong {A B} (m m' : M S A) (f f' : A -> M S B) :
    (forall s, m s = m' s) -> (forall a s, f a s = f' a s) -> forall s, Eval.bind S m f s = Eval.bind S m' f' s.
  Proof.
    intros Hm Hf s. unfold Eval.bind. rewrite Hm. destruct (m' s) as [[[a|c ee] s1] l1]; [|reflexivity].
    now rewrite Hf.
  Qed.

  Lemma cached_site_ext c e e' o :
    (forall s, eval e o s = eval e' o s) ->
    (forall s, keys S mem_find mem_store cfg ucall rfuel site_ok e o s =
               keys S mem_find mem_store cfg ucall rfuel site_ok e' o s) ->
    site_ok e o = site_ok e' o ->
    forall s, eval (ECached c e) o s = eval (ECached c e') o s.
  Proof.
    intros He Hk Hs s. destruct c as [cid|].
    - rewrite !eval_cached_mem_E, !wrap_eval_out. f_equal.
      destruct (cache_off cfg o); [apply He|].
      assert (Hfp : forall st, fingerprint e o st = fingerprint e' o st).
      { intros st. unfold TraceProofs.fingerprint. apply bind_cong; [exact Hk|reflexivity]. }
      assert (Hsb : forall v st, store_back S mem_find mem_store cfg ucall rfuel site_ok cid e o v st =
                                 store_back S mem_find mem_store cfg ucall rfuel site_ok cid e' o v st).
      { intros v st. unfold store_back. apply bind_cong; [exact Hfp|]. intros f st1.
        apply bind_cong; [reflexivity|]. intros _ st2. apply bind_cong; [reflexivity|]. intros _ st3.
        apply bind_cong; [reflexivity|]. intros _ st4. apply bind_cong; [exact Hfp|]. reflexivity. }
      assert (Hmiss : forall st, miss_path S mem_find mem_store cfg ucall rfuel site_ok cid e o st =
                                 miss_path S mem_find mem_store cfg ucall rfuel site_ok cid e' o st).
      { intros st. unfold miss_path. apply bind_cong; [exact He|exact Hsb]. }
      unfold cached_on. rewrite Hs. apply bind_cong; [reflexivity|]. intros _ st1.
      apply bind_cong; [exact Hfp|]. intros f st2. apply bind_cong; [reflexivity|]. intros st3 st4.
      destruct (mem_find cid f st3).
      + apply bind_cong; [reflexivity|]. intros _ st5. apply bind_cong; [exact Hfp|]. intros f2 st6.
        apply bind_cong; [reflexivity|]. intros st7 st8. destruct (mem_find cid f2 st7); [reflexivity|].
        apply bind_cong; [reflexivity|]. intros _ st9. apply Hmiss.
      + apply bind_cong; [reflexivity|]. intros _ st5. apply Hmiss.
    - rewrite !eval_cached_none_E, !wrap_eval_out. now rewrite He.
  Qed.

  Theorem dataset_toggle_equals_option d o s :
    d.(ds_effects_disabled) = false -> effects_opt_off (ds_site_options d o) = true ->
    site_ok (ELogged (ds_base d)) (ds_site_options d o) =
      site_ok (ELogged (ds_base (ds_toggle d))) (ds_site_options d o) ->
    eval (dataset_expr d) o s = eval (dataset_expr (ds_toggle d)) o s.
  Proof.
    intros Hd Hoff Hsite. rewrite !eval_dataset_site.
    change (ds_site_options (ds_toggle d) o) with (ds_site_options d o).
    change (ds_cache (ds_toggle d)) with (ds_cache d).
    apply cached_site_ext; [| |exact Hsite].
    - intros st. rewrite !logged_one_request. f_equal.
      unfold ds_base. rewrite Hd. cbn [ds_toggle ds_effects_disabled]. now apply effects_off_no_effect.
    - intros st. rewrite !keys_logged_E. unfold ds_base. rewrite Hd. cbn [ds_toggle ds_effects_disabled].
      now rewrite keys_comp_E.
  Qed.
End Clauses.

(** * 8. Two dictionaries that differ only in the LABREA section (the option spellings of the
      switches), caching off on both sides *)
Definition eqx (o1 o2 : dict) : Prop := forall s, s <> LAB -> dget s o1 = dget s o2.
Definition key_free (k : key) : bool :=
  match k with [] => false | SName n :: _ => negb (N.eqb n A_LABREA) | SIdx _ :: _ => true end.
(** the guard: the run looks no LABREA key up and does not read the whole dictionary *)
Definition g_free (ev : event) : bool :=
  match ev with EvRead k _ => key_free k | EvReadAll => false | _ => true end.
Definition reads_no_switch (l : list event) : bool := forallb g_free l.

Lemma lookup_eqx k o1 o2 : eqx o1 o2 -> key_free k = true -> lookup k (JObj o1) = lookup k (JObj o2).
Proof.
  intros He Hk. destruct k as [|[n|i] k']; [discriminate| |reflexivity].
  cbn [lookup]. rewrite (He (SName n)); [reflexivity|]. unfold LAB. intros E. inversion E; subst.
  cbn in Hk. discriminate.
Qed.

Lemma eqx_with force p o1 o2 :
  nodup_keys p = true -> nodup_keys o1 = true -> nodup_keys o2 = true -> eqx o1 o2 ->
  eqx (with_opts force p o1) (with_opts force p o2).
Proof.
  intros Hp H1 H2 He s Hs. destruct force; cbn [with_opts]; unfold mix.
  - rewrite !dget_mix_loop by exact Hp. destruct (dget s p) as [v|]; [|now apply He].
    unfold mix_entry. now rewrite (He s Hs).
  - rewrite dget_mix_loop by exact H1. rewrite dget_mix_loop by exact H2. now rewrite (He s Hs).
Qed.

Definition presentk (o : dict) (k : key) : bool :=
  match lookup k (JObj o) with Found _ => true | _ => false end.
Definition read_evs (o : dict) (ks : list key) : list event := map (fun k => EvRead k (presentk o k)) ks.

Lemma emit_reads_run S ks o s : emit_reads S ks o s = (Ok tt, s, read_evs o ks).
Proof.
  unfold emit_reads, read_evs. induction ks as [|k ks IH]; [reflexivity|].
  rewrite iterM_cons. unfold bind. unfold emit at 1. cbv beta iota. rewrite IH. reflexivity.
Qed.

Definition rres_val (r : rres) : res value :=
  match r with
  | ROk v => Ok (VJ v) | RMissing k => Err (CKey k) true | RTypeErr => Err CType false
  | RFuel => Err CFuel false | RUnmodelled => Err CUnmodelled false
  end.

Lemma resolved_run S rfuel o raw s :
  bind S (emit_reads S (resolve_reads rfuel o raw) o)
    (fun _ => bind S (of_rres S (resolve rfuel o raw)) (fun j => ret S (VJ j))) s =
  (rres_val (resolve rfuel o raw), s, read_evs o (resolve_reads rfuel o raw)).
Proof.
  unfold bind. rewrite emit_reads_run. destruct (resolve rfuel o raw); cbn; rewrite ?app_nil_r; reflexivity.
Qed.

Lemma guard_reads o ks : forallb g_free (read_evs o ks) = true -> forall k, In k ks -> key_free k = true.
Proof.
  unfold read_evs. induction ks as [|k ks IH]; intros H k' Hk; [destruct Hk|].
  cbn in H. apply andb_prop in H as [H1 H2]. destruct Hk as [<-|Hk]; auto.
Qed.

Lemma filter_agree {A} (p q : A -> bool) l : (forall x, In x l -> p x = q x) -> filter p l = filter q l.
Proof.
  induction l as [|a l IH]; intros H; [reflexivity|]. cbn. rewrite (H a (or_introl eq_refl)).
  rewrite IH; [reflexivity|]. intros x Hx. apply H. now right.
Qed.

Lemma read_evs_eqx o1 o2 ks :
  eqx o1 o2 -> (forall k, In k ks -> key_free k = true) -> read_evs o2 ks = read_evs o1 ks.
Proof.
  intros He H. unfold read_evs. apply map_ext_in. intros k Hk. unfold presentk.
  now rewrite (lookup_eqx k o1 o2 He (H k Hk)).
Qed.

Lemma par_key_free k : is_par_key k = true -> key_free k = true.
Proof.
  destruct k as [|[n|i] [|s k']]; try discriminate. cbn. intros H. apply N.leb_le in H.
  apply negb_true_iff. apply N.eqb_neq. unfold par_base, A_LABREA in *. lia.
Qed.

Section TwoDict.
  Variables S1 S2 : Type.
  Variable Rs : S1 -> S2 -> Prop.
  Variables phi1 phi2 : event -> bool.
  Variable rfuel : nat.
  Notation sim := (sim S1 S2 Rs phi1 phi2 g_free).
  Hypothesis Hphi : forall ev, uncond ev = true -> g_free ev = true -> phi1 ev = phi2 ev.

  Lemma reads_filter o ks :
    forallb g_free (read_evs o ks) = true -> filter phi1 (read_evs o ks) = filter phi2 (read_evs o ks).
  Proof.
    intros Hg. apply filter_agree. intros ev Hev. rewrite forallb_forall in Hg.
    apply Hphi; [|now apply Hg]. unfold read_evs in Hev. apply in_map_iff in Hev as (k & <- & _). reflexivity.
  Qed.

  Lemma two_rd k o1 o2 : eqx o1 o2 -> sim (rd S1 k o1) (rd S2 k o2).
  Proof.
    intros He s1 s2 HR Hg. unfold rd, bind, emit, ret in *. cbn in *. rewrite andb_true_r in Hg.
    rewrite <- (lookup_eqx k o1 o2 He Hg). repeat split; auto.
    rewrite (Hphi (EvRead k _) eq_refl Hg). reflexivity.
  Qed.

  Lemma two_resolved_core raw o1 o2 :
    eqx o1 o2 -> forallb g_free (read_evs o1 (resolve_reads rfuel o1 raw)) = true ->
    resolve_reads rfuel o2 raw = resolve_reads rfuel o1 raw /\ resolve rfuel o2 raw = resolve rfuel o1 raw /\
    read_evs o2 (resolve_reads rfuel o1 raw) = read_evs o1 (resolve_reads rfuel o1 raw).
  Proof.
    intros He Hg. pose proof (guard_reads _ _ Hg) as Hfree.
    assert (Hag : agree_keys o1 o2 (resolve_reads rfuel o1 raw)).
    { intros k Hk. unfold same_at. symmetry. apply lookup_eqx; auto. }
    destruct (resolve_frame o1 o2 rfuel raw Hag) as [E1 E2]. repeat split; auto.
    now apply read_evs_eqx.
  Qed.

  Lemma two_resolved raw o1 o2 : eqx o1 o2 ->
    sim (bind S1 (emit_reads S1 (resolve_reads rfuel o1 raw) o1)
           (fun _ => bind S1 (of_rres S1 (resolve rfuel o1 raw)) (fun j => ret S1 (VJ j))))
        (bind S2 (emit_reads S2 (resolve_reads rfuel o2 raw) o2)
           (fun _ => bind S2 (of_rres S2 (resolve rfuel o2 raw)) (fun j => ret S2 (VJ j)))).
  Proof.
    intros He s1 s2 HR. unfold simo. rewrite !resolved_run. cbn [fst snd]. intros Hg.
    destruct (two_resolved_core raw o1 o2 He Hg) as (E1 & E2 & E3). rewrite E1, E2, E3.
    repeat split; auto. now apply reads_filter.
  Qed.

  Lemma two_allopt o1 o2 : sim (all_options_eval S1 rfuel o1) (all_options_eval S2 rfuel o2).
  Proof.
    intros s1 s2 HR Hg. exfalso. unfold all_options_eval, bind in Hg. unfold emit at 1 in Hg. cbv beta iota in Hg.
    destruct (match of_rres S1 (resolve rfuel o1 (JObj o1)) s1 with
              | (Ok a, s', l) => let '(r, s'', l') := ret S1 (VJ a) s' in (r, s'', l ++ l')
              | (Err c ee, s', l) => (Err c ee, s', l) end) as [[r s'] l]. cbn in Hg. discriminate.
  Qed.

  Definition to_str_val (r : rres) : res value :=
    match r with
    | ROk j => match to_str j with Some x => Ok (VJ (JStr x)) | None => Err CUnmodelled false end
    | RMissing k => Err (CKey k) true | RTypeErr => Err CType false
    | RFuel => Err CFuel false | RUnmodelled => Err CUnmodelled false
    end.
  Lemma template_tail_run S s o' o st :
    template_tail S rfuel s o' o st =
      (to_str_val (resolve rfuel o' (JStr s)), st,
       read_evs o (filter (fun k => negb (is_par_key k)) (resolve_reads rfuel o' (JStr s)))).
  Proof.
    unfold template_tail, bind. rewrite emit_reads_run.
    destruct (resolve rfuel o' (JStr s)) as [j|k| | |]; cbn; rewrite ?app_nil_r; try reflexivity.
    destruct (to_str j); cbn; rewrite ?app_nil_r; reflexivity.
  Qed.

  Lemma two_template s pd o1 o2 :
    eqx o1 o2 -> eqx (mix o1 pd) (mix o2 pd) ->
    sim (template_tail S1 rfuel s (mix o1 pd) o1) (template_tail S2 rfuel s (mix o2 pd) o2).
  Proof.
    intros He He' s1 s2 HR. unfold simo. rewrite !template_tail_run. cbn [fst snd]. intros Hg.
    pose proof (guard_reads _ _ Hg) as Hfree.
    assert (Hall : forall k, In k (resolve_reads rfuel (mix o1 pd) (JStr s)) -> key_free k = true).
    { intros k Hk. destruct (is_par_key k) eqn:Ep; [now apply par_key_free|].
      apply Hfree. apply filter_In. split; [exact Hk|]. now rewrite Ep. }
    assert (Hag : agree_keys (mix o1 pd) (mix o2 pd) (resolve_reads rfuel (mix o1 pd) (JStr s))).
    { intros k Hk. unfold same_at. symmetry. apply lookup_eqx; auto. }
    destruct (resolve_frame _ _ rfuel (JStr s) Hag) as [E1 E2]. rewrite E1, E2.
    rewrite (read_evs_eqx o1 o2 _ He Hfree). repeat split; auto. now apply reads_filter.
  Qed.

  Lemma validate_ref_found_run S o raw st :
    bind S (emit_reads S (resolve_reads rfuel o raw) o)
      (fun _ => bind S (wrap_eval S (of_rres S (resolve rfuel o raw))) (fun _ => ret S tt)) st =
    (match rres_val (resolve rfuel o raw) with Ok _ => Ok tt | Err c _ => Err c true end, st,
     read_evs o (resolve_reads rfuel o raw)).
  Proof.
    unfold bind. rewrite emit_reads_run. destruct (resolve rfuel o raw); cbn; rewrite ?app_nil_r; reflexivity.
  Qed.

  Lemma two_validate_ref k o1 o2 : eqx o1 o2 -> sim (validate_ref S1 rfuel o1 k) (validate_ref S2 rfuel o2 k).
  Proof.
    intros He. unfold validate_ref. apply sim_bind; [now apply two_rd|]. intros r.
    destruct r as [raw| |]; try apply sim_fail.
    intros s1 s2 HR. unfold simo. rewrite !validate_ref_found_run. cbn [fst snd]. intros Hg.
    destruct (two_resolved_core raw o1 o2 He Hg) as (E1 & E2 & E3). rewrite E1, E2, E3.
    repeat split; auto. now apply reads_filter.
  Qed.
End TwoDict.

Definition is_nil {A} (l : list A) : bool := match l with [] => true | _ => false end.
(** [switch_stable], and — unless the effects switch has the same value in both dictionaries
    ([flag]) — no Computation with effects *)
Definition switch_stable_eff (flag : bool) : expr -> bool :=
  okexpr pres_nolab key_nolab (fun effs => flag || is_nil effs).

Section OptionsFrame.
  Variable S : Type.
  Variable mf : N -> fp -> S -> option value.
  Variable ms : N -> fp -> value -> S -> S.
  Variable ucall : N -> list value -> cres.
  Variable rfuel : nat.
  Variable site : expr -> dict -> bool.
  Variables cfg1 cfg2 : config.

  Definition Ro2 (lab1 lab2 : option json) (o1 o2 : dict) : Prop :=
    eqx o1 o2 /\ labinv lab1 o1 /\ labinv lab2 o2.

  Lemma Ro2_with lab1 lab2 force p o1 o2 :
    pres_nolab p = true -> Ro2 lab1 lab2 o1 o2 -> Ro2 lab1 lab2 (with_opts force p o1) (with_opts force p o2).
  Proof.
    intros Hp (He & I1 & I2). destruct (pres_nolab_spec _ Hp) as [Pnd _].
    split; [|split; now apply labinv_with].
    apply eqx_with; auto; [apply I1|apply I2].
  Qed.

  Lemma template_pd_nolab ps pvs pd : template_pd ps pvs = Some pd -> pres_nolab pd = true.
  Proof.
    unfold template_pd. destruct (option_set _ []) as [pd0|] eqn:E; [|discriminate].
    destruct (negb (Nat.eqb (length pd0) (length ps))); [discriminate|]. intros H. inversion H; subst pd0.
    eapply option_set_nolab; [exact E| |reflexivity].
    clear. induction pvs as [|[p v] pvs IH]; [reflexivity|]. cbn [flat_map fst snd].
    destruct (json_of_value v); cbn [app map fst forallb]; [|exact IH]. rewrite IH, andb_true_r.
    unfold par_key, key_nolab. apply negb_true_iff, N.eqb_neq. unfold par_base, A_LABREA. lia.
  Qed.

  Theorem options_frame_sim e o1 o2 :
    switch_stable_eff (Bool.eqb (effects_opt_off o1) (effects_opt_off o2)) e = true ->
    wf_dict o1 = true -> wf_dict o2 = true -> eqx o1 o2 ->
    cache_off cfg1 o1 = true -> cache_off cfg2 o2 = true ->
    sim S S eq not_emit not_emit g_free
        (eval S mf ms cfg1 ucall rfuel site e o1) (eval S mf ms cfg2 ucall rfuel site e o2) /\
    sim S S eq not_emit not_emit g_free
        (validate S mf ms cfg1 ucall rfuel site e o1) (validate S mf ms cfg2 ucall rfuel site e o2).
  Proof.
    intros Hst W1 W2 He C1 C2.
    assert (R0 : Ro2 (lab o1) (lab o2) o1 o2) by (split; [exact He|split; now apply labinv_init]).
    assert (Hphi : forall ev, uncond ev = true -> g_free ev = true -> not_emit ev = not_emit ev) by reflexivity.
    destruct (sim_main S S mf ms mf ms cfg1 cfg2 ucall rfuel site site eq not_emit not_emit g_free
                (Ro2 (lab o1) (lab o2)) pres_nolab key_nolab
                (fun effs => Bool.eqb (effects_opt_off o1) (effects_opt_off o2) || is_nil effs) false)
      with (e := e) (o1 := o1) (o2 := o2) as (A & B & _); try (intros; discriminate); auto.
    - intros force p a b Hp R. now apply Ro2_with.
    - intros row os s s' l Hk E a b R. apply Ro2_with; [|exact R]. eapply row_options_nolab; eauto.
    - intros k a b (E & _). now apply two_rd.
    - intros raw a b (E & _). now apply two_resolved.
    - intros a b _. now apply two_allopt.
    - intros s ps pvs pd a b Epd R. pose proof (template_pd_nolab _ _ _ Epd) as Hpd.
      destruct (Ro2_with _ _ true pd a b Hpd R) as (E' & _). destruct R as (E & _).
      now apply two_template.
    - intros k a b (E & _). now apply two_validate_ref.
    - intros a b _ _. destruct (log_off cfg1 a), (log_off cfg2 b); reflexivity.
    - intros effs a b Hf (_ & (_ & _ & L1) & (_ & _ & L2)).
      apply orb_prop in Hf as [Hf|Hf]; [right|left; now destruct effs].
      apply eqb_prop in Hf.
      destruct (switch_flags_lab a o1 L1) as (_ & E1 & _). destruct (switch_flags_lab b o2 L2) as (_ & E2 & _).
      congruence.
    - intros _ a b (_ & (_ & _ & L1) & (_ & _ & L2)). unfold cache_off in *.
      destruct (switch_flags_lab a o1 L1) as (E1 & _). destruct (switch_flags_lab b o2 L2) as (E2 & _).
      rewrite E1, E2. auto.
  Qed.

  (** (5) the option spellings of the caching and logging switches (and of the effects switch
      when the expression has no effects) do not change results, store or events other than
      log emissions — relative to the cache-free semantics, for runs that read no LABREA key *)
  Theorem switch_options_frame e o1 o2 s :
    switch_stable_eff (Bool.eqb (effects_opt_off o1) (effects_opt_off o2)) e = true ->
    wf_dict o1 = true -> wf_dict o2 = true -> eqx o1 o2 ->
    cache_off cfg1 o1 = true -> cache_off cfg2 o2 = true ->
    let x1 := eval S mf ms cfg1 ucall rfuel site e o1 s in
    let x2 := eval S mf ms cfg2 ucall rfuel site e o2 s in
    reads_no_switch (snd x1) = true ->
    fst (fst x2) = fst (fst x1) /\ snd (fst x2) = snd (fst x1) /\
    filter not_emit (snd x2) = filter not_emit (snd x1).
  Proof.
    intros Hst W1 W2 He C1 C2 x1 x2 Hg.
    destruct (options_frame_sim e o1 o2 Hst W1 W2 He C1 C2) as [A _].
    destruct (A s s eq_refl Hg) as (Hr & Hs & Hl). auto.
  Qed.
End OptionsFrame.

(** * 9. The caching switch and values: what is proved here is the single site.  The full
      statement "the run with caches on returns what the run with caches off returns" is the
      transparency theorem of C01/C02 (sound stores are preserved by runs on clean
      dictionaries); it is NOT re-proved here. *)
Section CacheSite.
  Variable S : Type.
  Variable mem_find : N -> fp -> S -> option value.
  Variable mem_store : N -> fp -> value -> S -> S.
  Variable cfg : config.
  Variable ucall : N -> list value -> cres.
  Variable rfuel : nat.
  Variable site_ok : expr -> dict -> bool.
  Notation eval := (eval S mem_find mem_store cfg ucall rfuel site_ok).
  Notation fingerprint := (fingerprint S mem_find mem_store cfg ucall rfuel site_ok).

  (** the entry of the site, if any, is what evaluating the cached expression now returns *)
  Definition site_sound (cid : N) (e : expr) (o : dict) (s : S) (f : fp) : Prop :=
    forall v, mem_find cid f s = Some v -> fst (fst (eval e o s)) = Ok v.

  Theorem cached_site_value_partial cid e o s f :
    cache_off cfg o = false -> kstatic e = true ->
    fst (fst (fingerprint e o s)) = Ok f -> site_sound cid e o s f ->
    fst (fst (eval (ECached (CMem cid) e) o s)) = fst (fst (eval e o s)).
  Proof.
    intros Hon Hk Hf Hs. destruct (mem_find cid f s) as [v|] eqn:Em.
    - destruct (cached_hit_not_evaluated S mem_find mem_store cfg ucall rfuel site_ok cid e o s f v Hon Hk Hf Em)
        as (A & _). cbv zeta in A. rewrite A. symmetry. now apply Hs.
    - now destruct (cached_miss_adds_nothing S mem_find mem_store cfg ucall rfuel site_ok cid e o s f Hon Hk Hf Em).
  Qed.

  (** [nocache] and the switched-off cache are the same site *)
  Theorem nocache_is_cache_off cid e o s :
    cache_off cfg o = true -> eval (ECached (CMem cid) e) o s = eval (ECached CNone e) o s.
  Proof. intros H. rewrite eval_cached_mem_E, eval_cached_none_E, H. reflexivity. Qed.
End CacheSite.
