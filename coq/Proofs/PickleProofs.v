(** Proofs about Model/Pickle.v (property C20). *)
From Coq Require Import List NArith ZArith Bool Lia.
Import ListNotations.
From LV Require Import Model.Base Model.Pickle.

(** * Induction over the (nested) tree *)
Section NodeInd.
  Variable P : node -> Prop.
  Hypothesis HV : forall j, P (NValue j).
  Hypothesis HM : P NMissingV.
  Hypothesis HO : forall k d, (forall n, d = Some n -> P n) -> P (NOption k d).
  Hypothesis HA : forall f a, Forall (fun p => P (snd p)) a -> P (NApply f a).
  Hypothesis HOv : forall d lk df l,
      P d -> Forall (fun p => P (snd p)) lk -> (forall n, df = Some n -> P n) ->
      P (NOverloaded d lk df l).
  Hypothesis HD : forall ov effs c po dpo cb dis m, P ov -> P (NDataset ov effs c po dpo cb dis m).

  Fixpoint node_ind2 (t : node) : P t :=
    match t as t0 return P t0 with
    | NValue j => HV j
    | NMissingV => HM
    | NOption k d =>
        HO k d (match d as d0 return forall n, d0 = Some n -> P n with
                | Some n0 => fun n E => match E in _ = s return match s with Some m => P m | None => True end
                                        with eq_refl => node_ind2 n0 end
                | None => fun n E => match E in _ = s return match s with Some m => P m | None => True end
                                     with eq_refl => I end
                end)
    | NApply f a =>
        HA f a ((fix go (l : list (N * node)) : Forall (fun p => P (snd p)) l :=
                   match l with
                   | [] => Forall_nil _
                   | x :: l' => Forall_cons x (node_ind2 (snd x)) (go l')
                   end) a)
    | NOverloaded d lk df l =>
        HOv d lk df l (node_ind2 d)
            ((fix go (l : list (hkey * node)) : Forall (fun p => P (snd p)) l :=
                match l with
                | [] => Forall_nil _
                | x :: l' => Forall_cons x (node_ind2 (snd x)) (go l')
                end) lk)
            (match df as d0 return forall n, d0 = Some n -> P n with
             | Some n0 => fun n E => match E in _ = s return match s with Some m => P m | None => True end
                                     with eq_refl => node_ind2 n0 end
             | None => fun n E => match E in _ = s return match s with Some m => P m | None => True end
                                  with eq_refl => I end
             end)
    | NDataset ov effs c po dpo cb dis m => HD ov effs c po dpo cb dis m (node_ind2 ov)
    end.
End NodeInd.

Definition emap {K} (g : node -> node) (l : list (K * node)) : list (K * node) :=
  map (fun '(k, x) => (k, g x)) l.

Lemma emap_eq {K} (g h : node -> node) (l : list (K * node)) :
  Forall (fun p => g (snd p) = h (snd p)) l -> emap g l = emap h l.
Proof.
  induction 1 as [|[k x] l Hx _ IH]; simpl; [reflexivity|].
  simpl in Hx. now rewrite Hx, IH.
Qed.

Lemma emap_emap {K} (g h : node -> node) (l : list (K * node)) : emap g (emap h l) = emap (fun x => g (h x)) l.
Proof. induction l as [|[k x] l IH]; simpl; [reflexivity|]. now rewrite IH. Qed.

Lemma omap_eq (g h : node -> node) (d : option node) :
  (forall n, d = Some n -> g n = h n) -> option_map g d = option_map h d.
Proof. destruct d as [n|]; simpl; intros H; [now rewrite (H n eq_refl)|reflexivity]. Qed.

(** * [__getstate__] forgets nothing but the lock object *)
Lemma erase_getstate t : erase (getstate t) = erase t.
Proof.
  induction t as [j| |k d IH|f a IH|d lk df l IHd IHlk IHdf|ov effs c po dpo cb dis m IH]
    using node_ind2; simpl; try reflexivity.
  - f_equal. destruct d as [n|]; simpl; [now rewrite (IH n eq_refl)|reflexivity].
  - f_equal. change (emap erase (emap getstate a) = emap erase a).
    rewrite emap_emap. now apply emap_eq.
  - rewrite IHd. f_equal.
    + change (emap erase (emap getstate lk) = emap erase lk).
      rewrite emap_emap. now apply emap_eq.
    + destruct df as [n|]; simpl; [now rewrite (IHdf n eq_refl)|reflexivity].
  - now rewrite IH.
Qed.

(** * [__setstate__] restores everything but the lock object, in any process *)
Lemma thread_erase {K} (l : list (K * node)) :
  Forall (fun p => forall P, erase (fst (setstate P (snd p))) = erase (snd p)) l ->
  forall P,
    emap erase (fst (thread (fun P '(k, x) => let '(x', P') := setstate P x in ((k, x'), P')) P l))
    = emap erase l.
Proof.
  induction 1 as [|[k x] l Hx _ IH]; intros P; simpl; [reflexivity|].
  simpl in Hx. specialize (Hx P). destruct (setstate P x) as [x' P1]; simpl in Hx.
  specialize (IH P1).
  destruct (thread _ P1 l) as [r P2]; simpl in *. now rewrite Hx, IH.
Qed.

Lemma erase_setstate t : forall P, erase (fst (setstate P t)) = erase t.
Proof.
  induction t as [j| |k d IH|f a IH|d lk df l IHd IHlk IHdf|ov effs c po dpo cb dis m IH]
    using node_ind2; intros P; simpl; try reflexivity.
  - destruct d as [n|]; simpl; [|reflexivity].
    specialize (IH n eq_refl P). destruct (setstate P n) as [n' P1]; simpl in *. now rewrite IH.
  - pose proof (thread_erase a IH P) as H.
    destruct (thread _ P a) as [a' P1]; simpl in *. unfold emap in H. now rewrite H.
  - specialize (IHd P). destruct (setstate P d) as [d' P1]; simpl in IHd.
    pose proof (thread_erase lk IHlk P1) as H.
    destruct (thread _ P1 lk) as [lk' P2]; simpl in H.
    assert (Hdf : option_map erase (fst (thread_opt setstate P2 df)) = option_map erase df).
    { destruct df as [n|]; simpl; [|reflexivity].
      specialize (IHdf n eq_refl P2). destruct (setstate P2 n) as [n' P3]; simpl in *. now rewrite IHdf. }
    destruct (thread_opt setstate P2 df) as [df' P3]; simpl in Hdf.
    destruct (setstate_lock P3 l) as [l' P4]; simpl.
    unfold emap in H. now rewrite IHd, H, Hdf.
  - specialize (IH P). destruct (setstate P ov) as [ov' P1]; simpl in *. now rewrite IH.
Qed.

Theorem getstate_setstate_id P t : erase (roundtrip P t) = erase t.
Proof. unfold roundtrip. now rewrite erase_setstate, erase_getstate. Qed.

(** in particular: every overload alias, nested tables included, in order *)
Lemma flat_map_ext_Forall {A B} (f g : A -> list B) l :
  Forall (fun a => f a = g a) l -> flat_map f l = flat_map g l.
Proof. induction 1 as [|a l Ha _ IH]; simpl; [reflexivity|]. now rewrite Ha, IH. Qed.

Lemma aliases_erase t : aliases (erase t) = aliases t.
Proof.
  induction t as [j| |k d IH|f a IH|d lk df l IHd IHlk IHdf|ov effs c po dpo cb dis m IH]
    using node_ind2; simpl; try reflexivity.
  - destruct d as [n|]; simpl; [now apply IH|reflexivity].
  - rewrite flat_map_concat_map, map_map, <- flat_map_concat_map.
    apply flat_map_ext_Forall. eapply Forall_impl; [|exact IH]. now intros [n x]; simpl.
  - rewrite IHd. f_equal. f_equal.
    + rewrite flat_map_concat_map, map_map, <- flat_map_concat_map.
      apply flat_map_ext_Forall. eapply Forall_impl; [|exact IHlk].
      intros [k x]; simpl. now intros ->.
    + destruct df as [n|]; simpl; [now apply IHdf|reflexivity].
  - exact IH.
Qed.

Theorem aliases_roundtrip P t : aliases (roundtrip P t) = aliases t.
Proof. now rewrite <- (aliases_erase (roundtrip P t)), getstate_setstate_id, aliases_erase. Qed.

(** the cache, pre-set and default options, callback, effects, switch and metadata of the
    top-level dataset are the very same after the round trip *)
Theorem dataset_fields_roundtrip P ov effs c po dpo cb dis m :
  exists ov', roundtrip P (NDataset ov effs c po dpo cb dis m) = NDataset ov' effs c po dpo cb dis m
              /\ erase ov' = erase ov.
Proof.
  pose proof (getstate_setstate_id P (NDataset ov effs c po dpo cb dis m)) as H.
  unfold roundtrip in *. simpl in *.
  destruct (setstate P (getstate ov)) as [ov' P1]; simpl in *.
  exists ov'. split; [reflexivity|]. now injection H.
Qed.

(** * The lock slot after the round trip *)
Lemma thread_all_live {K} (l : list (K * node)) :
  Forall (fun p => forall P, all_live (fst (setstate P (getstate (snd p)))) = true) l ->
  forall P,
    forallb (fun '(_, x) => all_live x)
      (fst (thread (fun P '(k, x) => let '(x', P') := setstate P x in ((k, x'), P')) P
              (emap getstate l))) = true.
Proof.
  induction 1 as [|[k x] l Hx _ IH]; intros P; simpl; [reflexivity|].
  simpl in Hx. specialize (Hx P). destruct (setstate P (getstate x)) as [x' P1]; simpl in Hx.
  specialize (IH P1). unfold emap in IH.
  destruct (thread _ P1 _) as [r P2]; simpl in *. now rewrite Hx, IH.
Qed.

Lemma all_live_setstate_getstate t : forall P, all_live (fst (setstate P (getstate t))) = true.
Proof.
  induction t as [j| |k d IH|f a IH|d lk df l IHd IHlk IHdf|ov effs c po dpo cb dis m IH]
    using node_ind2; intros P; simpl; try reflexivity.
  - destruct d as [n|]; simpl; [|reflexivity].
    specialize (IH n eq_refl P). destruct (setstate P (getstate n)) as [n' P1]; simpl in *. exact IH.
  - pose proof (thread_all_live a IH P) as H. unfold emap in H.
    destruct (thread _ P _) as [a' P1]; simpl in *. exact H.
  - specialize (IHd P). destruct (setstate P (getstate d)) as [d' P1]; simpl in IHd.
    pose proof (thread_all_live lk IHlk P1) as H. unfold emap in H.
    destruct (thread _ P1 _) as [lk' P2]; simpl in H.
    assert (Hdf : match fst (thread_opt setstate P2 (option_map getstate df)) with
                  | Some n => all_live n | None => true end = true).
    { destruct df as [n|]; simpl; [|reflexivity].
      specialize (IHdf n eq_refl P2). destruct (setstate P2 (getstate n)) as [n' P3]; simpl in *.
      exact IHdf. }
    destruct (thread_opt setstate P2 _) as [df' P3]; simpl in Hdf.
    assert (Hl : is_live (fst (setstate_lock P3 (getstate_lock l))) = true).
    { destruct l as [oid lk0|oid]; simpl; destruct (get_lock P3 oid) as [lk1 Q]; reflexivity. }
    destruct (setstate_lock P3 _) as [l' P4]; simpl in *.
    now rewrite IHd, H, Hdf, Hl.
  - specialize (IH P). destruct (setstate P (getstate ov)) as [ov' P1]; simpl in *. exact IH.
Qed.

Theorem locks_restored P t : all_live (roundtrip P t) = true.
Proof. apply all_live_setstate_getstate. Qed.

(** [_get_lock] with the old id as key: the lock already registered under that key (same
    process: the original's own lock; another process: whatever object was keyed there), a
    new one otherwise; the key is in the table afterwards. *)
Lemma get_lock_spec P x :
  let '(l, P') := get_lock P x in
  assoc x P'.(locks) = Some l /\
  (forall l0, assoc x P.(locks) = Some l0 -> l = l0 /\ P' = P) /\
  (assoc x P.(locks) = None -> l = P.(next_lock)).
Proof.
  unfold get_lock. destruct (assoc x (locks P)) as [l0|] eqn:E; simpl.
  - split; [exact E|]. split; [|intros H; discriminate].
    intros l1 H. injection H as ->. split; reflexivity.
  - rewrite N.eqb_refl. split; [reflexivity|]. split; [intros l0 H; discriminate|reflexivity].
Qed.

Theorem top_lock_after_roundtrip P d lk df oid l :
  exists d' lk' df' nid l' P',
    setstate P (getstate (NOverloaded d lk df (Live oid l))) = (NOverloaded d' lk' df' (Live nid l'), P')
    /\ assoc oid P'.(locks) = Some l'.
Proof.
  simpl.
  destruct (setstate P (getstate d)) as [d' P1].
  destruct (thread _ P1 _) as [lk' P2].
  destruct (thread_opt setstate P2 _) as [df' P3].
  pose proof (get_lock_spec P3 oid) as H.
  destruct (get_lock P3 oid) as [l' P4]. destruct H as [H _].
  exists d', lk', df', (next_id P4), l'. eexists. split; [reflexivity|]. simpl. exact H.
Qed.

(** a leaf table (no nested overloads below it): the lock is exactly [_LOCKS[old id]] when the
    process knows the old id — the unpickled copy shares the original's lock in the pickling
    process — and a brand-new lock otherwise *)
Theorem leaf_lock_same_process P j lk0 oid l :
  assoc oid P.(locks) = Some lk0 ->
  fst (setstate P (getstate (NOverloaded (NValue j) [] None (Live oid l))))
  = NOverloaded (NValue j) [] None (Live P.(next_id) lk0).
Proof. intros H. simpl. unfold get_lock. rewrite H. reflexivity. Qed.

Theorem leaf_lock_fresh_process P j oid l :
  assoc oid P.(locks) = None ->
  fst (setstate P (getstate (NOverloaded (NValue j) [] None (Live oid l))))
  = NOverloaded (NValue j) [] None (Live P.(next_id) P.(next_lock)).
Proof. intros H. simpl. unfold get_lock. rewrite H. reflexivity. Qed.

(** * Behaviour depends on the structure only *)
Section Behaviour.
  Variable body : N -> list (N * value) -> option value.
  Variable cbf : N -> value -> option value.
  Variable eff : N -> value -> bool.

  Notation eval := (eval body cbf eff).
  Notation keys := (keys body cbf eff).
  Notation valid := (valid body cbf eff).

  (** unfolding equations of the fuelled family (checked by [reflexivity]) *)
  Lemma eval_S f t o :
    eval (S f) t o =
    match t with
    | NValue j => Ok (VJ j)
    | NMissingV => Ok VMissing
    | NOption k d =>
        match lookup_top k o with
        | Found v => Ok (VJ v)
        | Absent => match d with Some n => eval f n o | None => Fail FMissing end
        | TypeErr => Fail FType
        end
    | NApply fn a =>
        match map_res (fun x => eval f x o) a with
        | Fail e => Fail e
        | Ok vs => match body fn vs with Some v => Ok v | None => Fail FUser end
        end
    | NOverloaded d lk df _ =>
        match choose (eval f d o) lk df with
        | Fail e => Fail e
        | Ok (n, _) => eval f n o
        end
    | NDataset ov effs c po dpo cb dis _ =>
        let o1 := mix dpo o in
        let o2 := mix o1 po in
        let compute :=
          match eval f ov o2 with
          | Fail e => Fail e
          | Ok v =>
              match apply_callbacks cbf cb v with
              | None => Fail FUser
              | Some v' =>
                  if dis || effects_disabled_opt o2 then Ok v'
                  else if forallb (fun e => eff e v') effs then Ok v' else Fail FUser
              end
          end in
        match c with
        | CNoCache => compute
        | CMemory es =>
            if cache_disabled o2 then compute else
              match keys f ov o2 with
              | Fail e => Fail e
              | Ok ks => match cfind (fp_of ks o2) es with Some v => Ok v | None => compute end
              end
        end
    end.
  Proof. destruct t as [| | | | |? ? []]; reflexivity. Qed.

  Lemma keys_S f t o :
    keys (S f) t o =
    match t with
    | NValue _ | NMissingV => Ok []
    | NOption k d =>
        match lookup_top k o with
        | Found _ => Ok [k]
        | Absent => match d with Some n => keys f n o | None => Fail FMissing end
        | TypeErr => Fail FType
        end
    | NApply _ a => cat_res (fun x => keys f x o) a
    | NOverloaded d lk df _ =>
        match choose (eval f d o) lk df with
        | Fail e => Fail e
        | Ok (n, dep) =>
            match keys f n o with
            | Fail e => Fail e
            | Ok ks =>
                if dep then match keys f d o with Ok kd => Ok (ks ++ kd) | Fail e => Fail e end
                else Ok ks
            end
        end
    | NDataset ov _ _ po dpo _ _ _ =>
        let o1 := mix dpo o in
        let o2 := mix o1 po in
        match keys f ov o2 with
        | Fail e => Fail e
        | Ok ks =>
            Ok (filter (fun k => negb (preset_default k o dpo))
                  (filter (fun k => negb (preset_force k o1 o2 po)) ks))
        end
    end.
  Proof. destruct t; reflexivity. Qed.

  Lemma valid_S f t o :
    valid (S f) t o =
    match t with
    | NValue _ | NMissingV => Ok tt
    | NOption k d =>
        match lookup_top k o with
        | Found _ => Ok tt
        | Absent => match d with Some n => valid f n o | None => Fail FMissing end
        | TypeErr => Fail FType
        end
    | NApply _ a => all_res (fun x => valid f x o) a
    | NOverloaded d lk df _ =>
        match choose (eval f d o) lk df with
        | Fail e => Fail e
        | Ok (n, _) => valid f n o
        end
    | NDataset ov _ c po dpo _ _ _ =>
        let o1 := mix dpo o in
        let o2 := mix o1 po in
        match c with
        | CNoCache => valid f ov o2
        | CMemory es =>
            if cache_disabled o2 then valid f ov o2 else
              match keys f ov o2 with
              | Fail e => Fail e
              | Ok ks => match cfind (fp_of ks o2) es with Some _ => Ok tt | None => valid f ov o2 end
              end
        end
    end.
  Proof. destruct t; reflexivity. Qed.

  Lemma tfind_emap k g lk : tfind k (emap g lk) = option_map g (tfind k lk).
  Proof.
    induction lk as [|[k' x] lk IH]; simpl; [reflexivity|].
    destruct (hkey_eqb k k'); [reflexivity|exact IH].
  Qed.

  Lemma choose_erase r lk df :
    choose r (emap erase lk) (option_map erase df)
    = match choose r lk df with Ok (n, b) => Ok (erase n, b) | Fail e => Fail e end.
  Proof.
    unfold choose. destruct r as [v|e].
    - destruct (negb (hashable v)); [reflexivity|]. destruct (to_hkey v) as [k|].
      + rewrite tfind_emap. destruct (tfind k lk); simpl; [reflexivity|].
        destruct df; reflexivity.
      + destruct df; reflexivity.
    - destruct df; reflexivity.
  Qed.

  Lemma map_res_ext {B} (g h : node -> res B) a :
    (forall x, g x = h (erase x)) -> map_res g a = map_res h (emap erase a).
  Proof.
    intros H. induction a as [|[n x] a IH]; simpl; [reflexivity|].
    rewrite H. destruct (h (erase x)); [|reflexivity]. now rewrite IH.
  Qed.

  Lemma cat_res_ext (g h : node -> res (list key)) a :
    (forall x, g x = h (erase x)) -> cat_res g a = cat_res h (emap erase a).
  Proof.
    intros H. induction a as [|[n x] a IH]; simpl; [reflexivity|].
    rewrite H. destruct (h (erase x)); [|reflexivity]. now rewrite IH.
  Qed.

  Lemma all_res_ext (g h : node -> res unit) a :
    (forall x, g x = h (erase x)) -> all_res g a = all_res h (emap erase a).
  Proof.
    intros H. induction a as [|[n x] a IH]; simpl; [reflexivity|].
    rewrite H. destruct (h (erase x)); [|reflexivity]. exact IH.
  Qed.

  Lemma eval_keys_erase fuel :
    (forall t o, eval fuel t o = eval fuel (erase t) o) /\
    (forall t o, keys fuel t o = keys fuel (erase t) o).
  Proof.
    induction fuel as [|f [IHe IHk]]; [split; reflexivity|].
    split; intros t o; destruct t as [j| |k d|fn a|d lk df l|ov effs c po dpo cb dis m];
      rewrite ?eval_S, ?keys_S; cbn [erase]; try reflexivity.
    - destruct (lookup_top k o); try reflexivity. destruct d as [n|]; cbn [option_map]; [apply IHe|reflexivity].
    - change (map (fun '(n, x) => (n, erase x)) a) with (emap erase a).
      rewrite (map_res_ext (fun x => eval f x o) (fun x => eval f x o) a); [reflexivity|].
      intros x; apply IHe.
    - change (map (fun '(k, x) => (k, erase x)) lk) with (emap erase lk).
      rewrite <- IHe, choose_erase.
      destruct (choose (eval f d o) lk df) as [[n b]|e]; [apply IHe|reflexivity].
    - rewrite <- IHe, <- IHk. reflexivity.
    - destruct (lookup_top k o); try reflexivity. destruct d as [n|]; cbn [option_map]; [apply IHk|reflexivity].
    - change (map (fun '(n, x) => (n, erase x)) a) with (emap erase a).
      apply cat_res_ext. intros x; apply IHk.
    - change (map (fun '(k, x) => (k, erase x)) lk) with (emap erase lk).
      rewrite <- IHe, choose_erase.
      destruct (choose (eval f d o) lk df) as [[n b]|e]; [|reflexivity].
      rewrite <- IHk. destruct (keys f n o); [|reflexivity].
      destruct b; [|reflexivity]. now rewrite <- IHk.
    - now rewrite <- IHk.
  Qed.

  Lemma valid_erase fuel : forall t o, valid fuel t o = valid fuel (erase t) o.
  Proof.
    induction fuel as [|f IH]; [reflexivity|].
    destruct (eval_keys_erase f) as [IHe IHk].
    intros t o; destruct t as [j| |k d|fn a|d lk df l|ov effs c po dpo cb dis m];
      rewrite !valid_S; cbn [erase]; try reflexivity.
    - destruct (lookup_top k o); try reflexivity. destruct d as [n|]; cbn [option_map]; [apply IH|reflexivity].
    - change (map (fun '(n, x) => (n, erase x)) a) with (emap erase a).
      apply all_res_ext. intros x; apply IH.
    - change (map (fun '(k, x) => (k, erase x)) lk) with (emap erase lk).
      rewrite <- IHe, choose_erase.
      destruct (choose (eval f d o) lk df) as [[n b]|e]; [apply IH|reflexivity].
    - rewrite <- IHk, <- IH. reflexivity.
  Qed.

  (** two graphs that differ in lock slots only are indistinguishable by evaluation, keys and
      validation, for every options dictionary (and every amount of fuel) *)
  Theorem behaviour_is_structural t u :
    erase t = erase u ->
    forall fuel o,
      eval fuel t o = eval fuel u o /\ keys fuel t o = keys fuel u o /\ valid fuel t o = valid fuel u o.
  Proof.
    intros E fuel o. destruct (eval_keys_erase fuel) as [He Hk].
    rewrite (He t), (He u), (Hk t), (Hk u), (valid_erase fuel t), (valid_erase fuel u), E.
    repeat split.
  Qed.

  Theorem roundtrip_behaves_identically P t fuel o :
    eval fuel (roundtrip P t) o = eval fuel t o /\
    keys fuel (roundtrip P t) o = keys fuel t o /\
    valid fuel (roundtrip P t) o = valid fuel t o.
  Proof. apply behaviour_is_structural, getstate_setstate_id. Qed.

  (** with the importability side condition made explicit *)
  Theorem pickle_roundtrip_partial imp t s :
    pickle imp t = Some s ->
    forall P fuel o,
      eval fuel (fst (setstate P s)) o = eval fuel t o /\
      keys fuel (fst (setstate P s)) o = keys fuel t o /\
      valid fuel (fst (setstate P s)) o = valid fuel t o.
  Proof.
    unfold pickle. destruct (picklable imp t); [|discriminate].
    intros H; injection H as <-. intros P fuel o. apply (roundtrip_behaves_identically P t fuel o).
  Qed.

  (** * Registration on the unpickled copy *)
  Lemma seg_eqb_eq a b : seg_eqb a b = true <-> a = b.
  Proof.
    destruct a, b; simpl; try (split; [discriminate|intros H; discriminate]);
      rewrite N.eqb_eq; split; intros H; congruence.
  Qed.

  Lemma key_eqb_eq a : forall b, key_eqb a b = true <-> a = b.
  Proof.
    induction a as [|x a IH]; intros [|y b]; simpl; try (split; [discriminate|intros H; discriminate]).
    - split; reflexivity.
    - rewrite andb_true_iff, seg_eqb_eq, IH. split; [intros [-> ->]; reflexivity|].
      intros H; injection H; auto.
  Qed.

  Lemma tok_eqb_eq a b : tok_eqb a b = true <-> a = b.
  Proof.
    destruct a, b; simpl; try (split; [discriminate|intros H; discriminate]);
      try (split; reflexivity).
    - rewrite N.eqb_eq; split; intros H; congruence.
    - rewrite key_eqb_eq; split; intros H; congruence.
    - rewrite N.eqb_eq; split; intros H; congruence.
  Qed.

  Lemma str_eqb_eq a : forall b, str_eqb a b = true <-> a = b.
  Proof.
    induction a as [|x a IH]; intros [|y b]; simpl; try (split; [discriminate|intros H; discriminate]).
    - split; reflexivity.
    - rewrite andb_true_iff, tok_eqb_eq, IH. split; [intros [-> ->]; reflexivity|].
      intros H; injection H; auto.
  Qed.

  Lemma hkey_eqb_eq a b : hkey_eqb a b = true <-> a = b.
  Proof.
    destruct a, b; simpl; try (split; [discriminate|intros H; discriminate]);
      try (split; reflexivity).
    - rewrite str_eqb_eq; split; intros H; congruence.
    - rewrite Z.eqb_eq; split; intros H; congruence.
  Qed.

  Lemma hkey_eqb_refl a : hkey_eqb a a = true.
  Proof. now apply hkey_eqb_eq. Qed.

  Lemma tfind_tset_same k v lk : tfind k (tset k v lk) = Some v.
  Proof.
    induction lk as [|[k' x] lk IH]; simpl.
    - now rewrite hkey_eqb_refl.
    - destruct (hkey_eqb k k') eqn:E; simpl; rewrite E; [reflexivity|exact IH].
  Qed.

  Lemma tfind_tset_other k k' v lk : hkey_eqb k' k = false -> tfind k' (tset k v lk) = tfind k' lk.
  Proof.
    intros Hne. induction lk as [|[k0 x] lk IH]; simpl.
    - now rewrite Hne.
    - destruct (hkey_eqb k k0) eqn:E; simpl.
      + apply hkey_eqb_eq in E. subst k0. now rewrite Hne.
      + destruct (hkey_eqb k' k0); [reflexivity|exact IH].
  Qed.

  Lemma to_hkey_hashable v k : to_hkey v = Some k -> negb (hashable v) = false.
  Proof. destruct v as [[]| |]; simpl; intros H; try discriminate; reflexivity. Qed.

  (** the new alias dispatches to the new implementation; every other dispatch value, and a
      failing dispatch, behave as before the registration *)
  Theorem register_dispatch f d lk df oid l k v o :
    let ov := NOverloaded d lk df (Live oid l) in
    exists ov', register_ov k v ov = Some ov' /\
      (forall dv, eval f d o = Ok dv -> to_hkey dv = Some k -> eval (S f) ov' o = eval f v o) /\
      (forall dv, eval f d o = Ok dv -> to_hkey dv <> Some k -> eval (S f) ov' o = eval (S f) ov o) /\
      (forall e, eval f d o = Fail e -> eval (S f) ov' o = eval (S f) ov o).
  Proof.
    cbn [register_ov]. eexists. split; [reflexivity|]. repeat split.
    - intros dv Hd Hk. rewrite eval_S, Hd. unfold choose.
      rewrite (to_hkey_hashable _ _ Hk), Hk, tfind_tset_same. reflexivity.
    - intros dv Hd Hk. rewrite !eval_S, Hd. unfold choose.
      destruct (negb (hashable dv)); [reflexivity|].
      destruct (to_hkey dv) as [k'|]; [|reflexivity].
      rewrite tfind_tset_other; [reflexivity|].
      destruct (hkey_eqb k' k) eqn:E; [|reflexivity].
      apply hkey_eqb_eq in E. subst. now elim Hk.
    - intros e Hd. rewrite !eval_S, Hd. reflexivity.
  Qed.

  (** [register] is compatible with lock-insensitive equality *)
  Lemma erase_register k v t u t' u' :
    erase t = erase u -> register k v t = Some t' -> register k v u = Some u' -> erase t' = erase u'.
  Proof.
    assert (Hov : forall t u t' u', erase t = erase u -> register_ov k v t = Some t' ->
                                     register_ov k v u = Some u' -> erase t' = erase u').
    { intros a b a' b' E Ha Hb.
      destruct a as [| | | |d lk df [oid l|]|]; try discriminate.
      destruct b as [| | | |d2 lk2 df2 [oid2 l2|]|]; try discriminate.
      simpl in *. injection Ha as <-. injection Hb as <-. simpl.
      injection E as E1 E2 E3. rewrite E1, E3. f_equal.
      change (emap erase (tset k v lk) = emap erase (tset k v lk2)).
      change (emap erase lk = emap erase lk2) in E2.
      clear - E2. revert lk2 E2. induction lk as [|[k1 x1] lk IH]; intros [|[k2 x2] lk2] E2;
        simpl in *; try discriminate; [reflexivity|].
      injection E2 as -> Ex El. destruct (hkey_eqb k k2); simpl.
      - now rewrite El.
      - rewrite Ex. f_equal. now apply IH. }
    intros E Ht Hu.
    destruct t as [j|  |k1 d1|f1 a1|d1 lk1 df1 l1|ov effs c po dpo cb dis m];
      try (simpl in Ht; discriminate);
      destruct u as [j2|  |k2 d2|f2 a2|d2 lk2 df2 l2|ov2 effs2 c2 po2 dpo2 cb2 dis2 m2];
      try (simpl in Hu; discriminate); try (simpl in E; discriminate).
    { eapply Hov; [exact E|exact Ht|exact Hu]. }
    simpl in Ht, Hu, E.
    destruct (register_ov k v ov) as [a|] eqn:Ea; [|discriminate].
    destruct (register_ov k v ov2) as [b|] eqn:Eb; [|discriminate].
    injection Ht as <-. injection Hu as <-. injection E as E0 -> -> -> -> -> -> ->.
    simpl. f_equal. eapply Hov; eassumption.
  Qed.

  Definition dataset_with_table (t : node) : bool :=
    match t with NDataset (NOverloaded _ _ _ _) _ _ _ _ _ _ _ => true | _ => false end.

  (** the unpickled dataset accepts [register] (its lock slot is a lock again) and then behaves
      exactly as the original does after the same registration *)
  Theorem unpickled_accepts_registration P t k v :
    dataset_with_table t = true ->
    exists t', register k v (roundtrip P t) = Some t' /\
      forall t0, register k v t = Some t0 ->
        forall fuel o,
          eval fuel t' o = eval fuel t0 o /\ keys fuel t' o = keys fuel t0 o /\
          valid fuel t' o = valid fuel t0 o.
  Proof.
    intros Hd.
    destruct t as [| | | | |ov effs c po dpo cb dis m]; try discriminate.
    destruct ov as [| | | |d lk df l|]; try discriminate.
    pose proof (getstate_setstate_id P (NDataset (NOverloaded d lk df l) effs c po dpo cb dis m)) as HE.
    pose proof (locks_restored P (NDataset (NOverloaded d lk df l) effs c po dpo cb dis m)) as HL.
    remember (roundtrip P (NDataset (NOverloaded d lk df l) effs c po dpo cb dis m)) as r eqn:Hr.
    destruct r as [| | | | |ov' effs' c' po' dpo' cb' dis' m']; simpl in HE; try discriminate.
    destruct ov' as [| | | |d' lk' df' l'|]; simpl in HE; try discriminate.
    simpl in HL. destruct l' as [nid nl|]; [|rewrite !andb_false_r in HL; discriminate].
    eexists. split; [reflexivity|].
    intros t0 H0 fuel o. apply behaviour_is_structural.
    eapply (erase_register k v (NDataset (NOverloaded d' lk' df' (Live nid nl)) effs' c' po' dpo' cb' dis' m')
                           (NDataset (NOverloaded d lk df l) effs c po dpo cb dis m));
      [exact HE|reflexivity|exact H0].
  Qed.
End Behaviour.

(** * A reused / shared lock key only over-synchronises *)
Lemma register_step_lock_irrelevant held l1 l2 tbl k v :
  memN l1 held = false -> memN l2 held = false ->
  register_step held l1 tbl k v = register_step held l2 tbl k v
  /\ register_step held l1 tbl k v = Some (tset k v tbl, held).
Proof. unfold register_step. intros -> ->. split; reflexivity. Qed.

Theorem lock_key_reuse_is_harmless la la' held ops :
  (forall i, memN (la i) held = false) -> (forall i, memN (la' i) held = false) ->
  forall tbls,
    run_registers la held tbls ops = run_registers la' held tbls ops
    /\ exists r, run_registers la held tbls ops = Some r.
Proof.
  intros H1 H2. induction ops as [|[[i k] v] ops IH]; intros tbls; simpl.
  - split; [reflexivity|now exists tbls].
  - destruct (nth_error tbls i) as [tb|]; [|apply IH].
    unfold register_step. rewrite H1, H2. apply IH.
Qed.

(** * D18: a decorator-form dataset is not picklable *)
(** decorator form: the name under which the defining function would be imported is bound to
    the [Dataset] itself, so the function held in [__wrapped__] (and in the default
    implementation) does not resolve to itself *)
Definition decorator_form (imp : list N) (t : node) : bool :=
  match t with
  | NDataset _ _ _ _ _ _ _ (Meta _ (Some w)) => negb (memN w imp)
  | _ => false
  end.

Lemma decorator_form_unpicklable imp t : decorator_form imp t = true -> pickle imp t = None.
Proof.
  destruct t as [| | | | |ov effs c po dpo cb dis [nm [w|]]]; try discriminate.
  simpl. intros H. unfold pickle, picklable. simpl.
  rewrite !forallb_app. simpl. apply negb_true_iff in H. rewrite H.
  rewrite !andb_false_r. reflexivity.
Qed.

(** a graph that reaches an unpicklable one (as argument, dispatch, overload or default) is
    unpicklable too *)
Lemma picklable_dataset_inv imp ov effs c po dpo cb dis m :
  picklable imp (NDataset ov effs c po dpo cb dis m) = true -> picklable imp ov = true.
Proof.
  unfold picklable. destruct m as [nm w]. simpl. rewrite forallb_app. intros H.
  now apply andb_true_iff in H.
Qed.

(** * Fuel: [fuel_for t = S (height t)] always suffices — no adequately fuelled run of the model
    ends on [FFuel], so the statements above (which hold for every amount of fuel) are about
    real results. *)
Section Fuel.
  Variable body : N -> list (N * value) -> option value.
  Variable cbf : N -> value -> option value.
  Variable eff : N -> value -> bool.
  Notation eval := (eval body cbf eff).
  Notation keys := (keys body cbf eff).
  Notation valid := (valid body cbf eff).

  Definition lmax {K} (l : list (K * node)) : nat := fold_right (fun '(_, x) m => Nat.max (height x) m) 0 l.

  Lemma lmax_in {K} (l : list (K * node)) k x : In (k, x) l -> height x <= lmax l.
  Proof.
    induction l as [|[k' x'] l IH]; simpl; [tauto|].
    intros [H|H]; [injection H as -> ->; lia|]. specialize (IH H). lia.
  Qed.

  Lemma tfind_in k lk n : tfind k lk = Some n -> exists k', In (k', n) lk.
  Proof.
    induction lk as [|[k' x] lk IH]; simpl; [discriminate|].
    destruct (hkey_eqb k k'); [intros H; injection H as ->; eauto|].
    intros H. destruct (IH H) as [k0 H0]. eauto.
  Qed.

  Lemma choose_height r lk df n b :
    choose r lk df = Ok (n, b) ->
    height n <= Nat.max (lmax lk) (match df with Some m => height m | None => 0 end).
  Proof.
    unfold choose. destruct r as [v|e].
    - destruct (negb (hashable v)); [discriminate|].
      destruct (match to_hkey v with Some k => tfind k lk | None => None end) as [m|] eqn:E.
      + intros H; injection H as -> _. destruct (to_hkey v) as [k|]; [|discriminate].
        destruct (tfind_in _ _ _ E) as [k' Hin]. pose proof (lmax_in _ _ _ Hin). lia.
      + destruct df as [m|]; [|discriminate]. intros H; injection H as -> _. lia.
    - destruct df as [m|]; [|discriminate]. intros H; injection H as -> _. lia.
  Qed.

  Lemma choose_nofuel r lk df e : r <> Fail FFuel -> choose r lk df = Fail e -> e <> FFuel.
  Proof.
    unfold choose. destruct r as [v|e0]; intros Hr.
    - destruct (negb (hashable v)); [intros H; injection H as <-; discriminate|].
      destruct (match to_hkey v with Some k => tfind k lk | None => None end); [discriminate|].
      destruct df; [discriminate|]. intros H; injection H as <-; discriminate.
    - destruct df; [discriminate|]. intros H; injection H as <-. congruence.
  Qed.

  Lemma map_res_nofuel {B} (g : node -> res B) (a : list (N * node)) :
    (forall n x, In (n, x) a -> g x <> Fail FFuel) -> map_res g a <> Fail FFuel.
  Proof.
    induction a as [|[n x] a IH]; simpl; intros H; [discriminate|].
    pose proof (H n x (or_introl eq_refl)) as Hx.
    destruct (g x) as [b|e]; [|congruence].
    assert (Ha : map_res g a <> Fail FFuel) by (apply IH; intros; eapply H; right; eauto).
    destruct (map_res g a); [discriminate|congruence].
  Qed.

  Lemma cat_res_nofuel (g : node -> res (list key)) (a : list (N * node)) :
    (forall n x, In (n, x) a -> g x <> Fail FFuel) -> cat_res g a <> Fail FFuel.
  Proof.
    induction a as [|[n x] a IH]; simpl; intros H; [discriminate|].
    pose proof (H n x (or_introl eq_refl)) as Hx.
    destruct (g x) as [b|e]; [|congruence].
    assert (Ha : cat_res g a <> Fail FFuel) by (apply IH; intros; eapply H; right; eauto).
    destruct (cat_res g a); [discriminate|congruence].
  Qed.

  Lemma all_res_nofuel (g : node -> res unit) (a : list (N * node)) :
    (forall n x, In (n, x) a -> g x <> Fail FFuel) -> all_res g a <> Fail FFuel.
  Proof.
    induction a as [|[n x] a IH]; simpl; intros H; [discriminate|].
    pose proof (H n x (or_introl eq_refl)) as Hx.
    destruct (g x) as [b|e]; [|congruence].
    apply IH; intros; eapply H; right; eauto.
  Qed.

  Lemma enough_eval_keys fuel :
    (forall t o, height t < fuel -> eval fuel t o <> Fail FFuel) /\
    (forall t o, height t < fuel -> keys fuel t o <> Fail FFuel).
  Proof.
    induction fuel as [|f [IHe IHk]]; [split; intros; lia|].
    split; intros t o Hh; destruct t as [j| |k d|fn a|d lk df l|ov effs c po dpo cb dis m];
      rewrite ?eval_S, ?keys_S; try discriminate; simpl in Hh.
    - destruct (lookup_top k o); try discriminate.
      destruct d as [n|]; [apply IHe; lia|discriminate].
    - assert (H : map_res (fun x => eval f x o) a <> Fail FFuel).
      { apply map_res_nofuel. intros n x Hin. apply IHe. pose proof (lmax_in _ _ _ Hin). unfold lmax in *. lia. }
      destruct (map_res _ a); [|congruence]. destruct (body fn a0); discriminate.
    - assert (Hd : eval f d o <> Fail FFuel) by (apply IHe; lia).
      destruct (choose (eval f d o) lk df) as [[n b]|e] eqn:E.
      + apply IHe. pose proof (choose_height _ _ _ _ _ E). unfold lmax in *. lia.
      + pose proof (choose_nofuel _ _ _ _ Hd E). congruence.
    - cbv zeta.
      assert (Hov : eval f ov (mix (mix dpo o) po) <> Fail FFuel) by (apply IHe; lia).
      assert (Hk : keys f ov (mix (mix dpo o) po) <> Fail FFuel) by (apply IHk; lia).
      assert (Hc : match eval f ov (mix (mix dpo o) po) with
                   | Ok v => match apply_callbacks cbf cb v with
                             | Some v' => if dis || effects_disabled_opt (mix (mix dpo o) po) then Ok v'
                                          else if forallb (fun e => eff e v') effs then Ok v' else Fail FUser
                             | None => Fail FUser end
                   | Fail e => Fail e end <> Fail FFuel).
      { destruct (eval f ov _); [|congruence]. destruct (apply_callbacks cbf cb a); [|discriminate].
        destruct (dis || _); [discriminate|]. destruct (forallb _ effs); discriminate. }
      destruct c as [|es]; [exact Hc|].
      destruct (cache_disabled _); [exact Hc|].
      destruct (keys f ov _); [|congruence]. destruct (cfind _ es); [discriminate|exact Hc].
    - destruct (lookup_top k o); try discriminate.
      destruct d as [n|]; [apply IHk; lia|discriminate].
    - apply cat_res_nofuel. intros n x Hin. apply IHk. pose proof (lmax_in _ _ _ Hin). unfold lmax in *. lia.
    - assert (Hd : eval f d o <> Fail FFuel) by (apply IHe; lia).
      destruct (choose (eval f d o) lk df) as [[n b]|e] eqn:E.
      + assert (Hn : keys f n o <> Fail FFuel).
        { apply IHk. pose proof (choose_height _ _ _ _ _ E). unfold lmax in *. lia. }
        destruct (keys f n o); [|congruence]. destruct b; [|discriminate].
        assert (Hkd : keys f d o <> Fail FFuel) by (apply IHk; lia).
        destruct (keys f d o); [discriminate|congruence].
      + pose proof (choose_nofuel _ _ _ _ Hd E). congruence.
    - cbv zeta. assert (Hk : keys f ov (mix (mix dpo o) po) <> Fail FFuel) by (apply IHk; lia).
      destruct (keys f ov _); [discriminate|congruence].
  Qed.

  Lemma enough_valid fuel : forall t o, height t < fuel -> valid fuel t o <> Fail FFuel.
  Proof.
    induction fuel as [|f IH]; [intros; lia|].
    destruct (enough_eval_keys f) as [IHe IHk].
    intros t o Hh; destruct t as [j| |k d|fn a|d lk df l|ov effs c po dpo cb dis m];
      rewrite valid_S; try discriminate; simpl in Hh.
    - destruct (lookup_top k o); try discriminate.
      destruct d as [n|]; [apply IH; lia|discriminate].
    - apply all_res_nofuel. intros n x Hin. apply IH. pose proof (lmax_in _ _ _ Hin). unfold lmax in *. lia.
    - assert (Hd : eval f d o <> Fail FFuel) by (apply IHe; lia).
      destruct (choose (eval f d o) lk df) as [[n b]|e] eqn:E.
      + apply IH. pose proof (choose_height _ _ _ _ _ E). unfold lmax in *. lia.
      + pose proof (choose_nofuel _ _ _ _ Hd E). congruence.
    - cbv zeta. assert (Hv : valid f ov (mix (mix dpo o) po) <> Fail FFuel) by (apply IH; lia).
      assert (Hk : keys f ov (mix (mix dpo o) po) <> Fail FFuel) by (apply IHk; lia).
      destruct c as [|es]; [exact Hv|]. destruct (cache_disabled _); [exact Hv|].
      destruct (keys f ov _); [|congruence]. destruct (cfind _ es); [discriminate|exact Hv].
  Qed.

  Theorem fuel_for_is_enough t o :
    eval (fuel_for t) t o <> Fail FFuel /\ keys (fuel_for t) t o <> Fail FFuel /\
    valid (fuel_for t) t o <> Fail FFuel.
  Proof.
    unfold fuel_for. destruct (enough_eval_keys (S (height t))) as [He Hk].
    repeat split; [apply He|apply Hk|apply enough_valid]; lia.
  Qed.
End Fuel.
